#!/bin/sh
# regenerate coq/_CoqProject and coq/Makefile from the .v files present
set -e
cd "$(dirname "$0")/../coq"
{ echo "-Q . LLRP"; echo "-arg -w -arg -notation-overridden,-deprecated-hint-without-locality,-deprecated-instance-without-locality,-ambiguous-paths"; find . -name '*.v' ! -path './gen/*' | sed 's|^\./||' | LC_ALL=C sort; } > _CoqProject.new
if ! cmp -s _CoqProject.new _CoqProject 2>/dev/null; then mv _CoqProject.new _CoqProject; coq_makefile -f _CoqProject -o Makefile >/dev/null; else rm _CoqProject.new; fi
[ -f Makefile ] || coq_makefile -f _CoqProject -o Makefile >/dev/null
