#!/bin/sh
# numbers quoted in DESIGN.md's "Quick facts"
cd "$(dirname "$0")/.."
echo "coq files: $(ls coq/*/*.v | wc -l)  lines: $(cat coq/*/*.v | wc -l)"
echo "property theorems (Theorem in coq/Props): $(grep -c '^Theorem' coq/Props/*.v | awk -F: '{s+=$2} END {print s}')"
echo "lemmas+theorems overall: $(grep -hE '^(Lemma|Theorem|Corollary|Example)' coq/*/*.v | wc -l)"
echo "oracles: $(ls -d oracle/*/ | wc -l)  harness go files: $(ls harness/*/*.go | wc -l)  lines: $(cat harness/*/*.go | wc -l)"
echo "check drivers: $(ls checks/*.py | wc -l) files, $(cat checks/*.py lib/*.py | wc -l) lines python"
echo "translators: $(ls -d tools/go-*/ | tr '\n' ' ')"
echo "seeds: $(ls seeded | wc -l)  caught: $(grep -l '"verdict": "caught"' seeded/*/meta.json | wc -l)"
echo "fix commits in /repo: $(git -C /repo log --oneline | grep -c ' fix:')"
python3 - <<'PY'
import json
d=json.load(open('known_findings.json'))
from collections import Counter
print("known_findings:", Counter(e['status'] for e in d['findings']))
PY
