module goaccess

go 1.23
