// go-access: extracts the ACCESS TABLE of Client, LLRPDevice and Driver.{activeDevices,config}
// from the Go source of the current tree (pure go/ast, no type checker, no dependencies) and
// prints it as a Coq term for coq/Race/Discipline.v (C20) and as JSON for checks/c20.py.
//
// For every syntactic access to a tracked struct field it records: kind (read / write / atomic
// / channel operation), enclosing function, syntactic lock set (x.mu.Lock()/RLock() ...
// Unlock()/defer Unlock(), propagated through calls), the goroutine ROLE of the code (from a
// small call graph rooted at exported methods, constructors and `go` statements) and the PHASE
// (constructor / before the first `go` of the spawning method / shared).
//
// Everything that cannot be resolved is reported in "unresolved" (the check fails closed).
package main

import (
	"encoding/json"
	"flag"
	"fmt"
	"go/ast"
	"go/parser"
	"go/token"
	"go/types"
	"os"
	"path/filepath"
	"sort"
	"strings"
)

// ---------------------------------------------------------------- configuration

var sourceFiles = []string{"pkg/llrp/reader.go", "internal/driver/device.go", "internal/driver/driver.go", "internal/retry/retry.go"}

// Package-level variables of the parsed files are locations too ("<package>.<name>"): an assignment is a
// write, and so is a method call on a variable of a type from another package that is not known to be safe for
// concurrent use (e.g. a *rand.Rand made by rand.New): the method may mutate what the variable refers to.
// sync.* variables are locks, not locations. Initialisation at declaration happens-before main (no entry);
// an access inside a sync.Once.Do closure counts as construction (PCtor), everything else as PShared.
// Every role is foreign to a package-level variable (any number of goroutines may reach it).
type globalInfo struct {
	pkg, name string
	typ, init ast.Expr
}

// tracked structs; a non-nil field list restricts tracking to those fields
var tracked = map[string][]string{
	"Client":     nil,
	"LLRPDevice": nil,
	"Driver":     {"activeDevices", "config"},
}

type ctxT struct {
	role  string // "<Struct>/<name>[*]"; * = replicated
	phase string // PCtor | PPre | PShared
	locks string // canonical "id:W,id:R"
}

// functions that always run in a fixed role/phase whoever calls them
var fixedCtx = map[string]ctxT{
	"NewClient":            {role: "Client/ctor", phase: "PCtor"},
	"Client.Connect":       {role: "Client/connect", phase: "PPre"},
	"Driver.NewLLRPDevice": {role: "LLRPDevice/ctor", phase: "PCtor"},
	"Instance":             {role: "Driver/init", phase: "PCtor"},
	"Driver.Initialize":    {role: "Driver/init", phase: "PCtor"},
}

// functions executed once per object: a `go` statement directly in them (not in a loop)
// creates a non-replicated role
var onceFuncs = map[string]bool{"Client.Connect": true, "Driver.NewLLRPDevice": true, "NewClient": true}

// closures wrapped in these conversions run in the given role
var closureConv = map[string]ctxT{
	"clientOpt":          {role: "Client/ctor", phase: "PCtor"},
	"MessageHandlerFunc": {role: "@/handler*", phase: "PShared"}, // @ = struct of the enclosing method
}

// calls that run their function-literal arguments synchronously (possibly repeatedly)
var syncCombinators = map[string]bool{"RetryWithCtx": true, "Retry": true, "Do": true}

// pretty names for spawned roles, by a function called in the spawned code / by spawning function
var spawnNames = map[string]string{
	"handleOutgoing": "write-loop", "handleIncoming": "read-loop",
	"@Driver.NewLLRPDevice": "supervisor", "@LLRPDevice.newReaderEventHandler": "publisher",
	"@LLRPDevice.newROHandler": "publisher",
}

// ---------------------------------------------------------------- program facts

type fileInfo struct {
	path, base string
	f          *ast.File
	imports    map[string]bool
	dir        string
}

type structInfo struct {
	name   string
	fields map[string]ast.Expr
	dir    string
}

type funcInfo struct {
	key, recv, name string
	decl            *ast.FuncDecl
	file            *fileInfo
}

type accessT struct {
	Loc   string   `json:"loc"`
	Kind  string   `json:"kind"`
	Role  string   `json:"role"`
	Phase string   `json:"phase"`
	Locks []string `json:"locks"`
	Site  string   `json:"site"`
	File  string   `json:"file"`
	Line  int      `json:"line"`
	Func  string   `json:"func"`
	Alt   int      `json:"alt_line"` // for a composite-literal key: the line where the literal starts
}

type roleT struct {
	Name   string `json:"name"`
	Repl   bool   `json:"repl"`
	Parent string `json:"parent"`
}

type analyzer struct {
	fset       *token.FileSet
	files      []*fileInfo
	structs    map[string]*structInfo
	ifaces     map[string]bool
	funcs      map[string]*funcInfo
	byName     map[string][]*funcInfo
	pkgVars    map[string]ast.Expr
	globals    map[string]map[string]*globalInfo // dir -> name -> info
	pkgDir     map[string]string                 // package name -> dir
	accs       []accessT
	accSeen    map[string]bool
	roles      map[string]*roleT
	roleOrder  []string
	unresolved []string
	unresSeen  map[string]bool
	visited    map[string]bool
	work       []workItem
}

type workItem struct {
	fn  *funcInfo
	ctx ctxT
}

func (an *analyzer) role(name string, parent string) {
	if _, ok := an.roles[name]; ok {
		return
	}
	an.roles[name] = &roleT{Name: name, Repl: strings.HasSuffix(name, "*"), Parent: parent}
	an.roleOrder = append(an.roleOrder, name)
}

func (an *analyzer) enqueue(fn *funcInfo, c ctxT) {
	k := fn.key + "|" + c.role + "|" + c.phase + "|" + c.locks
	if an.visited[k] {
		return
	}
	an.visited[k] = true
	an.work = append(an.work, workItem{fn, c})
}

func homeOf(role string) string {
	if i := strings.Index(role, "/"); i >= 0 {
		return role[:i]
	}
	return ""
}

// ---------------------------------------------------------------- types (syntactic)

func stripType(t ast.Expr) ast.Expr {
	for {
		switch x := t.(type) {
		case *ast.StarExpr:
			t = x.X
		case *ast.ParenExpr:
			t = x.X
		default:
			return t
		}
	}
}

// structName returns the (unqualified) name of a named type, "" otherwise
func structName(t ast.Expr) string {
	if t == nil {
		return ""
	}
	switch x := stripType(t).(type) {
	case *ast.Ident:
		return x.Name
	case *ast.SelectorExpr:
		return x.Sel.Name
	}
	return ""
}

// qualifier returns the package qualifier of a named type ("" if none)
func qualifier(t ast.Expr) string {
	if t == nil {
		return ""
	}
	if s, ok := stripType(t).(*ast.SelectorExpr); ok {
		if id, ok := s.X.(*ast.Ident); ok {
			return id.Name
		}
	}
	return ""
}

func isSyncType(t ast.Expr) bool {
	return qualifier(t) == "sync"
}

func (an *analyzer) isTrackedField(sn, f string) bool {
	fl, ok := tracked[sn]
	if !ok {
		return false
	}
	si := an.structs[sn]
	if si == nil {
		return false
	}
	ft, ok := si.fields[f]
	if !ok || isSyncType(ft) {
		return false
	}
	if fl == nil {
		return true
	}
	for _, x := range fl {
		if x == f {
			return true
		}
	}
	return false
}

// ---------------------------------------------------------------- walker

type lockT struct {
	id, mode string
}

type walker struct {
	an       *analyzer
	fn       *funcInfo
	file     *fileInfo
	env      map[string]ast.Expr
	role     string
	phase    string
	held     []lockT
	deferred []lockT
	seenGo   bool
	hasGo    bool
	inLoop   int
	fname    string
	marks    map[ast.Expr]string
	inOnce   bool // inside a closure run by sync.Once.Do
}

func canonLocks(l []lockT) string {
	m := map[string]string{}
	for _, x := range l {
		if m[x.id] != "W" {
			m[x.id] = x.mode
		}
	}
	var out []string
	for k, v := range m {
		out = append(out, k+":"+v)
	}
	sort.Strings(out)
	return strings.Join(out, ",")
}

func parseLocks(s string) []lockT {
	var out []lockT
	if s == "" {
		return out
	}
	for _, p := range strings.Split(s, ",") {
		i := strings.LastIndex(p, ":")
		out = append(out, lockT{p[:i], p[i+1:]})
	}
	return out
}

func (w *walker) effPhase() string {
	if w.phase != "PShared" && w.seenGo {
		return "PShared"
	}
	return w.phase
}

func (w *walker) site(pos token.Pos) (string, string, int) {
	p := w.an.fset.Position(pos)
	return fmt.Sprintf("%s:%d %s", filepath.Base(p.Filename), p.Line, w.fname), filepath.Base(p.Filename), p.Line
}

func (w *walker) emit(sn, field, kind string, pos token.Pos) {
	w.emitAlt(sn, field, kind, pos, token.NoPos)
}

func (w *walker) emitAlt(sn, field, kind string, pos, alt token.Pos) {
	w.emitFull(sn, field, kind, pos, alt, w.effPhase())
}

// globalOf: is this expression a reference to a package-level variable of a parsed file?
func (w *walker) globalOf(e ast.Expr) *globalInfo {
	switch x := e.(type) {
	case *ast.Ident:
		if _, local := w.env[x.Name]; local {
			return nil
		}
		return w.an.globals[w.file.dir][x.Name]
	case *ast.SelectorExpr:
		if id, ok := x.X.(*ast.Ident); ok && w.isPkg(id) {
			if dir, ok := w.an.pkgDir[id.Name]; ok {
				return w.an.globals[dir][x.Sel.Name]
			}
		}
	case *ast.ParenExpr:
		return w.globalOf(x.X)
	}
	return nil
}

func (g *globalInfo) typeExpr() ast.Expr {
	if g.typ != nil {
		return g.typ
	}
	switch i := g.init.(type) {
	case *ast.CompositeLit:
		return i.Type
	case *ast.UnaryExpr:
		if cl, ok := i.X.(*ast.CompositeLit); ok {
			return cl.Type
		}
	}
	return nil
}

func (g *globalInfo) isLock() bool { return isSyncType(g.typeExpr()) }

// mutableByMethods: may a method call on the variable change shared state?
func (w *walker) mutableByMethods(g *globalInfo) bool {
	t := g.typeExpr()
	if t != nil {
		if isSyncType(t) || qualifier(t) == "atomic" {
			return false
		}
		if qualifier(t) == "" && w.an.structs[structName(t)] != nil {
			return false // a type of ours: its methods are analysed themselves
		}
		if w.an.ifaces[structName(t)] {
			return false
		}
	}
	if c, ok := g.init.(*ast.CallExpr); ok {
		if se, ok := c.Fun.(*ast.SelectorExpr); ok {
			if id, ok := se.X.(*ast.Ident); ok && (id.Name == "errors" || id.Name == "fmt") {
				return false // error values are immutable
			}
		}
	}
	return true
}

func (w *walker) emitGlobal(g *globalInfo, e ast.Expr) {
	if g.isLock() {
		return
	}
	k := w.marks[e]
	if k == "" {
		k = "KRead"
	}
	ph := "PShared"
	if w.inOnce {
		ph = "PCtor"
	}
	w.emitFull(g.pkg, g.name, k, e.Pos(), token.NoPos, ph)
}

func (w *walker) emitFull(sn, field, kind string, pos, alt token.Pos, phase string) {
	role := w.role
	if homeOf(role) != sn {
		role = sn + "/foreign*"
	}
	w.an.role(role, "")
	site, file, line := w.site(pos)
	locks := canonLocks(w.held)
	a := accessT{Loc: sn + "." + field, Kind: kind, Role: role, Phase: phase, Site: site, File: file, Line: line, Func: w.fname}
	if locks != "" {
		a.Locks = strings.Split(locks, ",")
	}
	if alt != token.NoPos {
		a.Alt = w.an.fset.Position(alt).Line
	}
	k := fmt.Sprintf("%s|%s|%s|%s|%s|%s", a.Loc, a.Kind, a.Role, a.Phase, locks, a.Site)
	if w.an.accSeen[k] {
		return
	}
	w.an.accSeen[k] = true
	w.an.accs = append(w.an.accs, a)
}

// typeOf: best-effort syntactic type of an expression (nil = unknown)
func (w *walker) typeOf(e ast.Expr) ast.Expr {
	switch x := e.(type) {
	case *ast.Ident:
		if t, ok := w.env[x.Name]; ok {
			return t
		}
		if g := w.an.globals[w.file.dir][x.Name]; g != nil {
			return g.typeExpr()
		}
		if t, ok := w.an.pkgVars[x.Name]; ok {
			return t
		}
		return nil
	case *ast.ParenExpr:
		return w.typeOf(x.X)
	case *ast.StarExpr:
		return w.typeOf(x.X)
	case *ast.UnaryExpr:
		if x.Op == token.AND {
			return w.typeOf(x.X)
		}
		if x.Op == token.ARROW {
			if ct, ok := stripType(w.typeOf(x.X)).(*ast.ChanType); ok {
				return ct.Value
			}
		}
		return nil
	case *ast.CompositeLit:
		return x.Type
	case *ast.TypeAssertExpr:
		return x.Type
	case *ast.IndexExpr:
		switch t := stripType(w.typeOf(x.X)).(type) {
		case *ast.MapType:
			return t.Value
		case *ast.ArrayType:
			return t.Elt
		}
		return nil
	case *ast.SelectorExpr:
		if id, ok := x.X.(*ast.Ident); ok && w.isPkg(id) {
			if g := w.globalOf(x); g != nil {
				return g.typeExpr()
			}
			return nil
		}
		sn := structName(w.typeOf(x.X))
		if si := w.an.structs[sn]; si != nil {
			if ft, ok := si.fields[x.Sel.Name]; ok {
				return ft
			}
		}
		return nil
	case *ast.CallExpr:
		rs := w.resultsOf(x)
		if len(rs) > 0 {
			return rs[0]
		}
		return nil
	}
	return nil
}

func (w *walker) isPkg(id *ast.Ident) bool {
	if _, ok := w.env[id.Name]; ok {
		return false
	}
	return w.file.imports[id.Name]
}

// resultsOf returns the result types of a call (nil entries = unknown)
func (w *walker) resultsOf(c *ast.CallExpr) []ast.Expr {
	switch f := c.Fun.(type) {
	case *ast.Ident:
		if f.Name == "make" || f.Name == "new" {
			if len(c.Args) > 0 {
				return []ast.Expr{c.Args[0]}
			}
		}
		if fi := w.an.funcs[f.Name]; fi != nil {
			return resultTypes(fi.decl.Type)
		}
		// conversion to a named type
		if _, ok := w.an.structs[f.Name]; ok {
			return []ast.Expr{f}
		}
		return nil
	case *ast.SelectorExpr:
		if id, ok := f.X.(*ast.Ident); ok && w.isPkg(id) {
			if fi := w.an.funcs[f.Sel.Name]; fi != nil && fi.recv == "" {
				return resultTypes(fi.decl.Type)
			}
			return nil
		}
		sn := structName(w.typeOf(f.X))
		if fi := w.an.funcs[sn+"."+f.Sel.Name]; fi != nil {
			return resultTypes(fi.decl.Type)
		}
	}
	return nil
}

func resultTypes(ft *ast.FuncType) []ast.Expr {
	var out []ast.Expr
	if ft.Results == nil {
		return out
	}
	for _, f := range ft.Results.List {
		n := len(f.Names)
		if n == 0 {
			n = 1
		}
		for i := 0; i < n; i++ {
			out = append(out, f.Type)
		}
	}
	return out
}

// trackedSel: is this selector an access to a tracked field?  returns struct, field
func (w *walker) trackedSel(se *ast.SelectorExpr) (string, string, bool) {
	if id, ok := se.X.(*ast.Ident); ok && w.isPkg(id) {
		return "", "", false
	}
	t := w.typeOf(se.X)
	sn := structName(t)
	if t != nil && qualifier(t) != "" && w.an.structs[sn] == nil {
		return "", "", false // type of another (unparsed) package
	}
	if w.an.isTrackedField(sn, se.Sel.Name) {
		return sn, se.Sel.Name, true
	}
	if t == nil {
		// unknown base: could it be one of our fields?
		for s := range tracked {
			si := w.an.structs[s]
			if si != nil && si.dir == w.file.dir && w.an.isTrackedField(s, se.Sel.Name) {
				p := w.an.fset.Position(se.Pos())
				msg := fmt.Sprintf("%s:%d %s: cannot resolve the type of the base of .%s (candidate %s.%s)",
					filepath.Base(p.Filename), p.Line, w.fname, se.Sel.Name, s, se.Sel.Name)
				if !w.an.unresSeen[msg] {
					w.an.unresSeen[msg] = true
					w.an.unresolved = append(w.an.unresolved, msg)
				}
			}
		}
	}
	return "", "", false
}

// mark the outermost tracked field selector inside an lvalue-like expression
func (w *walker) mark(e ast.Expr, kind string) {
	for {
		switch x := e.(type) {
		case *ast.ParenExpr:
			e = x.X
		case *ast.IndexExpr:
			e = x.X
		case *ast.StarExpr:
			e = x.X
		case *ast.SliceExpr:
			e = x.X
		case *ast.SelectorExpr:
			if g := w.globalOf(x); g != nil {
				w.marks[x] = kind
				return
			}
			if _, _, ok := w.trackedSel(x); ok {
				w.marks[x] = kind
				return
			}
			e = x.X
		case *ast.Ident:
			if g := w.globalOf(x); g != nil {
				w.marks[x] = kind
			}
			return
		default:
			return
		}
	}
}

func (w *walker) markChan(e ast.Expr) {
	if se, ok := e.(*ast.SelectorExpr); ok {
		if sn, f, ok := w.trackedSel(se); ok {
			if _, isChan := stripType(w.an.structs[sn].fields[f]).(*ast.ChanType); isChan {
				w.marks[se] = "KChan"
			}
		}
	}
}

// lockOf recognises x.mu.Lock() etc.; returns lock id, op
func (w *walker) lockOf(c *ast.CallExpr) (string, string, bool) {
	f, ok := c.Fun.(*ast.SelectorExpr)
	if !ok {
		return "", "", false
	}
	op := f.Sel.Name
	if op != "Lock" && op != "Unlock" && op != "RLock" && op != "RUnlock" {
		return "", "", false
	}
	if g := w.globalOf(f.X); g != nil {
		if g.isLock() {
			return g.pkg + "." + g.name, op, true
		}
		return "", "", false
	}
	mu, ok := f.X.(*ast.SelectorExpr)
	if !ok {
		return "", "", false
	}
	sn := structName(w.typeOf(mu.X))
	si := w.an.structs[sn]
	if si == nil {
		return "", "", false
	}
	ft, ok := si.fields[mu.Sel.Name]
	if !ok || !isSyncType(ft) {
		return "", "", false
	}
	return sn + "." + mu.Sel.Name, op, true
}

func (w *walker) lockOp(id, op string, isDefer bool) {
	switch op {
	case "Lock", "RLock":
		m := "W"
		if op == "RLock" {
			m = "R"
		}
		w.held = append(w.held, lockT{id, m})
	case "Unlock", "RUnlock":
		if isDefer {
			for _, l := range w.held {
				if l.id == id {
					w.deferred = append(w.deferred, l)
				}
			}
			return
		}
		var nh []lockT
		for _, l := range w.held {
			if l.id != id {
				nh = append(nh, l)
			}
		}
		w.held = nh
	}
}

func containsGo(n ast.Node) bool {
	found := false
	ast.Inspect(n, func(x ast.Node) bool {
		if _, ok := x.(*ast.GoStmt); ok {
			found = true
		}
		if _, ok := x.(*ast.FuncLit); ok && x != n {
			// a go statement inside a nested closure counts too (it may run synchronously)
			return true
		}
		return true
	})
	return found
}

func terminates(stmts []ast.Stmt) bool {
	if len(stmts) == 0 {
		return false
	}
	switch s := stmts[len(stmts)-1].(type) {
	case *ast.ReturnStmt:
		return true
	case *ast.ExprStmt:
		if c, ok := s.X.(*ast.CallExpr); ok {
			if id, ok := c.Fun.(*ast.Ident); ok && id.Name == "panic" {
				return true
			}
		}
	}
	return false
}

func intersectLocks(a, b []lockT) []lockT {
	var out []lockT
	for _, x := range a {
		for _, y := range b {
			if x == y {
				out = append(out, x)
				break
			}
		}
	}
	return out
}

// branches walks alternative statement lists from the same entry state and merges
func (w *walker) branches(alts [][]ast.Stmt, pre []func(), implicitEmpty bool) {
	entry := append([]lockT(nil), w.held...)
	var exits [][]lockT
	if implicitEmpty {
		exits = append(exits, entry)
	}
	for i, b := range alts {
		w.held = append([]lockT(nil), entry...)
		if pre != nil && pre[i] != nil {
			pre[i]()
		}
		w.block(b)
		if !terminates(b) {
			exits = append(exits, append([]lockT(nil), w.held...))
		}
	}
	if len(exits) == 0 {
		w.held = entry
		return
	}
	h := exits[0]
	for _, e := range exits[1:] {
		h = intersectLocks(h, e)
	}
	w.held = h
}

func (w *walker) block(stmts []ast.Stmt) {
	for _, s := range stmts {
		w.stmt(s)
	}
}

func (w *walker) define(lhs []ast.Expr, rhs []ast.Expr) {
	if len(rhs) == 1 && len(lhs) > 1 {
		var ts []ast.Expr
		switch r := rhs[0].(type) {
		case *ast.CallExpr:
			ts = w.resultsOf(r)
		case *ast.IndexExpr, *ast.TypeAssertExpr, *ast.UnaryExpr:
			ts = []ast.Expr{w.typeOf(r)}
		}
		for i, l := range lhs {
			if id, ok := l.(*ast.Ident); ok && id.Name != "_" {
				if i < len(ts) {
					w.env[id.Name] = ts[i]
				} else {
					w.env[id.Name] = nil
				}
			}
		}
		return
	}
	for i, l := range lhs {
		if id, ok := l.(*ast.Ident); ok && id.Name != "_" && i < len(rhs) {
			w.env[id.Name] = w.typeOf(rhs[i])
		}
	}
}

func (w *walker) stmt(s ast.Stmt) {
	switch x := s.(type) {
	case nil:
	case *ast.BlockStmt:
		w.block(x.List)
	case *ast.LabeledStmt:
		w.stmt(x.Stmt)
	case *ast.ExprStmt:
		if c, ok := x.X.(*ast.CallExpr); ok {
			if id, op, ok := w.lockOf(c); ok {
				w.lockOp(id, op, false)
				return
			}
		}
		w.expr(x.X)
	case *ast.AssignStmt:
		if x.Tok == token.DEFINE {
			for _, r := range x.Rhs {
				w.expr(r)
			}
			// redefinition of an existing variable in := keeps working (same type or new)
			w.define(x.Lhs, x.Rhs)
			for _, l := range x.Lhs {
				if _, ok := l.(*ast.Ident); !ok {
					w.mark(l, "KWrite")
					w.expr(l)
				}
			}
			return
		}
		for _, r := range x.Rhs {
			w.expr(r)
		}
		for _, l := range x.Lhs {
			if id, ok := l.(*ast.Ident); ok {
				if g := w.globalOf(id); g != nil {
					w.mark(l, "KWrite")
					w.expr(l)
					continue
				}
				if _, known := w.env[id.Name]; known && len(x.Lhs) == len(x.Rhs) {
					// plain re-assignment of a local: refresh its type if we learn one
					for i := range x.Lhs {
						if x.Lhs[i] == l {
							if t := w.typeOf(x.Rhs[i]); t != nil {
								w.env[id.Name] = t
							}
						}
					}
				} else if len(x.Rhs) == 1 && len(x.Lhs) > 1 {
					if c, ok := x.Rhs[0].(*ast.CallExpr); ok {
						ts := w.resultsOf(c)
						for i := range x.Lhs {
							if x.Lhs[i] == l && i < len(ts) && ts[i] != nil && w.env[id.Name] == nil {
								w.env[id.Name] = ts[i]
							}
						}
					}
				}
				continue
			}
			w.mark(l, "KWrite")
			w.expr(l)
		}
	case *ast.IncDecStmt:
		w.mark(x.X, "KWrite")
		w.expr(x.X)
	case *ast.SendStmt:
		w.markChan(x.Chan)
		w.expr(x.Chan)
		w.expr(x.Value)
	case *ast.DeclStmt:
		if gd, ok := x.Decl.(*ast.GenDecl); ok {
			for _, sp := range gd.Specs {
				if vs, ok := sp.(*ast.ValueSpec); ok {
					for _, v := range vs.Values {
						w.expr(v)
					}
					for i, n := range vs.Names {
						if vs.Type != nil {
							w.env[n.Name] = vs.Type
						} else if i < len(vs.Values) {
							w.env[n.Name] = w.typeOf(vs.Values[i])
						}
					}
				}
			}
		}
	case *ast.ReturnStmt:
		for _, r := range x.Results {
			w.expr(r)
		}
	case *ast.IfStmt:
		w.stmt(x.Init)
		w.expr(x.Cond)
		alts := [][]ast.Stmt{x.Body.List}
		implicit := true
		if x.Else != nil {
			implicit = false
			switch e := x.Else.(type) {
			case *ast.BlockStmt:
				alts = append(alts, e.List)
			default:
				alts = append(alts, []ast.Stmt{e})
			}
		}
		w.branches(alts, nil, implicit)
	case *ast.SwitchStmt:
		w.stmt(x.Init)
		if x.Tag != nil {
			w.expr(x.Tag)
		}
		w.clauses(x.Body)
	case *ast.TypeSwitchStmt:
		w.stmt(x.Init)
		w.stmt(x.Assign)
		w.clauses(x.Body)
	case *ast.SelectStmt:
		var alts [][]ast.Stmt
		var pre []func()
		hasDefault := false
		for _, c := range x.Body.List {
			cc := c.(*ast.CommClause)
			if cc.Comm == nil {
				hasDefault = true
			}
			comm := cc.Comm
			alts = append(alts, cc.Body)
			pre = append(pre, func() { w.stmt(comm) })
		}
		_ = hasDefault
		w.branches(alts, pre, false)
	case *ast.ForStmt:
		w.stmt(x.Init)
		w.loop(func() {
			if x.Cond != nil {
				w.expr(x.Cond)
			}
			w.block(x.Body.List)
			w.stmt(x.Post)
		}, x.Body)
	case *ast.RangeStmt:
		w.markChan(x.X)
		w.expr(x.X)
		t := stripType(w.typeOf(x.X))
		var kt, vt ast.Expr
		switch tt := t.(type) {
		case *ast.MapType:
			kt, vt = tt.Key, tt.Value
		case *ast.ArrayType:
			vt = tt.Elt
		case *ast.ChanType:
			kt = tt.Value
		}
		if x.Tok == token.DEFINE {
			if id, ok := x.Key.(*ast.Ident); ok && id.Name != "_" {
				w.env[id.Name] = kt
			}
			if id, ok := x.Value.(*ast.Ident); ok && id.Name != "_" {
				w.env[id.Name] = vt
			}
		}
		w.loop(func() { w.block(x.Body.List) }, x.Body)
	case *ast.GoStmt:
		w.goStmt(x)
	case *ast.DeferStmt:
		w.deferStmt(x)
	case *ast.BranchStmt, *ast.EmptyStmt:
	default:
		// unknown statement kind: walk every expression inside conservatively
		ast.Inspect(s, func(n ast.Node) bool {
			if e, ok := n.(ast.Expr); ok {
				w.expr(e)
				return false
			}
			return true
		})
	}
}

func (w *walker) clauses(body *ast.BlockStmt) {
	var alts [][]ast.Stmt
	var pre []func()
	hasDefault := false
	for _, c := range body.List {
		cc := c.(*ast.CaseClause)
		if cc.List == nil {
			hasDefault = true
		}
		list := cc.List
		alts = append(alts, cc.Body)
		pre = append(pre, func() {
			for _, e := range list {
				w.expr(e)
			}
		})
	}
	w.branches(alts, pre, !hasDefault)
}

func (w *walker) loop(body func(), n ast.Node) {
	entry := append([]lockT(nil), w.held...)
	if containsGo(n) {
		w.seenGo = true
	}
	w.inLoop++
	body()
	w.inLoop--
	w.held = intersectLocks(entry, w.held)
}

func (w *walker) sub(fl *ast.FuncLit, role, phase string, held []lockT, name string) *walker {
	env := map[string]ast.Expr{}
	for k, v := range w.env {
		env[k] = v
	}
	s := &walker{an: w.an, fn: w.fn, file: w.file, env: env, role: role, phase: phase,
		held: append([]lockT(nil), held...), fname: name, marks: map[ast.Expr]string{},
		hasGo: containsGo(fl.Body), inLoop: 0, inOnce: w.inOnce}
	bindParams(s.env, fl.Type)
	return s
}

func bindParams(env map[string]ast.Expr, ft *ast.FuncType) {
	if ft.Params != nil {
		for _, f := range ft.Params.List {
			for _, n := range f.Names {
				env[n.Name] = f.Type
			}
		}
	}
	if ft.Results != nil {
		for _, f := range ft.Results.List {
			for _, n := range f.Names {
				env[n.Name] = f.Type
			}
		}
	}
}

// calleeNames lists the names of functions called (syntactically) inside n
func calleeNames(n ast.Node) []string {
	var out []string
	ast.Inspect(n, func(x ast.Node) bool {
		if c, ok := x.(*ast.CallExpr); ok {
			switch f := c.Fun.(type) {
			case *ast.Ident:
				out = append(out, f.Name)
			case *ast.SelectorExpr:
				out = append(out, f.Sel.Name)
			}
		}
		return true
	})
	return out
}

func (w *walker) goStmt(g *ast.GoStmt) {
	// arguments are evaluated by the spawning goroutine
	for _, a := range g.Call.Args {
		w.expr(a)
	}
	home := homeOf(w.role)
	base := "go@" + w.fname
	if n, ok := spawnNames["@"+w.fn.key]; ok {
		base = n
	}
	for _, c := range calleeNames(g.Call) {
		if n, ok := spawnNames[c]; ok {
			base = n
		}
	}
	repl := w.inLoop > 0 || strings.HasSuffix(w.role, "*") || !onceFuncs[w.fn.key] || w.fname != w.fn.key
	name := home + "/" + base
	if repl {
		name += "*"
	}
	parent := ""
	if !repl {
		parent = w.role
	}
	w.an.role(name, parent)
	if fl, ok := g.Call.Fun.(*ast.FuncLit); ok {
		s := w.sub(fl, name, "PShared", nil, w.fname+".go")
		s.block(fl.Body.List)
	} else {
		save := *w
		w.role, w.phase, w.held = name, "PShared", nil
		w.call(g.Call, true)
		w.role, w.phase, w.held = save.role, save.phase, save.held
	}
	w.seenGo = true
}

func (w *walker) deferStmt(d *ast.DeferStmt) {
	if id, op, ok := w.lockOf(d.Call); ok {
		w.lockOp(id, op, true)
		return
	}
	for _, a := range d.Call.Args {
		w.expr(a)
	}
	// runs at function exit: only locks whose unlock was deferred earlier are still held;
	// if the function spawns goroutines anywhere, they may be running by then
	phase := w.effPhase()
	if w.hasGo {
		phase = "PShared"
	}
	if fl, ok := d.Call.Fun.(*ast.FuncLit); ok {
		s := w.sub(fl, w.role, phase, w.deferred, w.fname+".defer")
		s.block(fl.Body.List)
		return
	}
	save := *w
	w.phase, w.held, w.seenGo = phase, append([]lockT(nil), w.deferred...), false
	w.call(d.Call, true)
	w.phase, w.held, w.seenGo = save.phase, save.held, save.seenGo
}

func funName(e ast.Expr) string {
	switch f := e.(type) {
	case *ast.Ident:
		return f.Name
	case *ast.SelectorExpr:
		return f.Sel.Name
	case *ast.ParenExpr:
		return funName(f.X)
	}
	return ""
}

// call handles one call expression: special forms, callee contexts, then sub-expressions
func (w *walker) call(c *ast.CallExpr, argsDone bool) {
	name := funName(c.Fun)
	// sync/atomic
	if se, ok := c.Fun.(*ast.SelectorExpr); ok {
		if id, ok := se.X.(*ast.Ident); ok && id.Name == "atomic" && w.isPkg(id) && len(c.Args) > 0 {
			if u, ok := c.Args[0].(*ast.UnaryExpr); ok && u.Op == token.AND {
				k := "KAtomicWrite"
				if strings.HasPrefix(se.Sel.Name, "Load") {
					k = "KAtomicRead"
				}
				w.mark(u.X, k)
				w.expr(u.X)
				for _, a := range c.Args[1:] {
					w.expr(a)
				}
				return
			}
		}
	}
	if se, ok := c.Fun.(*ast.SelectorExpr); ok {
		if g := w.globalOf(se.X); g != nil && !g.isLock() && w.mutableByMethods(g) {
			w.mark(se.X, "KWrite")
		}
	}
	if id, ok := c.Fun.(*ast.Ident); ok && len(c.Args) > 0 {
		switch id.Name {
		case "close", "len", "cap":
			w.markChan(c.Args[0])
		case "delete":
			w.mark(c.Args[0], "KWrite")
		}
	}
	// closures in special conversions / synchronous combinators / escaping
	var litArgs []*ast.FuncLit
	for _, a := range c.Args {
		if fl, ok := a.(*ast.FuncLit); ok {
			litArgs = append(litArgs, fl)
		}
	}
	if cv, ok := closureConv[name]; ok && len(litArgs) == 1 && len(c.Args) == 1 {
		role := cv.role
		if strings.HasPrefix(role, "@") {
			role = w.fn.recv + role[1:]
		}
		w.an.role(role, "")
		s := w.sub(litArgs[0], role, cv.phase, nil, w.fname+".func")
		s.block(litArgs[0].Body.List)
		w.expr(c.Fun)
		return
	}
	if !argsDone {
		for _, a := range c.Args {
			if fl, ok := a.(*ast.FuncLit); ok {
				if syncCombinators[name] {
					s := w.sub(fl, w.role, w.effPhase(), w.held, w.fname)
					if name == "Do" {
						s.inOnce = true
					}
					s.inLoop = w.inLoop + 1
					s.fn = w.fn
					if s.hasGo {
						s.seenGo = true
					}
					s.block(fl.Body.List)
					if s.hasGo {
						w.seenGo = true
					}
				} else {
					w.escaped(fl)
				}
				continue
			}
			w.expr(a)
		}
	}
	// callees
	for _, fi := range w.resolve(c) {
		w.enter(fi)
	}
	if _, ok := c.Fun.(*ast.FuncLit); ok {
		fl := c.Fun.(*ast.FuncLit)
		s := w.sub(fl, w.role, w.effPhase(), w.held, w.fname+".func")
		s.block(fl.Body.List)
		return
	}
	w.expr(c.Fun)
}

func (w *walker) escaped(fl *ast.FuncLit) {
	home := homeOf(w.role)
	role := home + "/escaped*"
	w.an.role(role, "")
	s := w.sub(fl, role, "PShared", nil, w.fname+".closure")
	s.block(fl.Body.List)
}

func (w *walker) resolve(c *ast.CallExpr) []*funcInfo {
	switch f := c.Fun.(type) {
	case *ast.Ident:
		if _, local := w.env[f.Name]; local {
			return nil // a function value
		}
		if fi := w.an.funcs[f.Name]; fi != nil {
			return []*funcInfo{fi}
		}
	case *ast.SelectorExpr:
		if id, ok := f.X.(*ast.Ident); ok && w.isPkg(id) {
			if fi := w.an.funcs[f.Sel.Name]; fi != nil && fi.recv == "" && fi.file.dir != w.file.dir {
				return []*funcInfo{fi}
			}
			return nil
		}
		t := w.typeOf(f.X)
		sn := structName(t)
		if fi := w.an.funcs[sn+"."+f.Sel.Name]; fi != nil {
			return []*funcInfo{fi}
		}
		if t == nil || w.an.ifaces[sn] {
			// unknown or interface-typed receiver: every method of that name (class hierarchy style)
			return w.an.byName[f.Sel.Name]
		}
	}
	return nil
}

func (w *walker) enter(fi *funcInfo) {
	locks := canonLocks(w.held)
	if fc, ok := fixedCtx[fi.key]; ok {
		w.an.role(fc.role, "")
		w.an.enqueue(fi, ctxT{fc.role, fc.phase, locks})
		return
	}
	if _, isTracked := tracked[fi.recv]; isTracked && homeOf(w.role) != fi.recv {
		role := fi.recv + "/api*"
		w.an.role(role, "")
		w.an.enqueue(fi, ctxT{role, "PShared", locks})
		return
	}
	w.an.enqueue(fi, ctxT{w.role, w.effPhase(), locks})
}

func (w *walker) expr(e ast.Expr) {
	switch x := e.(type) {
	case nil:
	case *ast.SelectorExpr:
		if g := w.globalOf(x); g != nil {
			w.emitGlobal(g, x)
			return
		}
		if sn, f, ok := w.trackedSel(x); ok {
			k := w.marks[x]
			if k == "" {
				k = "KRead"
			}
			w.emit(sn, f, k, x.Sel.Pos())
		}
		w.expr(x.X)
	case *ast.CallExpr:
		w.call(x, false)
	case *ast.FuncLit:
		w.escaped(x)
	case *ast.CompositeLit:
		sn := structName(x.Type)
		for _, el := range x.Elts {
			if kv, ok := el.(*ast.KeyValueExpr); ok {
				if id, ok := kv.Key.(*ast.Ident); ok && w.an.structs[sn] != nil {
					if w.an.isTrackedField(sn, id.Name) {
						w.emitAlt(sn, id.Name, "KWrite", id.Pos(), x.Pos())
					}
				} else {
					w.expr(kv.Key)
				}
				w.expr(kv.Value)
			} else {
				w.expr(el)
			}
		}
	case *ast.UnaryExpr:
		if x.Op == token.ARROW {
			w.markChan(x.X)
		}
		if x.Op == token.AND {
			if _, isLit := x.X.(*ast.CompositeLit); !isLit {
				w.mark(x.X, "KWrite") // address escapes: assume it is written through
			}
		}
		w.expr(x.X)
	case *ast.BinaryExpr:
		w.expr(x.X)
		w.expr(x.Y)
	case *ast.ParenExpr:
		w.expr(x.X)
	case *ast.StarExpr:
		w.expr(x.X)
	case *ast.IndexExpr:
		w.expr(x.X)
		w.expr(x.Index)
	case *ast.SliceExpr:
		w.expr(x.X)
		w.expr(x.Low)
		w.expr(x.High)
		w.expr(x.Max)
	case *ast.TypeAssertExpr:
		w.expr(x.X)
	case *ast.KeyValueExpr:
		w.expr(x.Key)
		w.expr(x.Value)
	case *ast.Ident:
		if g := w.globalOf(x); g != nil {
			w.emitGlobal(g, x)
		}
	case *ast.BasicLit, *ast.ArrayType, *ast.MapType, *ast.ChanType, *ast.FuncType,
		*ast.InterfaceType, *ast.StructType, *ast.Ellipsis:
	default:
		p := w.an.fset.Position(e.Pos())
		w.an.unresolved = append(w.an.unresolved, fmt.Sprintf("%s:%d unsupported expression %T", filepath.Base(p.Filename), p.Line, e))
	}
}

// ---------------------------------------------------------------- driver

func (an *analyzer) load(repo string) error {
	for _, rel := range sourceFiles {
		p := filepath.Join(repo, rel)
		f, err := parser.ParseFile(an.fset, p, nil, parser.SkipObjectResolution)
		if err != nil {
			return err
		}
		fi := &fileInfo{path: p, base: filepath.Base(p), f: f, imports: map[string]bool{}, dir: filepath.Dir(rel)}
		for _, im := range f.Imports {
			path := strings.Trim(im.Path.Value, "\"")
			name := path[strings.LastIndex(path, "/")+1:]
			if im.Name != nil {
				name = im.Name.Name
			}
			// go-mod-core-contracts/v4/... style: last element may be vN
			if strings.HasPrefix(name, "v") && len(name) <= 3 && im.Name == nil {
				parts := strings.Split(path, "/")
				if len(parts) >= 2 {
					name = parts[len(parts)-2]
				}
			}
			fi.imports[name] = true
		}
		an.files = append(an.files, fi)
		for _, d := range f.Decls {
			switch x := d.(type) {
			case *ast.GenDecl:
				for _, sp := range x.Specs {
					switch s := sp.(type) {
					case *ast.TypeSpec:
						switch t := s.Type.(type) {
						case *ast.StructType:
							si := &structInfo{name: s.Name.Name, fields: map[string]ast.Expr{}, dir: fi.dir}
							for _, fl := range t.Fields.List {
								for _, n := range fl.Names {
									si.fields[n.Name] = fl.Type
								}
								if len(fl.Names) == 0 { // embedded
									si.fields[structName(fl.Type)] = fl.Type
								}
							}
							an.structs[s.Name.Name] = si
						case *ast.InterfaceType:
							an.ifaces[s.Name.Name] = true
						}
					case *ast.ValueSpec:
						if x.Tok == token.VAR {
							for i, n := range s.Names {
								g := &globalInfo{pkg: f.Name.Name, name: n.Name, typ: s.Type}
								if i < len(s.Values) {
									g.init = s.Values[i]
								}
								if an.globals[fi.dir] == nil {
									an.globals[fi.dir] = map[string]*globalInfo{}
								}
								an.globals[fi.dir][n.Name] = g
								an.pkgDir[f.Name.Name] = fi.dir
								if s.Type != nil {
									an.pkgVars[n.Name] = s.Type
								} else if i < len(s.Values) {
									if cl, ok := s.Values[i].(*ast.CompositeLit); ok {
										an.pkgVars[n.Name] = cl.Type
									}
								}
							}
						}
					}
				}
			case *ast.FuncDecl:
				fn := &funcInfo{name: x.Name.Name, decl: x, file: fi}
				if x.Recv != nil && len(x.Recv.List) > 0 {
					fn.recv = structName(x.Recv.List[0].Type)
					fn.key = fn.recv + "." + fn.name
				} else {
					fn.key = fn.name
				}
				if x.Body == nil {
					continue
				}
				an.funcs[fn.key] = fn
				if fn.recv != "" {
					an.byName[fn.name] = append(an.byName[fn.name], fn)
				}
			}
		}
	}
	return nil
}

func (an *analyzer) walkFunc(fi *funcInfo, c ctxT) {
	w := &walker{an: an, fn: fi, file: fi.file, env: map[string]ast.Expr{}, role: c.role, phase: c.phase,
		held: parseLocks(c.locks), fname: fi.key, marks: map[ast.Expr]string{}, hasGo: containsGo(fi.decl.Body)}
	// locks inherited from the caller stay held for the whole call
	w.deferred = append([]lockT(nil), w.held...)
	if fi.decl.Recv != nil {
		for _, f := range fi.decl.Recv.List {
			for _, n := range f.Names {
				w.env[n.Name] = f.Type
			}
		}
	}
	bindParams(w.env, fi.decl.Type)
	w.block(fi.decl.Body.List)
}

func coqStr(s string) string { return "\"" + strings.ReplaceAll(s, "\"", "\"\"") + "\"" }

func main() {
	repo := flag.String("repo", "/repo", "repository root")
	out := flag.String("out", "", "Coq output file (AccessTable.v)")
	jout := flag.String("json", "", "JSON output file")
	flag.Parse()

	an := &analyzer{fset: token.NewFileSet(), structs: map[string]*structInfo{}, ifaces: map[string]bool{},
		funcs: map[string]*funcInfo{}, byName: map[string][]*funcInfo{}, pkgVars: map[string]ast.Expr{},
		globals: map[string]map[string]*globalInfo{}, pkgDir: map[string]string{},
		accSeen: map[string]bool{}, roles: map[string]*roleT{}, unresSeen: map[string]bool{}, visited: map[string]bool{}}
	if err := an.load(*repo); err != nil {
		fmt.Fprintln(os.Stderr, "go-access:", err)
		os.Exit(2)
	}
	for s := range tracked {
		if an.structs[s] == nil {
			an.unresolved = append(an.unresolved, "struct "+s+" not found")
		}
	}
	// entry points: fixed-context functions, then exported methods of tracked structs
	var keys []string
	for k := range an.funcs {
		keys = append(keys, k)
	}
	sort.Strings(keys)
	for _, k := range keys {
		fi := an.funcs[k]
		if fc, ok := fixedCtx[k]; ok {
			an.role(fc.role, "")
			an.enqueue(fi, fc)
			continue
		}
		if _, ok := tracked[fi.recv]; ok && ast.IsExported(fi.name) {
			role := fi.recv + "/api*"
			an.role(role, "")
			an.enqueue(fi, ctxT{role: role, phase: "PShared"})
		}
	}
	reached := map[string]bool{}
	run := func() {
		for len(an.work) > 0 {
			it := an.work[0]
			an.work = an.work[1:]
			reached[it.fn.key] = true
			an.walkFunc(it.fn, it.ctx)
		}
	}
	run()
	// functions never reached (callbacks passed as values, handlers of other packages ...):
	// assume any goroutine may run them at any time
	for _, k := range keys {
		if !reached[k] {
			fi := an.funcs[k]
			role := "/unreached*"
			if _, ok := tracked[fi.recv]; ok {
				role = fi.recv + "/api*"
			}
			an.role(role, "")
			an.enqueue(fi, ctxT{role: role, phase: "PShared"})
			run()
		}
	}

	captured := captureScan(an)
	sort.SliceStable(an.accs, func(i, j int) bool {
		a, b := an.accs[i], an.accs[j]
		if a.Loc != b.Loc {
			return a.Loc < b.Loc
		}
		if a.File != b.File {
			return a.File < b.File
		}
		if a.Line != b.Line {
			return a.Line < b.Line
		}
		return a.Role+a.Phase+a.Kind < b.Role+b.Phase+b.Kind
	})
	var roles []roleT
	for _, n := range an.roleOrder {
		roles = append(roles, *an.roles[n])
	}
	// every tracked field, even if never accessed
	fields := []string{}
	for s, fl := range tracked {
		si := an.structs[s]
		if si == nil {
			continue
		}
		for f, t := range si.fields {
			if isSyncType(t) {
				continue
			}
			if an.isTrackedField(s, f) {
				_ = fl
				fields = append(fields, s+"."+f)
			}
		}
	}
	for _, gs := range an.globals {
		for _, g := range gs {
			if !g.isLock() {
				fields = append(fields, g.pkg+"."+g.name)
			}
		}
	}
	fields = append(fields, captured...)
	sort.Strings(fields)
	if an.unresolved == nil {
		an.unresolved = []string{}
	}
	sort.Strings(an.unresolved)

	if *jout != "" {
		b, _ := json.MarshalIndent(map[string]interface{}{"roles": roles, "accesses": an.accs,
			"unresolved": an.unresolved, "fields": fields, "files": sourceFiles, "stale_reads": staleScan(an), "check_then_act": ctaScan(an)}, "", " ")
		if err := os.WriteFile(*jout, b, 0o644); err != nil {
			fmt.Fprintln(os.Stderr, "go-access:", err)
			os.Exit(2)
		}
	}
	var sb strings.Builder
	sb.WriteString("(* GENERATED by tools/go-access from " + strings.Join(sourceFiles, ", ") + " — do not edit *)\n")
	sb.WriteString("From Coq Require Import List String.\nFrom LLRP Require Import Race.Discipline.\nImport ListNotations.\nOpen Scope string_scope.\n\n")
	sb.WriteString("Definition roles : list roleinfo := [\n")
	for i, r := range roles {
		par := "None"
		if r.Parent != "" {
			par = "(Some " + coqStr(r.Parent) + ")"
		}
		sep := ";"
		if i == len(roles)-1 {
			sep = ""
		}
		fmt.Fprintf(&sb, "  mkRole %s %v %s%s\n", coqStr(r.Name), r.Repl, par, sep)
	}
	sb.WriteString("].\n\nDefinition accs : list access := [\n")
	for i, a := range an.accs {
		var ls []string
		for _, l := range a.Locks {
			j := strings.LastIndex(l, ":")
			ls = append(ls, fmt.Sprintf("(%s, L%s)", coqStr(l[:j]), l[j+1:]))
		}
		sep := ";"
		if i == len(an.accs)-1 {
			sep = ""
		}
		fmt.Fprintf(&sb, "  mkAccess %s %s %s %s [%s] %s%s\n", coqStr(a.Loc), a.Kind, coqStr(a.Role), a.Phase,
			strings.Join(ls, "; "), coqStr(a.Site), sep)
	}
	sb.WriteString("].\n\nDefinition table : program := mkProgram roles accs.\n")
	if *out != "" {
		if err := os.WriteFile(*out, []byte(sb.String()), 0o644); err != nil {
			fmt.Fprintln(os.Stderr, "go-access:", err)
			os.Exit(2)
		}
	} else {
		fmt.Print(sb.String())
	}
	fmt.Fprintf(os.Stderr, "go-access: %d accesses, %d roles, %d fields, %d unresolved\n", len(an.accs), len(roles), len(fields), len(an.unresolved))
}

// ---------------------------------------------------------------- stale reads
//
// A lock (or atomic) makes each single access of a guarded field race-free, but not the USE of a
// value read earlier: a value of `version` that is stored in a local variable or struct and is
// still used after the goroutine parked (select without default, channel send/receive statement,
// Lock/RLock/Wait) may be out of date. staleScan reports, for the fields in staleFields only:
// store of a value read from the field (directly or through a getter method) into a variable,
// a later parking statement, and a use of that variable (the part that holds the value) after it.
// Purely syntactic, positions in source order, plus the loop-carried case.

var staleFields = map[string]bool{"Client.version": true}

type staleT struct {
	Field string `json:"field"`
	Func  string `json:"func"`
	File  string `json:"file"`
	Store int    `json:"store_line"`
	Block int    `json:"block_line"`
	Use   int    `json:"use_line"`
	Var   string `json:"var"`
}

func staleScan(an *analyzer) []staleT {
	out := []staleT{}
	// getters: methods of a tracked struct that return the field
	getters := map[string]string{} // method name -> field
	for _, fi := range an.funcs {
		if _, ok := tracked[fi.recv]; !ok || fi.decl.Recv == nil || len(fi.decl.Recv.List[0].Names) == 0 {
			continue
		}
		rn := fi.decl.Recv.List[0].Names[0].Name
		ast.Inspect(fi.decl.Body, func(n ast.Node) bool {
			if r, ok := n.(*ast.ReturnStmt); ok {
				for _, e := range r.Results {
					if se, ok := e.(*ast.SelectorExpr); ok {
						if id, ok := se.X.(*ast.Ident); ok && id.Name == rn && staleFields[fi.recv+"."+se.Sel.Name] {
							getters[fi.name] = fi.recv + "." + se.Sel.Name
						}
					}
				}
			}
			return true
		})
	}
	var keys []string
	for k := range an.funcs {
		keys = append(keys, k)
	}
	sort.Strings(keys)
	for _, k := range keys {
		fi := an.funcs[k]
		if _, isGetter := getters[fi.name]; isGetter && fi.recv != "" {
			continue
		}
		w := &walker{an: an, fn: fi, file: fi.file, env: map[string]ast.Expr{}, marks: map[ast.Expr]string{}, fname: fi.key}
		if fi.decl.Recv != nil {
			for _, f := range fi.decl.Recv.List {
				for _, n := range f.Names {
					w.env[n.Name] = f.Type
				}
			}
		}
		bindParams(w.env, fi.decl.Type)
		// which field does this expression read (anywhere inside)?  "" = none
		var readOf func(e ast.Node) string
		readOf = func(e ast.Node) string {
			res := ""
			if e == nil {
				return ""
			}
			ast.Inspect(e, func(n ast.Node) bool {
				switch x := n.(type) {
				case *ast.FuncLit:
					return false
				case *ast.CallExpr:
					if se, ok := x.Fun.(*ast.SelectorExpr); ok {
						if f, ok := getters[se.Sel.Name]; ok {
							res = f
						}
					}
				case *ast.SelectorExpr:
					sn := structName(w.typeOf(x.X))
					if staleFields[sn+"."+x.Sel.Name] {
						res = sn + "." + x.Sel.Name
					}
				}
				return true
			})
			return res
		}
		type storeT struct {
			v     string
			path  []string
			pos   token.Pos
			field string
		}
		var stores []storeT
		var blocks []token.Pos
		type rng struct{ lo, hi token.Pos }
		var comms, loops []rng
		decl := map[string]token.Pos{}
		basePath := func(e ast.Expr) (string, []string) {
			var path []string
			for {
				switch x := e.(type) {
				case *ast.Ident:
					return x.Name, path
				case *ast.SelectorExpr:
					path = append([]string{x.Sel.Name}, path...)
					e = x.X
				case *ast.IndexExpr:
					e = x.X
				case *ast.StarExpr:
					e = x.X
				case *ast.ParenExpr:
					e = x.X
				default:
					return "", nil
				}
			}
		}
		addStore := func(lhs ast.Expr, rhs ast.Expr, pos token.Pos) {
			f := readOf(rhs)
			if f == "" {
				return
			}
			v, path := basePath(lhs)
			if v == "" || v == "_" {
				return
			}
			// struct literal with the read as the value of one key: only that field holds the value
			r := rhs
			if u, ok := r.(*ast.UnaryExpr); ok && u.Op == token.AND {
				r = u.X
			}
			if cl, ok := r.(*ast.CompositeLit); ok {
				sub := []string(nil)
				n := 0
				for _, el := range cl.Elts {
					if kv, ok := el.(*ast.KeyValueExpr); ok && readOf(kv.Value) != "" {
						n++
						if id, ok := kv.Key.(*ast.Ident); ok {
							if _, direct := kv.Value.(*ast.CompositeLit); !direct {
								sub = []string{id.Name}
							}
						}
					} else if !ok && readOf(el) != "" {
						n += 2
					}
				}
				if n == 1 && sub != nil {
					path = append(path, sub...)
				}
			}
			stores = append(stores, storeT{v, path, pos, f})
		}
		ast.Inspect(fi.decl.Body, func(n ast.Node) bool {
			switch x := n.(type) {
			case *ast.AssignStmt:
				for i, l := range x.Lhs {
					if id, ok := l.(*ast.Ident); ok && x.Tok == token.DEFINE {
						if _, seen := decl[id.Name]; !seen {
							decl[id.Name] = x.Pos()
						}
					}
					if len(x.Lhs) == len(x.Rhs) {
						addStore(l, x.Rhs[i], x.Pos())
					} else if len(x.Rhs) == 1 {
						addStore(l, x.Rhs[0], x.Pos())
					}
				}
			case *ast.ValueSpec:
				for i, nme := range x.Names {
					if _, seen := decl[nme.Name]; !seen {
						decl[nme.Name] = x.Pos()
					}
					if i < len(x.Values) {
						addStore(nme, x.Values[i], x.Pos())
					}
				}
			case *ast.SelectStmt:
				hasDefault := false
				for _, c := range x.Body.List {
					cc := c.(*ast.CommClause)
					if cc.Comm == nil {
						hasDefault = true
					} else {
						comms = append(comms, rng{cc.Comm.Pos(), cc.Comm.End()})
					}
				}
				if !hasDefault {
					blocks = append(blocks, x.Pos())
				}
			case *ast.ForStmt:
				loops = append(loops, rng{x.Pos(), x.End()})
			case *ast.RangeStmt:
				loops = append(loops, rng{x.Pos(), x.End()})
			}
			return true
		})
		inComm := func(p token.Pos) bool {
			for _, c := range comms {
				if c.lo <= p && p < c.hi {
					return true
				}
			}
			return false
		}
		ast.Inspect(fi.decl.Body, func(n ast.Node) bool {
			switch x := n.(type) {
			case *ast.UnaryExpr:
				if x.Op == token.ARROW && !inComm(x.Pos()) {
					blocks = append(blocks, x.Pos())
				}
			case *ast.SendStmt:
				if !inComm(x.Pos()) {
					blocks = append(blocks, x.Pos())
				}
			case *ast.CallExpr:
				if se, ok := x.Fun.(*ast.SelectorExpr); ok {
					switch se.Sel.Name {
					case "Lock", "RLock", "Wait":
						blocks = append(blocks, x.Pos())
					}
				}
			}
			return true
		})
		if len(stores) == 0 || len(blocks) == 0 {
			continue
		}
		// uses: identifiers naming a stored variable, with the selector path applied to them
		type useT struct {
			v    string
			path []string
			pos  token.Pos
		}
		var uses []useT
		skip := map[*ast.Ident]bool{}
		collect := func(e ast.Expr, lhs bool) {
			v, path := basePath(e)
			if v == "" {
				return
			}
			// mark the base identifier as handled
			b := e
			for {
				switch x := b.(type) {
				case *ast.SelectorExpr:
					b = x.X
					continue
				case *ast.IndexExpr:
					b = x.X
					continue
				case *ast.StarExpr:
					b = x.X
					continue
				case *ast.ParenExpr:
					b = x.X
					continue
				}
				break
			}
			if id, ok := b.(*ast.Ident); ok {
				skip[id] = true
			}
			if !lhs {
				uses = append(uses, useT{v, path, e.Pos()})
			}
		}
		ast.Inspect(fi.decl.Body, func(n ast.Node) bool {
			switch x := n.(type) {
			case *ast.AssignStmt:
				for _, l := range x.Lhs {
					collect(l, true) // a write to (part of) the variable is not a use of the old value
					// but index expressions etc. inside are not examined further (rare)
				}
			case *ast.KeyValueExpr:
				if id, ok := x.Key.(*ast.Ident); ok {
					skip[id] = true
				}
			case *ast.SelectorExpr:
				if id, ok := x.X.(*ast.Ident); ok && !skip[id] {
					collect(x, false)
				} else if _, ok := x.X.(*ast.SelectorExpr); ok {
					v, _ := basePath(x)
					if v != "" {
						collect(x, false)
						return false
					}
				}
			case *ast.Ident:
				if !skip[x] {
					uses = append(uses, useT{x.Name, nil, x.Pos()})
				}
			}
			return true
		})
		carries := func(st storeT, u useT) bool {
			if u.v != st.v {
				return false
			}
			n := len(st.path)
			if len(u.path) < n {
				n = len(u.path)
			}
			for i := 0; i < n; i++ {
				if st.path[i] != u.path[i] {
					// an exported selector may be an embedded struct that holds the field
					return i == 0 && ast.IsExported(u.path[0]) && !ast.IsExported(st.path[0])
				}
			}
			return true
		}
		line := func(p token.Pos) int { return an.fset.Position(p).Line }
		seen := map[string]bool{}
		for _, st := range stores {
			for _, u := range uses {
				if !carries(st, u) || u.pos == st.pos {
					continue
				}
				var blk token.Pos
				if u.pos > st.pos {
					for _, b := range blocks {
						if b > st.pos && b < u.pos {
							blk = b
							break
						}
					}
				} else {
					// loop-carried: the variable lives across iterations of a loop that parks
					for _, l := range loops {
						if l.lo <= st.pos && st.pos < l.hi && l.lo <= u.pos && u.pos < l.hi && decl[st.v] < l.lo {
							for _, b := range blocks {
								if l.lo <= b && b < l.hi {
									blk = b
									break
								}
							}
						}
					}
				}
				if blk == token.NoPos {
					continue
				}
				key := fmt.Sprintf("%s|%s|%d", fi.key, st.v, line(st.pos))
				if seen[key] {
					continue
				}
				seen[key] = true
				out = append(out, staleT{Field: st.field, Func: fi.key, File: fi.file.base, Store: line(st.pos),
					Block: line(blk), Use: line(u.pos), Var: st.v})
			}
		}
	}
	return out
}

// ---------------------------------------------------------------- check-then-act on atomics
//
// Atomic operations never race with each other, so neither the table nor the race detector objects to
//     if atomic.Load(&x) != 0 { return }; atomic.Store(&x, 1); <act once>
// but two goroutines can both pass the Load before either Stores: the "once" is lost. ctaScan reports every
// function in which the same variable is atomically Loaded and later atomically Stored while the function has no
// read-modify-write (CompareAndSwap / Swap / Add) on it. sync/atomic functions and atomic.* typed values.

type ctaT struct {
	Loc   string `json:"loc"`
	Func  string `json:"func"`
	File  string `json:"file"`
	Load  int    `json:"load_line"`
	Store int    `json:"store_line"`
}

func ctaScan(an *analyzer) []ctaT {
	out := []ctaT{}
	var keys []string
	for k := range an.funcs {
		keys = append(keys, k)
	}
	sort.Strings(keys)
	for _, k := range keys {
		fi := an.funcs[k]
		w := &walker{an: an, fn: fi, file: fi.file, env: map[string]ast.Expr{}, marks: map[ast.Expr]string{}, fname: fi.key}
		if fi.decl.Recv != nil {
			for _, f := range fi.decl.Recv.List {
				for _, n := range f.Names {
					w.env[n.Name] = f.Type
				}
			}
		}
		bindParams(w.env, fi.decl.Type)
		type opT struct {
			kind string
			pos  token.Pos
			loc  string
		}
		ops := map[string][]opT{}
		classify := func(name string) string {
			switch {
			case strings.HasPrefix(name, "Load"):
				return "load"
			case strings.HasPrefix(name, "Store"):
				return "store"
			case strings.HasPrefix(name, "CompareAndSwap"), strings.HasPrefix(name, "Swap"), strings.HasPrefix(name, "Add"),
				strings.HasPrefix(name, "And"), strings.HasPrefix(name, "Or"):
				return "rmw"
			}
			return ""
		}
		locOf := func(e ast.Expr) string {
			if se, ok := e.(*ast.SelectorExpr); ok {
				if sn, f, ok := w.trackedSel(se); ok {
					return sn + "." + f
				}
			}
			if g := w.globalOf(e); g != nil {
				return g.pkg + "." + g.name
			}
			return types.ExprString(e)
		}
		ast.Inspect(fi.decl.Body, func(n ast.Node) bool {
			c, ok := n.(*ast.CallExpr)
			if !ok {
				return true
			}
			se, ok := c.Fun.(*ast.SelectorExpr)
			if !ok {
				return true
			}
			kind := classify(se.Sel.Name)
			if kind == "" {
				return true
			}
			if id, ok := se.X.(*ast.Ident); ok && id.Name == "atomic" && w.isPkg(id) && len(c.Args) > 0 {
				if u, ok := c.Args[0].(*ast.UnaryExpr); ok && u.Op == token.AND {
					key := types.ExprString(u.X)
					ops[key] = append(ops[key], opT{kind, c.Pos(), locOf(u.X)})
				}
				return true
			}
			// typed atomics: x.f.Load() where f's type comes from sync/atomic
			if qualifier(w.typeOf(se.X)) == "atomic" {
				key := types.ExprString(se.X)
				ops[key] = append(ops[key], opT{kind, c.Pos(), locOf(se.X)})
			}
			return true
		})
		var ks []string
		for key := range ops {
			ks = append(ks, key)
		}
		sort.Strings(ks)
		for _, key := range ks {
			var load, store token.Pos
			rmw := false
			for _, o := range ops[key] {
				switch o.kind {
				case "load":
					if load == token.NoPos {
						load = o.pos
					}
				case "store":
					if load != token.NoPos && o.pos > load && store == token.NoPos {
						store = o.pos
					}
				case "rmw":
					rmw = true
				}
			}
			if load != token.NoPos && store != token.NoPos && !rmw {
				out = append(out, ctaT{Loc: ops[key][0].loc, Func: fi.key, File: fi.file.base,
					Load: an.fset.Position(load).Line, Store: an.fset.Position(store).Line})
			}
		}
	}
	return out
}

// ---------------------------------------------------------------- closure-captured locals
//
// A local variable (or parameter) that is captured by a closure which does NOT simply run inline — a `go`
// closure, a closure that is returned / stored / registered as a handler — is shared state just like a struct
// field. captureScan makes each such variable a location "<function>$<var>" with its own small role set,
// relative to ONE instance of the variable (one execution of the declaring function body):
//   <function>$decl       the declaring body itself (and closures it runs inline: defer, immediately invoked,
//                         arguments of the synchronous combinators)              — one thread
//   <function>$go@<line>  a `go` closure directly in the body, not in a loop: one thread per instance, spawned by
//                         $decl; go statements in mutually exclusive branches share one role
//   <function>$conc*      everything that may run any number of times, concurrently with itself: escaping /
//                         registered closures, go statements in loops or inside such closures
// Accesses of $decl that precede (in source order, and not in a loop that outlives the variable) the first
// non-inline closure using the variable are construction (PCtor). Kinds: assignment to the variable or through
// it (v.f = .., v[i] = .., *v = ..), ++/--, &v are writes; a variable initialised with &T{..}/new(T) of a type
// that is not a tracked struct stands for what it points to: passing it to a call or calling a method on it
// may write it. Variables of tracked struct types (their fields are in the table already) and sync.* values
// are only tracked for re-assignment.

func captureScan(an *analyzer) []string {
	var locs []string
	var keys []string
	for k := range an.funcs {
		keys = append(keys, k)
	}
	sort.Strings(keys)
	for _, k := range keys {
		fi := an.funcs[k]
		var bodies []struct {
			name string
			body *ast.BlockStmt
			ft   *ast.FuncType
			recv *ast.FieldList
		}
		bodies = append(bodies, struct {
			name string
			body *ast.BlockStmt
			ft   *ast.FuncType
			recv *ast.FieldList
		}{fi.key, fi.decl.Body, fi.decl.Type, fi.decl.Recv})
		ast.Inspect(fi.decl.Body, func(n ast.Node) bool {
			if fl, ok := n.(*ast.FuncLit); ok {
				bodies = append(bodies, struct {
					name string
					body *ast.BlockStmt
					ft   *ast.FuncType
					recv *ast.FieldList
				}{fmt.Sprintf("%s.func@%d", fi.key, an.fset.Position(fl.Pos()).Line), fl.Body, fl.Type, nil})
			}
			return true
		})
		for _, b := range bodies {
			locs = append(locs, captureBody(an, fi, b.name, b.body, b.ft, b.recv)...)
		}
	}
	return locs
}

type capVar struct {
	name       string
	declPos    token.Pos
	ptrMutable bool // initialised with &T{} / new(T), T not a tracked struct
	inert      bool // tracked struct type or sync.*: only re-assignment matters
}

type capAcc struct {
	v      *capVar
	kind   string
	role   string
	repl   bool
	parent string
	pos    token.Pos
	flit   token.Pos // start of the outermost non-inline closure containing the access (NoPos: in the body itself)
}

func captureBody(an *analyzer, fi *funcInfo, owner string, body *ast.BlockStmt, ft *ast.FuncType, recv *ast.FieldList) []string {
	vars := map[string]*capVar{}
	classify := func(v *capVar, typ ast.Expr, init ast.Expr) {
		t := typ
		if t == nil && init != nil {
			switch i := init.(type) {
			case *ast.UnaryExpr:
				if cl, ok := i.X.(*ast.CompositeLit); ok && i.Op == token.AND {
					t = cl.Type
					if _, tr := tracked[structName(t)]; !tr && !isSyncType(t) {
						v.ptrMutable = true
					}
				}
			case *ast.CompositeLit:
				t = i.Type
			case *ast.CallExpr:
				if id, ok := i.Fun.(*ast.Ident); ok && id.Name == "new" && len(i.Args) == 1 {
					t = i.Args[0]
					if _, tr := tracked[structName(t)]; !tr && !isSyncType(t) {
						v.ptrMutable = true
					}
				}
			}
		}
		if t != nil {
			if _, tr := tracked[structName(t)]; tr || isSyncType(t) {
				v.inert = true
				v.ptrMutable = false
			}
		}
	}
	addVar := func(id *ast.Ident, typ, init ast.Expr) {
		if id == nil || id.Name == "_" {
			return
		}
		if _, ok := vars[id.Name]; ok {
			return
		}
		v := &capVar{name: id.Name, declPos: id.Pos()}
		classify(v, typ, init)
		vars[id.Name] = v
	}
	for _, fl := range []*ast.FieldList{recv, ft.Params, ft.Results} {
		if fl == nil {
			continue
		}
		for _, f := range fl.List {
			for _, n := range f.Names {
				addVar(n, f.Type, nil)
			}
		}
	}
	// declarations directly in this body (not inside nested closures)
	var declWalk func(n ast.Node) bool
	declWalk = func(n ast.Node) bool {
		switch x := n.(type) {
		case *ast.FuncLit:
			return false
		case *ast.AssignStmt:
			if x.Tok == token.DEFINE {
				for i, l := range x.Lhs {
					if id, ok := l.(*ast.Ident); ok {
						var init ast.Expr
						if len(x.Lhs) == len(x.Rhs) {
							init = x.Rhs[i]
						}
						addVar(id, nil, init)
					}
				}
			}
		case *ast.ValueSpec:
			for i, nme := range x.Names {
				var init ast.Expr
				if i < len(x.Values) {
					init = x.Values[i]
				}
				addVar(nme, x.Type, init)
			}
		case *ast.RangeStmt:
			if x.Tok == token.DEFINE {
				if id, ok := x.Key.(*ast.Ident); ok {
					addVar(id, nil, nil)
				}
				if id, ok := x.Value.(*ast.Ident); ok {
					addVar(id, nil, nil)
				}
			}
		}
		return true
	}
	ast.Inspect(body, declWalk)
	if len(vars) == 0 {
		return nil
	}
	type rng struct{ lo, hi token.Pos }
	var loops []rng
	ast.Inspect(body, func(n ast.Node) bool {
		switch x := n.(type) {
		case *ast.ForStmt:
			loops = append(loops, rng{x.Pos(), x.End()})
		case *ast.RangeStmt:
			loops = append(loops, rng{x.Pos(), x.End()})
		}
		return true
	})

	// go statements directly in the body's own role, with their branch arms (for exclusivity)
	type armT struct {
		node ast.Node
		arm  int
	}
	goArms := map[token.Pos][]armT{}
	var accs []capAcc
	var stack []ast.Node
	shadowCache := map[*ast.FuncLit]map[string]bool{}
	shadow := func(fl *ast.FuncLit, name string) bool {
		m, ok := shadowCache[fl]
		if !ok {
			m = map[string]bool{}
			if fl.Type.Params != nil {
				for _, f := range fl.Type.Params.List {
					for _, n := range f.Names {
						m[n.Name] = true
					}
				}
			}
			// names (re)declared inside the closure are new variables there
			ast.Inspect(fl.Body, func(n ast.Node) bool {
				switch x := n.(type) {
				case *ast.FuncLit:
					return false
				case *ast.AssignStmt:
					if x.Tok == token.DEFINE {
						for _, l := range x.Lhs {
							if id, ok := l.(*ast.Ident); ok {
								m[id.Name] = true
							}
						}
					}
				case *ast.ValueSpec:
					for _, nme := range x.Names {
						m[nme.Name] = true
					}
				}
				return true
			})
			shadowCache[fl] = m
		}
		return m[name]
	}
	// a closure bound to a local name that is only ever called directly runs inline
	onlyCalled := func(name string) bool {
		ok := true
		var st []ast.Node
		ast.Inspect(body, func(n ast.Node) bool {
			if n == nil {
				st = st[:len(st)-1]
				return true
			}
			st = append(st, n)
			if id, isID := n.(*ast.Ident); isID && id.Name == name && len(st) >= 2 {
				switch p := st[len(st)-2].(type) {
				case *ast.CallExpr:
					if p.Fun != ast.Expr(id) {
						ok = false
					} else if len(st) >= 3 {
						if _, isGo := st[len(st)-3].(*ast.GoStmt); isGo {
							ok = false
						}
					}
				case *ast.AssignStmt:
					isLHS := false
					for _, l := range p.Lhs {
						if l == ast.Expr(id) {
							isLHS = true
						}
					}
					if !isLHS {
						ok = false
					}
				default:
					ok = false
				}
			}
			return true
		})
		return ok
	}
	armOf := func(parent ast.Node, child ast.Node) (ast.Node, int, bool) {
		switch p := parent.(type) {
		case *ast.IfStmt:
			if child == ast.Node(p.Body) {
				return p, 0, true
			}
			if p.Else != nil && child == p.Else {
				return p, 1, true
			}
		case *ast.BlockStmt:
			// case clauses are children of the switch body block
		case *ast.CaseClause, *ast.CommClause:
			return nil, 0, false
		}
		return nil, 0, false
	}
	context := func(name string) (role string, repl bool, parent string, flit token.Pos, ok bool) {
		role, parent = owner+"$decl", ""
		loop := 0
		var arms []armT
		for i := 1; i < len(stack); i++ {
			n, par := stack[i], stack[i-1]
			if a, idx, isArm := armOf(par, n); isArm {
				arms = append(arms, armT{a, idx})
			}
			if cc, isCC := n.(*ast.CaseClause); isCC {
				// parent is the body block of a switch: arm = this clause
				arms = append(arms, armT{par, int(cc.Pos())})
			}
			if cc, isCC := n.(*ast.CommClause); isCC {
				arms = append(arms, armT{par, int(cc.Pos())})
			}
			switch x := n.(type) {
			case *ast.ForStmt, *ast.RangeStmt:
				loop++
			case *ast.GoStmt:
				if _, isLit := x.Call.Fun.(*ast.FuncLit); !isLit {
					// go f(v): the new goroutine works on what it was handed
					if !repl && loop == 0 && role == owner+"$decl" {
						role = fmt.Sprintf("%s$go@%d", owner, an.fset.Position(x.Pos()).Line)
						parent = owner + "$decl"
						goArms[x.Pos()] = append([]armT(nil), arms...)
					} else {
						repl = true
						role = owner + "$conc*"
						parent = ""
					}
					if flit == token.NoPos {
						flit = x.Pos()
					}
					loop = 0
				}
			case *ast.FuncLit:
				if shadow(x, name) {
					return "", false, "", token.NoPos, false
				}
				inline := false
				isGo := false
				if call, isCall := par.(*ast.CallExpr); isCall {
					if call.Fun == ast.Expr(x) {
						if i >= 2 {
							switch stack[i-2].(type) {
							case *ast.GoStmt:
								isGo = true
							default:
								inline = true // deferred or immediately invoked
							}
						} else {
							inline = true
						}
					} else if syncCombinators[funName(call.Fun)] {
						inline = true
						loop++ // may be run repeatedly
					}
				}
				if as, isAssign := par.(*ast.AssignStmt); isAssign && len(as.Lhs) == 1 && len(as.Rhs) == 1 && as.Rhs[0] == ast.Expr(x) {
					if id, isID := as.Lhs[0].(*ast.Ident); isID && onlyCalled(id.Name) {
						inline = true
					}
				}
				switch {
				case inline:
				case isGo && !repl && loop == 0 && role == owner+"$decl":
					role = fmt.Sprintf("%s$go@%d", owner, an.fset.Position(x.Pos()).Line)
					parent = owner + "$decl"
					goArms[x.Pos()] = append([]armT(nil), arms...)
					if flit == token.NoPos {
						flit = x.Pos()
					}
					loop = 0
				default:
					repl = true
					role = owner + "$conc*"
					parent = ""
					if flit == token.NoPos {
						flit = x.Pos()
					}
					loop = 0
				}
			}
		}
		return role, repl, parent, flit, true
	}
	kindOf := func(v *capVar) (string, bool) {
		// climb from the identifier through selectors / indexes / derefs
		i := len(stack) - 1
		through := false
		for i > 0 {
			child, par := stack[i], stack[i-1]
			switch p := par.(type) {
			case *ast.SelectorExpr:
				if p.X == child {
					through = true
					i--
					continue
				}
			case *ast.IndexExpr:
				if p.X == child {
					through = true
					i--
					continue
				}
			case *ast.SliceExpr:
				if p.X == child {
					i--
					continue
				}
			case *ast.StarExpr:
				through = true
				i--
				continue
			case *ast.ParenExpr:
				i--
				continue
			}
			break
		}
		if i == 0 {
			return "KRead", false
		}
		e, par := stack[i], stack[i-1]
		write := func() (string, bool) {
			if through && v.inert {
				return "KRead", false
			}
			return "KWrite", false
		}
		switch p := par.(type) {
		case *ast.AssignStmt:
			for _, l := range p.Lhs {
				if l == e {
					if p.Tok == token.DEFINE && !through {
						return "KWrite", true
					}
					return write()
				}
			}
		case *ast.ValueSpec:
			for _, n := range p.Names {
				if ast.Node(n) == e {
					return "KWrite", true
				}
			}
		case *ast.RangeStmt:
			if (p.Key == e || p.Value == e) && !through {
				return "KWrite", p.Tok == token.DEFINE
			}
		case *ast.IncDecStmt:
			return write()
		case *ast.UnaryExpr:
			if p.Op == token.AND {
				return write()
			}
		case *ast.CallExpr:
			if p.Fun == e {
				if through && v.ptrMutable {
					return "KWrite", false // method call on what it points to
				}
				return "KRead", false
			}
			if !through && v.ptrMutable {
				return "KWrite", false // the pointer is handed to a function that may write through it
			}
		}
		return "KRead", false
	}
	var visit func(n ast.Node) bool
	visit = func(n ast.Node) bool {
		if n == nil {
			stack = stack[:len(stack)-1]
			return true
		}
		stack = append(stack, n)
		switch x := n.(type) {
		case *ast.SelectorExpr:
			// only the base can be a variable
			ast.Inspect(x.X, visit)
			stack = stack[:len(stack)-1]
			return false
		case *ast.KeyValueExpr:
			if _, isIdent := x.Key.(*ast.Ident); !isIdent {
				ast.Inspect(x.Key, visit)
			}
			ast.Inspect(x.Value, visit)
			stack = stack[:len(stack)-1]
			return false
		case *ast.Ident:
			v := vars[x.Name]
			if v == nil {
				return true
			}
			kind, isDecl := kindOf(v)
			role, repl, parent, flit, ok := context(x.Name)
			if !ok {
				return true
			}
			if isDecl && x.Pos() != v.declPos && role == owner+"$decl" {
				// re-declaration in a nested scope of the same body: treat as the same variable
			}
			accs = append(accs, capAcc{v, kind, role, repl, parent, x.Pos(), flit})
		}
		return true
	}
	stack = []ast.Node{}
	ast.Inspect(body, visit)

	// merge go roles of mutually exclusive branches
	exclusive := func(a, b []armT) bool {
		for _, x := range a {
			for _, y := range b {
				if x.node == y.node && x.arm != y.arm {
					return true
				}
			}
		}
		return false
	}
	goRole := map[string]string{}
	var goPos []token.Pos
	for p := range goArms {
		goPos = append(goPos, p)
	}
	sort.Slice(goPos, func(i, j int) bool { return goPos[i] < goPos[j] })
	for i, p := range goPos {
		name := fmt.Sprintf("%s$go@%d", owner, an.fset.Position(p).Line)
		goRole[name] = name
		for _, q := range goPos[:i] {
			qn := fmt.Sprintf("%s$go@%d", owner, an.fset.Position(q).Line)
			if exclusive(goArms[p], goArms[q]) {
				goRole[name] = goRole[qn]
				break
			}
		}
	}

	var out []string
	byVar := map[*capVar][]capAcc{}
	for _, a := range accs {
		byVar[a.v] = append(byVar[a.v], a)
	}
	var vs []*capVar
	for v := range byVar {
		vs = append(vs, v)
	}
	sort.Slice(vs, func(i, j int) bool { return vs[i].declPos < vs[j].declPos })
	for _, v := range vs {
		shared := false
		first := token.NoPos
		for _, a := range byVar[v] {
			if a.role != owner+"$decl" {
				shared = true
				if first == token.NoPos || a.flit < first {
					first = a.flit
				}
			}
		}
		if !shared {
			continue
		}
		// a variable that is only written while it is being set up cannot race: leave it out of the table
		mutated := false
		for _, a := range byVar[v] {
			if a.kind == "KWrite" && (a.role != owner+"$decl" || a.pos >= first) {
				mutated = true
			}
		}
		if !mutated {
			continue
		}
		loc := owner + "$" + v.name
		out = append(out, loc)
		for _, a := range byVar[v] {
			role := a.role
			if r, ok := goRole[role]; ok {
				role = r
			}
			an.role(role, a.parent)
			phase := "PShared"
			if a.role == owner+"$decl" && a.pos < first {
				phase = "PCtor"
				for _, l := range loops {
					if l.lo <= a.pos && a.pos < l.hi && l.lo <= first && first < l.hi && v.declPos < l.lo {
						phase = "PShared" // the variable outlives the iterations of a loop that shares it
					}
				}
			}
			p := an.fset.Position(a.pos)
			acc := accessT{Loc: loc, Kind: a.kind, Role: role, Phase: phase, Site: fmt.Sprintf("%s:%d %s", filepath.Base(p.Filename), p.Line, owner),
				File: filepath.Base(p.Filename), Line: p.Line, Func: owner}
			k := fmt.Sprintf("%s|%s|%s|%s||%s", acc.Loc, acc.Kind, acc.Role, acc.Phase, acc.Site)
			if an.accSeen[k] {
				continue
			}
			an.accSeen[k] = true
			an.accs = append(an.accs, acc)
		}
	}
	return out
}
