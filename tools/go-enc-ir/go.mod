module goencir

go 1.23
