// go-enc-ir: translate the Go LLRP encoder (pkg/llrp/generated_encoder.go: EncodeFields + getHeader,
// generated_marshal.go: MarshalBinary + b2b, msg_builder.go: encodeParams + paramHeader, params.go: IsTV and the
// ParamXxx constants, generated_structs.go: struct declarations, MsgXxx constants, Type()) into the encoder IR of
// /verif/coq/EncIR/IR.v.  Standard library only (go/ast, go/parser, go/token, go/printer), offline.
//
// usage: go-enc-ir -repo /repo -out build/gen/C02
// writes  <out>/EncPrograms.v   (Coq data: `prog_<T> : enc_prog` per container, `enc_glob`, `enc_programs`, `enc_all`)
//         <out>/enc_programs.json (per container: name, msg, tid, ok, error with file:line:col, functions, IR nodes)
//
// Anything that is not recognised makes the translation of that container FAIL with its position (the
// container is then absent from enc_programs, so progs_match is false), never skipped.
package main

import (
	"bytes"
	"encoding/json"
	"flag"
	"fmt"
	"go/ast"
	"go/parser"
	"go/printer"
	"go/token"
	"os"
	"path/filepath"
	"sort"
	"strconv"
	"strings"
)

// ---------------------------------------------------------------- package facts
type facts struct {
	fset    *token.FileSet
	types   map[string]*ast.TypeSpec
	pconst  map[string]int64 // ParamXxx = ParamType(N)
	mconst  map[string]int64 // MsgXxx = MessageType(N)
	methods map[string]map[string]*ast.FuncDecl
	funcs   map[string]*ast.FuncDecl
	order   []string // receiver types having EncodeFields, in source order
	dup     []string
}

var basicSize = map[string]int64{"byte": 1, "uint8": 1, "int8": 1, "uint16": 2, "int16": 2,
	"uint32": 4, "int32": 4, "uint64": 8, "int64": 8}

type trErr struct{ msg string }

func (e *trErr) Error() string { return e.msg }

func (pf *facts) src(n ast.Node) string {
	var b bytes.Buffer
	printer.Fprint(&b, pf.fset, n)
	s := strings.Join(strings.Fields(b.String()), " ")
	if len(s) > 140 {
		s = s[:140] + "..."
	}
	return s
}

func (pf *facts) fail(n ast.Node, format string, a ...interface{}) error {
	p := pf.fset.Position(n.Pos())
	return &trErr{fmt.Sprintf("%s:%d:%d: %s: `%s`", filepath.Base(p.Filename), p.Line, p.Column, fmt.Sprintf(format, a...), pf.src(n))}
}

func recvType(fd *ast.FuncDecl) (name string, ptr bool, ident string) {
	if fd.Recv == nil || len(fd.Recv.List) != 1 {
		return "", false, ""
	}
	f := fd.Recv.List[0]
	if len(f.Names) == 1 {
		ident = f.Names[0].Name
	}
	switch t := f.Type.(type) {
	case *ast.StarExpr:
		if id, ok := t.X.(*ast.Ident); ok {
			return id.Name, true, ident
		}
	case *ast.Ident:
		return t.Name, false, ident
	}
	return "", false, ""
}

func (pf *facts) load(dir string) error {
	ents, err := os.ReadDir(dir)
	if err != nil {
		return err
	}
	for _, en := range ents {
		n := en.Name()
		if !strings.HasSuffix(n, ".go") || strings.HasSuffix(n, "_test.go") {
			continue
		}
		f, err := parser.ParseFile(pf.fset, filepath.Join(dir, n), nil, 0)
		if err != nil {
			return err
		}
		for _, d := range f.Decls {
			switch d := d.(type) {
			case *ast.FuncDecl:
				if d.Recv == nil {
					if _, ok := pf.funcs[d.Name.Name]; ok {
						pf.dup = append(pf.dup, d.Name.Name)
					}
					pf.funcs[d.Name.Name] = d
					continue
				}
				rt, _, _ := recvType(d)
				if rt == "" {
					continue
				}
				if pf.methods[rt] == nil {
					pf.methods[rt] = map[string]*ast.FuncDecl{}
				}
				if _, ok := pf.methods[rt][d.Name.Name]; ok {
					pf.dup = append(pf.dup, rt+"."+d.Name.Name)
				}
				pf.methods[rt][d.Name.Name] = d
				if d.Name.Name == "EncodeFields" {
					pf.order = append(pf.order, rt)
				}
			case *ast.GenDecl:
				for _, sp := range d.Specs {
					switch s := sp.(type) {
					case *ast.TypeSpec:
						pf.types[s.Name.Name] = s
					case *ast.ValueSpec:
						if d.Tok != token.CONST {
							continue
						}
						for i, nm := range s.Names {
							if i >= len(s.Values) {
								continue
							}
							ce, ok := s.Values[i].(*ast.CallExpr)
							if !ok || len(ce.Args) != 1 {
								continue
							}
							id, ok := ce.Fun.(*ast.Ident)
							if !ok {
								continue
							}
							v, ok := intLit(ce.Args[0])
							if !ok {
								continue
							}
							switch id.Name {
							case "ParamType":
								pf.pconst[nm.Name] = v
							case "MessageType":
								pf.mconst[nm.Name] = v
							}
						}
					}
				}
			}
		}
	}
	return nil
}

func intLit(e ast.Expr) (int64, bool) {
	bl, ok := e.(*ast.BasicLit)
	if !ok || bl.Kind != token.INT {
		return 0, false
	}
	v, err := strconv.ParseInt(bl.Value, 0, 64)
	if err != nil || v < 0 {
		return 0, false
	}
	return v, true
}

// ---------------------------------------------------------------- Go types of struct fields
type elem struct {
	kind string // u8 bool int string param
	size int64
	ptid int64 // -1: none
}

type gtype struct {
	shape string // SPlain SPtr SSlice
	el    elem
}

func optN(v int64) string {
	if v < 0 {
		return "None"
	}
	return fmt.Sprintf("(Some %d)", v)
}

func (g gtype) coq() string {
	var e string
	switch g.el.kind {
	case "u8":
		e = "EU8"
	case "bool":
		e = "EBool " + optN(g.el.ptid)
	case "int":
		e = fmt.Sprintf("EInt %d %s", g.el.size, optN(g.el.ptid))
	case "string":
		e = "EString"
	case "param":
		e = fmt.Sprintf("EParam %d", g.el.ptid)
	}
	return "(" + g.shape + ", " + e + ")"
}

// the ParamType a type's getHeader puts into its header (light scan; the full translation is separate)
func (pf *facts) ptidOf(tname string) (int64, bool) {
	fd := pf.methods[tname]["getHeader"]
	if fd == nil || fd.Body == nil {
		return -1, false
	}
	var found int64 = -1
	n := 0
	ast.Inspect(fd.Body, func(x ast.Node) bool {
		kv, ok := x.(*ast.KeyValueExpr)
		if !ok {
			return true
		}
		if k, ok := kv.Key.(*ast.Ident); ok && k.Name == "ParamType" {
			if v, ok := kv.Value.(*ast.Ident); ok {
				if c, ok := pf.pconst[v.Name]; ok {
					found = c
					n++
				}
			}
		}
		return true
	})
	return found, n == 1
}

// underlying basic type of a named type: (kind bool|int|string|struct|other, size)
func (pf *facts) underlying(name string, depth int) (string, int64) {
	if depth > 8 {
		return "other", 0
	}
	if name == "bool" {
		return "bool", 1
	}
	if name == "string" {
		return "string", 0
	}
	if sz, ok := basicSize[name]; ok {
		return "int", sz
	}
	ts := pf.types[name]
	if ts == nil {
		return "other", 0
	}
	switch t := ts.Type.(type) {
	case *ast.Ident:
		return pf.underlying(t.Name, depth+1)
	case *ast.StructType:
		return "struct", 0
	}
	return "other", 0
}

func (pf *facts) elemOf(e ast.Expr) (elem, error) {
	id, ok := e.(*ast.Ident)
	if !ok {
		return elem{}, pf.fail(e, "unsupported field element type")
	}
	switch id.Name {
	case "byte", "uint8":
		return elem{"u8", 1, -1}, nil
	case "bool":
		return elem{"bool", 1, -1}, nil
	case "string":
		return elem{"string", 0, -1}, nil
	}
	if sz, ok := basicSize[id.Name]; ok {
		return elem{"int", sz, -1}, nil
	}
	k, sz := pf.underlying(id.Name, 0)
	ptid, has := pf.ptidOf(id.Name)
	if !has {
		if pf.methods[id.Name]["getHeader"] != nil {
			return elem{}, pf.fail(e, "getHeader of %s has no unique `ParamType: ParamXxx`", id.Name)
		}
		ptid = -1
	}
	switch k {
	case "bool":
		return elem{"bool", 1, ptid}, nil
	case "int":
		return elem{"int", sz, ptid}, nil
	case "struct":
		if ptid < 0 {
			return elem{}, pf.fail(e, "struct type %s has no getHeader", id.Name)
		}
		return elem{"param", 0, ptid}, nil
	}
	return elem{}, pf.fail(e, "unsupported field type %s", id.Name)
}

func (pf *facts) classify(e ast.Expr) (gtype, error) {
	switch t := e.(type) {
	case *ast.StarExpr:
		el, err := pf.elemOf(t.X)
		return gtype{"SPtr", el}, err
	case *ast.ArrayType:
		if t.Len != nil {
			return gtype{}, pf.fail(e, "fixed-size Go array")
		}
		el, err := pf.elemOf(t.Elt)
		return gtype{"SSlice", el}, err
	}
	el, err := pf.elemOf(e)
	return gtype{"SPlain", el}, err
}

// ---------------------------------------------------------------- translation of one container
type tr struct {
	pf     *facts
	tname  string
	recv   string // receiver identifier of the current function
	inline bool
	fnames []string
	ftypes []gtype
	fidx   map[string]int
	nodes  int
}

func (t *tr) fail(n ast.Node, format string, a ...interface{}) error { return t.pf.fail(n, format, a...) }

func (t *tr) structDecl() error {
	ts := t.pf.types[t.tname]
	if ts == nil {
		return &trErr{"no type declaration for " + t.tname}
	}
	t.fidx = map[string]int{}
	switch ty := ts.Type.(type) {
	case *ast.StructType:
		for _, fl := range ty.Fields.List {
			if len(fl.Names) == 0 {
				return t.fail(fl, "embedded field")
			}
			g, err := t.pf.classify(fl.Type)
			if err != nil {
				return err
			}
			for _, nm := range fl.Names {
				t.fidx[nm.Name] = len(t.fnames)
				t.fnames = append(t.fnames, nm.Name)
				t.ftypes = append(t.ftypes, g)
			}
		}
	case *ast.Ident:
		k, sz := t.pf.underlying(ty.Name, 0)
		t.inline = true
		switch k {
		case "bool":
			t.ftypes = []gtype{{"SPlain", elem{"bool", 1, -1}}}
		case "int":
			t.ftypes = []gtype{{"SPlain", elem{"int", sz, -1}}}
		default:
			return t.fail(ts, "inline type with unsupported underlying type")
		}
		t.fnames = []string{"*"}
	default:
		return t.fail(ts, "unsupported type declaration")
	}
	return nil
}

func isIdent(e ast.Expr, name string) bool {
	id, ok := e.(*ast.Ident)
	return ok && id.Name == name
}

// recv.X  -> index of X
func (t *tr) fieldSel(e ast.Expr) (int, bool) {
	se, ok := e.(*ast.SelectorExpr)
	if !ok || !isIdent(se.X, t.recv) || t.inline {
		return 0, false
	}
	i, ok := t.fidx[se.Sel.Name]
	return i, ok
}

// *recv (inline types)
func (t *tr) isSelf(e ast.Expr) bool {
	st, ok := e.(*ast.StarExpr)
	return ok && t.inline && isIdent(st.X, t.recv)
}

func isInt(g gtype) bool { return g.shape == "SPlain" && (g.el.kind == "int" || g.el.kind == "u8") }

func (t *tr) iexpr(e ast.Expr) (string, error) {
	t.nodes++
	switch x := e.(type) {
	case *ast.SelectorExpr:
		if i, ok := t.fieldSel(x); ok {
			if !isInt(t.ftypes[i]) {
				return "", t.fail(e, "integer expression over a non-integer field")
			}
			return fmt.Sprintf("(IField %d)", i), nil
		}
	case *ast.StarExpr:
		if t.isSelf(x) {
			if !isInt(t.ftypes[0]) {
				return "", t.fail(e, "integer expression over a non-integer receiver")
			}
			return "(IField 0)", nil
		}
	case *ast.CallExpr:
		if isIdent(x.Fun, "len") && len(x.Args) == 1 {
			if i, ok := t.fieldSel(x.Args[0]); ok {
				g := t.ftypes[i]
				if g.shape == "SSlice" || (g.shape == "SPlain" && g.el.kind == "string") {
					return fmt.Sprintf("(ILen %d)", i), nil
				}
			}
		}
	case *ast.BinaryExpr:
		k, ok := intLit(x.Y)
		if !ok {
			return "", t.fail(e, "right operand is not an integer literal")
		}
		a, err := t.iexpr(x.X)
		if err != nil {
			return "", err
		}
		switch x.Op {
		case token.SHR:
			return fmt.Sprintf("(IShr %s %d)", a, k), nil
		case token.AND:
			return fmt.Sprintf("(IAnd %s %d)", a, k), nil
		case token.OR:
			return fmt.Sprintf("(IOr %s %d)", a, k), nil
		}
	}
	return "", t.fail(e, "unrecognised integer expression")
}

func (t *tr) bexpr(e ast.Expr) (string, error) {
	t.nodes++
	switch x := e.(type) {
	case *ast.BasicLit:
		if v, ok := intLit(x); ok && v < 256 {
			return fmt.Sprintf("(BLit %d)", v), nil
		}
	case *ast.SelectorExpr:
		if i, ok := t.fieldSel(x); ok {
			g := t.ftypes[i]
			if g.shape == "SPlain" && g.el.kind == "u8" {
				return fmt.Sprintf("(BRaw %d)", i), nil
			}
			return "", t.fail(e, "field used as a byte without conversion is not of type byte/uint8")
		}
	case *ast.IndexExpr:
		if i, ok := t.fieldSel(x.X); ok {
			g := t.ftypes[i]
			if k, ok := intLit(x.Index); ok && g.shape == "SSlice" && g.el.kind == "u8" {
				return fmt.Sprintf("(BIdx %d %d)", i, k), nil
			}
		}
	case *ast.CallExpr:
		if len(x.Args) != 1 {
			break
		}
		if isIdent(x.Fun, "byte") {
			a, err := t.iexpr(x.Args[0])
			if err != nil {
				return "", err
			}
			return "(BConv " + a + ")", nil
		}
		if isIdent(x.Fun, "b2b") {
			arg := x.Args[0]
			if i, ok := t.fieldSel(arg); ok {
				g := t.ftypes[i]
				if g.shape == "SPlain" && g.el.kind == "bool" && g.el.ptid < 0 {
					return fmt.Sprintf("(BB2B %d)", i), nil
				}
				return "", t.fail(e, "b2b of a field that is not a plain bool")
			}
			if ce, ok := arg.(*ast.CallExpr); ok && isIdent(ce.Fun, "bool") && len(ce.Args) == 1 && t.isSelf(ce.Args[0]) {
				if t.ftypes[0].el.kind == "bool" {
					return "(BB2B 0)", nil
				}
			}
		}
	case *ast.BinaryExpr:
		switch x.Op {
		case token.SHL:
			k, ok := intLit(x.Y)
			if !ok {
				return "", t.fail(e, "shift amount is not an integer literal")
			}
			a, err := t.bexpr(x.X)
			if err != nil {
				return "", err
			}
			return fmt.Sprintf("(BShl %s %d)", a, k), nil
		case token.OR:
			a, err := t.bexpr(x.X)
			if err != nil {
				return "", err
			}
			b, err := t.bexpr(x.Y)
			if err != nil {
				return "", err
			}
			return "(BOr " + a + " " + b + ")", nil
		}
	}
	return "", t.fail(e, "unrecognised byte expression")
}

// []byte{e1, ..., en}
func (t *tr) byteLit(e ast.Expr) ([]string, bool, error) {
	cl, ok := e.(*ast.CompositeLit)
	if !ok {
		return nil, false, nil
	}
	at, ok := cl.Type.(*ast.ArrayType)
	if !ok || at.Len != nil || !isIdent(at.Elt, "byte") {
		return nil, true, t.fail(e, "composite literal is not []byte{...}")
	}
	var out []string
	for _, el := range cl.Elts {
		s, err := t.bexpr(el)
		if err != nil {
			return nil, true, err
		}
		out = append(out, s)
	}
	return out, true, nil
}

func coqList(xs []string) string { return "[" + strings.Join(xs, "; ") + "]" }

// `err != nil`
func isErrNotNil(e ast.Expr) bool {
	be, ok := e.(*ast.BinaryExpr)
	return ok && be.Op == token.NEQ && isIdent(be.X, "err") && isIdent(be.Y, "nil")
}

// { return fmt.Errorf("...", err) }   /   { return nil, err }   /   { return err }
func (t *tr) isErrReturn(b *ast.BlockStmt, form string) bool {
	if b == nil || len(b.List) != 1 {
		return false
	}
	rs, ok := b.List[0].(*ast.ReturnStmt)
	if !ok {
		return false
	}
	switch form {
	case "errorf":
		if len(rs.Results) != 1 {
			return false
		}
		ce, ok := rs.Results[0].(*ast.CallExpr)
		if !ok || len(ce.Args) < 1 {
			return false
		}
		se, ok := ce.Fun.(*ast.SelectorExpr)
		return ok && isIdent(se.X, "fmt") && se.Sel.Name == "Errorf"
	case "nilerr":
		return len(rs.Results) == 2 && isIdent(rs.Results[0], "nil") && isIdent(rs.Results[1], "err")
	case "err":
		return len(rs.Results) == 1 && isIdent(rs.Results[0], "err")
	}
	return false
}

// if <lhs> := CALL; err != nil { <error return> }   -> CALL
func (t *tr) errIf(s ast.Stmt, nlhs int, form string) (*ast.CallExpr, error) {
	is, ok := s.(*ast.IfStmt)
	if !ok || is.Init == nil || is.Else != nil {
		return nil, t.fail(s, "expected `if ... := call; err != nil { return error }`")
	}
	as, ok := is.Init.(*ast.AssignStmt)
	if !ok || as.Tok != token.DEFINE || len(as.Lhs) != nlhs || len(as.Rhs) != 1 {
		return nil, t.fail(s, "unrecognised if-initialiser")
	}
	if nlhs == 2 && !isIdent(as.Lhs[0], "_") {
		return nil, t.fail(s, "byte count of Write must be discarded with _")
	}
	if !isIdent(as.Lhs[nlhs-1], "err") || !isErrNotNil(is.Cond) || !t.isErrReturn(is.Body, form) {
		return nil, t.fail(s, "unrecognised error check")
	}
	ce, ok := as.Rhs[0].(*ast.CallExpr)
	if !ok {
		return nil, t.fail(s, "initialiser is not a call")
	}
	return ce, nil
}

func isSel(e ast.Expr, x, sel string) bool {
	se, ok := e.(*ast.SelectorExpr)
	return ok && isIdent(se.X, x) && se.Sel.Name == sel
}

func checkSig(pf *facts, fd *ast.FuncDecl, params []string, results []string) error {
	var ps, rs []string
	if fd.Type.Params != nil {
		for _, f := range fd.Type.Params.List {
			for range f.Names {
				ps = append(ps, pf.src(f.Type))
			}
			if len(f.Names) == 0 {
				ps = append(ps, pf.src(f.Type))
			}
		}
	}
	if fd.Type.Results != nil {
		for _, f := range fd.Type.Results.List {
			rs = append(rs, pf.src(f.Type))
		}
	}
	if strings.Join(ps, ",") != strings.Join(params, ",") || strings.Join(rs, ",") != strings.Join(results, ",") {
		return pf.fail(fd.Type, "unexpected signature of %s", fd.Name.Name)
	}
	return nil
}

// ---- EncodeFields
func (t *tr) encodeFields(fd *ast.FuncDecl) ([]string, error) {
	if err := checkSig(t.pf, fd, []string{"io.Writer"}, []string{"error"}); err != nil {
		return nil, err
	}
	_, ptr, rv := recvType(fd)
	if !ptr {
		return nil, t.fail(fd, "EncodeFields must have a pointer receiver")
	}
	t.recv = rv
	wname := fd.Type.Params.List[0].Names[0].Name
	body := fd.Body.List
	if len(body) == 0 {
		return nil, t.fail(fd, "empty body")
	}
	last, ok := body[len(body)-1].(*ast.ReturnStmt)
	if !ok || len(last.Results) != 1 || !isIdent(last.Results[0], "nil") {
		return nil, t.fail(body[len(body)-1], "EncodeFields must end with `return nil`")
	}
	var out []string
	for _, s := range body[:len(body)-1] {
		is, ok := s.(*ast.IfStmt)
		if !ok || is.Init == nil {
			return nil, t.fail(s, "unrecognised statement in EncodeFields")
		}
		as, _ := is.Init.(*ast.AssignStmt)
		if as == nil {
			return nil, t.fail(s, "unrecognised statement in EncodeFields")
		}
		t.nodes++
		if len(as.Lhs) == 2 {
			ce, err := t.errIf(s, 2, "errorf")
			if err != nil {
				return nil, err
			}
			if !isSel(ce.Fun, wname, "Write") || len(ce.Args) != 1 {
				return nil, t.fail(ce, "expected %s.Write(x)", wname)
			}
			arg := ce.Args[0]
			if es, isLit, err := t.byteLit(arg); isLit {
				if err != nil {
					return nil, err
				}
				out = append(out, "WBytes "+coqList(es))
				continue
			}
			if i, ok := t.fieldSel(arg); ok {
				g := t.ftypes[i]
				if g.shape == "SSlice" && g.el.kind == "u8" {
					out = append(out, fmt.Sprintf("WSlice %d", i))
					continue
				}
				return nil, t.fail(arg, "Write of a field that is not []byte")
			}
			if cv, ok := arg.(*ast.CallExpr); ok && len(cv.Args) == 1 {
				if at, ok := cv.Fun.(*ast.ArrayType); ok && at.Len == nil && isIdent(at.Elt, "byte") {
					if i, ok := t.fieldSel(cv.Args[0]); ok && t.ftypes[i].shape == "SPlain" && t.ftypes[i].el.kind == "string" {
						out = append(out, fmt.Sprintf("WString %d", i))
						continue
					}
				}
			}
			return nil, t.fail(arg, "unrecognised argument of Write")
		}
		ce, err := t.errIf(s, 1, "errorf")
		if err != nil {
			return nil, err
		}
		if isSel(ce.Fun, "binary", "Write") && len(ce.Args) == 3 && isIdent(ce.Args[0], wname) && isSel(ce.Args[1], "binary", "BigEndian") {
			if i, ok := t.fieldSel(ce.Args[2]); ok {
				g := t.ftypes[i]
				if g.shape == "SSlice" && (g.el.kind == "int" || g.el.kind == "u8") {
					out = append(out, fmt.Sprintf("WBE %d %d", i, g.el.size))
					continue
				}
			}
		}
		return nil, t.fail(ce, "unrecognised call in EncodeFields")
	}
	return out, nil
}

// ---- sub-parameter access:  recv.X  /  recv.X[i]   followed by .getHeader()
func (t *tr) subHeaderCall(e ast.Expr, wantShape string, idx string) (int, int64, error) {
	ce, ok := e.(*ast.CallExpr)
	if !ok || len(ce.Args) != 0 {
		return 0, 0, t.fail(e, "expected <sub>.getHeader()")
	}
	se, ok := ce.Fun.(*ast.SelectorExpr)
	if !ok || se.Sel.Name != "getHeader" {
		return 0, 0, t.fail(e, "expected <sub>.getHeader()")
	}
	target := se.X
	if wantShape == "SSlice" {
		ie, ok := target.(*ast.IndexExpr)
		if !ok || !isIdent(ie.Index, idx) {
			return 0, 0, t.fail(e, "expected %s.X[%s].getHeader()", t.recv, idx)
		}
		target = ie.X
	}
	i, ok := t.fieldSel(target)
	if !ok {
		return 0, 0, t.fail(e, "getHeader of something that is not a field of the receiver")
	}
	g := t.ftypes[i]
	if g.shape != wantShape || g.el.ptid < 0 {
		return 0, 0, t.fail(e, "field %s has Go type %s: not a %s sub-parameter", t.fnames[i], g.coq(), wantShape)
	}
	return i, g.el.ptid, nil
}

// recv.X != nil
func (t *tr) fieldNotNil(e ast.Expr) (int, bool) {
	be, ok := e.(*ast.BinaryExpr)
	if !ok || be.Op != token.NEQ || !isIdent(be.Y, "nil") {
		return 0, false
	}
	return t.fieldSel(be.X)
}

// `sh := X.getHeader(); ph.sz += sh.sz; ph.subs = append(ph.subs, sh)`
func (t *tr) formA(list []ast.Stmt, wantShape, idx string, at ast.Node) (int, int64, error) {
	if len(list) != 3 {
		return 0, 0, t.fail(at, "expected exactly `sh := X.getHeader(); ph.sz += sh.sz; ph.subs = append(ph.subs, sh)`")
	}
	a0, ok := list[0].(*ast.AssignStmt)
	if !ok || a0.Tok != token.DEFINE || len(a0.Lhs) != 1 || len(a0.Rhs) != 1 || !isIdent(a0.Lhs[0], "sh") {
		return 0, 0, t.fail(list[0], "expected `sh := X.getHeader()`")
	}
	i, tid, err := t.subHeaderCall(a0.Rhs[0], wantShape, idx)
	if err != nil {
		return 0, 0, err
	}
	a1, ok := list[1].(*ast.AssignStmt)
	if !ok || a1.Tok != token.ADD_ASSIGN || len(a1.Lhs) != 1 || len(a1.Rhs) != 1 || !isSel(a1.Lhs[0], "ph", "sz") || !isSel(a1.Rhs[0], "sh", "sz") {
		return 0, 0, t.fail(list[1], "expected `ph.sz += sh.sz`")
	}
	a2, ok := list[2].(*ast.AssignStmt)
	if !ok || a2.Tok != token.ASSIGN || len(a2.Lhs) != 1 || len(a2.Rhs) != 1 || !isSel(a2.Lhs[0], "ph", "subs") {
		return 0, 0, t.fail(list[2], "expected `ph.subs = append(ph.subs, sh)`")
	}
	ap, ok := a2.Rhs[0].(*ast.CallExpr)
	if !ok || !isIdent(ap.Fun, "append") || len(ap.Args) != 2 || !isSel(ap.Args[0], "ph", "subs") || !isIdent(ap.Args[1], "sh") || ap.Ellipsis.IsValid() {
		return 0, 0, t.fail(list[2], "expected `ph.subs = append(ph.subs, sh)`")
	}
	return i, tid, nil
}

// `ph.subs = append(ph.subs, X.getHeader()); ph.sz += ph.subs[len(ph.subs)-1].sz`
func (t *tr) formB(s0, s1 ast.Stmt) (int, int64, error) {
	a0, ok := s0.(*ast.AssignStmt)
	if !ok || a0.Tok != token.ASSIGN || len(a0.Lhs) != 1 || len(a0.Rhs) != 1 || !isSel(a0.Lhs[0], "ph", "subs") {
		return 0, 0, t.fail(s0, "expected `ph.subs = append(ph.subs, X.getHeader())`")
	}
	ap, ok := a0.Rhs[0].(*ast.CallExpr)
	if !ok || !isIdent(ap.Fun, "append") || len(ap.Args) != 2 || !isSel(ap.Args[0], "ph", "subs") || ap.Ellipsis.IsValid() {
		return 0, 0, t.fail(s0, "expected `ph.subs = append(ph.subs, X.getHeader())`")
	}
	i, tid, err := t.subHeaderCall(ap.Args[1], "SPlain", "")
	if err != nil {
		return 0, 0, err
	}
	bad := func() (int, int64, error) {
		return 0, 0, t.fail(s1, "expected `ph.sz += ph.subs[len(ph.subs)-1].sz`")
	}
	a1, ok := s1.(*ast.AssignStmt)
	if !ok || a1.Tok != token.ADD_ASSIGN || len(a1.Lhs) != 1 || len(a1.Rhs) != 1 || !isSel(a1.Lhs[0], "ph", "sz") {
		return bad()
	}
	se, ok := a1.Rhs[0].(*ast.SelectorExpr)
	if !ok || se.Sel.Name != "sz" {
		return bad()
	}
	ie, ok := se.X.(*ast.IndexExpr)
	if !ok || !isSel(ie.X, "ph", "subs") {
		return bad()
	}
	be, ok := ie.Index.(*ast.BinaryExpr)
	if !ok || be.Op != token.SUB {
		return bad()
	}
	if one, ok := intLit(be.Y); !ok || one != 1 {
		return bad()
	}
	lc, ok := be.X.(*ast.CallExpr)
	if !ok || !isIdent(lc.Fun, "len") || len(lc.Args) != 1 || !isSel(lc.Args[0], "ph", "subs") {
		return bad()
	}
	return i, tid, nil
}

// conditions of a switch case: atoms joined by &&, each `recv.X.F != nil|0` or `recv.X != 0`
func (t *tr) caseCond(e ast.Expr, sub int) ([]string, error) {
	if be, ok := e.(*ast.BinaryExpr); ok && be.Op == token.LAND {
		a, err := t.caseCond(be.X, sub)
		if err != nil {
			return nil, err
		}
		b, err := t.caseCond(be.Y, sub)
		if err != nil {
			return nil, err
		}
		return append(a, b...), nil
	}
	t.nodes++
	be, ok := e.(*ast.BinaryExpr)
	if !ok || be.Op != token.NEQ {
		return nil, t.fail(e, "unrecognised case condition")
	}
	var ctor string
	if isIdent(be.Y, "nil") {
		ctor = "CNeNil"
	} else if z, ok := intLit(be.Y); ok && z == 0 {
		ctor = "CNeZero"
	} else {
		return nil, t.fail(e, "case condition must compare with nil or 0")
	}
	subName := t.fnames[sub]
	subType := t.pf.typeNameOfField(t.tname, subName)
	if i, ok := t.fieldSel(be.X); ok {
		// recv.X != 0 with X an inline parameter type
		if i != sub {
			return nil, t.fail(e, "case condition is about another field than the case body")
		}
		g := t.ftypes[i]
		if ctor != "CNeZero" || g.el.kind != "int" {
			return nil, t.fail(e, "comparison of a non-integer sub-parameter")
		}
		return []string{"CNeZero 0"}, nil
	}
	se, ok := be.X.(*ast.SelectorExpr)
	if !ok {
		return nil, t.fail(e, "unrecognised case condition")
	}
	i, ok := t.fieldSel(se.X)
	if !ok || i != sub {
		return nil, t.fail(e, "case condition is about another field than the case body")
	}
	// position of F inside the sub-parameter's struct
	st := &tr{pf: t.pf, tname: subType}
	if err := st.structDecl(); err != nil || st.inline {
		return nil, t.fail(e, "cannot resolve the struct of %s", subType)
	}
	g, ok := st.fidx[se.Sel.Name]
	if !ok {
		return nil, t.fail(e, "%s has no field %s", subType, se.Sel.Name)
	}
	gt := st.ftypes[g]
	if ctor == "CNeNil" && gt.shape == "SPlain" {
		return nil, t.fail(e, "comparison of a non-pointer, non-slice field with nil")
	}
	if ctor == "CNeZero" && !isInt(gt) {
		return nil, t.fail(e, "comparison of a non-integer field with 0")
	}
	return []string{fmt.Sprintf("%s %d", ctor, g)}, nil
}

func (pf *facts) typeNameOfField(tname, fname string) string {
	ts := pf.types[tname]
	if ts == nil {
		return ""
	}
	st, ok := ts.Type.(*ast.StructType)
	if !ok {
		return ""
	}
	for _, fl := range st.Fields.List {
		for _, nm := range fl.Names {
			if nm.Name == fname {
				e := fl.Type
				if s, ok := e.(*ast.StarExpr); ok {
					e = s.X
				}
				if a, ok := e.(*ast.ArrayType); ok {
					e = a.Elt
				}
				if id, ok := e.(*ast.Ident); ok {
					return id.Name
				}
			}
		}
	}
	return ""
}

// the statements of getHeader after `ph := paramHeader{...}` up to `return ph`
func (t *tr) subStmts(list []ast.Stmt) ([]string, error) {
	var out []string
	for k := 0; k < len(list); k++ {
		t.nodes++
		switch s := list[k].(type) {
		case *ast.RangeStmt:
			if s.Tok != token.DEFINE || s.Value != nil || s.Key == nil {
				return nil, t.fail(s, "expected `for i := range p.X`")
			}
			key, ok := s.Key.(*ast.Ident)
			if !ok {
				return nil, t.fail(s, "expected `for i := range p.X`")
			}
			fi, ok := t.fieldSel(s.X)
			if !ok {
				return nil, t.fail(s.X, "range over something that is not a field of the receiver")
			}
			i, tid, err := t.formA(s.Body.List, "SSlice", key.Name, s)
			if err != nil {
				return nil, err
			}
			if i != fi {
				return nil, t.fail(s, "loop ranges over %s but takes the headers of %s", t.fnames[fi], t.fnames[i])
			}
			out = append(out, fmt.Sprintf("SMany %d %d", i, tid))
		case *ast.IfStmt:
			if s.Init != nil || s.Else != nil {
				return nil, t.fail(s, "unrecognised if statement in getHeader")
			}
			fi, ok := t.fieldNotNil(s.Cond)
			if !ok {
				return nil, t.fail(s.Cond, "expected `p.X != nil`")
			}
			i, tid, err := t.formA(s.Body.List, "SPtr", "", s)
			if err != nil {
				return nil, err
			}
			if i != fi {
				return nil, t.fail(s, "tests %s but takes the header of %s", t.fnames[fi], t.fnames[i])
			}
			out = append(out, fmt.Sprintf("SOpt %d %d", i, tid))
		case *ast.SwitchStmt:
			if s.Init != nil || s.Tag != nil {
				return nil, t.fail(s, "expected a tagless switch")
			}
			var cases []string
			for _, c := range s.Body.List {
				cc, ok := c.(*ast.CaseClause)
				if !ok || len(cc.List) != 1 {
					return nil, t.fail(c, "expected `case <cond>:` (no default, one condition)")
				}
				if len(cc.Body) != 2 {
					return nil, t.fail(c, "expected two statements in the case body")
				}
				i, tid, err := t.formB(cc.Body[0], cc.Body[1])
				if err != nil {
					return nil, err
				}
				conds, err := t.caseCond(cc.List[0], i)
				if err != nil {
					return nil, err
				}
				cases = append(cases, fmt.Sprintf("(%s, %d, %d)", coqList(conds), i, tid))
			}
			out = append(out, "SSwitch "+coqList(cases))
		case *ast.AssignStmt:
			if k+1 >= len(list) {
				return nil, t.fail(s, "append without the size update that must follow it")
			}
			i, tid, err := t.formB(list[k], list[k+1])
			if err != nil {
				return nil, err
			}
			k++
			out = append(out, fmt.Sprintf("SOne %d %d", i, tid))
		default:
			return nil, t.fail(list[k], "unrecognised statement in getHeader")
		}
	}
	return out, nil
}

// INT + term + term ...   (left-assoc)
func flattenAdd(e ast.Expr) []ast.Expr {
	if be, ok := e.(*ast.BinaryExpr); ok && be.Op == token.ADD {
		return append(flattenAdd(be.X), be.Y)
	}
	return []ast.Expr{e}
}

func unparen(e ast.Expr) (ast.Expr, bool) {
	p, ok := e.(*ast.ParenExpr)
	if !ok {
		return e, false
	}
	return p.X, true
}

// uint16(len(p.X)) | uint16(len(p.X)*K) | uint16(((int(p.X)-A)>>B)+C)
func (t *tr) szTerm(e ast.Expr) (string, error) {
	t.nodes++
	ce, ok := e.(*ast.CallExpr)
	if !ok || !isIdent(ce.Fun, "uint16") || len(ce.Args) != 1 {
		return "", t.fail(e, "size term must be uint16(...)")
	}
	arg := ce.Args[0]
	lenOf := func(x ast.Expr) (int, bool) {
		lc, ok := x.(*ast.CallExpr)
		if !ok || !isIdent(lc.Fun, "len") || len(lc.Args) != 1 {
			return 0, false
		}
		i, ok := t.fieldSel(lc.Args[0])
		if !ok {
			return 0, false
		}
		g := t.ftypes[i]
		if (g.shape == "SSlice" && (g.el.kind == "int" || g.el.kind == "u8")) || (g.shape == "SPlain" && g.el.kind == "string") {
			return i, true
		}
		return 0, false
	}
	if i, ok := lenOf(arg); ok {
		return fmt.Sprintf("SzLen %d 1", i), nil
	}
	if be, ok := arg.(*ast.BinaryExpr); ok {
		if be.Op == token.MUL {
			if i, ok := lenOf(be.X); ok {
				if k, ok := intLit(be.Y); ok {
					return fmt.Sprintf("SzLen %d %d", i, k), nil
				}
			}
		}
		if be.Op == token.ADD {
			// ((int(p.X)-A)>>B)+C
			c, ok1 := intLit(be.Y)
			in, ok2 := unparen(be.X)
			sh, ok3 := in.(*ast.BinaryExpr)
			if ok1 && ok2 && ok3 && sh.Op == token.SHR {
				b, ok4 := intLit(sh.Y)
				in2, ok5 := unparen(sh.X)
				sb, ok6 := in2.(*ast.BinaryExpr)
				if ok4 && ok5 && ok6 && sb.Op == token.SUB {
					a, ok7 := intLit(sb.Y)
					cv, ok8 := sb.X.(*ast.CallExpr)
					if ok7 && ok8 && isIdent(cv.Fun, "int") && len(cv.Args) == 1 {
						if i, ok := t.fieldSel(cv.Args[0]); ok && isInt(t.ftypes[i]) {
							return fmt.Sprintf("SzBits %d %d %d %d", i, a, b, c), nil
						}
					}
				}
			}
		}
	}
	return "", t.fail(e, "unrecognised size term")
}

type hdrIR struct {
	ptype   int64
	base    int64
	terms   []string
	nparams string
	subs    []string
}

func (h *hdrIR) coq() string {
	return fmt.Sprintf("{| h_ptype := %d; h_base := %d; h_terms := %s;\n        h_nparams := %s;\n        h_subs := %s |}",
		h.ptype, h.base, coqList(h.terms), h.nparams, coqList(h.subs))
}

func (t *tr) getHeader(fd *ast.FuncDecl) (*hdrIR, error) {
	if err := checkSig(t.pf, fd, nil, []string{"paramHeader"}); err != nil {
		return nil, err
	}
	_, ptr, rv := recvType(fd)
	if !ptr {
		return nil, t.fail(fd, "getHeader must have a pointer receiver")
	}
	t.recv = rv
	list := fd.Body.List
	h := &hdrIR{nparams: "None"}
	k := 0
	hasN := false
	var npConst string = "None"
	var npLens, npOpts []string
	// nParams := ...
	if k < len(list) {
		if as, ok := list[k].(*ast.AssignStmt); ok && as.Tok == token.DEFINE && len(as.Lhs) == 1 && isIdent(as.Lhs[0], "nParams") && len(as.Rhs) == 1 {
			t.nodes++
			hasN = true
			for j, term := range flattenAdd(as.Rhs[0]) {
				if v, ok := intLit(term); ok && j == 0 {
					npConst = fmt.Sprintf("(Some %d)", v)
					continue
				}
				lc, ok := term.(*ast.CallExpr)
				if ok && isIdent(lc.Fun, "len") && len(lc.Args) == 1 {
					if i, ok := t.fieldSel(lc.Args[0]); ok && t.ftypes[i].shape == "SSlice" {
						npLens = append(npLens, strconv.Itoa(i))
						continue
					}
				}
				return nil, t.fail(term, "unrecognised term of nParams")
			}
			k++
			for k < len(list) {
				is, ok := list[k].(*ast.IfStmt)
				if !ok || is.Init != nil || is.Else != nil || len(is.Body.List) != 1 {
					break
				}
				inc, ok := is.Body.List[0].(*ast.IncDecStmt)
				if !ok || inc.Tok != token.INC || !isIdent(inc.X, "nParams") {
					break
				}
				i, ok := t.fieldNotNil(is.Cond)
				if !ok || t.ftypes[i].shape != "SPtr" {
					return nil, t.fail(is.Cond, "expected `p.X != nil` on a pointer field")
				}
				t.nodes++
				npOpts = append(npOpts, strconv.Itoa(i))
				k++
			}
		}
	}
	if k >= len(list) {
		return nil, t.fail(fd, "getHeader has no paramHeader literal")
	}
	var lit *ast.CompositeLit
	returned := false
	switch s := list[k].(type) {
	case *ast.ReturnStmt:
		if len(s.Results) == 1 {
			lit, _ = s.Results[0].(*ast.CompositeLit)
		}
		returned = true
	case *ast.AssignStmt:
		if s.Tok == token.DEFINE && len(s.Lhs) == 1 && len(s.Rhs) == 1 && isIdent(s.Lhs[0], "ph") {
			lit, _ = s.Rhs[0].(*ast.CompositeLit)
		}
	}
	if lit == nil || !isIdent(lit.Type, "paramHeader") {
		return nil, t.fail(list[k], "expected `ph := paramHeader{...}` or `return paramHeader{...}`")
	}
	t.nodes++
	seen := map[string]bool{}
	usesN := false
	for _, el := range lit.Elts {
		kv, ok := el.(*ast.KeyValueExpr)
		if !ok {
			return nil, t.fail(el, "paramHeader literal must use field names")
		}
		key, ok := kv.Key.(*ast.Ident)
		if !ok || seen[key.Name] {
			return nil, t.fail(el, "bad or repeated key")
		}
		seen[key.Name] = true
		switch key.Name {
		case "ParamType":
			id, ok := kv.Value.(*ast.Ident)
			if !ok {
				return nil, t.fail(kv.Value, "ParamType must be a ParamXxx constant")
			}
			v, ok := t.pf.pconst[id.Name]
			if !ok {
				return nil, t.fail(kv.Value, "unknown ParamType constant")
			}
			h.ptype = v
		case "data":
			if !isIdent(kv.Value, t.recv) {
				return nil, t.fail(kv.Value, "data must be the receiver")
			}
		case "sz":
			terms := flattenAdd(kv.Value)
			b, ok := intLit(terms[0])
			if !ok {
				return nil, t.fail(terms[0], "size must start with an integer literal")
			}
			h.base = b
			for _, te := range terms[1:] {
				s, err := t.szTerm(te)
				if err != nil {
					return nil, err
				}
				h.terms = append(h.terms, s)
			}
		case "subs":
			mk, ok := kv.Value.(*ast.CallExpr)
			okk := ok && isIdent(mk.Fun, "make") && len(mk.Args) == 3
			if okk {
				at, ok := mk.Args[0].(*ast.ArrayType)
				z, okz := intLit(mk.Args[1])
				okk = ok && at.Len == nil && isIdent(at.Elt, "paramHeader") && okz && z == 0 && isIdent(mk.Args[2], "nParams")
			}
			if !okk {
				return nil, t.fail(kv.Value, "expected make([]paramHeader, 0, nParams)")
			}
			usesN = true
		default:
			return nil, t.fail(el, "unknown paramHeader field")
		}
	}
	if !seen["ParamType"] || !seen["data"] || !seen["sz"] {
		return nil, t.fail(lit, "paramHeader literal lacks ParamType, data or sz")
	}
	if hasN != usesN {
		return nil, t.fail(lit, "nParams declared but not used as the capacity of subs (or the reverse)")
	}
	if hasN {
		h.nparams = fmt.Sprintf("(Some {| np_const := %s; np_lens := %s; np_opts := %s |})", npConst, coqList(npLens), coqList(npOpts))
	}
	k++
	if returned {
		if k != len(list) {
			return nil, t.fail(list[k], "statements after return")
		}
		return h, nil
	}
	if k >= len(list) {
		return nil, t.fail(fd, "getHeader does not return")
	}
	rs, ok := list[len(list)-1].(*ast.ReturnStmt)
	if !ok || len(rs.Results) != 1 || !isIdent(rs.Results[0], "ph") {
		return nil, t.fail(list[len(list)-1], "expected `return ph`")
	}
	subs, err := t.subStmts(list[k : len(list)-1])
	if err != nil {
		return nil, err
	}
	h.subs = subs
	return h, nil
}

// ---- MarshalBinary
// `b := bytes.Buffer{}`
func (t *tr) isBufDecl(s ast.Stmt) bool {
	as, ok := s.(*ast.AssignStmt)
	if !ok || as.Tok != token.DEFINE || len(as.Lhs) != 1 || len(as.Rhs) != 1 || !isIdent(as.Lhs[0], "b") {
		return false
	}
	cl, ok := as.Rhs[0].(*ast.CompositeLit)
	return ok && len(cl.Elts) == 0 && isSel(cl.Type, "bytes", "Buffer")
}

func isAddrB(e ast.Expr) bool {
	u, ok := e.(*ast.UnaryExpr)
	return ok && u.Op == token.AND && isIdent(u.X, "b")
}

// if err := encodeParams(&b, <X>.getHeader()); err != nil { return nil, err }
func (t *tr) encodeParamsCall(s ast.Stmt) (ast.Expr, error) {
	ce, err := t.errIf(s, 1, "nilerr")
	if err != nil {
		return nil, err
	}
	if !isIdent(ce.Fun, "encodeParams") || len(ce.Args) != 2 || !isAddrB(ce.Args[0]) || ce.Ellipsis.IsValid() {
		return nil, t.fail(ce, "expected encodeParams(&b, X.getHeader())")
	}
	return ce.Args[1], nil
}

func (t *tr) marshal(fd *ast.FuncDecl, isMsg bool) (strip int64, subs []string, err error) {
	if err := checkSig(t.pf, fd, nil, []string{"[]byte", "error"}); err != nil {
		return 0, nil, err
	}
	_, ptr, rv := recvType(fd)
	if !ptr {
		return 0, nil, t.fail(fd, "MarshalBinary must have a pointer receiver")
	}
	t.recv = rv
	list := fd.Body.List
	if len(list) < 3 || !t.isBufDecl(list[0]) {
		return 0, nil, t.fail(fd, "MarshalBinary must start with `b := bytes.Buffer{}`")
	}
	t.nodes++
	rs, ok := list[len(list)-1].(*ast.ReturnStmt)
	if !ok || len(rs.Results) != 2 || !isIdent(rs.Results[1], "nil") {
		return 0, nil, t.fail(list[len(list)-1], "expected `return b.Bytes()..., nil`")
	}
	isBytes := func(e ast.Expr) bool {
		ce, ok := e.(*ast.CallExpr)
		return ok && len(ce.Args) == 0 && isSel(ce.Fun, "b", "Bytes")
	}
	if !isMsg {
		// encodeParams(&b, p.getHeader()); return b.Bytes()[K:], nil
		if len(list) != 3 {
			return 0, nil, t.fail(fd, "parameter MarshalBinary must be `b := ...; encodeParams(&b, p.getHeader()); return b.Bytes()[k:], nil`")
		}
		arg, err := t.encodeParamsCall(list[1])
		if err != nil {
			return 0, nil, err
		}
		ce, ok := arg.(*ast.CallExpr)
		if !ok || len(ce.Args) != 0 || !isSel(ce.Fun, t.recv, "getHeader") {
			return 0, nil, t.fail(arg, "expected %s.getHeader()", t.recv)
		}
		sl, ok := rs.Results[0].(*ast.SliceExpr)
		if !ok || sl.High != nil || sl.Max != nil || sl.Low == nil || !isBytes(sl.X) {
			return 0, nil, t.fail(rs, "expected `return b.Bytes()[k:], nil`")
		}
		k, ok := intLit(sl.Low)
		if !ok {
			return 0, nil, t.fail(sl.Low, "slice bound is not a literal")
		}
		t.nodes += 2
		return k, nil, nil
	}
	if !isBytes(rs.Results[0]) {
		return 0, nil, t.fail(rs, "expected `return b.Bytes(), nil`")
	}
	// if err := m.EncodeFields(&b); err != nil { return nil, err }
	ce, err := t.errIf(list[1], 1, "nilerr")
	if err != nil {
		return 0, nil, err
	}
	if !isSel(ce.Fun, t.recv, "EncodeFields") || len(ce.Args) != 1 || !isAddrB(ce.Args[0]) {
		return 0, nil, t.fail(ce, "expected %s.EncodeFields(&b)", t.recv)
	}
	t.nodes += 2
	for _, s := range list[2 : len(list)-1] {
		t.nodes++
		switch s := s.(type) {
		case *ast.RangeStmt:
			key, ok := s.Key.(*ast.Ident)
			if s.Tok != token.DEFINE || s.Value != nil || !ok || len(s.Body.List) != 1 {
				return 0, nil, t.fail(s, "expected `for i := range m.X { encodeParams(...) }`")
			}
			fi, ok := t.fieldSel(s.X)
			if !ok {
				return 0, nil, t.fail(s.X, "range over something that is not a field of the receiver")
			}
			arg, err := t.encodeParamsCall(s.Body.List[0])
			if err != nil {
				return 0, nil, err
			}
			i, tid, err := t.subHeaderCall(arg, "SSlice", key.Name)
			if err != nil {
				return 0, nil, err
			}
			if i != fi {
				return 0, nil, t.fail(s, "loop ranges over %s but encodes %s", t.fnames[fi], t.fnames[i])
			}
			subs = append(subs, fmt.Sprintf("SMany %d %d", i, tid))
		case *ast.IfStmt:
			if s.Init == nil {
				fi, ok := t.fieldNotNil(s.Cond)
				if !ok || s.Else != nil || len(s.Body.List) != 1 {
					return 0, nil, t.fail(s, "expected `if m.X != nil { encodeParams(...) }`")
				}
				arg, err := t.encodeParamsCall(s.Body.List[0])
				if err != nil {
					return 0, nil, err
				}
				i, tid, err := t.subHeaderCall(arg, "SPtr", "")
				if err != nil {
					return 0, nil, err
				}
				if i != fi {
					return 0, nil, t.fail(s, "tests %s but encodes %s", t.fnames[fi], t.fnames[i])
				}
				subs = append(subs, fmt.Sprintf("SOpt %d %d", i, tid))
				continue
			}
			arg, err := t.encodeParamsCall(s)
			if err != nil {
				return 0, nil, err
			}
			i, tid, err := t.subHeaderCall(arg, "SPlain", "")
			if err != nil {
				return 0, nil, err
			}
			subs = append(subs, fmt.Sprintf("SOne %d %d", i, tid))
		default:
			return 0, nil, t.fail(s, "unrecognised statement in MarshalBinary")
		}
	}
	return 0, subs, nil
}

// ---------------------------------------------------------------- the hand-written plumbing
type globIR struct {
	ne, le, bt, bf int64
	tv, tlv        []string
	errs           []string
	nodes          int
}

// func (pt ParamType) IsTV() bool { return pt != A && pt <= B }
func (pf *facts) isTV(g *globIR) error {
	fd := pf.methods["ParamType"]["IsTV"]
	if fd == nil {
		return &trErr{"params.go: ParamType.IsTV not found"}
	}
	_, ptr, rv := recvType(fd)
	if ptr || len(fd.Body.List) != 1 {
		return pf.fail(fd, "unrecognised IsTV")
	}
	rs, ok := fd.Body.List[0].(*ast.ReturnStmt)
	if !ok || len(rs.Results) != 1 {
		return pf.fail(fd, "unrecognised IsTV")
	}
	be, ok := rs.Results[0].(*ast.BinaryExpr)
	if !ok || be.Op != token.LAND {
		return pf.fail(rs, "expected `pt != a && pt <= b`")
	}
	l, ok1 := be.X.(*ast.BinaryExpr)
	r, ok2 := be.Y.(*ast.BinaryExpr)
	if !ok1 || !ok2 || l.Op != token.NEQ || r.Op != token.LEQ || !isIdent(l.X, rv) || !isIdent(r.X, rv) {
		return pf.fail(rs, "expected `pt != a && pt <= b`")
	}
	a, oka := intLit(l.Y)
	b, okb := intLit(r.Y)
	if !oka || !okb {
		return pf.fail(rs, "expected integer literals")
	}
	g.ne, g.le = a, b
	g.nodes += 3
	return nil
}

// func b2b(b bool) byte { if b { return T }; return F }
func (pf *facts) b2b(g *globIR) error {
	fd := pf.funcs["b2b"]
	if fd == nil {
		return &trErr{"generated_marshal.go: b2b not found"}
	}
	if err := checkSig(pf, fd, []string{"bool"}, []string{"byte"}); err != nil {
		return err
	}
	arg := fd.Type.Params.List[0].Names[0].Name
	if len(fd.Body.List) != 2 {
		return pf.fail(fd, "unrecognised b2b")
	}
	is, ok := fd.Body.List[0].(*ast.IfStmt)
	if !ok || is.Init != nil || is.Else != nil || !isIdent(is.Cond, arg) || len(is.Body.List) != 1 {
		return pf.fail(fd, "unrecognised b2b")
	}
	r1, ok1 := is.Body.List[0].(*ast.ReturnStmt)
	r2, ok2 := fd.Body.List[1].(*ast.ReturnStmt)
	if !ok1 || !ok2 || len(r1.Results) != 1 || len(r2.Results) != 1 {
		return pf.fail(fd, "unrecognised b2b")
	}
	a, oka := intLit(r1.Results[0])
	b, okb := intLit(r2.Results[0])
	if !oka || !okb {
		return pf.fail(fd, "unrecognised b2b")
	}
	g.bt, g.bf = a, b
	g.nodes += 3
	return nil
}

// encodeParams, exactly the shape of msg_builder.go
func (pf *facts) encodeParams(g *globIR) error {
	ts := pf.types["paramHeader"]
	if ts == nil {
		return &trErr{"msg_builder.go: type paramHeader not found"}
	}
	st, ok := ts.Type.(*ast.StructType)
	if !ok {
		return pf.fail(ts, "paramHeader is not a struct")
	}
	// positions of the fields of paramHeader; the embedded ParamType counts under its type name
	t := &tr{pf: pf, tname: "paramHeader", fidx: map[string]int{}}
	var want = map[string]string{"ParamType": "ParamType", "sz": "uint16", "data": "fieldEncoder", "subs": "[]paramHeader"}
	for _, fl := range st.Fields.List {
		names := []string{}
		for _, nm := range fl.Names {
			names = append(names, nm.Name)
		}
		if len(names) == 0 {
			if id, ok := fl.Type.(*ast.Ident); ok {
				names = []string{id.Name}
			}
		}
		for _, nm := range names {
			if want[nm] != pf.src(fl.Type) {
				return pf.fail(fl, "unexpected field of paramHeader")
			}
			t.fidx[nm] = len(t.fnames)
			t.fnames = append(t.fnames, nm)
			el := elem{"param", 0, -1}
			if nm == "ParamType" || nm == "sz" {
				el = elem{"int", 2, -1}
			}
			t.ftypes = append(t.ftypes, gtype{"SPlain", el})
		}
	}
	if len(t.fnames) != 4 {
		return pf.fail(ts, "paramHeader must have exactly ParamType, sz, data, subs")
	}
	fd := pf.funcs["encodeParams"]
	if fd == nil {
		return &trErr{"msg_builder.go: encodeParams not found"}
	}
	if len(fd.Type.Params.List) != 2 || pf.src(fd.Type.Params.List[0].Type) != "io.Writer" || pf.src(fd.Type.Params.List[1].Type) != "...paramHeader" ||
		fd.Type.Results == nil || len(fd.Type.Results.List) != 1 || pf.src(fd.Type.Results.List[0].Type) != "error" {
		return pf.fail(fd.Type, "unexpected signature of encodeParams")
	}
	w := fd.Type.Params.List[0].Names[0].Name
	hs := fd.Type.Params.List[1].Names[0].Name
	if len(fd.Body.List) != 2 {
		return pf.fail(fd, "encodeParams must be one loop and `return nil`")
	}
	rs, ok := fd.Body.List[1].(*ast.ReturnStmt)
	if !ok || len(rs.Results) != 1 || !isIdent(rs.Results[0], "nil") {
		return pf.fail(fd.Body.List[1], "expected `return nil`")
	}
	loop, ok := fd.Body.List[0].(*ast.RangeStmt)
	if !ok || loop.Tok != token.DEFINE || !isIdent(loop.Key, "_") || loop.Value == nil || !isIdent(loop.X, hs) {
		return pf.fail(fd.Body.List[0], "expected `for _, h := range headers`")
	}
	h := loop.Value.(*ast.Ident).Name
	t.recv = h
	body := loop.Body.List
	if len(body) != 3 {
		return pf.fail(loop, "loop body must be: header write; EncodeFields; encodeParams of the subs")
	}
	// if h.ParamType.IsTV() { write TV } else { write TLV }
	is, ok := body[0].(*ast.IfStmt)
	if !ok || is.Init != nil || is.Else == nil {
		return pf.fail(body[0], "expected `if h.ParamType.IsTV() {...} else {...}`")
	}
	cc, ok := is.Cond.(*ast.CallExpr)
	okc := ok && len(cc.Args) == 0
	if okc {
		se, ok := cc.Fun.(*ast.SelectorExpr)
		okc = ok && se.Sel.Name == "IsTV" && isSel(se.X, h, "ParamType")
	}
	if !okc {
		return pf.fail(is.Cond, "expected h.ParamType.IsTV()")
	}
	// one header write: if n, err := w.Write([]byte{...}); err != nil { return Errorf } else if n < K { return Errorf }
	hdrWrite := func(b *ast.BlockStmt, n int) ([]string, error) {
		if len(b.List) != 1 {
			return nil, pf.fail(b, "expected a single header write")
		}
		wi, ok := b.List[0].(*ast.IfStmt)
		if !ok || wi.Init == nil || !isErrNotNil(wi.Cond) || !t.isErrReturn(wi.Body, "errorf") {
			return nil, pf.fail(b.List[0], "unrecognised header write")
		}
		as, ok := wi.Init.(*ast.AssignStmt)
		if !ok || as.Tok != token.DEFINE || len(as.Lhs) != 2 || len(as.Rhs) != 1 || !isIdent(as.Lhs[0], "n") || !isIdent(as.Lhs[1], "err") {
			return nil, pf.fail(wi, "unrecognised header write")
		}
		ce, ok := as.Rhs[0].(*ast.CallExpr)
		if !ok || !isSel(ce.Fun, w, "Write") || len(ce.Args) != 1 {
			return nil, pf.fail(wi, "expected %s.Write([]byte{...})", w)
		}
		es, isLit, err := t.byteLit(ce.Args[0])
		if !isLit {
			return nil, pf.fail(ce.Args[0], "expected a []byte literal")
		}
		if err != nil {
			return nil, err
		}
		// else if n < K { return Errorf }: only reachable on a short write, K must be the number of bytes
		if wi.Else != nil {
			ei, ok := wi.Else.(*ast.IfStmt)
			if !ok || ei.Init != nil || ei.Else != nil || !t.isErrReturn(ei.Body, "errorf") {
				return nil, pf.fail(wi.Else, "unrecognised short-write check")
			}
			lt, ok := ei.Cond.(*ast.BinaryExpr)
			k, okk := int64(0), false
			if ok {
				k, okk = intLit(lt.Y)
			}
			if !ok || lt.Op != token.LSS || !isIdent(lt.X, "n") || !okk || int(k) != len(es) {
				return nil, pf.fail(ei.Cond, "short-write check must be n < (number of bytes written)")
			}
		}
		if len(es) != n {
			return nil, pf.fail(ce.Args[0], "header must have %d byte(s)", n)
		}
		return es, nil
	}
	var err error
	if g.tv, err = hdrWrite(is.Body, 1); err != nil {
		return err
	}
	eb, ok := is.Else.(*ast.BlockStmt)
	if !ok {
		return pf.fail(is.Else, "expected else block")
	}
	if g.tlv, err = hdrWrite(eb, 4); err != nil {
		return err
	}
	// if err := h.data.EncodeFields(w); err != nil { return err }
	ce, err := t.errIf(body[1], 1, "err")
	if err != nil {
		return err
	}
	se, ok := ce.Fun.(*ast.SelectorExpr)
	if !ok || se.Sel.Name != "EncodeFields" || !isSel(se.X, h, "data") || len(ce.Args) != 1 || !isIdent(ce.Args[0], w) {
		return pf.fail(ce, "expected %s.data.EncodeFields(%s)", h, w)
	}
	// if err := encodeParams(w, h.subs...); err != nil { return err }
	ce, err = t.errIf(body[2], 1, "err")
	if err != nil {
		return err
	}
	if !isIdent(ce.Fun, "encodeParams") || len(ce.Args) != 2 || !isIdent(ce.Args[0], w) || !isSel(ce.Args[1], h, "subs") || !ce.Ellipsis.IsValid() {
		return pf.fail(ce, "expected encodeParams(%s, %s.subs...)", w, h)
	}
	g.nodes += t.nodes + 6
	return nil
}

// ---------------------------------------------------------------- main
type contOut struct {
	Name      string   `json:"name"`
	Msg       bool     `json:"msg"`
	Tid       int64    `json:"tid"`
	Ok        bool     `json:"ok"`
	Error     string   `json:"error,omitempty"`
	Functions []string `json:"functions"`
	Nodes     int      `json:"nodes"`
	Fields    []string `json:"fields"`
	coq       string
}

func (pf *facts) container(name string) *contOut {
	c := &contOut{Name: name, Tid: -1}
	ms := pf.methods[name]
	t := &tr{pf: pf, tname: name}
	fail := func(err error) *contOut {
		c.Ok = false
		c.Error = err.Error()
		c.Nodes = t.nodes
		return c
	}
	// identity first (so that a failure is attributed to a container id)
	if ms["getHeader"] != nil {
		if v, ok := pf.ptidOf(name); ok {
			c.Tid = v
		}
	} else if ty := ms["Type"]; ty != nil && ty.Body != nil && len(ty.Body.List) == 1 {
		c.Msg = true
		if rs, ok := ty.Body.List[0].(*ast.ReturnStmt); ok && len(rs.Results) == 1 {
			if id, ok := rs.Results[0].(*ast.Ident); ok {
				if v, ok := pf.mconst[id.Name]; ok {
					c.Tid = v
				}
			}
		}
	}
	if c.Tid < 0 {
		return fail(&trErr{fmt.Sprintf("%s has EncodeFields but neither a getHeader with a known ParamType nor a Type() returning a MsgXxx constant", name)})
	}
	if err := t.structDecl(); err != nil {
		return fail(err)
	}
	c.Fields = t.fnames
	c.Functions = append(c.Functions, "EncodeFields")
	ws, err := t.encodeFields(ms["EncodeFields"])
	if err != nil {
		return fail(err)
	}
	mb := ms["MarshalBinary"]
	if mb == nil {
		return fail(&trErr{name + " has no MarshalBinary"})
	}
	var body string
	if c.Msg {
		c.Functions = append(c.Functions, "MarshalBinary")
		_, subs, err := t.marshal(mb, true)
		if err != nil {
			return fail(err)
		}
		body = "PMsg " + coqList(subs)
	} else {
		c.Functions = append(c.Functions, "getHeader", "MarshalBinary")
		h, err := t.getHeader(ms["getHeader"])
		if err != nil {
			return fail(err)
		}
		strip, _, err := t.marshal(mb, false)
		if err != nil {
			return fail(err)
		}
		body = fmt.Sprintf("PParam %s %d", h.coq(), strip)
	}
	var st []string
	for _, g := range t.ftypes {
		st = append(st, g.coq())
	}
	inl := "false"
	if t.inline {
		inl = "true"
	}
	c.coq = fmt.Sprintf("{| p_struct := %s; p_inline := %s;\n     p_fields := %s;\n     p_body := %s |}", coqList(st), inl, coqList(ws), body)
	c.Ok = true
	c.Nodes = t.nodes
	return c
}

func main() {
	repo := flag.String("repo", os.Getenv("VERIF_REPO"), "repository root")
	out := flag.String("out", "", "output directory")
	flag.Parse()
	if *repo == "" {
		*repo = "/repo"
	}
	if *out == "" {
		fmt.Fprintln(os.Stderr, "go-enc-ir: -out required")
		os.Exit(2)
	}
	dir := filepath.Join(*repo, "pkg", "llrp")
	pf := &facts{fset: token.NewFileSet(), types: map[string]*ast.TypeSpec{}, pconst: map[string]int64{}, mconst: map[string]int64{},
		methods: map[string]map[string]*ast.FuncDecl{}, funcs: map[string]*ast.FuncDecl{}}
	if err := pf.load(dir); err != nil {
		fmt.Fprintln(os.Stderr, "go-enc-ir:", err)
		os.Exit(1)
	}
	g := &globIR{}
	for _, f := range []func(*globIR) error{pf.isTV, pf.b2b, pf.encodeParams} {
		if err := f(g); err != nil {
			g.errs = append(g.errs, err.Error())
		}
	}
	var conts []*contOut
	seen := map[string]bool{}
	for _, name := range pf.order {
		if seen[name] {
			continue
		}
		seen[name] = true
		conts = append(conts, pf.container(name))
	}
	// types that have getHeader or MarshalBinary-with-encodeParams but no EncodeFields would be unreachable for
	// encodeParams' h.data.EncodeFields: report them as failures as well
	var extra []string
	for name, ms := range pf.methods {
		if ms["getHeader"] != nil && ms["EncodeFields"] == nil {
			extra = append(extra, name)
		}
	}
	sort.Strings(extra)
	for _, name := range extra {
		conts = append(conts, &contOut{Name: name, Tid: -1, Error: name + " has getHeader but no EncodeFields"})
	}

	var b strings.Builder
	b.WriteString("(* GENERATED by tools/go-enc-ir from " + dir + " — do not edit *)\n")
	b.WriteString("From Coq Require Import NArith List.\nFrom LLRP Require Import EncIR.IR.\nImport ListNotations.\nOpen Scope N_scope.\n\n")
	if len(g.errs) == 0 {
		fmt.Fprintf(&b, "Definition enc_glob : glob :=\n  {| g_istv_ne := %d; g_istv_le := %d; g_b2b_true := %d; g_b2b_false := %d;\n     g_tv_hdr := %s;\n     g_tlv_hdr := %s |}.\n\n",
			g.ne, g.le, g.bt, g.bf, coqList(g.tv), coqList(g.tlv))
	} else {
		// an untranslatable plumbing function: a glob that cannot match (IsTV accepting nothing, empty headers)
		b.WriteString("(* encodeParams / IsTV / b2b NOT translated: " + commentSafe(strings.Join(g.errs, " | ")) + " *)\n")
		b.WriteString("Definition enc_glob : glob :=\n  {| g_istv_ne := 0; g_istv_le := 0; g_b2b_true := 0; g_b2b_false := 0; g_tv_hdr := []; g_tlv_hdr := [] |}.\n\n")
	}
	var entries []string
	nodes := g.nodes
	nfun := 3
	for _, c := range conts {
		nodes += c.Nodes
		if !c.Ok {
			b.WriteString("(* " + c.Name + " NOT translated: " + commentSafe(c.Error) + " *)\n")
			continue
		}
		nfun += len(c.Functions)
		pre := "p_"
		if c.Msg {
			pre = "m_"
		}
		fmt.Fprintf(&b, "(* %s: fields %s *)\nDefinition prog_%s%s : enc_prog :=\n  %s.\n", c.Name, strings.Join(c.Fields, " "), pre, c.Name, c.coq)
		m := "false"
		if c.Msg {
			m = "true"
		}
		entries = append(entries, fmt.Sprintf("((%s, %d), prog_%s%s)", m, c.Tid, pre, c.Name))
	}
	b.WriteString("\nDefinition enc_programs : list (container_id * enc_prog) :=\n  [" + strings.Join(entries, ";\n   ") + "].\n\n")
	b.WriteString("Definition enc_all : programs := {| ps_glob := enc_glob; ps_progs := enc_programs |}.\n")
	if err := os.MkdirAll(*out, 0o755); err != nil {
		fmt.Fprintln(os.Stderr, "go-enc-ir:", err)
		os.Exit(1)
	}
	if err := os.WriteFile(filepath.Join(*out, "EncPrograms.v"), []byte(b.String()), 0o644); err != nil {
		fmt.Fprintln(os.Stderr, "go-enc-ir:", err)
		os.Exit(1)
	}
	meta := map[string]interface{}{"containers": conts, "glob_errors": g.errs, "functions_translated": nfun, "ir_nodes": nodes,
		"duplicate_definitions": pf.dup}
	js, _ := json.MarshalIndent(meta, "", " ")
	if err := os.WriteFile(filepath.Join(*out, "enc_programs.json"), js, 0o644); err != nil {
		fmt.Fprintln(os.Stderr, "go-enc-ir:", err)
		os.Exit(1)
	}
	nfail := 0
	for _, c := range conts {
		if !c.Ok {
			nfail++
			fmt.Fprintf(os.Stderr, "go-enc-ir: %s: %s\n", c.Name, c.Error)
		}
	}
	for _, e := range g.errs {
		fmt.Fprintln(os.Stderr, "go-enc-ir: plumbing:", e)
	}
	fmt.Printf("go-enc-ir: %d containers, %d failed, %d functions, %d IR nodes\n", len(conts), nfail, nfun, nodes)
}

// commentSafe makes a diagnostic text safe inside a Coq comment: Coq lexes string literals and nested comment brackets
// inside comments too, so an odd number of double quotes or a stray bracket would make the generated file unreadable
func commentSafe(s string) string {
	s = strings.ReplaceAll(s, "\"", "'")
	s = strings.ReplaceAll(s, "(*", "( *")
	return strings.ReplaceAll(s, "*)", "* )")
}
