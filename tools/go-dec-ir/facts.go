// facts.go: package facts shared in shape with tools/go-enc-ir (types, ParamXxx / MsgXxx constants, methods,
// classification of Go struct field types).  Copied, not imported: each tool is a self-contained module.
package main

import (
	"bytes"
	"fmt"
	"go/ast"
	"go/parser"
	"go/printer"
	"go/token"
	"os"
	"path/filepath"
	"strconv"
	"strings"
)

// ---------------------------------------------------------------- package facts
type facts struct {
	fset    *token.FileSet
	types   map[string]*ast.TypeSpec
	pconst  map[string]int64 // ParamXxx = ParamType(N)
	mconst  map[string]int64 // MsgXxx = MessageType(N)
	methods map[string]map[string]*ast.FuncDecl
	funcs   map[string]*ast.FuncDecl
	order   []string // receiver types having EncodeFields, in source order
	dup     []string
}

var basicSize = map[string]int64{"byte": 1, "uint8": 1, "int8": 1, "uint16": 2, "int16": 2,
	"uint32": 4, "int32": 4, "uint64": 8, "int64": 8}

type trErr struct{ msg string }

func (e *trErr) Error() string { return e.msg }

func (pf *facts) src(n ast.Node) string {
	var b bytes.Buffer
	printer.Fprint(&b, pf.fset, n)
	s := strings.Join(strings.Fields(b.String()), " ")
	if len(s) > 140 {
		s = s[:140] + "..."
	}
	return s
}

func (pf *facts) fail(n ast.Node, format string, a ...interface{}) error {
	p := pf.fset.Position(n.Pos())
	return &trErr{fmt.Sprintf("%s:%d:%d: %s: `%s`", filepath.Base(p.Filename), p.Line, p.Column, fmt.Sprintf(format, a...), pf.src(n))}
}

func recvType(fd *ast.FuncDecl) (name string, ptr bool, ident string) {
	if fd.Recv == nil || len(fd.Recv.List) != 1 {
		return "", false, ""
	}
	f := fd.Recv.List[0]
	if len(f.Names) == 1 {
		ident = f.Names[0].Name
	}
	switch t := f.Type.(type) {
	case *ast.StarExpr:
		if id, ok := t.X.(*ast.Ident); ok {
			return id.Name, true, ident
		}
	case *ast.Ident:
		return t.Name, false, ident
	}
	return "", false, ""
}

func (pf *facts) load(dir string) error {
	ents, err := os.ReadDir(dir)
	if err != nil {
		return err
	}
	for _, en := range ents {
		n := en.Name()
		if !strings.HasSuffix(n, ".go") || strings.HasSuffix(n, "_test.go") {
			continue
		}
		f, err := parser.ParseFile(pf.fset, filepath.Join(dir, n), nil, 0)
		if err != nil {
			return err
		}
		for _, d := range f.Decls {
			switch d := d.(type) {
			case *ast.FuncDecl:
				if d.Recv == nil {
					if _, ok := pf.funcs[d.Name.Name]; ok {
						pf.dup = append(pf.dup, d.Name.Name)
					}
					pf.funcs[d.Name.Name] = d
					continue
				}
				rt, _, _ := recvType(d)
				if rt == "" {
					continue
				}
				if pf.methods[rt] == nil {
					pf.methods[rt] = map[string]*ast.FuncDecl{}
				}
				if _, ok := pf.methods[rt][d.Name.Name]; ok {
					pf.dup = append(pf.dup, rt+"."+d.Name.Name)
				}
				pf.methods[rt][d.Name.Name] = d
				if d.Name.Name == "UnmarshalBinary" && n == "generated_unmarshal.go" {
					pf.order = append(pf.order, rt)
				}
			case *ast.GenDecl:
				for _, sp := range d.Specs {
					switch s := sp.(type) {
					case *ast.TypeSpec:
						pf.types[s.Name.Name] = s
					case *ast.ValueSpec:
						if d.Tok != token.CONST {
							continue
						}
						for i, nm := range s.Names {
							if i >= len(s.Values) {
								continue
							}
							ce, ok := s.Values[i].(*ast.CallExpr)
							if !ok || len(ce.Args) != 1 {
								continue
							}
							id, ok := ce.Fun.(*ast.Ident)
							if !ok {
								continue
							}
							v, ok := intLit(ce.Args[0])
							if !ok {
								continue
							}
							switch id.Name {
							case "ParamType":
								pf.pconst[nm.Name] = v
							case "MessageType":
								pf.mconst[nm.Name] = v
							}
						}
					}
				}
			}
		}
	}
	return nil
}

func intLit(e ast.Expr) (int64, bool) {
	bl, ok := e.(*ast.BasicLit)
	if !ok || bl.Kind != token.INT {
		return 0, false
	}
	v, err := strconv.ParseInt(bl.Value, 0, 64)
	if err != nil || v < 0 {
		return 0, false
	}
	return v, true
}

// ---------------------------------------------------------------- Go types of struct fields
type elem struct {
	kind string // u8 bool int string param
	size int64
	ptid int64 // -1: none
}

type gtype struct {
	shape string // SPlain SPtr SSlice
	el    elem
}

func optN(v int64) string {
	if v < 0 {
		return "None"
	}
	return fmt.Sprintf("(Some %d)", v)
}

func (g gtype) coq() string {
	var e string
	switch g.el.kind {
	case "u8":
		e = "EU8"
	case "bool":
		e = "EBool " + optN(g.el.ptid)
	case "int":
		e = fmt.Sprintf("EInt %d %s", g.el.size, optN(g.el.ptid))
	case "string":
		e = "EString"
	case "param":
		e = fmt.Sprintf("EParam %d", g.el.ptid)
	}
	return "(" + g.shape + ", " + e + ")"
}

// the ParamType a type's getHeader puts into its header (light scan; the full translation is separate)
func (pf *facts) ptidOf(tname string) (int64, bool) {
	fd := pf.methods[tname]["getHeader"]
	if fd == nil || fd.Body == nil {
		return -1, false
	}
	var found int64 = -1
	n := 0
	ast.Inspect(fd.Body, func(x ast.Node) bool {
		kv, ok := x.(*ast.KeyValueExpr)
		if !ok {
			return true
		}
		if k, ok := kv.Key.(*ast.Ident); ok && k.Name == "ParamType" {
			if v, ok := kv.Value.(*ast.Ident); ok {
				if c, ok := pf.pconst[v.Name]; ok {
					found = c
					n++
				}
			}
		}
		return true
	})
	return found, n == 1
}

// underlying basic type of a named type: (kind bool|int|string|struct|other, size)
func (pf *facts) underlying(name string, depth int) (string, int64) {
	if depth > 8 {
		return "other", 0
	}
	if name == "bool" {
		return "bool", 1
	}
	if name == "string" {
		return "string", 0
	}
	if sz, ok := basicSize[name]; ok {
		return "int", sz
	}
	ts := pf.types[name]
	if ts == nil {
		return "other", 0
	}
	switch t := ts.Type.(type) {
	case *ast.Ident:
		return pf.underlying(t.Name, depth+1)
	case *ast.StructType:
		return "struct", 0
	}
	return "other", 0
}

func (pf *facts) elemOf(e ast.Expr) (elem, error) {
	id, ok := e.(*ast.Ident)
	if !ok {
		return elem{}, pf.fail(e, "unsupported field element type")
	}
	switch id.Name {
	case "byte", "uint8":
		return elem{"u8", 1, -1}, nil
	case "bool":
		return elem{"bool", 1, -1}, nil
	case "string":
		return elem{"string", 0, -1}, nil
	}
	if sz, ok := basicSize[id.Name]; ok {
		return elem{"int", sz, -1}, nil
	}
	k, sz := pf.underlying(id.Name, 0)
	ptid, has := pf.ptidOf(id.Name)
	if !has {
		if pf.methods[id.Name]["getHeader"] != nil {
			return elem{}, pf.fail(e, "getHeader of %s has no unique `ParamType: ParamXxx`", id.Name)
		}
		ptid = -1
	}
	switch k {
	case "bool":
		return elem{"bool", 1, ptid}, nil
	case "int":
		return elem{"int", sz, ptid}, nil
	case "struct":
		if ptid < 0 {
			return elem{}, pf.fail(e, "struct type %s has no getHeader", id.Name)
		}
		return elem{"param", 0, ptid}, nil
	}
	return elem{}, pf.fail(e, "unsupported field type %s", id.Name)
}

func (pf *facts) classify(e ast.Expr) (gtype, error) {
	switch t := e.(type) {
	case *ast.StarExpr:
		el, err := pf.elemOf(t.X)
		return gtype{"SPtr", el}, err
	case *ast.ArrayType:
		if t.Len != nil {
			return gtype{}, pf.fail(e, "fixed-size Go array")
		}
		el, err := pf.elemOf(t.Elt)
		return gtype{"SSlice", el}, err
	}
	el, err := pf.elemOf(e)
	return gtype{"SPlain", el}, err
}


func (pf *facts) srcFull(n ast.Node) string {
	var b bytes.Buffer
	printer.Fprint(&b, pf.fset, n)
	return b.String()
}

func isIdent(e ast.Expr, name string) bool {
	id, ok := e.(*ast.Ident)
	return ok && id.Name == name
}

func (pf *facts) typeNameOfField(tname, fname string) string {
	ts := pf.types[tname]
	if ts == nil {
		return ""
	}
	st, ok := ts.Type.(*ast.StructType)
	if !ok {
		return ""
	}
	for _, fl := range st.Fields.List {
		for _, nm := range fl.Names {
			if nm.Name == fname {
				e := fl.Type
				if s, ok := e.(*ast.StarExpr); ok {
					e = s.X
				}
				if a, ok := e.(*ast.ArrayType); ok {
					e = a.Elt
				}
				if id, ok := e.(*ast.Ident); ok {
					return id.Name
				}
			}
		}
	}
	return ""
}
