// go-dec-ir: translate every UnmarshalBinary of pkg/llrp/generated_unmarshal.go (and hasEnoughBytes) into the
// value-producing decoder IR of /verif/coq/DecFIR/IR.v.  Standard library only (go/ast, go/parser, go/token,
// go/printer), offline.
//
// usage: go-dec-ir -repo /repo -out build/gen/C01
// writes  <out>/DecPrograms.v    (`dprog_<T> : dec_prog` per container, `dec_programs`, `dec_all : dprograms`)
//         <out>/dec_programs.json (per container: name, msg, tid, ok, error with file:line:col, IR nodes)
//
// One IR node = one statement template of the generator; statements are matched structurally on the AST and their
// leaves on the gofmt-printed source with every constant captured.  Anything that is not recognised makes the
// translation of that container FAIL with its position (the container is then absent from dec_programs, so
// progs_match is false), never skipped.
package main

import (
	"encoding/json"
	"flag"
	"fmt"
	"go/ast"
	"go/token"
	"os"
	"path/filepath"
	"regexp"
	"strconv"
	"strings"
)

type tr struct {
	pf     *facts
	tname  string
	recv   string
	inline bool
	fnames []string
	ftypes []gtype
	fidx   map[string]int
	shape  []string
	nodes  int
}

func (t *tr) fail(n ast.Node, format string, a ...interface{}) error { return t.pf.fail(n, format, a...) }

// printed source without any white space
func (t *tr) s(n ast.Node) string {
	x := t.pf.srcFull(n)
	return strings.Join(strings.Fields(x), "")
}

func (t *tr) structDecl() error {
	ts := t.pf.types[t.tname]
	if ts == nil {
		return &trErr{"no type declaration for " + t.tname}
	}
	t.fidx = map[string]int{}
	switch ty := ts.Type.(type) {
	case *ast.StructType:
		for _, fl := range ty.Fields.List {
			if len(fl.Names) == 0 {
				return t.fail(fl, "embedded field")
			}
			g, err := t.pf.classify(fl.Type)
			if err != nil {
				return err
			}
			for _, nm := range fl.Names {
				t.fidx[nm.Name] = len(t.fnames)
				t.fnames = append(t.fnames, nm.Name)
				t.ftypes = append(t.ftypes, g)
			}
		}
	case *ast.Ident:
		k, sz := t.pf.underlying(ty.Name, 0)
		t.inline = true
		switch k {
		case "bool":
			t.ftypes = []gtype{{"SPlain", elem{"bool", 1, -1}}}
		case "int":
			t.ftypes = []gtype{{"SPlain", elem{"int", sz, -1}}}
		default:
			return t.fail(ts, "inline type with unsupported underlying type")
		}
		t.fnames = []string{"*"}
	default:
		return t.fail(ts, "unsupported type declaration")
	}
	t.shape = make([]string, len(t.ftypes))
	return nil
}

func (t *tr) setShape(i int, z string, at ast.Node) error {
	if t.shape[i] != "" && t.shape[i] != z {
		return t.fail(at, "field %s is stored in two different ways (%s, %s)", t.fnames[i], t.shape[i], z)
	}
	t.shape[i] = z
	return nil
}

// recv.X -> index
func (t *tr) fieldName(name string) (int, bool) {
	i, ok := t.fidx[name]
	return i, ok && !t.inline
}

func atoi(s string) int64 {
	if s == "" {
		return 0
	}
	v, _ := strconv.ParseInt(s, 0, 64)
	return v
}

// ---------------------------------------------------------------- value expressions
// size of the integer type named by a conversion target (0 = not an integer type)
func (t *tr) intTypeSize(name string) int64 {
	k, sz := t.pf.underlying(name, 0)
	if k == "int" {
		return sz
	}
	return 0
}

// -> (coq, size in bytes; 0 for bool)
func (t *tr) dexpr(e ast.Expr) (string, int64, error) {
	t.nodes++
	switch x := e.(type) {
	case *ast.ParenExpr:
		t.nodes--
		return t.dexpr(x.X)
	case *ast.IndexExpr:
		if isIdent(x.X, "data") {
			if k, ok := intLit(x.Index); ok {
				return fmt.Sprintf("(XByte %d)", k), 1, nil
			}
		}
	case *ast.CallExpr:
		if len(x.Args) != 1 {
			break
		}
		if id, ok := x.Fun.(*ast.Ident); ok {
			// conversion T(e) between integer types of the same size: transparent
			sz := t.intTypeSize(id.Name)
			if k, _ := t.pf.underlying(id.Name, 0); k == "bool" {
				// T(b) with T a named bool type
				s, isz, err := t.dexpr(x.Args[0])
				if err != nil {
					return "", 0, err
				}
				if isz != 0 {
					return "", 0, t.fail(e, "conversion of an integer to a bool type")
				}
				t.nodes--
				return s, 0, nil
			}
			if sz == 0 {
				return "", 0, t.fail(e, "conversion to a non-integer type")
			}
			s, isz, err := t.dexpr(x.Args[0])
			if err != nil {
				return "", 0, err
			}
			if isz != sz {
				return "", 0, t.fail(e, "conversion changes the size (%d -> %d bytes)", isz, sz)
			}
			t.nodes--
			return s, sz, nil
		}
		m := reBE.FindStringSubmatch(t.s(x))
		if m != nil {
			return fmt.Sprintf("(XBE %d %d)", atoi(m[1])/8, atoi(m[2])), atoi(m[1]) / 8, nil
		}
	case *ast.BinaryExpr:
		switch x.Op {
		case token.SHR, token.AND:
			k, ok := intLit(x.Y)
			if !ok {
				return "", 0, t.fail(e, "right operand is not an integer literal")
			}
			a, sz, err := t.dexpr(x.X)
			if err != nil {
				return "", 0, err
			}
			if sz == 0 {
				return "", 0, t.fail(e, "arithmetic on a bool")
			}
			if x.Op == token.SHR {
				return fmt.Sprintf("(XShr %s %d)", a, k), sz, nil
			}
			return fmt.Sprintf("(XAnd %s %d)", a, k), sz, nil
		case token.NEQ:
			if z, ok := intLit(x.Y); ok && z == 0 {
				a, sz, err := t.dexpr(x.X)
				if err != nil {
					return "", 0, err
				}
				if sz == 0 {
					return "", 0, t.fail(e, "comparison of a bool with 0")
				}
				return "(XNeZero " + a + ")", 0, nil
			}
		}
	}
	return "", 0, t.fail(e, "unrecognised value expression")
}

var reBE = regexp.MustCompile(`^binary\.BigEndian\.Uint(16|32|64)\(data(?:\[(\d+):\])?\)$`)

// the field's Go type must be able to hold a value of `sz` bytes (0 = bool)
func (t *tr) checkStoreType(i int, sz int64, ptr bool, at ast.Node) error {
	g := t.ftypes[i]
	want := "SPlain"
	if ptr {
		want = "SPtr"
	}
	if g.shape != want {
		return t.fail(at, "store into %s of Go type %s", t.fnames[i], g.coq())
	}
	switch {
	case sz == 0 && g.el.kind == "bool":
	case sz > 0 && (g.el.kind == "int" || g.el.kind == "u8") && g.el.size == sz:
	default:
		return t.fail(at, "a %d-byte value is stored into %s of Go type %s", sz, t.fnames[i], g.coq())
	}
	return nil
}

// ---------------------------------------------------------------- statement helpers
func isErrReturn(pf *facts, b *ast.BlockStmt) bool {
	if b == nil || len(b.List) != 1 {
		return false
	}
	rs, ok := b.List[0].(*ast.ReturnStmt)
	if !ok || len(rs.Results) != 1 {
		return false
	}
	if isIdent(rs.Results[0], "err") {
		return true
	}
	ce, ok := rs.Results[0].(*ast.CallExpr)
	return ok && strings.HasPrefix(strings.Join(strings.Fields(pf.srcFull(ce.Fun)), ""), "fmt.Errorf")
}

func isNilReturn(b *ast.BlockStmt) bool {
	if b == nil || len(b.List) != 1 {
		return false
	}
	rs, ok := b.List[0].(*ast.ReturnStmt)
	return ok && len(rs.Results) == 1 && isIdent(rs.Results[0], "nil")
}

// `if <init>; <cond> { return error }` with no else  -> printed "init;cond" (init may be empty)
func (t *tr) errIfText(s ast.Stmt) (string, bool) {
	is, ok := s.(*ast.IfStmt)
	if !ok || is.Else != nil || !isErrReturn(t.pf, is.Body) {
		return "", false
	}
	init := ""
	if is.Init != nil {
		init = t.s(is.Init)
	}
	return init + ";" + t.s(is.Cond), true
}

var (
	reHas      = regexp.MustCompile(`^err:=hasEnoughBytes\((\w+),(\d+),len\(data\),(true|false)\);err!=nil$`)
	reLenCmp   = regexp.MustCompile(`^;len\(data\)(<|!=|>)(\d+)$`)
	reReslice  = regexp.MustCompile(`^data=data\[(\d+):\]$`)
	reResliceS = regexp.MustCompile(`^data=data\[subLen:\]$`)
	reSubLen   = regexp.MustCompile(`^subLen:=binary\.BigEndian\.Uint16\(data\[2:\]\)$`)
	reSubGt    = regexp.MustCompile(`^;int\(subLen\)>len\(data\)$`)
	reSubLt    = regexp.MustCompile(`^;subLen<(\d+)$`)
	reStrCond  = regexp.MustCompile(`^strLen:=int\(binary\.BigEndian\.Uint16\(data(?:\[(\d+):\])?\)\);strLen>len\(data\[(\d+):\]\)$`)
	reStrSet   = regexp.MustCompile(`^(\w+)\.(\w+)=string\(data\[(\d+):strLen\+(\d+)\]\)$`)
	reResVar   = regexp.MustCompile(`^data=data\[(strLen|arrLen|nBytes)(?:\*(\d+))?\+(\d+):\]$`)
	reArrCond  = regexp.MustCompile(`^arrLen:=int\(binary\.BigEndian\.Uint16\(data(?:\[(\d+):\])?\)\);(?:int64\(arrLen\)\*(\d+)>int64\(len\(data\[(\d+):\]\)\)|arrLen>len\(data\[(\d+):\]\))$`)
	reMakeArr  = regexp.MustCompile(`^(\w+)\.(\w+)=make\(\[\](\w+),(arrLen|nBytes|\d+|len\(data\)(?:-(\d+))?)\)$`)
	reCopy     = regexp.MustCompile(`^copy\((\w+)\.(\w+),data(?:\[(\d+):\])?\)$`)
	reLoop1    = regexp.MustCompile(`^fori:=0;i<arrLen;i\+\+\{(\w+)\.(\w+)\[i\]=(\w+)\(data\[i\+(\d+)\]\)\}$`)
	reLoopN    = regexp.MustCompile(`^fori,pos:=0,(\d+);i<arrLen;i,pos=i\+1,pos\+(\d+)\{(\w+)\.(\w+)\[i\]=(?:(\w+)\()?binary\.BigEndian\.Uint(16|32|64)\(data\[pos:\]\)\)?\}$`)
	reNumBits  = regexp.MustCompile(`^(\w+)\.(\w+)=binary\.BigEndian\.Uint16\(data(?:\[(\d+):\])?\)$`)
	reBitCond  = regexp.MustCompile(`^nBytes:=(\d+)\+\(\(int\((\w+)\.(\w+)\)-(\d+)\)>>(\d+)\);nBytes>len\(data\[(\d+):\]\)$`)
	reRestCond = regexp.MustCompile(`^len\(data\)(?:-(\d+))?==0$`)
	reSubTypeT = regexp.MustCompile(`^subType:=ParamType\(data\[0\]&(0x[0-9A-Fa-f]+|\d+)\);subType(==|!=)(\w+)$`)
	reSubTypeL = regexp.MustCompile(`^subType:=ParamType\(binary\.BigEndian\.Uint16\(data\)\);subType(==|!=)(\w+)$`)
	reCall     = regexp.MustCompile(`^err:=(\w+)(?:\.(\w+))?\.UnmarshalBinary\(data\[(\d+):(subLen|\d+|)\]\);err!=nil$`)
	reNew      = regexp.MustCompile(`^(\w+)\.(\w+)=new\((\w+)\)$`)
	reVarTmp   = regexp.MustCompile(`^vartmp(\w+)$`)
	reAppend   = regexp.MustCompile(`^(\w+)\.(\w+)=append\((\w+)\.(\w+),tmp\)$`)
	reForLen   = regexp.MustCompile(`^len\(data\)>=(\d+)$`)
	rePtTv     = regexp.MustCompile(`^pt:=ParamType\(data\[0\]&(0x[0-9A-Fa-f]+|\d+)\)$`)
	rePtTlv    = regexp.MustCompile(`^pt:=ParamType\(binary\.BigEndian\.Uint16\(data\)\)$`)
	reMixed    = regexp.MustCompile(`^ifdata\[0\]&(0x[0-9A-Fa-f]+|\d+)!=0\{pt=ParamType\(data\[0\]&(0x[0-9A-Fa-f]+|\d+)\)\}elseiflen\(data\)<(\d+)\{returnfmt\.Errorf\(.*\)\}else\{pt=ParamType\(binary\.BigEndian\.Uint16\(data\)\)\}$`)
)

type cursor struct {
	list []ast.Stmt
	k    int
}

func (c *cursor) peek() ast.Stmt {
	if c.k < len(c.list) {
		return c.list[c.k]
	}
	return nil
}
func (c *cursor) next() ast.Stmt { s := c.peek(); c.k++; return s }

// ---------------------------------------------------------------- field statements
// store: recv.X = e   |   *recv = T(e)
func (t *tr) tryStore(s ast.Stmt) (string, bool, error) {
	as, ok := s.(*ast.AssignStmt)
	if !ok || as.Tok != token.ASSIGN || len(as.Lhs) != 1 || len(as.Rhs) != 1 {
		return "", false, nil
	}
	var fi int
	switch l := as.Lhs[0].(type) {
	case *ast.SelectorExpr:
		if !isIdent(l.X, t.recv) {
			return "", false, nil
		}
		i, ok := t.fieldName(l.Sel.Name)
		if !ok {
			return "", false, nil
		}
		fi = i
	case *ast.StarExpr:
		if !t.inline || !isIdent(l.X, t.recv) {
			return "", false, nil
		}
		fi = 0
	default:
		return "", false, nil
	}
	// make / string / append / new are other templates
	if ce, ok := as.Rhs[0].(*ast.CallExpr); ok {
		if id, ok := ce.Fun.(*ast.Ident); ok && (id.Name == "make" || id.Name == "string" || id.Name == "append" || id.Name == "new") {
			return "", false, nil
		}
	}
	e, sz, err := t.dexpr(as.Rhs[0])
	if err != nil {
		return "", true, err
	}
	if err := t.checkStoreType(fi, sz, false, s); err != nil {
		return "", true, err
	}
	return fmt.Sprintf("DStore %d %s", fi, e), true, nil
}

// if X := ...; cond { err } else if V != 0 { body } else { tail }
func (t *tr) ifChain(s ast.Stmt, v string) (cond string, body, els []ast.Stmt, ok bool) {
	is, ok1 := s.(*ast.IfStmt)
	if !ok1 || is.Init == nil || !isErrReturn(t.pf, is.Body) || is.Else == nil {
		return
	}
	e2, ok2 := is.Else.(*ast.IfStmt)
	if !ok2 || e2.Init != nil || t.s(e2.Cond) != v+"!=0" || e2.Else == nil {
		return
	}
	eb, ok3 := e2.Else.(*ast.BlockStmt)
	if !ok3 {
		return
	}
	return t.s(is.Init) + ";" + t.s(is.Cond), e2.Body.List, eb.List, true
}

func (t *tr) fieldOf(recv, name string, at ast.Node) (int, error) {
	if recv != t.recv {
		return 0, t.fail(at, "store through %s, not the receiver", recv)
	}
	i, ok := t.fieldName(name)
	if !ok {
		return 0, t.fail(at, "no struct field %s", name)
	}
	return i, nil
}

func (t *tr) fieldStmts(c *cursor) ([]string, error) {
	var out []string
	for {
		s := c.peek()
		if s == nil {
			return out, nil
		}
		txt := t.s(s)
		// p.X = e
		if st, is, err := t.tryStore(s); is {
			if err != nil {
				return nil, err
			}
			// bit array: p.XNumBits = Uint16(data[p0:]) followed by `if nBytes := ...`
			if m := reNumBits.FindStringSubmatch(txt); m != nil && c.k+1 < len(c.list) {
				if cond, body, els, ok := t.ifChain(c.list[c.k+1], "nBytes"); ok {
					b := reBitCond.FindStringSubmatch(cond)
					if b == nil {
						return nil, t.fail(c.list[c.k+1], "unrecognised bit-array length check")
					}
					fn, err := t.fieldOf(m[1], m[2], s)
					if err != nil {
						return nil, err
					}
					fn2, err := t.fieldOf(b[2], b[3], c.list[c.k+1])
					if err != nil || fn2 != fn {
						return nil, t.fail(c.list[c.k+1], "nBytes is not computed from the field just stored")
					}
					if len(body) != 3 || len(els) != 1 {
						return nil, t.fail(c.list[c.k+1], "unrecognised bit-array body")
					}
					mk := reMakeArr.FindStringSubmatch(t.s(body[0]))
					cp := reCopy.FindStringSubmatch(t.s(body[1]))
					rs := reResVar.FindStringSubmatch(t.s(body[2]))
					el := reReslice.FindStringSubmatch(t.s(els[0]))
					if mk == nil || cp == nil || rs == nil || el == nil || mk[3] != "byte" || mk[4] != "nBytes" || rs[1] != "nBytes" || rs[2] != "" {
						return nil, t.fail(c.list[c.k+1], "unrecognised bit-array body")
					}
					fb, err := t.fieldOf(mk[1], mk[2], body[0])
					if err != nil {
						return nil, err
					}
					fb2, err := t.fieldOf(cp[1], cp[2], body[1])
					if err != nil || fb2 != fb {
						return nil, t.fail(body[1], "copy into another field than the one made")
					}
					if g := t.ftypes[fb]; g.shape != "SSlice" || g.el.kind != "u8" {
						return nil, t.fail(body[0], "bit-array bytes are not []byte")
					}
					if g := t.ftypes[fn]; g.shape != "SPlain" || g.el.size != 2 {
						return nil, t.fail(s, "bit count is not a 2-byte field")
					}
					if err := t.setShape(fn, "ZBitLen", s); err != nil {
						return nil, err
					}
					if err := t.setShape(fb, "ZBitBytes", body[0]); err != nil {
						return nil, err
					}
					t.nodes += 6
					out = append(out, fmt.Sprintf("DBitArr %d %d %d %d %d %d %d %d %d %d", fn, fb, atoi(m[3]), atoi(b[1]), atoi(b[4]), atoi(b[5]), atoi(b[6]), atoi(cp[3]), atoi(rs[3]), atoi(el[1])))
					c.k += 2
					continue
				}
			}
			fi := 0
			fmt.Sscanf(strings.TrimPrefix(st, "DStore "), "%d", &fi)
			if err := t.setShape(fi, "ZNum", s); err != nil {
				return nil, err
			}
			out = append(out, st)
			c.k++
			continue
		}
		if m := reReslice.FindStringSubmatch(txt); m != nil {
			t.nodes++
			out = append(out, fmt.Sprintf("DReslice %d", atoi(m[1])))
			c.k++
			continue
		}
		if it, ok := t.errIfText(s); ok {
			if m := reLenCmp.FindStringSubmatch(it); m != nil && m[1] == "<" {
				t.nodes++
				out = append(out, fmt.Sprintf("DGuardLt %d", atoi(m[2])))
				c.k++
				continue
			}
			return out, nil // a guard of the sub-parameter part (or the leftover check)
		}
		// string
		if cond, body, els, ok := t.ifChain(s, "strLen"); ok {
			m := reStrCond.FindStringSubmatch(cond)
			if m == nil || len(body) != 2 || len(els) != 1 {
				return nil, t.fail(s, "unrecognised string template")
			}
			st := reStrSet.FindStringSubmatch(t.s(body[0]))
			rs := reResVar.FindStringSubmatch(t.s(body[1]))
			el := reReslice.FindStringSubmatch(t.s(els[0]))
			if st == nil || rs == nil || el == nil || rs[1] != "strLen" || rs[2] != "" {
				return nil, t.fail(s, "unrecognised string template")
			}
			fi, err := t.fieldOf(st[1], st[2], body[0])
			if err != nil {
				return nil, err
			}
			if g := t.ftypes[fi]; g.shape != "SPlain" || g.el.kind != "string" {
				return nil, t.fail(body[0], "string stored into a non-string field")
			}
			if err := t.setShape(fi, "ZBytes", s); err != nil {
				return nil, err
			}
			t.nodes += 5
			out = append(out, fmt.Sprintf("DStr %d %d %d %d %d %d %d", fi, atoi(m[1]), atoi(m[2]), atoi(st[3]), atoi(st[4]), atoi(rs[3]), atoi(el[1])))
			c.k++
			continue
		}
		// counted array
		if cond, body, els, ok := t.ifChain(s, "arrLen"); ok {
			m := reArrCond.FindStringSubmatch(cond)
			if m == nil || len(body) != 3 || len(els) != 1 {
				return nil, t.fail(s, "unrecognised array template")
			}
			mul, p1 := int64(1), atoi(m[4])
			if m[2] != "" {
				mul, p1 = atoi(m[2]), atoi(m[3])
			}
			mk := reMakeArr.FindStringSubmatch(t.s(body[0]))
			rs := reResVar.FindStringSubmatch(t.s(body[2]))
			el := reReslice.FindStringSubmatch(t.s(els[0]))
			if mk == nil || rs == nil || el == nil || mk[4] != "arrLen" || rs[1] != "arrLen" {
				return nil, t.fail(s, "unrecognised array template")
			}
			mul2 := int64(1)
			if rs[2] != "" {
				mul2 = atoi(rs[2])
			}
			fi, err := t.fieldOf(mk[1], mk[2], body[0])
			if err != nil {
				return nil, err
			}
			g := t.ftypes[fi]
			if g.shape != "SSlice" || (g.el.kind != "int" && g.el.kind != "u8") {
				return nil, t.fail(body[0], "array stored into a field that is not a slice of integers")
			}
			if esz := t.intTypeSize(mk[3]); esz != g.el.size {
				return nil, t.fail(body[0], "make of element type %s for a field of %d-byte elements", mk[3], g.el.size)
			}
			var mode string
			var p2 int64
			bt := t.s(body[1])
			if cp := reCopy.FindStringSubmatch(bt); cp != nil {
				f2, err := t.fieldOf(cp[1], cp[2], body[1])
				if err != nil || f2 != fi || g.el.size != 1 {
					return nil, t.fail(body[1], "copy into another field, or of multi-byte elements")
				}
				mode, p2 = "ACopy", atoi(cp[3])
			} else if l1 := reLoop1.FindStringSubmatch(bt); l1 != nil {
				f2, err := t.fieldOf(l1[1], l1[2], body[1])
				if err != nil || f2 != fi || t.intTypeSize(l1[3]) != 1 || g.el.size != 1 {
					return nil, t.fail(body[1], "unrecognised element loop")
				}
				mode, p2 = "ALoop1", atoi(l1[4])
			} else if ln := reLoopN.FindStringSubmatch(bt); ln != nil {
				f2, err := t.fieldOf(ln[3], ln[4], body[1])
				esz := atoi(ln[6]) / 8
				if err != nil || f2 != fi || esz != g.el.size || (ln[5] != "" && t.intTypeSize(ln[5]) != esz) {
					return nil, t.fail(body[1], "unrecognised element loop")
				}
				mode, p2 = fmt.Sprintf("(ALoopN %d %d)", esz, atoi(ln[2])), atoi(ln[1])
			} else {
				return nil, t.fail(body[1], "unrecognised array fill")
			}
			if err := t.setShape(fi, "ZNums", s); err != nil {
				return nil, err
			}
			t.nodes += 6
			out = append(out, fmt.Sprintf("DArr %d %s %d %d %d %d %d %d %d", fi, mode, atoi(m[1]), mul, p1, p2, mul2, atoi(rs[3]), atoi(el[1])))
			c.k++
			continue
		}
		// rest-of-buffer / fixed array: (if len(data)-q0 == 0 { return nil };) p.X = make([]byte, ...); copy(...)
		q0, hasCond := int64(0), false
		k := c.k
		if is, ok := s.(*ast.IfStmt); ok && is.Init == nil && is.Else == nil && isNilReturn(is.Body) {
			if m := reRestCond.FindStringSubmatch(t.s(is.Cond)); m != nil && k+1 < len(c.list) && reMakeArr.MatchString(t.s(c.list[k+1])) {
				q0, hasCond = atoi(m[1]), true
				k++
			}
		}
		if mk := reMakeArr.FindStringSubmatch(t.s(c.list[k])); mk != nil && k+1 < len(c.list) {
			cp := reCopy.FindStringSubmatch(t.s(c.list[k+1]))
			if cp == nil || mk[3] != "byte" {
				return nil, t.fail(c.list[k], "make without the copy that must follow it, or not of bytes")
			}
			fi, err := t.fieldOf(mk[1], mk[2], c.list[k])
			if err != nil {
				return nil, err
			}
			f2, err := t.fieldOf(cp[1], cp[2], c.list[k+1])
			if err != nil || f2 != fi {
				return nil, t.fail(c.list[k+1], "copy into another field than the one made")
			}
			if g := t.ftypes[fi]; g.shape != "SSlice" || g.el.kind != "u8" {
				return nil, t.fail(c.list[k], "bytes stored into a field that is not []byte")
			}
			if err := t.setShape(fi, "ZBytes", c.list[k]); err != nil {
				return nil, err
			}
			if strings.HasPrefix(mk[4], "len(data)") {
				if !hasCond {
					return nil, t.fail(c.list[k], "rest-of-buffer copy without the empty check")
				}
				q3 := "None"
				adv := 2
				if k+2 < len(c.list) {
					if rs := reReslice.FindStringSubmatch(t.s(c.list[k+2])); rs != nil {
						q3 = fmt.Sprintf("(Some %d)", atoi(rs[1]))
						adv = 3
					}
				}
				t.nodes += 4
				out = append(out, fmt.Sprintf("DRest %d %d %d %d %s", fi, q0, atoi(mk[5]), atoi(cp[3]), q3))
				c.k = k + adv
				continue
			}
			if hasCond || mk[4] == "arrLen" || mk[4] == "nBytes" {
				return nil, t.fail(c.list[k], "unrecognised make")
			}
			t.nodes += 2
			out = append(out, fmt.Sprintf("DFixedCopy %d %d %d", fi, atoi(mk[4]), atoi(cp[3])))
			c.k = k + 2
			continue
		}
		return out, nil
	}
}

// ---------------------------------------------------------------- sub-parameter statements
func (t *tr) pconst(name string, at ast.Node) (int64, error) {
	v, ok := t.pf.pconst[name]
	if !ok {
		return 0, t.fail(at, "unknown ParamType constant %s", name)
	}
	return v, nil
}

type pcase struct {
	ptype        int64
	check, dec   string
	adv          string
	field        int
}

func (p pcase) coq() string {
	return fmt.Sprintf("{| pc_type := %d; pc_check := %s; pc_dec := %s; pc_adv := %s |}", p.ptype, p.check, p.dec, p.adv)
}

// the statements of one case / one `if subType` body: [length check] [alloc] decode [advance]
func (t *tr) caseBody(list []ast.Stmt, ptype int64, at ast.Node) (pcase, error) {
	pc := pcase{ptype: ptype, check: "LCNone", adv: "AdvNone"}
	c := &cursor{list: list}
	t.nodes++
	// length check
	if s := c.peek(); s != nil {
		if it, ok := t.errIfText(s); ok {
			if m := reHas.FindStringSubmatch(it); m != nil {
				v, err := t.pconst(m[1], s)
				if err != nil {
					return pc, err
				}
				if m[3] != "false" {
					return pc, t.fail(s, "hasEnoughBytes(..., true) inside a case")
				}
				pc.check = fmt.Sprintf("(LCTv %d %d)", v, atoi(m[2]))
				c.k++
			} else if m := reSubLt.FindStringSubmatch(it); m != nil {
				pc.check = fmt.Sprintf("(LCMin %d)", atoi(m[1]))
				c.k++
			}
		} else if reSubLen.MatchString(t.s(s)) {
			if c.k+2 >= len(c.list) {
				return pc, t.fail(s, "subLen without its two checks")
			}
			i1, ok1 := t.errIfText(c.list[c.k+1])
			i2, ok2 := t.errIfText(c.list[c.k+2])
			m2 := reSubLt.FindStringSubmatch(i2)
			if !ok1 || !ok2 || !reSubGt.MatchString(i1) || m2 == nil {
				return pc, t.fail(c.list[c.k+1], "expected `if int(subLen) > len(data) {err}; if subLen < k {err}`")
			}
			pc.check = fmt.Sprintf("(LCTlv %d)", atoi(m2[1]))
			c.k += 3
		}
	}
	// alloc
	alloc := false
	allocField := -1
	var allocType string
	if s := c.peek(); s != nil {
		if m := reNew.FindStringSubmatch(t.s(s)); m != nil {
			fi, err := t.fieldOf(m[1], m[2], s)
			if err != nil {
				return pc, err
			}
			alloc, allocField, allocType = true, fi, m[3]
			c.k++
		}
	}
	// decode
	s := c.next()
	if s == nil {
		return pc, t.fail(at, "case without a decode statement")
	}
	subTid := func(fi int, shape string, at ast.Node) (int64, error) {
		g := t.ftypes[fi]
		if g.shape != shape || g.el.ptid < 0 {
			return 0, t.fail(at, "field %s has Go type %s: not a %s sub-parameter", t.fnames[fi], g.coq(), shape)
		}
		return g.el.ptid, nil
	}
	if m := reVarTmp.FindStringSubmatch(t.s(s)); m != nil {
		// var tmp T; if err := tmp.UnmarshalBinary(data[lo:hi]); err != nil { return err }; p.X = append(p.X, tmp)
		s1, s2 := c.next(), c.next()
		if s1 == nil || s2 == nil || alloc {
			return pc, t.fail(s, "incomplete `var tmp T` template")
		}
		it, ok := t.errIfText(s1)
		cm := reCall.FindStringSubmatch(it)
		am := reAppend.FindStringSubmatch(t.s(s2))
		if !ok || cm == nil || cm[1] != "tmp" || cm[2] != "" || am == nil || am[1] != am[3] || am[2] != am[4] {
			return pc, t.fail(s1, "expected tmp.UnmarshalBinary(...) and p.X = append(p.X, tmp)")
		}
		fi, err := t.fieldOf(am[1], am[2], s2)
		if err != nil {
			return pc, err
		}
		tid, err := subTid(fi, "SSlice", s2)
		if err != nil {
			return pc, err
		}
		if t.pf.typeNameOfField(t.tname, t.fnames[fi]) != m[1] {
			return pc, t.fail(s, "tmp has type %s but is appended to %s", m[1], t.fnames[fi])
		}
		pc.dec = fmt.Sprintf("(SDCall %d MAppend %d %d %s)", fi, tid, atoi(cm[3]), hiOf(cm[4]))
		pc.field = fi
		if err := t.setShape(fi, fmt.Sprintf("(ZMany %d)", tid), s2); err != nil {
			return pc, err
		}
	} else if it, ok := t.errIfText(s); ok && reCall.MatchString(it) {
		cm := reCall.FindStringSubmatch(it)
		if cm[2] == "" {
			return pc, t.fail(s, "UnmarshalBinary on something that is not a field")
		}
		fi, err := t.fieldOf(cm[1], cm[2], s)
		if err != nil {
			return pc, err
		}
		mode, shape, z := "MAssign", "SPlain", "ZOne"
		if alloc {
			if allocField != fi || t.pf.typeNameOfField(t.tname, t.fnames[fi]) != allocType {
				return pc, t.fail(s, "new(...) of another field or type than the one decoded")
			}
			mode, shape, z = "MNew", "SPtr", "ZOpt"
		}
		tid, err := subTid(fi, shape, s)
		if err != nil {
			return pc, err
		}
		pc.dec = fmt.Sprintf("(SDCall %d %s %d %d %s)", fi, mode, tid, atoi(cm[3]), hiOf(cm[4]))
		pc.field = fi
		if err := t.setShape(fi, fmt.Sprintf("(%s %d)", z, tid), s); err != nil {
			return pc, err
		}
	} else if as, ok := s.(*ast.AssignStmt); ok && as.Tok == token.ASSIGN && len(as.Lhs) == 1 && len(as.Rhs) == 1 {
		// [*]p.X = T(e)  (a parameter of an inline type decoded in place)
		lhs := as.Lhs[0]
		ptr := false
		if st, ok := lhs.(*ast.StarExpr); ok {
			lhs, ptr = st.X, true
		}
		se, ok := lhs.(*ast.SelectorExpr)
		if !ok || !isIdent(se.X, t.recv) {
			return pc, t.fail(s, "unrecognised decode statement")
		}
		fi, err := t.fieldOf(t.recv, se.Sel.Name, s)
		if err != nil {
			return pc, err
		}
		if ptr != alloc || (alloc && (allocField != fi || t.pf.typeNameOfField(t.tname, t.fnames[fi]) != allocType)) {
			return pc, t.fail(s, "store through a pointer without new(T) just before (or the reverse)")
		}
		e, sz, err := t.dexpr(as.Rhs[0])
		if err != nil {
			return pc, err
		}
		if err := t.checkStoreType(fi, sz, ptr, s); err != nil {
			return pc, err
		}
		shape, z := "SPlain", "ZOne"
		if ptr {
			shape, z = "SPtr", "ZOpt"
		}
		tid, err := subTid(fi, shape, s)
		if err != nil {
			return pc, err
		}
		al := "false"
		if alloc {
			al = "true"
		}
		pc.dec = fmt.Sprintf("(SDInline %d %s %d %s)", fi, al, tid, e)
		pc.field = fi
		if err := t.setShape(fi, fmt.Sprintf("(%s %d)", z, tid), s); err != nil {
			return pc, err
		}
	} else {
		return pc, t.fail(s, "unrecognised decode statement")
	}
	// advance
	if s := c.peek(); s != nil {
		txt := t.s(s)
		if m := reReslice.FindStringSubmatch(txt); m != nil {
			pc.adv = fmt.Sprintf("(AdvConst %d)", atoi(m[1]))
			c.k++
		} else if reResliceS.MatchString(txt) {
			pc.adv = "AdvSubLen"
			c.k++
		}
	}
	if c.k != len(c.list) {
		return pc, t.fail(c.list[c.k], "unrecognised statement in a parameter case")
	}
	return pc, nil
}

func hiOf(s string) string {
	switch s {
	case "subLen":
		return "HiSubLen"
	case "":
		return "HiNone"
	}
	return fmt.Sprintf("(HiConst %d)", atoi(s))
}

// header + switch of a parameter group (inside the loop body / bare block)
func (t *tr) groupBody(list []ast.Stmt, label string, at ast.Node) (hdr string, cases []string, advsub bool, err error) {
	c := &cursor{list: list}
	s := c.next()
	if s == nil {
		return "", nil, false, t.fail(at, "empty group")
	}
	txt := t.s(s)
	switch {
	case txt == "varptParamType":
		s2 := c.next()
		if s2 == nil {
			return "", nil, false, t.fail(s, "var pt without its assignment")
		}
		m := reMixed.FindStringSubmatch(t.s(s2))
		if m == nil {
			return "", nil, false, t.fail(s2, "unrecognised TV/TLV type test")
		}
		hdr = fmt.Sprintf("(HMixed %d %d %d)", atoi(m[1]), atoi(m[2]), atoi(m[3]))
	case rePtTv.MatchString(txt):
		hdr = fmt.Sprintf("(HTv %d)", atoi(rePtTv.FindStringSubmatch(txt)[1]))
	case rePtTlv.MatchString(txt):
		hdr = "HTlv"
		if n := c.peek(); n != nil && reSubLen.MatchString(t.s(n)) {
			if c.k+2 >= len(c.list) {
				return "", nil, false, t.fail(n, "subLen without its two checks")
			}
			i1, ok1 := t.errIfText(c.list[c.k+1])
			i2, ok2 := t.errIfText(c.list[c.k+2])
			m2 := reSubLt.FindStringSubmatch(i2)
			if !ok1 || !ok2 || !reSubGt.MatchString(i1) || m2 == nil {
				return "", nil, false, t.fail(c.list[c.k+1], "expected `if int(subLen) > len(data) {err}; if subLen < k {err}`")
			}
			hdr = fmt.Sprintf("(HTlvLen %d)", atoi(m2[1]))
			c.k += 3
		}
	default:
		return "", nil, false, t.fail(s, "unrecognised group header")
	}
	t.nodes++
	sw, ok := c.next().(*ast.SwitchStmt)
	if !ok || sw.Init != nil || !isIdent(sw.Tag, "pt") {
		return "", nil, false, t.fail(at, "expected `switch pt`")
	}
	sawDefault := false
	for _, cl := range sw.Body.List {
		cc := cl.(*ast.CaseClause)
		if cc.List == nil {
			// default
			sawDefault = true
			if label != "" {
				if len(cc.Body) != 1 || t.s(cc.Body[0]) != "break"+label {
					return "", nil, false, t.fail(cc, "default must be `break %s`", label)
				}
			} else if len(cc.Body) != 1 || !isErrReturn(t.pf, &ast.BlockStmt{List: cc.Body}) {
				return "", nil, false, t.fail(cc, "default must return an error")
			}
			continue
		}
		if sawDefault || len(cc.List) != 1 {
			return "", nil, false, t.fail(cc, "default is not last, or a case with several values")
		}
		id, ok := cc.List[0].(*ast.Ident)
		if !ok {
			return "", nil, false, t.fail(cc, "case value is not a ParamXxx constant")
		}
		v, err := t.pconst(id.Name, cc)
		if err != nil {
			return "", nil, false, err
		}
		pc, err := t.caseBody(cc.Body, v, cc)
		if err != nil {
			return "", nil, false, err
		}
		cases = append(cases, pc.coq())
	}
	if !sawDefault {
		return "", nil, false, t.fail(sw, "switch without default")
	}
	if n := c.peek(); n != nil && reResliceS.MatchString(t.s(n)) {
		advsub = true
		c.k++
	}
	if c.k != len(c.list) {
		return "", nil, false, t.fail(c.list[c.k], "unrecognised statement after the switch")
	}
	return hdr, cases, advsub, nil
}

func (t *tr) subStmts(c *cursor) ([]string, error) {
	var out []string
	for {
		s := c.peek()
		if s == nil {
			return out, nil
		}
		switch x := s.(type) {
		case *ast.IfStmt:
			if x.Init == nil && x.Else == nil && isNilReturn(x.Body) && t.s(x.Cond) == "len(data)==0" {
				t.nodes++
				out = append(out, "SRetIfEmpty")
				c.k++
				continue
			}
			if it, ok := t.errIfText(s); ok {
				if m := reHas.FindStringSubmatch(it); m != nil {
					v, err := t.pconst(m[1], s)
					if err != nil {
						return nil, err
					}
					if m[3] != "false" {
						return nil, t.fail(s, "hasEnoughBytes(..., true) between sub-parameters")
					}
					t.nodes++
					out = append(out, fmt.Sprintf("SGuard %d %d", v, atoi(m[2])))
					c.k++
					continue
				}
				return out, nil // the leftover check
			}
			if x.Init != nil {
				head := t.s(x.Init) + ";" + t.s(x.Cond)
				var op, cname, m7f string
				tv := false
				if m := reSubTypeT.FindStringSubmatch(head); m != nil {
					tv, m7f, op, cname = true, m[1], m[2], m[3]
				} else if m := reSubTypeL.FindStringSubmatch(head); m != nil {
					op, cname = m[1], m[2]
				} else {
					return nil, t.fail(s, "unrecognised if statement between sub-parameters")
				}
				v, err := t.pconst(cname, s)
				if err != nil {
					return nil, err
				}
				var body []ast.Stmt
				opt := "true"
				if op == "==" {
					if x.Else != nil {
						return nil, t.fail(s, "optional sub-parameter with an else branch")
					}
					body = x.Body.List
				} else {
					eb, ok := x.Else.(*ast.BlockStmt)
					if !ok || !isErrReturn(t.pf, x.Body) {
						return nil, t.fail(s, "mandatory sub-parameter: expected `!= ParamX { return err } else { ... }`")
					}
					body, opt = eb.List, "false"
				}
				pc, err := t.caseBody(body, v, s)
				if err != nil {
					return nil, err
				}
				if tv {
					out = append(out, fmt.Sprintf("SSingleTv %s %d %s", opt, atoi(m7f), pc.coq()))
				} else {
					out = append(out, fmt.Sprintf("SSingleTlv %s %s", opt, pc.coq()))
				}
				c.k++
				continue
			}
			return nil, t.fail(s, "unrecognised if statement between sub-parameters")
		case *ast.BlockStmt:
			hdr, cases, advsub, err := t.groupBody(x.List, "", s)
			if err != nil {
				return nil, err
			}
			if advsub {
				return nil, t.fail(s, "data = data[subLen:] after the switch of an exclusive block")
			}
			out = append(out, fmt.Sprintf("SGroup None %s %s false", hdr, coqList(cases)))
			c.k++
			continue
		case *ast.LabeledStmt:
			fs, ok := x.Stmt.(*ast.ForStmt)
			if !ok || fs.Init != nil || fs.Post != nil || fs.Cond == nil {
				return nil, t.fail(s, "label on something that is not `for cond {}`")
			}
			m := reForLen.FindStringSubmatch(t.s(fs.Cond))
			if m == nil {
				return nil, t.fail(fs.Cond, "expected `len(data) >= k`")
			}
			hdr, cases, advsub, err := t.groupBody(fs.Body.List, x.Label.Name, s)
			if err != nil {
				return nil, err
			}
			b := "false"
			if advsub {
				b = "true"
			}
			out = append(out, fmt.Sprintf("SGroup (Some %d) %s %s %s", atoi(m[1]), hdr, coqList(cases), b))
			c.k++
			continue
		}
		return out, nil
	}
}

func coqList(xs []string) string { return "[" + strings.Join(xs, "; ") + "]" }

// ---------------------------------------------------------------- one container
type contOut struct {
	Name   string   `json:"name"`
	Msg    bool     `json:"msg"`
	Tid    int64    `json:"tid"`
	Ok     bool     `json:"ok"`
	Error  string   `json:"error,omitempty"`
	Nodes  int      `json:"nodes"`
	Fields []string `json:"fields"`
	coq    string
}

func (pf *facts) container(name string) *contOut {
	c := &contOut{Name: name, Tid: -1}
	ms := pf.methods[name]
	t := &tr{pf: pf, tname: name}
	fail := func(err error) *contOut {
		c.Ok, c.Error, c.Nodes = false, err.Error(), t.nodes
		return c
	}
	if ms["getHeader"] != nil {
		if v, ok := pf.ptidOf(name); ok {
			c.Tid = v
		}
	} else if ty := ms["Type"]; ty != nil && ty.Body != nil && len(ty.Body.List) == 1 {
		c.Msg = true
		if rs, ok := ty.Body.List[0].(*ast.ReturnStmt); ok && len(rs.Results) == 1 {
			if id, ok := rs.Results[0].(*ast.Ident); ok {
				if v, ok := pf.mconst[id.Name]; ok {
					c.Tid = v
				}
			}
		}
	}
	if c.Tid < 0 {
		return fail(&trErr{name + " has UnmarshalBinary but neither a getHeader with a known ParamType nor a Type() returning a MsgXxx constant"})
	}
	if err := t.structDecl(); err != nil {
		return fail(err)
	}
	c.Fields = t.fnames
	fd := ms["UnmarshalBinary"]
	if err := checkSig(pf, fd, []string{"[]byte"}, []string{"error"}); err != nil {
		return fail(err)
	}
	if fd.Type.Params.List[0].Names[0].Name != "data" {
		return fail(pf.fail(fd, "the parameter must be called data"))
	}
	_, ptr, rv := recvType(fd)
	if !ptr {
		return fail(pf.fail(fd, "UnmarshalBinary must have a pointer receiver"))
	}
	t.recv = rv
	cur := &cursor{list: fd.Body.List}
	// the opening length check
	lenck := "LNone"
	if s := cur.peek(); s != nil {
		if it, ok := t.errIfText(s); ok {
			if m := reHas.FindStringSubmatch(it); m != nil {
				v, err := t.pconst(m[1], s)
				if err != nil {
					return fail(err)
				}
				if v != c.Tid || c.Msg {
					return fail(pf.fail(s, "the opening hasEnoughBytes names another parameter type"))
				}
				lenck = fmt.Sprintf("(LHas %d %d %s)", v, atoi(m[2]), m[3])
				cur.k++
			} else if m := reLenCmp.FindStringSubmatch(it); m != nil && c.Msg {
				switch {
				case m[1] == ">" && atoi(m[2]) == 0 && len(cur.list) == 2:
					lenck = "LMsgEmpty"
				case m[1] == "!=":
					lenck = fmt.Sprintf("(LMsgNe %d)", atoi(m[2]))
				case m[1] == "<":
					lenck = fmt.Sprintf("(LMsgLt %d)", atoi(m[2]))
				}
				if lenck != "LNone" {
					cur.k++
				}
			}
			t.nodes++
		}
	}
	fields, err := t.fieldStmts(cur)
	if err != nil {
		return fail(err)
	}
	subs, err := t.subStmts(cur)
	if err != nil {
		return fail(err)
	}
	leftover := "false"
	if s := cur.peek(); s != nil {
		if it, ok := t.errIfText(s); ok && it == ";len(data)>0" && lenck != "LMsgEmpty" {
			leftover = "true"
			t.nodes++
			cur.k++
		}
	}
	last := cur.next()
	rs, ok := last.(*ast.ReturnStmt)
	if last == nil || !ok || len(rs.Results) != 1 || !isIdent(rs.Results[0], "nil") {
		at := ast.Node(fd)
		if last != nil {
			at = last
		}
		return fail(pf.fail(at, "unrecognised statement (expected the final `return nil`)"))
	}
	if cur.k != len(cur.list) {
		return fail(pf.fail(cur.list[cur.k], "statements after the final return"))
	}
	for i, z := range t.shape {
		if z == "" {
			return fail(pf.fail(fd, "struct field %s is never stored by the decoder", t.fnames[i]))
		}
	}
	var st []string
	for _, g := range t.ftypes {
		st = append(st, g.coq())
	}
	inl := "false"
	if t.inline {
		inl = "true"
	}
	c.coq = fmt.Sprintf("{| d_struct := %s; d_inline := %s;\n     d_shape := %s;\n     d_len := %s;\n     d_fields := %s;\n     d_subs := %s;\n     d_leftover := %s |}",
		coqList(st), inl, coqList(t.shape), lenck, coqList(fields), coqList(subs), leftover)
	c.Ok, c.Nodes = true, t.nodes
	return c
}

func checkSig(pf *facts, fd *ast.FuncDecl, params []string, results []string) error {
	var ps, rs []string
	if fd.Type.Params != nil {
		for _, f := range fd.Type.Params.List {
			n := len(f.Names)
			if n == 0 {
				n = 1
			}
			for i := 0; i < n; i++ {
				ps = append(ps, pf.src(f.Type))
			}
		}
	}
	if fd.Type.Results != nil {
		for _, f := range fd.Type.Results.List {
			rs = append(rs, pf.src(f.Type))
		}
	}
	if strings.Join(ps, ",") != strings.Join(params, ",") || strings.Join(rs, ",") != strings.Join(results, ",") {
		return pf.fail(fd.Type, "unexpected signature of %s", fd.Name.Name)
	}
	return nil
}

// func hasEnoughBytes(pt ParamType, needed, got int, exact bool) error { if needed <= got { return nil } ...errors }
func (pf *facts) hasEnough() error {
	fd := pf.funcs["hasEnoughBytes"]
	if fd == nil {
		return &trErr{"generated_unmarshal.go: hasEnoughBytes not found"}
	}
	if err := checkSig(pf, fd, []string{"ParamType", "int", "int", "bool"}, []string{"error"}); err != nil {
		return err
	}
	var names []string
	for _, f := range fd.Type.Params.List {
		for _, n := range f.Names {
			names = append(names, n.Name)
		}
	}
	if len(fd.Body.List) < 2 {
		return pf.fail(fd, "unrecognised hasEnoughBytes")
	}
	is, ok := fd.Body.List[0].(*ast.IfStmt)
	t := &tr{pf: pf}
	if !ok || is.Init != nil || is.Else != nil || !isNilReturn(is.Body) || t.s(is.Cond) != names[1]+"<="+names[2] {
		return pf.fail(fd.Body.List[0], "hasEnoughBytes must start with `if needed <= got { return nil }`")
	}
	// every other path must return a non-nil error
	bad := false
	var walk func(list []ast.Stmt, top bool)
	walk = func(list []ast.Stmt, top bool) {
		for i, s := range list {
			switch x := s.(type) {
			case *ast.ReturnStmt:
				if !isErrReturn(pf, &ast.BlockStmt{List: []ast.Stmt{x}}) || isIdent(x.Results[0], "err") {
					bad = true
				}
			case *ast.IfStmt:
				walk(x.Body.List, false)
				for e := x.Else; e != nil; {
					switch y := e.(type) {
					case *ast.IfStmt:
						walk(y.Body.List, false)
						e = y.Else
					case *ast.BlockStmt:
						walk(y.List, false)
						e = nil
					default:
						bad = true
						e = nil
					}
				}
			default:
				bad = true
			}
			if top && i == len(list)-1 {
				if _, ok := s.(*ast.ReturnStmt); !ok {
					bad = true
				}
			}
		}
	}
	walk(fd.Body.List[1:], true)
	if bad {
		return pf.fail(fd, "hasEnoughBytes: a path after the first test does not return fmt.Errorf(...)")
	}
	return nil
}

func main() {
	repo := flag.String("repo", os.Getenv("VERIF_REPO"), "repository root")
	out := flag.String("out", "", "output directory")
	flag.Parse()
	if *repo == "" {
		*repo = "/repo"
	}
	if *out == "" {
		fmt.Fprintln(os.Stderr, "go-dec-ir: -out required")
		os.Exit(2)
	}
	dir := filepath.Join(*repo, "pkg", "llrp")
	pf := &facts{fset: token.NewFileSet(), types: map[string]*ast.TypeSpec{}, pconst: map[string]int64{}, mconst: map[string]int64{},
		methods: map[string]map[string]*ast.FuncDecl{}, funcs: map[string]*ast.FuncDecl{}}
	if err := pf.load(dir); err != nil {
		fmt.Fprintln(os.Stderr, "go-dec-ir:", err)
		os.Exit(1)
	}
	var globErrs []string
	hasLe := "true"
	if err := pf.hasEnough(); err != nil {
		globErrs = append(globErrs, err.Error())
		hasLe = "false"
	}
	var conts []*contOut
	seen := map[string]bool{}
	for _, name := range pf.order {
		if seen[name] {
			continue
		}
		seen[name] = true
		conts = append(conts, pf.container(name))
	}
	var b strings.Builder
	b.WriteString("(* GENERATED by tools/go-dec-ir from " + dir + " — do not edit *)\n")
	b.WriteString("From Coq Require Import NArith List.\nFrom LLRP Require Import EncIR.IR DecFIR.IR.\nImport ListNotations.\nOpen Scope N_scope.\n\n")
	for _, e := range globErrs {
		b.WriteString("(* hasEnoughBytes NOT translated: " + commentSafe(e) + " *)\n")
	}
	var entries []string
	nodes := 3
	for _, c := range conts {
		nodes += c.Nodes
		if !c.Ok {
			b.WriteString("(* " + c.Name + " NOT translated: " + commentSafe(c.Error) + " *)\n")
			continue
		}
		pre := "p_"
		if c.Msg {
			pre = "m_"
		}
		fmt.Fprintf(&b, "(* %s: fields %s *)\nDefinition dprog_%s%s : dec_prog :=\n  %s.\n", c.Name, strings.Join(c.Fields, " "), pre, c.Name, c.coq)
		m := "false"
		if c.Msg {
			m = "true"
		}
		entries = append(entries, fmt.Sprintf("((%s, %d), dprog_%s%s)", m, c.Tid, pre, c.Name))
	}
	b.WriteString("\nDefinition dec_programs : list (container_id * dec_prog) :=\n  [" + strings.Join(entries, ";\n   ") + "].\n\n")
	b.WriteString("Definition dec_all : dprograms := {| dp_has_le := " + hasLe + "; dp_progs := dec_programs |}.\n")
	if err := os.MkdirAll(*out, 0o755); err != nil {
		fmt.Fprintln(os.Stderr, "go-dec-ir:", err)
		os.Exit(1)
	}
	if err := os.WriteFile(filepath.Join(*out, "DecPrograms.v"), []byte(b.String()), 0o644); err != nil {
		fmt.Fprintln(os.Stderr, "go-dec-ir:", err)
		os.Exit(1)
	}
	meta := map[string]interface{}{"containers": conts, "glob_errors": globErrs, "functions_translated": len(entries) + 1, "ir_nodes": nodes,
		"duplicate_definitions": pf.dup}
	js, _ := json.MarshalIndent(meta, "", " ")
	if err := os.WriteFile(filepath.Join(*out, "dec_programs.json"), js, 0o644); err != nil {
		fmt.Fprintln(os.Stderr, "go-dec-ir:", err)
		os.Exit(1)
	}
	nfail := 0
	for _, c := range conts {
		if !c.Ok {
			nfail++
			fmt.Fprintf(os.Stderr, "go-dec-ir: %s: %s\n", c.Name, c.Error)
		}
	}
	for _, e := range globErrs {
		fmt.Fprintln(os.Stderr, "go-dec-ir: hasEnoughBytes:", e)
	}
	fmt.Printf("go-dec-ir: %d containers, %d failed, %d IR nodes\n", len(conts), nfail, nodes)
}

// commentSafe makes a diagnostic text safe inside a Coq comment: Coq lexes string literals and nested comment brackets
// inside comments too, so an odd number of double quotes or a stray bracket would make the generated file unreadable
func commentSafe(s string) string {
	s = strings.ReplaceAll(s, "\"", "'")
	s = strings.ReplaceAll(s, "(*", "( *")
	return strings.ReplaceAll(s, "*)", "* )")
}
