module godecir

go 1.23
