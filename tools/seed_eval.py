#!/usr/bin/env python3
"""Evaluate one seeded change against the checks.
usage: seed_eval.py <Cxx> <mK> [--src /tmp/seed_out] [--tier quick|thorough] [--also Cyy,Czz]
 1. scratch worktree of /repo HEAD, apply patch.diff
 2. go build + the repository's own suite must pass
 3. the demo must FAIL with the change and PASS without it
 4. run ./check <Cxx> with VERIF_REPO pointing at the changed worktree; record what it reports
 5. write /verif/seeded/<Cxx>-<mK>/{patch.diff, <demo>, meta.json}; remove the worktree and its build output
"""
import argparse, json, os, re, shutil, subprocess, sys, time

ROOT = os.path.dirname(os.path.dirname(os.path.abspath(__file__)))
ENV = dict(os.environ, GOFLAGS="-mod=mod", GOPROXY="off", GOSUMDB="off", GOTOOLCHAIN="local")


def sh(cmd, cwd=None, env=None, timeout=1800):
    try:
        p = subprocess.run(cmd, cwd=cwd, env=env or ENV, shell=isinstance(cmd, str), stdout=subprocess.PIPE,
                           stderr=subprocess.STDOUT, universal_newlines=True, timeout=timeout)
        return p.returncode, p.stdout
    except subprocess.TimeoutExpired as e:
        return 124, (e.stdout or "") if isinstance(e.stdout, str) else "timeout"


def main():
    ap = argparse.ArgumentParser()
    ap.add_argument("pid"); ap.add_argument("mk")
    ap.add_argument("--src", default="/tmp/seed_out")
    ap.add_argument("--tier", default="quick")
    ap.add_argument("--also", default="")
    ap.add_argument("--keep", action="store_true")
    ap.add_argument("--round", type=int, default=1)
    a = ap.parse_args()
    src = os.path.join(a.src, a.pid, a.mk)
    name = "%s-%s" % (a.pid, a.mk if a.round == 1 else "r%d%s" % (a.round, a.mk))
    wt = "/tmp/seed_eval/wt_" + name
    bd = "/tmp/seed_eval/build_" + name
    out = dict(id=name, property=a.pid, round=a.round)
    meta = {}
    try:
        meta = json.load(open(os.path.join(src, "meta.json")))
    except Exception as e:
        out["error"] = "meta.json unreadable: %s" % e
    out["seeder_meta"] = meta
    os.makedirs("/tmp/seed_eval", exist_ok=True)
    sh(["git", "-C", "/repo", "worktree", "remove", "--force", wt]); shutil.rmtree(wt, ignore_errors=True)
    rc, o = sh(["git", "-C", "/repo", "worktree", "add", "-q", "--detach", wt, "HEAD"])
    ran = []
    verdict = "invalid"
    try:
        if rc != 0:
            out["error"] = "worktree: " + o[-300:]; return finish(out, a, src, verdict, ran)
        patch = os.path.join(src, "patch.diff")
        rc, o = sh(["git", "apply", "--whitespace=nowarn", patch], cwd=wt)
        ran.append("git apply patch.diff -> %d" % rc)
        if rc != 0:
            out["error"] = "patch does not apply to /repo HEAD: " + o[-400:]; return finish(out, a, src, verdict, ran)
        rc, o = sh("go build ./... ", cwd=wt)
        ran.append("go build ./... -> %d" % rc)
        if rc != 0:
            out["error"] = "does not build: " + o[-600:]; return finish(out, a, src, verdict, ran)
        # the repository's discovery tests bind a fixed TCP port: serialise suite runs, retry once
        import fcntl
        with open("/tmp/seed_eval/suite.lock", "w") as lk:
            fcntl.flock(lk, fcntl.LOCK_EX)
            # the discovery tests of the repository are flaky under load on the unchanged tree too
            # (fixed port, emulator shutdown race): the suite counts as passing if one of 4 runs passes
            for attempt in range(4):
                rc, o = sh("go test -vet=off -count=1 ./...", cwd=wt, timeout=900)
                if rc == 0:
                    break
                time.sleep(3)
        ran.append("go test -vet=off -count=1 ./... (existing suite, change applied) -> %d" % rc)
        out["suite_passes_with_change"] = rc == 0
        if rc != 0:
            out["error"] = "existing suite fails with the change: " + o[-800:]; return finish(out, a, src, verdict, ran)
        pkgdir = meta.get("package_dir", "pkg/llrp").strip("/").lstrip("./")
        demo_name = meta.get("demo_file") or "zz_demo_test.go"
        if not demo_name.endswith("_test.go"):
            demo_name = "zz_demo_test.go"
        demo_src = os.path.join(src, "demo_test.go")
        if not os.path.exists(demo_src):
            cands = [f for f in os.listdir(src) if f.endswith("_test.go")]
            demo_src = os.path.join(src, cands[0]) if cands else demo_src
        dst = os.path.join(wt, pkgdir, demo_name)
        shutil.copy(demo_src, dst)
        race = "-race " if meta.get("race") else ""
        cmd = "%sgo test %s-vet=off -count=1 -timeout 120s -run '^TestDemo$' ./%s/" % ("CGO_ENABLED=1 " if race else "", race, pkgdir)
        rc1, o1 = sh(cmd, cwd=wt, timeout=300)
        ran.append("%s (change applied) -> %d" % (cmd, rc1))
        out["demo_fails_with_change"] = rc1 != 0 and ("FAIL" in o1 or "panic" in o1 or rc1 == 124)
        out["demo_output_with_change"] = o1[-600:]
        sh(["git", "apply", "-R", "--whitespace=nowarn", patch], cwd=wt)
        rc2, o2 = sh(cmd, cwd=wt, timeout=300)
        ran.append("%s (change reverted) -> %d" % (cmd, rc2))
        out["demo_passes_without_change"] = rc2 == 0 and "no tests to run" not in o2
        if rc2 != 0:
            out["demo_output_without_change"] = o2[-600:]
        os.remove(dst)
        sh(["git", "apply", "--whitespace=nowarn", patch], cwd=wt)
        rc, o = sh("git status --short", cwd=wt)
        out["files_changed"] = [l[3:] for l in o.splitlines()]
        if not (out["demo_fails_with_change"] and out["demo_passes_without_change"]):
            verdict = "demo-not-confirmed"
            return finish(out, a, src, verdict, ran)
        # ---- the checks
        env = dict(ENV, VERIF_REPO=wt, VERIF_BUILD=bd)
        results = {}
        caught = False
        for pid in [a.pid] + [x for x in a.also.split(",") if x]:
            t0 = time.time()
            rc, o = sh([os.path.join(ROOT, "check"), pid, "--tier", a.tier], cwd=ROOT, env=env, timeout=3000)
            viol = [l for l in o.splitlines() if l.startswith("VIOLATION")]
            sigs = []
            for l in viol:
                m = re.search(r"replay=(\S+)", l)
                sig = None
                if m and os.path.exists(m.group(1)):
                    try:
                        sig = json.load(open(m.group(1))).get("signature")
                    except Exception:
                        pass
                sigs.append(dict(signature=sig, with_input="no-failing-input-found" not in l))
            results[pid] = dict(exit=rc, violations=len(viol), signatures=sigs, wall_s=round(time.time() - t0, 1),
                                tail=o[-400:] if rc not in (0, 1) else "")
            ran.append("VERIF_REPO=<changed worktree> ./check %s --tier %s -> exit %d, %d VIOLATION line(s)" % (pid, a.tier, rc, len(viol)))
            if pid == a.pid and rc == 1 and viol:
                caught = True
        out["checks"] = results
        verdict = "caught" if caught else "MISSED"
        # replays written while checking a mutated tree do not belong in /verif/replays
        return finish(out, a, src, verdict, ran)
    finally:
        if not a.keep:
            sh(["git", "-C", "/repo", "worktree", "remove", "--force", wt]); shutil.rmtree(wt, ignore_errors=True)
            shutil.rmtree(bd, ignore_errors=True)
            sh(["git", "-C", "/repo", "worktree", "prune"])


def finish(out, a, src, verdict, ran):
    out["verdict"] = verdict
    out["what_was_run"] = ran
    out["evaluated_against_repo_head"] = sh(["git", "-C", "/repo", "rev-parse", "--short", "HEAD"])[1].strip()
    if verdict in ("caught", "MISSED"):
        d = os.path.join(ROOT, "seeded", out["id"])
        os.makedirs(d, exist_ok=True)
        for f in os.listdir(src):
            if f.endswith(".diff") or f.endswith("_test.go"):
                shutil.copy(os.path.join(src, f), os.path.join(d, f if not f.endswith("_test.go") else "demo_test.go.txt"))
        m = out.get("seeder_meta", {})
        meta = dict(id=out["id"], property=out["property"], round=out.get("round", 1), title=m.get("title"), breaks=m.get("breaks"),
                    needs_to_manifest=m.get("needs"), package_dir=m.get("package_dir"), demo_file=m.get("demo_file"),
                    deterministic=m.get("deterministic"), files_changed=out.get("files_changed"),
                    confirmed=dict(builds=True, existing_suite_passes=out.get("suite_passes_with_change"),
                                   demo_fails_with_change=out.get("demo_fails_with_change"),
                                   demo_passes_without_change=out.get("demo_passes_without_change")),
                    what_was_run=ran, checks=out.get("checks"), verdict=verdict,
                    evaluated_against_repo_head=out["evaluated_against_repo_head"],
                    note="demo_test.go.txt is the demonstration (renamed so that it is never compiled from here); drop it into package_dir as demo_file")
        json.dump(meta, open(os.path.join(d, "meta.json"), "w"), indent=1)
    line = dict(id=out["id"], verdict=verdict, error=out.get("error"),
                sigs=[s for r in (out.get("checks") or {}).values() for s in r["signatures"]][:4],
                title=(out.get("seeder_meta") or {}).get("title"))
    print(json.dumps(line))
    return 0


main()
