module goir

go 1.23
