// go-ir: translate every UnmarshalBinary of pkg/llrp/generated_unmarshal.go into the decoder IR of
// /verif/coq/DecIR/IR.v.  Standard library only (go/ast, go/parser, go/token, go/printer).
//
// usage: go-ir -repo /repo -out build/gen/C11
// writes  <out>/DecPrograms.v   (Coq data: one `Definition prog_<T> : block := <sexp>.` per decoder, `all`)
//         <out>/programs.json   (function table, site table with file:line and Go text, translation failures)
//
// Anything that is not recognised makes translation FAIL for that function (it is then emitted as the
// program `(BCons (SUnknown <site>) BNil)`, which safe_prog rejects), never skipped.
package main

import (
	"bytes"
	"encoding/json"
	"flag"
	"fmt"
	"go/ast"
	"go/parser"
	"go/printer"
	"go/token"
	"os"
	"path/filepath"
	"sort"
	"strconv"
	"strings"
)

// ---------------------------------------------------------------- IR
type Expr struct {
	Op   string // const var len lenfrom rd add sub mul shr and
	Z    int64  // const value / var id / rd width / shift / mask
	A, B *Expr
}

type Cond struct {
	Op   string // CLt CLe CGt CGe CEq CNe
	A, B *Expr
}

type Case struct {
	Val  int64
	Name string
	Body []*Stmt
}

type Stmt struct {
	Kind  string // let eval reslice reterr retok if switch loop break call alloc allocobj copy copyloop str write unknown
	Site  int
	X     int64 // var id / label id / callee id (resolved late) / elem size
	E, E2 *Expr
	HasHi bool
	C     *Cond
	Then  []*Stmt
	Else  []*Stmt
	Cases []Case
	// copy loop
	At, Step, K int64
	Callee      string
}

type Site struct {
	ID   int    `json:"id"`
	Func string `json:"func"`
	Line int    `json:"line"`
	Kind string `json:"kind"`
	Path string `json:"path"` // line-independent: context/kind#ordinal
	Text string `json:"text"`
	Ctx  string `json:"ctx"` // innermost "case ParamX" / loop label, for candidate construction
}

type FuncInfo struct {
	ID    int    `json:"id"`
	Name  string `json:"name"`
	Line  int    `json:"line"`
	End   int    `json:"end"`
	OK    bool   `json:"ok"`
	Error string `json:"error,omitempty"`
	Vars  map[string]int64 `json:"vars"`
	Calls []string `json:"calls"`
}

func zs(z int64) string {
	if z < 0 {
		return fmt.Sprintf("(%d)", z)
	}
	return strconv.FormatInt(z, 10)
}

func (e *Expr) sexp() string {
	switch e.Op {
	case "const":
		return "(EConst " + zs(e.Z) + ")"
	case "var":
		return "(EVar " + zs(e.Z) + ")"
	case "len":
		return "ELen"
	case "lenfrom":
		return "(ELenFrom " + e.A.sexp() + ")"
	case "rd":
		return "(ERd " + zs(e.Z) + " " + e.A.sexp() + ")"
	case "add":
		return "(EAdd " + e.A.sexp() + " " + e.B.sexp() + ")"
	case "sub":
		return "(ESub " + e.A.sexp() + " " + e.B.sexp() + ")"
	case "mul":
		return "(EMul " + e.A.sexp() + " " + e.B.sexp() + ")"
	case "shr":
		return "(EShr " + e.A.sexp() + " " + zs(e.Z) + ")"
	case "and":
		return "(EAnd " + e.A.sexp() + " " + zs(e.Z) + ")"
	}
	panic("bad expr op " + e.Op)
}

func (c *Cond) sexp() string { return "(CCmp " + c.Op + " " + c.A.sexp() + " " + c.B.sexp() + ")" }

func blockSexp(ss []*Stmt) string {
	var b strings.Builder
	for _, s := range ss {
		b.WriteString("(BCons " + s.sexp() + " ")
	}
	b.WriteString("BNil")
	b.WriteString(strings.Repeat(")", len(ss)))
	return b.String()
}

func (s *Stmt) sexp() string {
	st := zs(int64(s.Site))
	switch s.Kind {
	case "let":
		return "(SLet " + st + " " + zs(s.X) + " " + s.E.sexp() + ")"
	case "eval":
		return "(SEval " + st + " " + s.E.sexp() + ")"
	case "reslice":
		return "(SReslice " + st + " " + s.E.sexp() + ")"
	case "reterr":
		return "SRetErr"
	case "retok":
		return "SRetOk"
	case "if":
		return "(SIf " + st + " " + s.C.sexp() + " " + blockSexp(s.Then) + " " + blockSexp(s.Else) + ")"
	case "switch":
		var b strings.Builder
		for _, c := range s.Cases {
			b.WriteString("(CCons " + zs(c.Val) + " " + blockSexp(c.Body) + " ")
		}
		b.WriteString("CNil" + strings.Repeat(")", len(s.Cases)))
		return "(SSwitch " + st + " " + s.E.sexp() + " " + b.String() + " " + blockSexp(s.Else) + ")"
	case "loop":
		return "(SLoop " + st + " " + zs(s.X) + " " + s.C.sexp() + " " + blockSexp(s.Then) + ")"
	case "break":
		return "(SBreak " + zs(s.X) + ")"
	case "call":
		hi := "None"
		if s.HasHi {
			hi = "(Some " + s.E2.sexp() + ")"
		}
		return "(SCall " + st + " " + zs(s.X) + " " + s.E.sexp() + " " + hi + ")"
	case "alloc":
		return "(SAlloc " + st + " " + s.E.sexp() + " " + zs(s.X) + ")"
	case "allocobj":
		return "SAllocObj"
	case "copy":
		return "(SCopy " + st + " " + s.E.sexp() + " " + s.E2.sexp() + ")"
	case "copyloop":
		return "(SCopyLoop " + st + " " + s.E.sexp() + " " + zs(s.At) + " " + zs(s.Step) + " " + zs(s.K) + ")"
	case "str":
		return "(SStr " + st + " " + s.E.sexp() + " " + s.E2.sexp() + ")"
	case "write":
		return "(SWrite " + st + ")"
	case "unknown":
		return "(SUnknown " + st + ")"
	}
	panic("bad stmt kind " + s.Kind)
}

// ---------------------------------------------------------------- package facts
type pkgFacts struct {
	fset    *token.FileSet
	consts  map[string]int64             // ParamX -> value
	scalars map[string]int64             // named scalar type -> size in bytes
	fields  map[string]map[string]string // struct -> field -> element type name (pointer/slice stripped)
	heOp    string                       // comparison operator of hasEnoughBytes: `needed OP got` -> nil
	heErr   string
}

var basicSize = map[string]int64{"byte": 1, "uint8": 1, "int8": 1, "bool": 1, "uint16": 2, "int16": 2,
	"uint32": 4, "int32": 4, "uint64": 8, "int64": 8}

func typeName(e ast.Expr) string {
	switch t := e.(type) {
	case *ast.Ident:
		return t.Name
	case *ast.StarExpr:
		return typeName(t.X)
	case *ast.ArrayType:
		return typeName(t.Elt)
	}
	return ""
}

func (pf *pkgFacts) load(dir string) error {
	ents, err := os.ReadDir(dir)
	if err != nil {
		return err
	}
	pending := map[string]string{}
	for _, en := range ents {
		n := en.Name()
		if !strings.HasSuffix(n, ".go") || strings.HasSuffix(n, "_test.go") {
			continue
		}
		f, err := parser.ParseFile(pf.fset, filepath.Join(dir, n), nil, 0)
		if err != nil {
			return err
		}
		for _, d := range f.Decls {
			gd, ok := d.(*ast.GenDecl)
			if !ok {
				continue
			}
			for _, sp := range gd.Specs {
				switch s := sp.(type) {
				case *ast.ValueSpec:
					if gd.Tok != token.CONST {
						continue
					}
					for i, nm := range s.Names {
						if i >= len(s.Values) {
							continue
						}
						// X = ParamType(N)
						if ce, ok := s.Values[i].(*ast.CallExpr); ok && len(ce.Args) == 1 {
							if id, ok := ce.Fun.(*ast.Ident); ok && id.Name == "ParamType" {
								if bl, ok := ce.Args[0].(*ast.BasicLit); ok && bl.Kind == token.INT {
									v, err := strconv.ParseInt(bl.Value, 0, 64)
									if err == nil {
										pf.consts[nm.Name] = v
									}
								}
							}
						}
					}
				case *ast.TypeSpec:
					switch t := s.Type.(type) {
					case *ast.Ident:
						if sz, ok := basicSize[t.Name]; ok {
							pf.scalars[s.Name.Name] = sz
						} else {
							pending[s.Name.Name] = t.Name
						}
					case *ast.StructType:
						m := map[string]string{}
						for _, fl := range t.Fields.List {
							tn := typeName(fl.Type)
							for _, nm := range fl.Names {
								m[nm.Name] = tn
							}
							if len(fl.Names) == 0 && tn != "" {
								m[tn] = tn
							}
						}
						pf.fields[s.Name.Name] = m
					}
				}
			}
		}
	}
	for i := 0; i < 4; i++ {
		for k, v := range pending {
			if sz, ok := pf.scalars[v]; ok {
				pf.scalars[k] = sz
			}
		}
	}
	for k, v := range basicSize {
		pf.scalars[k] = v
	}
	return nil
}

// ---------------------------------------------------------------- translator state
type tr struct {
	pf       *pkgFacts
	fn       string
	recv     string // receiver identifier
	recvT    string
	vars     map[string]int64
	tracked  map[string]bool   // selector texts read somewhere
	locals   map[string]string // local var -> type name
	made     map[string]*madeInfo
	sites    *[]Site
	ctx      []string
	ctxCase  string
	ord      map[string]int
	labels   map[string]int64
	loopLbl  []string
	calls    []string
}

type madeInfo struct {
	n    *Expr
	text string
}

type trErr struct {
	pos token.Pos
	msg string
}

func (e *trErr) Error() string { return e.msg }

func (t *tr) fail(n ast.Node, format string, a ...interface{}) error {
	return &trErr{n.Pos(), fmt.Sprintf(format, a...) + ": `" + t.src(n) + "`"}
}

func (t *tr) src(n ast.Node) string {
	var b bytes.Buffer
	printer.Fprint(&b, t.pf.fset, n)
	s := b.String()
	s = strings.Join(strings.Fields(s), " ")
	if len(s) > 160 {
		s = s[:160] + "..."
	}
	return s
}

func (t *tr) line(n ast.Node) int { return t.pf.fset.Position(n.Pos()).Line }

func (t *tr) site(n ast.Node, kind string) int {
	ctx := strings.Join(t.ctx, "/")
	key := ctx + "|" + kind
	o := t.ord[key]
	t.ord[key] = o + 1
	path := kind + "#" + strconv.Itoa(o)
	if ctx != "" {
		path = ctx + "/" + path
	}
	id := len(*t.sites)
	*t.sites = append(*t.sites, Site{ID: id, Func: t.fn, Line: t.line(n), Kind: kind, Path: path, Text: t.src(n), Ctx: t.ctxCase})
	return id
}

func (t *tr) varID(name string) int64 {
	if v, ok := t.vars[name]; ok {
		return v
	}
	v := int64(len(t.vars))
	t.vars[name] = v
	return v
}

func isData(e ast.Expr) bool {
	id, ok := e.(*ast.Ident)
	return ok && id.Name == "data"
}

func mentionsData(n ast.Node) bool {
	found := false
	ast.Inspect(n, func(x ast.Node) bool {
		if id, ok := x.(*ast.Ident); ok && id.Name == "data" {
			found = true
		}
		return !found
	})
	return found
}

func intLit(e ast.Expr) (int64, bool) {
	if p, ok := e.(*ast.ParenExpr); ok {
		return intLit(p.X)
	}
	bl, ok := e.(*ast.BasicLit)
	if !ok || bl.Kind != token.INT {
		return 0, false
	}
	v, err := strconv.ParseInt(bl.Value, 0, 64)
	return v, err == nil
}

// value-preserving conversions allowed where the value is kept (Let / conditions): the operand is
// always a non-negative quantity below 2^16 (or a length), so these are the identity.
var keepConv = map[string]bool{"int": true, "int64": true, "ParamType": true, "uint16": true}

// dataFrom recognises `data` (-> 0) and `data[e:]` (-> e); anything else is an error.
func (t *tr) dataFrom(e ast.Expr, keep bool) (*Expr, error) {
	if isData(e) {
		return &Expr{Op: "const", Z: 0}, nil
	}
	if se, ok := e.(*ast.SliceExpr); ok && isData(se.X) && se.High == nil && se.Max == nil && !se.Slice3 {
		if se.Low == nil {
			return &Expr{Op: "const", Z: 0}, nil
		}
		return t.expr(se.Low, keep)
	}
	return nil, t.fail(e, "unrecognised slice of data")
}

var cmpOps = map[token.Token]string{token.LSS: "CLt", token.LEQ: "CLe", token.GTR: "CGt", token.GEQ: "CGe", token.EQL: "CEq", token.NEQ: "CNe"}

// expr translates an integer expression.  keep=true: the value is used later (stored in an IR variable or
// compared), so only value-preserving forms are allowed; keep=false: evaluated for its panics only.
func (t *tr) expr(e ast.Expr, keep bool) (*Expr, error) {
	switch x := e.(type) {
	case *ast.ParenExpr:
		return t.expr(x.X, keep)
	case *ast.BasicLit:
		if v, ok := intLit(x); ok {
			return &Expr{Op: "const", Z: v}, nil
		}
		return nil, t.fail(e, "non-integer literal")
	case *ast.Ident:
		if v, ok := t.pf.consts[x.Name]; ok {
			return &Expr{Op: "const", Z: v}, nil
		}
		if v, ok := t.vars[x.Name]; ok {
			return &Expr{Op: "var", Z: v}, nil
		}
		return nil, t.fail(e, "unknown identifier")
	case *ast.SelectorExpr, *ast.StarExpr:
		name := t.src(x)
		if mentionsData(x) {
			return nil, t.fail(e, "selector over data")
		}
		if v, ok := t.vars[name]; ok {
			return &Expr{Op: "var", Z: v}, nil
		}
		return nil, t.fail(e, "read of a location that was not assigned in this function")
	case *ast.IndexExpr:
		if !isData(x.X) {
			return nil, t.fail(e, "index of something other than data")
		}
		ix, err := t.expr(x.Index, true)
		if err != nil {
			return nil, err
		}
		return &Expr{Op: "rd", Z: 1, A: ix}, nil
	case *ast.CallExpr:
		// len(data), len(data[e:])
		if id, ok := x.Fun.(*ast.Ident); ok && id.Name == "len" && len(x.Args) == 1 {
			if isData(x.Args[0]) {
				return &Expr{Op: "len"}, nil
			}
			from, err := t.dataFrom(x.Args[0], true)
			if err != nil {
				return nil, err
			}
			return &Expr{Op: "lenfrom", A: from}, nil
		}
		// binary.BigEndian.UintN(data[e:])
		if se, ok := x.Fun.(*ast.SelectorExpr); ok && len(x.Args) == 1 {
			if t.src(se.X) == "binary.BigEndian" {
				w := map[string]int64{"Uint16": 2, "Uint32": 4, "Uint64": 8}[se.Sel.Name]
				if w == 0 {
					return nil, t.fail(e, "unknown binary.BigEndian function")
				}
				from, err := t.dataFrom(x.Args[0], true)
				if err != nil {
					return nil, err
				}
				return &Expr{Op: "rd", Z: w, A: from}, nil
			}
		}
		// conversion T(e)
		if id, ok := x.Fun.(*ast.Ident); ok && len(x.Args) == 1 {
			_, isScalar := t.pf.scalars[id.Name]
			if keepConv[id.Name] || (!keep && (isScalar || id.Name == "int")) {
				return t.expr(x.Args[0], keep)
			}
			if keep {
				return nil, t.fail(e, "conversion that may change the value in a kept position")
			}
		}
		return nil, t.fail(e, "unrecognised call")
	case *ast.BinaryExpr:
		if _, isCmp := cmpOps[x.Op]; isCmp {
			if keep {
				return nil, t.fail(e, "comparison in a kept integer position")
			}
			a, err := t.expr(x.X, false)
			if err != nil {
				return nil, err
			}
			b, err := t.expr(x.Y, false)
			if err != nil {
				return nil, err
			}
			if b.Op == "const" { // `v != 0`: only the operand can panic
				return a, nil
			}
			return &Expr{Op: "add", A: a, B: b}, nil
		}
		a, err := t.expr(x.X, keep)
		if err != nil {
			return nil, err
		}
		switch x.Op {
		case token.SHR, token.AND:
			v, ok := intLit(x.Y)
			if !ok || v < 0 {
				return nil, t.fail(e, "shift/mask by a non-literal")
			}
			if x.Op == token.SHR {
				return &Expr{Op: "shr", Z: v, A: a}, nil
			}
			return &Expr{Op: "and", Z: v, A: a}, nil
		case token.ADD, token.SUB, token.MUL:
			b, err := t.expr(x.Y, keep)
			if err != nil {
				return nil, err
			}
			return &Expr{Op: map[token.Token]string{token.ADD: "add", token.SUB: "sub", token.MUL: "mul"}[x.Op], A: a, B: b}, nil
		}
		return nil, t.fail(e, "unrecognised operator")
	}
	return nil, t.fail(e, "unrecognised expression")
}

func (t *tr) cond(e ast.Expr) (*Cond, error) {
	if p, ok := e.(*ast.ParenExpr); ok {
		return t.cond(p.X)
	}
	be, ok := e.(*ast.BinaryExpr)
	if !ok {
		return nil, t.fail(e, "condition is not a comparison")
	}
	op, ok := cmpOps[be.Op]
	if !ok {
		return nil, t.fail(e, "condition is not a simple comparison")
	}
	a, err := t.expr(be.X, true)
	if err != nil {
		return nil, err
	}
	b, err := t.expr(be.Y, true)
	if err != nil {
		return nil, err
	}
	return &Cond{Op: op, A: a, B: b}, nil
}

func (t *tr) push(c string) { t.ctx = append(t.ctx, c) }
func (t *tr) pop()          { t.ctx = t.ctx[:len(t.ctx)-1] }

// receiver type of x in x.UnmarshalBinary(...)
func (t *tr) typeOf(e ast.Expr) (string, error) {
	switch x := e.(type) {
	case *ast.Ident:
		if x.Name == t.recv {
			return t.recvT, nil
		}
		if tn, ok := t.locals[x.Name]; ok {
			return tn, nil
		}
	case *ast.SelectorExpr:
		bt, err := t.typeOf(x.X)
		if err != nil {
			return "", err
		}
		if fm, ok := t.pf.fields[bt]; ok {
			if ft, ok := fm[x.Sel.Name]; ok && ft != "" {
				return ft, nil
			}
		}
	case *ast.ParenExpr:
		return t.typeOf(x.X)
	case *ast.StarExpr:
		return t.typeOf(x.X)
	}
	return "", t.fail(e, "cannot determine the type of the call receiver")
}

func isErrNotNil(e ast.Expr) bool {
	be, ok := e.(*ast.BinaryExpr)
	if !ok || be.Op != token.NEQ {
		return false
	}
	a, ok1 := be.X.(*ast.Ident)
	b, ok2 := be.Y.(*ast.Ident)
	return ok1 && ok2 && a.Name == "err" && b.Name == "nil"
}

func isReturnErr(b *ast.BlockStmt) bool {
	if b == nil || len(b.List) != 1 {
		return false
	}
	r, ok := b.List[0].(*ast.ReturnStmt)
	if !ok || len(r.Results) != 1 {
		return false
	}
	id, ok := r.Results[0].(*ast.Ident)
	return ok && id.Name == "err"
}

func (t *tr) block(list []ast.Stmt) ([]*Stmt, error) {
	var out []*Stmt
	for _, s := range list {
		ss, err := t.stmt(s)
		if err != nil {
			return nil, err
		}
		out = append(out, ss...)
	}
	return out, nil
}

func (t *tr) ifStmt(s *ast.IfStmt) ([]*Stmt, error) {
	// if err := F(...); err != nil { return err }
	if as, ok := s.Init.(*ast.AssignStmt); ok && as.Tok == token.DEFINE && len(as.Lhs) == 1 && len(as.Rhs) == 1 {
		if id, ok := as.Lhs[0].(*ast.Ident); ok && id.Name == "err" {
			if !isErrNotNil(s.Cond) || !isReturnErr(s.Body) || s.Else != nil {
				return nil, t.fail(s, "err-check of unexpected shape")
			}
			ce, ok := as.Rhs[0].(*ast.CallExpr)
			if !ok {
				return nil, t.fail(s, "err := non-call")
			}
			if fid, ok := ce.Fun.(*ast.Ident); ok && fid.Name == "hasEnoughBytes" {
				if t.pf.heErr != "" {
					return nil, t.fail(s, "hasEnoughBytes itself was not recognised (%s)", t.pf.heErr)
				}
				if len(ce.Args) != 4 {
					return nil, t.fail(s, "hasEnoughBytes arity")
				}
				need, err := t.expr(ce.Args[1], true)
				if err != nil {
					return nil, err
				}
				got, err := t.expr(ce.Args[2], true)
				if err != nil {
					return nil, err
				}
				st := t.site(s, "hasEnoughBytes")
				return []*Stmt{{Kind: "if", Site: st, C: &Cond{Op: t.pf.heOp, A: need, B: got}, Then: nil, Else: []*Stmt{{Kind: "reterr"}}}}, nil
			}
			if se, ok := ce.Fun.(*ast.SelectorExpr); ok && se.Sel.Name == "UnmarshalBinary" && len(ce.Args) == 1 {
				sl, ok := ce.Args[0].(*ast.SliceExpr)
				if !ok || !isData(sl.X) || sl.Slice3 || sl.Low == nil {
					return nil, t.fail(s, "UnmarshalBinary argument is not data[lo:hi]")
				}
				tn, err := t.typeOf(se.X)
				if err != nil {
					return nil, err
				}
				lo, err := t.expr(sl.Low, true)
				if err != nil {
					return nil, err
				}
				st := &Stmt{Kind: "call", Callee: tn, E: lo}
				if sl.High != nil {
					hi, err := t.expr(sl.High, true)
					if err != nil {
						return nil, err
					}
					st.E2, st.HasHi = hi, true
				}
				st.Site = t.site(s, "call:"+tn)
				t.calls = append(t.calls, tn)
				return []*Stmt{st}, nil
			}
			return nil, t.fail(s, "err := unknown call")
		}
	}
	var out []*Stmt
	if s.Init != nil {
		as, ok := s.Init.(*ast.AssignStmt)
		if !ok || as.Tok != token.DEFINE || len(as.Lhs) != 1 || len(as.Rhs) != 1 {
			return nil, t.fail(s, "if-init of unexpected shape")
		}
		id, ok := as.Lhs[0].(*ast.Ident)
		if !ok {
			return nil, t.fail(s, "if-init lhs")
		}
		e, err := t.expr(as.Rhs[0], true)
		if err != nil {
			return nil, err
		}
		out = append(out, &Stmt{Kind: "let", Site: t.site(as, "let:"+id.Name), X: t.varID(id.Name), E: e})
	}
	c, err := t.cond(s.Cond)
	if err != nil {
		return nil, err
	}
	st := &Stmt{Kind: "if", C: c, Site: t.site(s.Cond, "if")}
	t.push("then")
	th, err := t.block(s.Body.List)
	t.pop()
	if err != nil {
		return nil, err
	}
	st.Then = th
	switch el := s.Else.(type) {
	case nil:
	case *ast.BlockStmt:
		t.push("else")
		eb, err := t.block(el.List)
		t.pop()
		if err != nil {
			return nil, err
		}
		st.Else = eb
	case *ast.IfStmt:
		t.push("else")
		eb, err := t.ifStmt(el)
		t.pop()
		if err != nil {
			return nil, err
		}
		st.Else = eb
	default:
		return nil, t.fail(s, "else of unexpected shape")
	}
	return append(out, st), nil
}

func (t *tr) elemSize(e ast.Expr) (int64, bool) {
	at, ok := e.(*ast.ArrayType)
	if !ok || at.Len != nil {
		return 0, false
	}
	id, ok := at.Elt.(*ast.Ident)
	if !ok {
		return 0, false
	}
	sz, ok := t.pf.scalars[id.Name]
	return sz, ok
}

func (t *tr) assign(s *ast.AssignStmt) ([]*Stmt, error) {
	if len(s.Lhs) != 1 || len(s.Rhs) != 1 {
		return nil, t.fail(s, "multi-assignment")
	}
	lhs, rhs := s.Lhs[0], s.Rhs[0]
	// writes through data
	if mentionsData(lhs) {
		if isData(lhs) && s.Tok == token.ASSIGN {
			se, ok := rhs.(*ast.SliceExpr)
			if ok && isData(se.X) && se.High == nil && !se.Slice3 && se.Low != nil {
				e, err := t.expr(se.Low, true)
				if err != nil {
					return nil, err
				}
				return []*Stmt{{Kind: "reslice", Site: t.site(s, "reslice"), E: e}}, nil
			}
			return nil, t.fail(s, "data reassigned to something other than data[e:]")
		}
		return []*Stmt{{Kind: "write", Site: t.site(s, "write")}}, nil
	}
	if s.Tok != token.ASSIGN && s.Tok != token.DEFINE {
		return nil, t.fail(s, "compound assignment")
	}
	lname := t.src(lhs)
	if ce, ok := rhs.(*ast.CallExpr); ok {
		if id, ok := ce.Fun.(*ast.Ident); ok {
			switch id.Name {
			case "make":
				if len(ce.Args) != 2 {
					return nil, t.fail(s, "make arity")
				}
				sz, ok := t.elemSize(ce.Args[0])
				if !ok {
					return nil, t.fail(s, "make of an unknown element type")
				}
				n, err := t.expr(ce.Args[1], true)
				if err != nil {
					return nil, err
				}
				t.made[lname] = &madeInfo{n: n, text: t.src(ce.Args[1])}
				return []*Stmt{{Kind: "alloc", Site: t.site(s, "make"), E: n, X: sz}}, nil
			case "new":
				if len(ce.Args) == 1 && !mentionsData(ce.Args[0]) {
					return []*Stmt{{Kind: "allocobj"}}, nil
				}
			case "append":
				if len(ce.Args) == 2 && !mentionsData(ce) && t.src(ce.Args[0]) == lname {
					return []*Stmt{{Kind: "allocobj"}}, nil
				}
				return nil, t.fail(s, "append of unexpected shape")
			case "string":
				if len(ce.Args) == 1 {
					se, ok := ce.Args[0].(*ast.SliceExpr)
					if ok && isData(se.X) && !se.Slice3 && se.High != nil {
						lo := &Expr{Op: "const", Z: 0}
						var err error
						if se.Low != nil {
							if lo, err = t.expr(se.Low, true); err != nil {
								return nil, err
							}
						}
						hi, err := t.expr(se.High, true)
						if err != nil {
							return nil, err
						}
						return []*Stmt{{Kind: "str", Site: t.site(s, "string"), E: lo, E2: hi}}, nil
					}
				}
				return nil, t.fail(s, "string() of unexpected shape")
			}
		}
	}
	// x := e  /  field = e
	_, isIdent := lhs.(*ast.Ident)
	keep := s.Tok == token.DEFINE || isIdent || t.tracked[lname]
	switch lhs.(type) {
	case *ast.Ident, *ast.SelectorExpr, *ast.StarExpr:
	default:
		return nil, t.fail(s, "assignment to an unexpected kind of location")
	}
	e, err := t.expr(rhs, keep)
	if err != nil {
		return nil, err
	}
	if keep {
		return []*Stmt{{Kind: "let", Site: t.site(s, "let:"+lname), X: t.varID(lname), E: e}}, nil
	}
	if !mentionsData(rhs) {
		return nil, nil // a constant store into the result; cannot panic
	}
	return []*Stmt{{Kind: "eval", Site: t.site(s, "field"), E: e}}, nil
}

// copy loop:  for i := 0; i < N; i++ { X[i] = T(data[i+AT]) }
//             for i, pos := 0, AT; i < N; i, pos = i+1, pos+STEP { X[i] = T(binary.BigEndian.UintK(data[pos:])) }
func (t *tr) copyLoop(s *ast.ForStmt) ([]*Stmt, error) {
	bad := func(why string) ([]*Stmt, error) { return nil, t.fail(s, "for loop of unexpected shape (%s)", why) }
	init, ok := s.Init.(*ast.AssignStmt)
	if !ok || init.Tok != token.DEFINE || len(init.Lhs) != len(init.Rhs) || len(init.Lhs) < 1 || len(init.Lhs) > 2 {
		return bad("init")
	}
	iv, ok := init.Lhs[0].(*ast.Ident)
	if z, ok2 := intLit(init.Rhs[0]); !ok || !ok2 || z != 0 {
		return bad("init i")
	}
	var pv *ast.Ident
	var at, step int64
	twoVars := len(init.Lhs) == 2
	if twoVars {
		pv, ok = init.Lhs[1].(*ast.Ident)
		a, ok2 := intLit(init.Rhs[1])
		if !ok || !ok2 {
			return bad("init pos")
		}
		at = a
	}
	c, ok := s.Cond.(*ast.BinaryExpr)
	if !ok || c.Op != token.LSS {
		return bad("cond")
	}
	if ci, ok := c.X.(*ast.Ident); !ok || ci.Name != iv.Name {
		return bad("cond var")
	}
	isIncr := func(e ast.Expr, v string) (int64, bool) {
		be, ok := e.(*ast.BinaryExpr)
		if !ok || be.Op != token.ADD {
			return 0, false
		}
		id, ok := be.X.(*ast.Ident)
		k, ok2 := intLit(be.Y)
		return k, ok && ok2 && id.Name == v
	}
	if twoVars {
		post, ok := s.Post.(*ast.AssignStmt)
		if !ok || post.Tok != token.ASSIGN || len(post.Lhs) != 2 || len(post.Rhs) != 2 {
			return bad("post")
		}
		a, ok1 := post.Lhs[0].(*ast.Ident)
		b, ok2 := post.Lhs[1].(*ast.Ident)
		if !ok1 || !ok2 || a.Name != iv.Name || b.Name != pv.Name {
			return bad("post vars")
		}
		if k, ok := isIncr(post.Rhs[0], iv.Name); !ok || k != 1 {
			return bad("post i")
		}
		k, ok := isIncr(post.Rhs[1], pv.Name)
		if !ok {
			return bad("post pos")
		}
		step = k
	} else {
		post, ok := s.Post.(*ast.IncDecStmt)
		if !ok || post.Tok != token.INC {
			return bad("post")
		}
		if id, ok := post.X.(*ast.Ident); !ok || id.Name != iv.Name {
			return bad("post var")
		}
		step = 1
	}
	if len(s.Body.List) != 1 {
		return bad("body")
	}
	as, ok := s.Body.List[0].(*ast.AssignStmt)
	if !ok || as.Tok != token.ASSIGN || len(as.Lhs) != 1 || len(as.Rhs) != 1 {
		return bad("body stmt")
	}
	ix, ok := as.Lhs[0].(*ast.IndexExpr)
	if !ok || mentionsData(ix) {
		if ok && mentionsData(ix) {
			return []*Stmt{{Kind: "write", Site: t.site(as, "write")}}, nil
		}
		return bad("body lhs")
	}
	if id, ok := ix.Index.(*ast.Ident); !ok || id.Name != iv.Name {
		return bad("body index")
	}
	dst := t.src(ix.X)
	mi, ok := t.made[dst]
	if !ok || mi.text != t.src(c.Y) {
		return bad("destination was not made with the loop bound as its length")
	}
	// the element read: strip conversions
	rhs := as.Rhs[0]
	for {
		if p, ok := rhs.(*ast.ParenExpr); ok {
			rhs = p.X
			continue
		}
		if ce, ok := rhs.(*ast.CallExpr); ok && len(ce.Args) == 1 {
			if id, ok := ce.Fun.(*ast.Ident); ok {
				if _, ok := t.pf.scalars[id.Name]; ok {
					rhs = ce.Args[0]
					continue
				}
			}
		}
		break
	}
	var k int64
	var from ast.Expr
	switch r := rhs.(type) {
	case *ast.IndexExpr:
		if !isData(r.X) {
			return bad("element source")
		}
		k, from = 1, r.Index
	case *ast.CallExpr:
		se, ok := r.Fun.(*ast.SelectorExpr)
		if !ok || t.src(se.X) != "binary.BigEndian" || len(r.Args) != 1 {
			return bad("element source")
		}
		k = map[string]int64{"Uint16": 2, "Uint32": 4, "Uint64": 8}[se.Sel.Name]
		sl, ok := r.Args[0].(*ast.SliceExpr)
		if k == 0 || !ok || !isData(sl.X) || sl.High != nil || sl.Low == nil || sl.Slice3 {
			return bad("element source")
		}
		from = sl.Low
	default:
		return bad("element source")
	}
	if twoVars {
		if id, ok := from.(*ast.Ident); !ok || id.Name != pv.Name {
			return bad("element position")
		}
	} else {
		if id, ok := from.(*ast.Ident); ok && id.Name == iv.Name {
			at = 0
		} else if a, ok := isIncr(from, iv.Name); ok {
			at = a
		} else {
			return bad("element position")
		}
	}
	return []*Stmt{{Kind: "copyloop", Site: t.site(as, "copyloop"), E: mi.n, At: at, Step: step, K: k}}, nil // line of the element read: that is where Go panics
}

func (t *tr) stmt(s ast.Stmt) ([]*Stmt, error) {
	switch x := s.(type) {
	case *ast.EmptyStmt:
		return nil, nil
	case *ast.BlockStmt:
		return t.block(x.List)
	case *ast.IfStmt:
		return t.ifStmt(x)
	case *ast.ReturnStmt:
		if len(x.Results) != 1 {
			return nil, t.fail(s, "return arity")
		}
		if id, ok := x.Results[0].(*ast.Ident); ok && id.Name == "nil" {
			return []*Stmt{{Kind: "retok"}}, nil
		}
		if id, ok := x.Results[0].(*ast.Ident); ok && id.Name == "err" {
			return []*Stmt{{Kind: "reterr"}}, nil
		}
		ce, ok := x.Results[0].(*ast.CallExpr)
		if !ok || t.src(ce.Fun) != "fmt.Errorf" {
			return nil, t.fail(s, "return of something other than nil / err / fmt.Errorf")
		}
		var out []*Stmt
		for _, a := range ce.Args[1:] {
			if mentionsData(a) {
				e, err := t.expr(a, false)
				if err != nil {
					return nil, err
				}
				if e.Op != "len" {
					out = append(out, &Stmt{Kind: "eval", Site: t.site(a, "errarg"), E: e})
				}
			}
		}
		return append(out, &Stmt{Kind: "reterr"}), nil
	case *ast.AssignStmt:
		return t.assign(x)
	case *ast.DeclStmt:
		gd, ok := x.Decl.(*ast.GenDecl)
		if !ok || gd.Tok != token.VAR || len(gd.Specs) != 1 {
			return nil, t.fail(s, "declaration of unexpected shape")
		}
		vs := gd.Specs[0].(*ast.ValueSpec)
		if len(vs.Names) != 1 || len(vs.Values) != 0 {
			return nil, t.fail(s, "var with initialiser")
		}
		tn := typeName(vs.Type)
		if _, isScalar := t.pf.scalars[tn]; isScalar {
			return []*Stmt{{Kind: "let", Site: t.site(s, "let:"+vs.Names[0].Name), X: t.varID(vs.Names[0].Name), E: &Expr{Op: "const", Z: 0}}}, nil
		}
		if _, isStruct := t.pf.fields[tn]; isStruct {
			t.locals[vs.Names[0].Name] = tn
			return []*Stmt{{Kind: "allocobj"}}, nil
		}
		return nil, t.fail(s, "var of unknown type")
	case *ast.ExprStmt:
		ce, ok := x.X.(*ast.CallExpr)
		if ok {
			if id, ok := ce.Fun.(*ast.Ident); ok && id.Name == "copy" && len(ce.Args) == 2 {
				if mentionsData(ce.Args[0]) {
					return []*Stmt{{Kind: "write", Site: t.site(s, "write")}}, nil
				}
				mi, ok := t.made[t.src(ce.Args[0])]
				if !ok {
					return nil, t.fail(s, "copy into something not made in this function")
				}
				from, err := t.dataFrom(ce.Args[1], true)
				if err != nil {
					return nil, err
				}
				return []*Stmt{{Kind: "copy", Site: t.site(s, "copy"), E: mi.n, E2: from}}, nil
			}
		}
		return nil, t.fail(s, "expression statement")
	case *ast.LabeledStmt:
		fs, ok := x.Stmt.(*ast.ForStmt)
		if !ok || fs.Init != nil || fs.Post != nil || fs.Cond == nil {
			return nil, t.fail(s, "label on something other than `for cond {}`")
		}
		c, err := t.cond(fs.Cond)
		if err != nil {
			return nil, err
		}
		lbl := int64(len(t.labels))
		t.labels[x.Label.Name] = lbl
		st := &Stmt{Kind: "loop", X: lbl, C: c}
		st.Site = t.site(fs, "loop:"+x.Label.Name)
		t.push(x.Label.Name)
		old := t.ctxCase
		t.ctxCase = x.Label.Name
		t.loopLbl = append(t.loopLbl, x.Label.Name)
		body, err := t.block(fs.Body.List)
		t.loopLbl = t.loopLbl[:len(t.loopLbl)-1]
		t.ctxCase = old
		t.pop()
		if err != nil {
			return nil, err
		}
		st.Then = body
		return []*Stmt{st}, nil
	case *ast.ForStmt:
		if x.Init != nil {
			return t.copyLoop(x)
		}
		return nil, t.fail(s, "unlabelled loop")
	case *ast.BranchStmt:
		if x.Tok == token.BREAK && x.Label != nil {
			lbl, ok := t.labels[x.Label.Name]
			if !ok {
				return nil, t.fail(s, "break to unknown label")
			}
			return []*Stmt{{Kind: "break", X: lbl}}, nil
		}
		return nil, t.fail(s, "branch statement")
	case *ast.SwitchStmt:
		if x.Init != nil || x.Tag == nil {
			return nil, t.fail(s, "switch of unexpected shape")
		}
		tag, err := t.expr(x.Tag, true)
		if err != nil {
			return nil, err
		}
		st := &Stmt{Kind: "switch", E: tag, Site: t.site(x.Tag, "switch")}
		seenDefault := false
		for _, c := range x.Body.List {
			cc := c.(*ast.CaseClause)
			for _, b := range cc.Body {
				if br, ok := b.(*ast.BranchStmt); ok && (br.Tok == token.FALLTHROUGH || br.Label == nil) {
					return nil, t.fail(b, "fallthrough/unlabelled branch in a case")
				}
			}
			if cc.List == nil {
				t.push("default")
				body, err := t.block(cc.Body)
				t.pop()
				if err != nil {
					return nil, err
				}
				st.Else = body
				seenDefault = true
				continue
			}
			if len(cc.List) != 1 {
				return nil, t.fail(cc, "case with several values")
			}
			id, ok := cc.List[0].(*ast.Ident)
			if !ok {
				return nil, t.fail(cc, "case value is not a constant name")
			}
			v, ok := t.pf.consts[id.Name]
			if !ok {
				return nil, t.fail(cc, "case value is not a known ParamType constant")
			}
			t.push(id.Name)
			old := t.ctxCase
			if old != "" {
				t.ctxCase = old + "/" + id.Name
			} else {
				t.ctxCase = id.Name
			}
			body, err := t.block(cc.Body)
			t.ctxCase = old
			t.pop()
			if err != nil {
				return nil, err
			}
			st.Cases = append(st.Cases, Case{Val: v, Name: id.Name, Body: body})
		}
		_ = seenDefault
		return []*Stmt{st}, nil
	}
	return nil, t.fail(s, "unrecognised statement")
}

// hasEnoughBytes must be: if needed OP got { return nil }; then only ifs and returns of fmt.Errorf, ending in a return
func (pf *pkgFacts) hasEnough(fd *ast.FuncDecl) {
	pf.heErr = "shape not recognised"
	if fd.Type.Params == nil {
		return
	}
	var names []string
	for _, f := range fd.Type.Params.List {
		for _, n := range f.Names {
			names = append(names, n.Name)
		}
	}
	if len(names) != 4 || len(fd.Body.List) < 2 {
		return
	}
	first, ok := fd.Body.List[0].(*ast.IfStmt)
	if !ok || first.Init != nil || first.Else != nil || len(first.Body.List) != 1 {
		return
	}
	r, ok := first.Body.List[0].(*ast.ReturnStmt)
	if !ok || len(r.Results) != 1 {
		return
	}
	if id, ok := r.Results[0].(*ast.Ident); !ok || id.Name != "nil" {
		return
	}
	be, ok := first.Cond.(*ast.BinaryExpr)
	if !ok {
		return
	}
	a, ok1 := be.X.(*ast.Ident)
	b, ok2 := be.Y.(*ast.Ident)
	op, ok3 := cmpOps[be.Op]
	if !ok1 || !ok2 || !ok3 || a.Name != names[1] || b.Name != names[2] {
		return
	}
	good := true
	var walk func(list []ast.Stmt, last bool) // last: must end in a return
	walk = func(list []ast.Stmt, last bool) {
		for i, s := range list {
			switch x := s.(type) {
			case *ast.ReturnStmt:
				ce, ok := x.Results[0].(*ast.CallExpr)
				if len(x.Results) != 1 || !ok {
					good = false
					return
				}
				var bb bytes.Buffer
				printer.Fprint(&bb, pf.fset, ce.Fun)
				if bb.String() != "fmt.Errorf" {
					good = false
				}
				for _, arg := range ce.Args {
					if mentionsData(arg) {
						good = false
					}
				}
			case *ast.IfStmt:
				if x.Init != nil {
					good = false
				}
				walk(x.Body.List, false)
				switch el := x.Else.(type) {
				case nil:
				case *ast.BlockStmt:
					walk(el.List, false)
				case *ast.IfStmt:
					walk([]ast.Stmt{el}, false)
				default:
					good = false
				}
			default:
				good = false
			}
			if last && i == len(list)-1 {
				if _, ok := s.(*ast.ReturnStmt); !ok {
					good = false
				}
			}
		}
	}
	walk(fd.Body.List[1:], true)
	if good {
		pf.heOp, pf.heErr = op, ""
	}
}

func collectTracked(body *ast.BlockStmt, fset *token.FileSet) map[string]bool {
	tracked := map[string]bool{}
	var visit func(n ast.Node, reading bool)
	pr := func(n ast.Node) string {
		var b bytes.Buffer
		printer.Fprint(&b, fset, n)
		return strings.Join(strings.Fields(b.String()), " ")
	}
	visit = func(n ast.Node, reading bool) {
		ast.Inspect(n, func(x ast.Node) bool {
			switch y := x.(type) {
			case *ast.AssignStmt:
				for _, r := range y.Rhs {
					visit(r, true)
				}
				for _, l := range y.Lhs {
					if ix, ok := l.(*ast.IndexExpr); ok {
						visit(ix.Index, true)
					}
				}
				return false
			case *ast.SelectorExpr, *ast.StarExpr:
				if reading {
					tracked[pr(y)] = true
				}
			case *ast.CallExpr:
				// arguments of fmt.Errorf do not make a location "read" for our purposes
				if pr(y.Fun) == "fmt.Errorf" {
					return false
				}
			}
			return true
		})
	}
	visit(body, true)
	return tracked
}

// ---------------------------------------------------------------- message-level entry points
// Hand-written code that buffers a payload before a generated decoder runs: every `make([]byte, E)` whose
// size E is a length declared by a message header (mentions payloadLen) must be dominated by a guard that
// compares exactly that expression, unconverted and without arithmetic, against a constant:
//     if E > C { return ... }      (or >=; or the make sits in the else branch / in the body of `if E <= C`)
// so that in uint32 arithmetic nothing can wrap.  Anything else is reported as unguarded.
type EntryAlloc struct {
	File  string `json:"file"`
	Func  string `json:"func"`
	Line  int    `json:"line"`
	Size  string `json:"size"`
	OK    bool   `json:"ok"`
	Op    string `json:"op,omitempty"`
	Limit int64  `json:"limit,omitempty"`
	Guard string `json:"guard,omitempty"`
	Why   string `json:"why,omitempty"`
}

type guardFact struct {
	x     string
	op    string
	limit int64
	text  string
}

type entryScan struct {
	fset   *token.FileSet
	consts map[string]ast.Expr
	memo   map[string]*int64
	out    []EntryAlloc
	file   string
	fn     string
}

func (es *entryScan) src(n ast.Node) string {
	var b bytes.Buffer
	printer.Fprint(&b, es.fset, n)
	return strings.Join(strings.Fields(b.String()), " ")
}

// constant evaluation of integer expressions (literals, named constants, + - * << >>, parentheses, conversions)
func (es *entryScan) constVal(e ast.Expr, depth int) (int64, bool) {
	if depth > 20 {
		return 0, false
	}
	switch x := e.(type) {
	case *ast.BasicLit:
		return intLit(x)
	case *ast.ParenExpr:
		return es.constVal(x.X, depth+1)
	case *ast.Ident:
		if ce, ok := es.consts[x.Name]; ok {
			return es.constVal(ce, depth+1)
		}
	case *ast.CallExpr:
		if id, ok := x.Fun.(*ast.Ident); ok && len(x.Args) == 1 {
			if _, isBasic := basicSize[id.Name]; isBasic || id.Name == "int" || id.Name == "uint" {
				return es.constVal(x.Args[0], depth+1)
			}
		}
	case *ast.BinaryExpr:
		a, ok1 := es.constVal(x.X, depth+1)
		b, ok2 := es.constVal(x.Y, depth+1)
		if ok1 && ok2 {
			switch x.Op {
			case token.ADD:
				return a + b, true
			case token.SUB:
				return a - b, true
			case token.MUL:
				return a * b, true
			case token.SHL:
				if b >= 0 && b < 62 {
					return a << uint(b), true
				}
			case token.SHR:
				if b >= 0 && b < 62 {
					return a >> uint(b), true
				}
			}
		}
	}
	return 0, false
}

func rootIdent(e ast.Expr) string {
	for {
		switch x := e.(type) {
		case *ast.Ident:
			return x.Name
		case *ast.SelectorExpr:
			e = x.X
		case *ast.StarExpr:
			e = x.X
		case *ast.ParenExpr:
			e = x.X
		case *ast.IndexExpr:
			e = x.X
		default:
			return ""
		}
	}
}

func textRoot(s string) string {
	s = strings.TrimLeft(s, "*(")
	if i := strings.IndexAny(s, ".[) "); i >= 0 {
		s = s[:i]
	}
	return s
}

func isDeclaredLen(s string) bool { return strings.Contains(s, "payloadLen") }

// guardOf recognises `X > C`, `X >= C` (returns the fact that holds when the condition is FALSE) and
// `X <= C`, `X < C` (fact holds when TRUE; reported with neg = true)
func (es *entryScan) guardOf(cond ast.Expr) (g guardFact, neg bool, ok bool) {
	if p, isParen := cond.(*ast.ParenExpr); isParen {
		return es.guardOf(p.X)
	}
	be, isBin := cond.(*ast.BinaryExpr)
	if !isBin {
		return
	}
	// `C < X` etc.: the same comparison written the other way round
	if mirror, has := map[token.Token]token.Token{token.LSS: token.GTR, token.LEQ: token.GEQ, token.GTR: token.LSS, token.GEQ: token.LEQ}[be.Op]; has {
		if _, cok := es.constVal(be.X, 0); cok && isDeclaredLen(es.src(be.Y)) {
			be = &ast.BinaryExpr{X: be.Y, Op: mirror, Y: be.X, OpPos: be.OpPos}
		}
	}
	switch be.X.(type) {
	case *ast.SelectorExpr, *ast.Ident:
	default:
		return
	}
	x := es.src(be.X)
	if !isDeclaredLen(x) {
		return
	}
	c, cok := es.constVal(be.Y, 0)
	if !cok || c < 0 {
		return
	}
	switch be.Op {
	case token.GTR:
		return guardFact{x, "CGt", c, es.src(cond)}, false, true
	case token.GEQ: // X >= C rejected: allocation only for X < C
		return guardFact{x, "CGe", c, es.src(cond)}, false, true
	case token.LEQ:
		return guardFact{x, "CGt", c, es.src(cond)}, true, true
	case token.LSS:
		return guardFact{x, "CGe", c, es.src(cond)}, true, true
	}
	return
}

func terminates(b *ast.BlockStmt) bool {
	if b == nil || len(b.List) == 0 {
		return false
	}
	switch x := b.List[len(b.List)-1].(type) {
	case *ast.ReturnStmt:
		return true
	case *ast.ExprStmt:
		if ce, ok := x.X.(*ast.CallExpr); ok {
			if id, ok := ce.Fun.(*ast.Ident); ok && id.Name == "panic" {
				return true
			}
		}
	}
	return false
}

func assignedRoots(n ast.Node) map[string]bool {
	m := map[string]bool{}
	ast.Inspect(n, func(x ast.Node) bool {
		switch y := x.(type) {
		case *ast.AssignStmt:
			for _, l := range y.Lhs {
				if r := rootIdent(l); r != "" {
					m[r] = true
				}
			}
		case *ast.IncDecStmt:
			if r := rootIdent(y.X); r != "" {
				m[r] = true
			}
		case *ast.RangeStmt:
			for _, l := range []ast.Expr{y.Key, y.Value} {
				if l != nil {
					if r := rootIdent(l); r != "" {
						m[r] = true
					}
				}
			}
		}
		return true
	})
	return m
}

func dropRoots(gs []guardFact, roots map[string]bool) []guardFact {
	var out []guardFact
	for _, g := range gs {
		keep := true
		for r := range roots {
			if g.x == r || strings.HasPrefix(g.x, r+".") || strings.HasPrefix(g.x, "*"+r) {
				keep = false
			}
		}
		if keep {
			out = append(out, g)
		}
	}
	return out
}

// exprs: look for make([]byte, E) in the expressions of one simple statement
func (es *entryScan) exprs(n ast.Node, gs []guardFact) {
	ast.Inspect(n, func(x ast.Node) bool {
		if fl, ok := x.(*ast.FuncLit); ok {
			es.stmts(fl.Body.List, nil) // a closure may run later: no guard is inherited
			return false
		}
		ce, ok := x.(*ast.CallExpr)
		if !ok {
			return true
		}
		id, ok := ce.Fun.(*ast.Ident)
		if !ok || id.Name != "make" || len(ce.Args) < 2 {
			return true
		}
		size := es.src(ce.Args[1])
		if !isDeclaredLen(size) {
			return true
		}
		ea := EntryAlloc{File: es.file, Func: es.fn, Line: es.fset.Position(ce.Pos()).Line, Size: size}
		for _, g := range gs {
			if g.x == size {
				ea.OK, ea.Op, ea.Limit, ea.Guard = true, g.op, g.limit, g.text
			}
		}
		if !ea.OK {
			ea.Why = "no dominating guard of the form `" + size + " > <constant>` (plain comparison of the declared length itself)"
		}
		es.out = append(es.out, ea)
		return true
	})
}

func (es *entryScan) stmts(list []ast.Stmt, gs []guardFact) {
	gs = append([]guardFact(nil), gs...)
	for _, s := range list {
		switch x := s.(type) {
		case *ast.IfStmt:
			cur := gs
			if x.Init != nil {
				es.exprs(x.Init, cur)
				cur = dropRoots(cur, assignedRoots(x.Init))
			}
			es.exprs(x.Cond, cur)
			g, neg, ok := es.guardOf(x.Cond)
			if x.Init != nil {
				ok = ok && !assignedRoots(x.Init)[textRoot(g.x)]
			}
			thenG, elseG := cur, cur
			if ok && neg {
				thenG = append(append([]guardFact(nil), cur...), g)
			} else if ok {
				elseG = append(append([]guardFact(nil), cur...), g)
			}
			es.stmts(x.Body.List, thenG)
			switch el := x.Else.(type) {
			case *ast.BlockStmt:
				es.stmts(el.List, elseG)
			case *ast.IfStmt:
				es.stmts([]ast.Stmt{el}, elseG)
			}
			gs = dropRoots(cur, assignedRoots(x))
			if ok && !neg && x.Else == nil && terminates(x.Body) && !assignedRoots(x)[textRoot(g.x)] {
				gs = append(gs, g)
			}
		case *ast.BlockStmt:
			es.stmts(x.List, gs)
			gs = dropRoots(gs, assignedRoots(x))
		case *ast.ForStmt, *ast.RangeStmt, *ast.SwitchStmt, *ast.TypeSwitchStmt, *ast.SelectStmt:
			inner := dropRoots(gs, assignedRoots(x))
			ast.Inspect(x, func(y ast.Node) bool {
				if b, ok := y.(*ast.BlockStmt); ok {
					es.stmts(b.List, inner)
					return false
				}
				if cc, ok := y.(*ast.CaseClause); ok {
					es.stmts(cc.Body, inner)
					return false
				}
				if cc, ok := y.(*ast.CommClause); ok {
					es.stmts(cc.Body, inner)
					return false
				}
				return true
			})
			gs = inner
		case *ast.LabeledStmt:
			es.stmts([]ast.Stmt{x.Stmt}, gs)
			gs = dropRoots(gs, assignedRoots(x))
		default:
			es.exprs(s, gs)
			gs = dropRoots(gs, assignedRoots(s))
		}
	}
}

func scanEntryAllocs(dir string) ([]EntryAlloc, error) {
	es := &entryScan{fset: token.NewFileSet(), consts: map[string]ast.Expr{}}
	ents, err := os.ReadDir(dir)
	if err != nil {
		return nil, err
	}
	var files []*ast.File
	var names []string
	for _, en := range ents {
		n := en.Name()
		if !strings.HasSuffix(n, ".go") || strings.HasSuffix(n, "_test.go") || strings.HasPrefix(n, "generated_") {
			continue
		}
		f, err := parser.ParseFile(es.fset, filepath.Join(dir, n), nil, 0)
		if err != nil {
			return nil, err
		}
		files = append(files, f)
		names = append(names, n)
		for _, d := range f.Decls {
			if gd, ok := d.(*ast.GenDecl); ok && gd.Tok == token.CONST {
				for _, sp := range gd.Specs {
					vs := sp.(*ast.ValueSpec)
					for i, nm := range vs.Names {
						if i < len(vs.Values) {
							es.consts[nm.Name] = vs.Values[i]
						}
					}
				}
			}
		}
	}
	for i, f := range files {
		es.file = names[i]
		for _, d := range f.Decls {
			fd, ok := d.(*ast.FuncDecl)
			if !ok || fd.Body == nil {
				continue
			}
			es.fn = fd.Name.Name
			if fd.Recv != nil && len(fd.Recv.List) == 1 {
				es.fn = typeName(fd.Recv.List[0].Type) + "." + fd.Name.Name
			}
			es.stmts(fd.Body.List, nil)
		}
	}
	return es.out, nil
}

func main() {
	repo := flag.String("repo", os.Getenv("VERIF_REPO"), "repository root")
	out := flag.String("out", "", "output directory")
	flag.Parse()
	if *repo == "" {
		*repo = "/repo"
	}
	if *out == "" {
		fmt.Fprintln(os.Stderr, "go-ir: -out required")
		os.Exit(2)
	}
	dir := filepath.Join(*repo, "pkg", "llrp")
	pf := &pkgFacts{fset: token.NewFileSet(), consts: map[string]int64{}, scalars: map[string]int64{}, fields: map[string]map[string]string{}}
	if err := pf.load(dir); err != nil {
		fmt.Fprintln(os.Stderr, "go-ir:", err)
		os.Exit(1)
	}
	file := filepath.Join(dir, "generated_unmarshal.go")
	f, err := parser.ParseFile(pf.fset, file, nil, 0)
	if err != nil {
		fmt.Fprintln(os.Stderr, "go-ir:", err)
		os.Exit(1)
	}
	var decls []*ast.FuncDecl
	var others []string
	pf.heErr = "hasEnoughBytes not found in generated_unmarshal.go"
	for _, d := range f.Decls {
		fd, ok := d.(*ast.FuncDecl)
		if !ok {
			continue
		}
		if fd.Name.Name == "hasEnoughBytes" && fd.Recv == nil {
			pf.hasEnough(fd)
			continue
		}
		if fd.Name.Name == "UnmarshalBinary" && fd.Recv != nil && len(fd.Recv.List) == 1 {
			decls = append(decls, fd)
			continue
		}
		others = append(others, fd.Name.Name)
	}
	ids := map[string]int{}
	for i, fd := range decls {
		ids[typeName(fd.Recv.List[0].Type)] = i
	}
	var sites []Site
	var funcs []FuncInfo
	var progs [][]*Stmt
	for i, fd := range decls {
		tn := typeName(fd.Recv.List[0].Type)
		t := &tr{pf: pf, fn: tn, recvT: tn, vars: map[string]int64{}, locals: map[string]string{}, made: map[string]*madeInfo{},
			sites: &sites, ord: map[string]int{}, labels: map[string]int64{}}
		if len(fd.Recv.List[0].Names) == 1 {
			t.recv = fd.Recv.List[0].Names[0].Name
		}
		fi := FuncInfo{ID: i, Name: tn, Line: pf.fset.Position(fd.Pos()).Line, End: pf.fset.Position(fd.End()).Line, OK: true}
		var body []*Stmt
		var terr error
		// signature: (data []byte) error
		if fd.Type.Params == nil || len(fd.Type.Params.List) != 1 || len(fd.Type.Params.List[0].Names) != 1 ||
			fd.Type.Params.List[0].Names[0].Name != "data" {
			terr = &trErr{fd.Pos(), "unexpected signature"}
		} else {
			t.tracked = collectTracked(fd.Body, pf.fset)
			body, terr = t.block(fd.Body.List)
		}
		if terr == nil {
			// resolve callees
			var res func(ss []*Stmt)
			res = func(ss []*Stmt) {
				for _, s := range ss {
					if s.Kind == "call" {
						id, ok := ids[s.Callee]
						if !ok && terr == nil {
							terr = fmt.Errorf("call of UnmarshalBinary on %s, which has no generated decoder", s.Callee)
						}
						s.X = int64(id)
					}
					res(s.Then)
					res(s.Else)
					for _, c := range s.Cases {
						res(c.Body)
					}
				}
			}
			res(body)
		}
		if terr != nil {
			fi.OK = false
			line := fi.Line
			if te, ok := terr.(*trErr); ok {
				line = pf.fset.Position(te.pos).Line
			}
			fi.Error = fmt.Sprintf("line %d: %s", line, terr.Error())
			id := len(sites)
			sites = append(sites, Site{ID: id, Func: tn, Line: line, Kind: "untranslated", Path: "untranslated", Text: terr.Error()})
			body = []*Stmt{{Kind: "unknown", Site: id}}
		}
		fi.Vars = t.vars
		sort.Strings(t.calls)
		fi.Calls = t.calls
		funcs = append(funcs, fi)
		progs = append(progs, body)
	}
	// ---- write
	if err := os.MkdirAll(*out, 0o755); err != nil {
		fmt.Fprintln(os.Stderr, "go-ir:", err)
		os.Exit(1)
	}
	var v strings.Builder
	v.WriteString("(* GENERATED on every run by tools/go-ir from " + file + ". Do not edit. *)\n")
	v.WriteString("From Coq Require Import ZArith List.\nFrom LLRP Require Import DecIR.IR.\nImport ListNotations.\nOpen Scope Z_scope.\n")
	for i, p := range progs {
		v.WriteString(fmt.Sprintf("Definition prog_%s : block := %s.\n", funcs[i].Name, blockSexp(p)))
	}
	v.WriteString("Definition all : list (Z * block) := [\n")
	for i := range progs {
		sep := ";"
		if i == len(progs)-1 {
			sep = ""
		}
		v.WriteString(fmt.Sprintf("  (%d, prog_%s)%s\n", i, funcs[i].Name, sep))
	}
	v.WriteString("].\n")
	entries, eerr := scanEntryAllocs(dir)
	if eerr != nil {
		fmt.Fprintln(os.Stderr, "go-ir:", eerr)
		os.Exit(1)
	}
	v.WriteString("(* message-level buffering of a payload whose length a header declares: the guard (operator, constant) that dominates each make([]byte, declared length) *)\n")
	v.WriteString("Definition entry_guards : list (cmp * Z) := [")
	nbad := 0
	first := true
	for _, ea := range entries {
		if !ea.OK {
			nbad++
			continue
		}
		if !first {
			v.WriteString("; ")
		}
		first = false
		v.WriteString(fmt.Sprintf("(%s, %d)", ea.Op, ea.Limit))
	}
	v.WriteString("].\n")
	v.WriteString(fmt.Sprintf("Definition entry_unguarded : Z := %d.\n", nbad))
	if err := os.WriteFile(filepath.Join(*out, "DecPrograms.v"), []byte(v.String()), 0o644); err != nil {
		fmt.Fprintln(os.Stderr, "go-ir:", err)
		os.Exit(1)
	}
	meta := map[string]interface{}{"file": file, "functions": funcs, "sites": sites, "hasEnoughBytes_op": pf.heOp,
		"hasEnoughBytes_error": pf.heErr, "other_functions": others, "param_consts": pf.consts, "entry_allocs": entries}
	js, _ := json.MarshalIndent(meta, "", " ")
	if err := os.WriteFile(filepath.Join(*out, "programs.json"), js, 0o644); err != nil {
		fmt.Fprintln(os.Stderr, "go-ir:", err)
		os.Exit(1)
	}
	nfail := 0
	for _, fi := range funcs {
		if !fi.OK {
			nfail++
			fmt.Printf("UNTRANSLATED %s: %s\n", fi.Name, fi.Error)
		}
	}
	fmt.Printf("go-ir: %d decoders, %d translated, %d failed, %d sites; %d message-level allocations of a declared length, %d unguarded\n",
		len(funcs), len(funcs)-nfail, nfail, len(sites), len(entries), nbad)
}
