#!/usr/bin/env python3
"""writes MANIFEST.json from the table below (one entry per claimed property) and validates it."""
import json, os, sys
ROOT = os.path.dirname(os.path.dirname(os.path.abspath(__file__)))
sys.path.insert(0, os.path.join(ROOT, "checks"))
import manifest_table as T

props = [json.loads(l)["id"] for l in open(os.path.join(ROOT, "properties.jsonl"))]
checks = []
for pid in props:
    e = T.CLAIMED.get(pid)
    if not e:
        continue
    checks.append(dict(
        property_id=pid,
        quick_cmd="./check %s --tier quick" % pid,
        thorough_cmd="./check %s --tier thorough" % pid,
        evidence_file="/verif/evidence/%s.json" % pid,
        replay_cmd_template="./check %s --replay {path}" % pid,
        engine="coq-proof+correspondence",
        level_claimed=dict(category="proof", text=e["text"], design_ref=e.get("design_ref", "DESIGN.md §5 " + pid)),
        level_note=e["note"],
        technique=e["technique"]))
na = [dict(property_id=p, reason=T.NOT_APPLICABLE[p]) for p in props if p not in T.CLAIMED]
m = dict(version=1,
         setup_cmd="./setup.sh",
         hooks=dict(guard="verif",
                    enable="go test -c -tags verif -vet=off -overlay build/overlay_<pkg>.json ./<pkg>  (harness files under /verif/harness are compiled into /repo's packages by -overlay; /repo sources carry no hook)",
                    baseline_off_cmd="cd /repo && GOFLAGS=-mod=mod GOPROXY=off GOSUMDB=off go test -json -vet=off -count=1 -timeout 25m ./...",
                    source_commits=[], add_only=True),
         engines=[dict(name="coq-proof+correspondence", path="/verif/check",
                       serves_properties=[c["property_id"] for c in checks],
                       kind_free_text="Coq 8.16.1 theorems over a Gallina model (coq/), tied to /repo by extraction-based differential correspondence (oracle/, harness/) and by translators that regenerate model inputs from the Go source (tools/)")],
         checks=checks, not_applicable=na,
         notes="See DESIGN.md. known_findings.json lists genuine defects (fixed by fix: commits in /repo, or known).")
json.dump(m, open(os.path.join(ROOT, "MANIFEST.json"), "w"), indent=1)
print("MANIFEST.json: %d checks, %d not_applicable" % (len(checks), len(na)))
