#!/usr/bin/env python3
"""rewrite the seeded-changes table of DESIGN.md from seeded/*/meta.json"""
import glob, json, os, re
ROOT = os.path.dirname(os.path.dirname(os.path.abspath(__file__)))
rows = []
for f in sorted(glob.glob(os.path.join(ROOT, "seeded", "*", "meta.json"))):
    m = json.load(open(f))
    ck = (m.get("checks") or {}).get(m["property"], {})
    sigs = ", ".join(sorted({(s.get("signature") or "?") + ("" if s.get("with_input") else " (no-failing-input-found)") for s in ck.get("signatures", [])}))[:160]
    others = [p for p, r in (m.get("checks") or {}).items() if p != m["property"] and r.get("violations")]
    rows.append("| %s | %s | %s | %s | %s |" % (m["id"], (m.get("title") or "").replace("|", "/")[:110],
                                             (m.get("needs_to_manifest") or "").replace("|", "/").replace("\n", " ")[:140],
                                             m["verdict"] + ((" (tier %s)" % m.get("caught_in_tier")) if m.get("caught_in_tier") else ""),
                                             (sigs or "-") + ((" ; also flagged by " + ",".join(others)) if others else "")))
n = len(rows); c = sum(1 for r in rows if "| caught" in r)
table = ("%d independent changes kept, %d reported as VIOLATION by the check of the property they break.\n\n"
         "| id | change | needs to manifest | verdict | signatures reported |\n|----|--------|-------------------|---------|---------------------|\n" % (n, c)) + "\n".join(rows) + "\n"
p = os.path.join(ROOT, "DESIGN.md")
s = open(p).read()
s = re.sub(r"(<!-- SEEDED-TABLE-BEGIN -->\n).*?(<!-- SEEDED-TABLE-END -->)", lambda mo: mo.group(1) + table + mo.group(2), s, flags=re.S)
open(p, "w").write(s)
print("%d rows, %d caught" % (n, c))
