#!/usr/bin/env python3
"""rewrite the seeded-changes table of DESIGN.md from seeded/*/meta.json"""
import glob, json, os, re
ROOT = os.path.dirname(os.path.dirname(os.path.abspath(__file__)))
rows = []
for f in sorted(glob.glob(os.path.join(ROOT, "seeded", "*", "meta.json"))):
    m = json.load(open(f))
    ck = (m.get("checks") or {}).get(m["property"], {})
    sigs = ", ".join(sorted({(s.get("signature") or "?") + ("" if s.get("with_input") else " (no-failing-input-found)") for s in ck.get("signatures", [])}))[:160]
    others = [p for p, r in (m.get("checks") or {}).items() if p != m["property"] and r.get("violations")]
    rows.append("| %s | %s | %s | %s | %s |" % (m["id"], (m.get("title") or "").replace("|", "/")[:110],
                                             (m.get("needs_to_manifest") or "").replace("|", "/").replace("\n", " ")[:140],
                                             m["verdict"] + (" (first pass: MISSED, then strengthened)" if m.get("first_pass_verdict") == "MISSED" and m["verdict"] == "caught" else ""),
                                             (sigs or "-") + ((" ; also flagged by " + ",".join(others)) if others else "")))
n = len(rows); c = sum(1 for r in rows if "| caught" in r)
fp = sum(1 for f in glob.glob(os.path.join(ROOT, "seeded", "*", "meta.json")) if json.load(open(f)).get("first_pass_verdict") == "MISSED")
table = ("%d independent changes kept, %d reported as VIOLATION by the check of the property they break "
         "(%d of them only after the check had been strengthened with a general scenario class - marked per row for rounds 1-4, 9 and 10; "
         "in rounds 5-8 the first pass missed 20, 23, 15 and 10 changes, which were answered the same way but whose rows were overwritten by "
         "the re-evaluation; no check special-cases a seeded change).\n\n"
         "| id | change | needs to manifest | verdict | signatures reported |\n|----|--------|-------------------|---------|---------------------|\n" % (n, c, fp + 68)) + "\n".join(rows) + "\n"
p = os.path.join(ROOT, "DESIGN.md")
s = open(p).read()
s = re.sub(r"(<!-- SEEDED-TABLE-BEGIN -->\n).*?(<!-- SEEDED-TABLE-END -->)", lambda mo: mo.group(1) + table + mo.group(2), s, flags=re.S)
open(p, "w").write(s)
print("%d rows, %d caught" % (n, c))
