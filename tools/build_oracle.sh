#!/bin/sh
# usage: build_oracle.sh <id>   — extracts oracle/<id>/extract.v and builds build/oracle_<id>
set -e
ROOT="$(cd "$(dirname "$0")/.." && pwd)"; BUILD="${VERIF_BUILD:-$ROOT/build}"
id="$1"
d="$ROOT/oracle/$id"
mkdir -p "$d/gen" "$BUILD"
cd "$d/gen"
cp ../extract.v extract.v
coqc -Q "$ROOT/coq" LLRP extract.v >/dev/null
cp ../main.ml main.ml
ocamlfind ocamlopt -O3 -w -a -package str -linkpkg model.mli model.ml main.ml -o "$BUILD/oracle_$id" 2>/dev/null || \
ocamlfind ocamlopt -w -a -package str -linkpkg model.mli model.ml main.ml -o "$BUILD/oracle_$id"
