#!/bin/sh
# usage: build_oracle.sh <id>   — extracts oracle/<id>/extract.v and builds build/oracle_<id>.
# Builds in a private directory and installs the binary atomically; skips the build when the
# binary is newer than every input (the .vo files it extracts from, extract.v, main.ml).
set -e
ROOT="$(cd "$(dirname "$0")/.." && pwd)"; BUILD="${VERIF_BUILD:-$ROOT/build}"
id="$1"
d="$ROOT/oracle/$id"
out="$BUILD/oracle_$id"
mkdir -p "$BUILD"
if [ -x "$out" ] && [ -z "$(find "$d" -maxdepth 1 -type f -newer "$out" | head -1)" ] && \
   [ -z "$(find "$ROOT/coq" -name '*.vo' -newer "$out" | head -1)" ]; then exit 0; fi
w="$d/gen.$$"
rm -rf "$w"; mkdir -p "$w"
trap 'rm -rf "$w"' EXIT
cd "$w"
for f in "$d"/*; do [ -f "$f" ] && cp "$f" .; done
coqc -Q "$ROOT/coq" LLRP extract.v >/dev/null
ocamlfind ocamlopt -O3 -w -a -package str -linkpkg model.mli model.ml main.ml -o oracle.bin 2>/dev/null || \
ocamlfind ocamlopt -w -a -package str -linkpkg model.mli model.ml main.ml -o oracle.bin
mv -f oracle.bin "$out.$$" && mv -f "$out.$$" "$out"
