#!/bin/sh
# regenerate /repo/pkg/llrp/generated_*.go from the generator (keeps the licence header). usage: regen_llrp.sh <repo>
set -e
R="${1:-/repo}"; T=$(mktemp -d)
cp "$R/pkg/llrp/generate_param_code.py" "$R/pkg/llrp/messages.yaml" "$T/"
( cd "$T" && python3 generate_param_code.py -i messages.yaml -s generated_structs.go -t binary_test.go -m generated_marshal.go -u generated_unmarshal.go -e generated_encoder.go )
for f in generated_structs.go binary_test.go generated_marshal.go generated_unmarshal.go generated_encoder.go; do
  { head -5 "$R/pkg/llrp/$f"; cat "$T/$f"; } > "$T/$f.new"
  cmp -s "$T/$f.new" "$R/pkg/llrp/$f" || { cp "$T/$f.new" "$R/pkg/llrp/$f"; echo "updated $f"; }
done
rm -rf "$T"
