module gofnir

go 1.23
