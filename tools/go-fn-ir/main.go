// go-fn-ir: translate side-effect-free Go integer functions (and the leading "normalisation"
// statements of a function) into the deep embedding coq/GoFn/IR.v.
//
//	go-fn-ir -repo /repo -out DIR -spec 'internal/retry/retry.go:ExpBackOff.nextWait:go_nextWait' \
//	         -spec 'internal/retry/retry.go:ExpBackOff.RetryWithCtx[ebo.Max]:go_norm_max' ...
//
// A spec `file:Recv.Func:name` translates the whole body. A spec `file:Recv.Func[x]:name` translates
// the top-level statements of the body before the first `for` that are of the form
// `if <cond> { <assignments> }` or plain assignments, and only those that assign to receiver
// fields/locals (all others are skipped), followed by `return x`.
// Everything that is not in the embedded fragment is an error with its position: the check then
// falls back to its differential search.
package main

import (
	"encoding/json"
	"flag"
	"fmt"
	"go/ast"
	"go/parser"
	"go/token"
	"os"
	"path/filepath"
	"strings"
)

type specList []string

func (s *specList) String() string     { return strings.Join(*s, ",") }
func (s *specList) Set(v string) error { *s = append(*s, v); return nil }

type tr struct {
	fset   *token.FileSet
	recv   string          // receiver name
	ints   map[string]bool // names bound to 64-bit integers
	bools  map[string]bool
	nrand  int
	nnodes int
}

type terr struct {
	pos token.Position
	msg string
}

func (e terr) Error() string { return fmt.Sprintf("%s: %s", e.pos, e.msg) }

func (t *tr) fail(n ast.Node, f string, a ...interface{}) {
	panic(terr{t.fset.Position(n.Pos()), fmt.Sprintf(f, a...)})
}

func is64(e ast.Expr) bool {
	switch x := e.(type) {
	case *ast.Ident:
		return x.Name == "int" || x.Name == "int64"
	case *ast.SelectorExpr:
		if p, ok := x.X.(*ast.Ident); ok {
			return p.Name == "time" && x.Sel.Name == "Duration"
		}
	}
	return false
}

func isBool(e ast.Expr) bool {
	x, ok := e.(*ast.Ident)
	return ok && x.Name == "bool"
}

func (t *tr) name(e ast.Expr) (string, bool) {
	switch x := e.(type) {
	case *ast.Ident:
		return x.Name, true
	case *ast.SelectorExpr:
		if p, ok := x.X.(*ast.Ident); ok && p.Name == t.recv && t.recv != "" {
			return t.recv + "." + x.Sel.Name, true
		}
	case *ast.ParenExpr:
		return t.name(x.X)
	}
	return "", false
}

var binops = map[token.Token]string{
	token.ADD: "OAdd", token.SUB: "OSub", token.MUL: "OMul", token.QUO: "OQuo", token.SHL: "OShl",
	token.LEQ: "OLe", token.LSS: "OLt", token.GEQ: "OGe", token.GTR: "OGt", token.EQL: "OEq", token.NEQ: "ONe",
	token.LAND: "OAnd", token.LOR: "OOr",
}

func zlit(s string) string {
	s = strings.ReplaceAll(s, "_", "")
	var v int64
	var err error
	if strings.HasPrefix(s, "0x") || strings.HasPrefix(s, "0X") {
		_, err = fmt.Sscanf(s[2:], "%x", &v)
	} else {
		_, err = fmt.Sscanf(s, "%d", &v)
	}
	if err != nil {
		return ""
	}
	return fmt.Sprintf("%d", v)
}

func (t *tr) expr(e ast.Expr) string {
	t.nnodes++
	switch x := e.(type) {
	case *ast.ParenExpr:
		t.nnodes--
		return t.expr(x.X)
	case *ast.BasicLit:
		if x.Kind != token.INT {
			t.fail(x, "literal %s is not an integer", x.Value)
		}
		z := zlit(x.Value)
		if z == "" {
			t.fail(x, "integer literal %s not understood", x.Value)
		}
		return "(EInt " + z + ")"
	case *ast.Ident:
		switch x.Name {
		case "true":
			return "(EBool true)"
		case "false":
			return "(EBool false)"
		}
		if !t.ints[x.Name] && !t.bools[x.Name] {
			t.fail(x, "identifier %s is not a 64-bit integer or bool parameter/local", x.Name)
		}
		return fmt.Sprintf("(EVar %q)", x.Name)
	case *ast.SelectorExpr:
		if p, ok := x.X.(*ast.Ident); ok {
			if p.Name == "math" && x.Sel.Name == "MaxInt64" {
				return "(EInt 9223372036854775807)"
			}
			if p.Name == "math" && x.Sel.Name == "MinInt64" {
				return "(EInt (-9223372036854775808))"
			}
		}
		if n, ok := t.name(x); ok && (t.ints[n] || t.bools[n]) {
			return fmt.Sprintf("(EVar %q)", n)
		}
		t.fail(x, "selector is not a 64-bit integer or bool field of the receiver")
	case *ast.UnaryExpr:
		switch x.Op {
		case token.NOT:
			return "(ENot " + t.expr(x.X) + ")"
		case token.SUB:
			return "(EBin OSub (EInt 0) " + t.expr(x.X) + ")"
		case token.ADD:
			return t.expr(x.X)
		}
		t.fail(x, "unary operator %s", x.Op)
	case *ast.BinaryExpr:
		o, ok := binops[x.Op]
		if !ok {
			t.fail(x, "binary operator %s", x.Op)
		}
		return "(EBin " + o + " " + t.expr(x.X) + " " + t.expr(x.Y) + ")"
	case *ast.CallExpr:
		if len(x.Args) == 1 {
			if is64(x.Fun) {
				return "(EConv " + t.expr(x.Args[0]) + ")"
			}
			if s, ok := x.Fun.(*ast.SelectorExpr); ok {
				if p, ok := s.X.(*ast.Ident); ok && p.Name == "rand" && s.Sel.Name == "Int63n" {
					t.nrand++
					if t.nrand > 1 {
						t.fail(x, "more than one call of rand.Int63n")
					}
					return "(ERand " + t.expr(x.Args[0]) + ")"
				}
			}
		}
		t.fail(x, "call is neither a conversion between 64-bit integer types nor rand.Int63n")
	}
	t.fail(e, "expression %T is outside the embedded fragment", e)
	return ""
}

func seq(ss []string) string {
	if len(ss) == 0 {
		return "SSkip"
	}
	out := ss[len(ss)-1]
	for i := len(ss) - 2; i >= 0; i-- {
		out = "(SSeq " + ss[i] + " " + out + ")"
	}
	return out
}

func (t *tr) block(b *ast.BlockStmt) string {
	var ss []string
	for _, s := range b.List {
		ss = append(ss, t.stmt(s))
	}
	return seq(ss)
}

func (t *tr) assign(lhs ast.Expr, rhs string, define bool, n ast.Node, isbool bool) string {
	nm, ok := t.name(lhs)
	if !ok {
		t.fail(n, "assignment target is not a local or a receiver field")
	}
	if define {
		if isbool {
			t.bools[nm] = true
		} else {
			t.ints[nm] = true
		}
	} else if !t.ints[nm] && !t.bools[nm] {
		t.fail(n, "assignment to %s, which is not a 64-bit integer or bool", nm)
	}
	return fmt.Sprintf("(SSet %q %s)", nm, rhs)
}

func (t *tr) stmt(s ast.Stmt) string {
	t.nnodes++
	switch x := s.(type) {
	case *ast.BlockStmt:
		return t.block(x)
	case *ast.EmptyStmt:
		return "SSkip"
	case *ast.IfStmt:
		if x.Init != nil {
			t.fail(x, "if with an init statement")
		}
		els := "SSkip"
		if x.Else != nil {
			els = t.stmt(x.Else)
		}
		return "(SIf " + t.expr(x.Cond) + " " + t.block(x.Body) + " " + els + ")"
	case *ast.ReturnStmt:
		if len(x.Results) != 1 {
			t.fail(x, "return with %d results", len(x.Results))
		}
		return "(SRet " + t.expr(x.Results[0]) + ")"
	case *ast.AssignStmt:
		if len(x.Lhs) != 1 || len(x.Rhs) != 1 {
			t.fail(x, "multiple assignment")
		}
		rhs := t.expr(x.Rhs[0])
		switch x.Tok {
		case token.ASSIGN:
			return t.assign(x.Lhs[0], rhs, false, x, false)
		case token.DEFINE:
			// the type of a short declaration: bool iff the right-hand side is a comparison/logical expression
			isb := strings.HasPrefix(rhs, "(EBool") || strings.HasPrefix(rhs, "(ENot") ||
				strings.HasPrefix(rhs, "(EBin OLe") || strings.HasPrefix(rhs, "(EBin OLt") || strings.HasPrefix(rhs, "(EBin OGe") ||
				strings.HasPrefix(rhs, "(EBin OGt") || strings.HasPrefix(rhs, "(EBin OEq") || strings.HasPrefix(rhs, "(EBin ONe") ||
				strings.HasPrefix(rhs, "(EBin OAnd") || strings.HasPrefix(rhs, "(EBin OOr")
			return t.assign(x.Lhs[0], rhs, true, x, isb)
		case token.ADD_ASSIGN, token.SUB_ASSIGN, token.MUL_ASSIGN, token.QUO_ASSIGN, token.SHL_ASSIGN:
			op := map[token.Token]string{token.ADD_ASSIGN: "OAdd", token.SUB_ASSIGN: "OSub", token.MUL_ASSIGN: "OMul",
				token.QUO_ASSIGN: "OQuo", token.SHL_ASSIGN: "OShl"}[x.Tok]
			return t.assign(x.Lhs[0], "(EBin "+op+" "+t.expr(x.Lhs[0])+" "+rhs+")", false, x, false)
		}
		t.fail(x, "assignment operator %s", x.Tok)
	case *ast.IncDecStmt:
		op := "OAdd"
		if x.Tok == token.DEC {
			op = "OSub"
		}
		return t.assign(x.X, "(EBin "+op+" "+t.expr(x.X)+" (EInt 1))", false, x, false)
	case *ast.DeclStmt:
		gd, ok := x.Decl.(*ast.GenDecl)
		if !ok || gd.Tok != token.VAR {
			t.fail(x, "declaration other than var")
		}
		var ss []string
		for _, sp := range gd.Specs {
			vs := sp.(*ast.ValueSpec)
			for i, nm := range vs.Names {
				switch {
				case len(vs.Values) > i:
					isb := vs.Type != nil && isBool(vs.Type)
					if vs.Type != nil && !isb && !is64(vs.Type) {
						t.fail(vs, "var %s has a type outside the fragment", nm.Name)
					}
					ss = append(ss, t.assign(nm, t.expr(vs.Values[i]), true, vs, isb))
				case vs.Type != nil && is64(vs.Type):
					ss = append(ss, t.assign(nm, "(EInt 0)", true, vs, false))
				case vs.Type != nil && isBool(vs.Type):
					ss = append(ss, t.assign(nm, "(EBool false)", true, vs, true))
				default:
					t.fail(vs, "var %s has a type outside the fragment", nm.Name)
				}
			}
		}
		return seq(ss)
	}
	t.fail(s, "statement %T is outside the embedded fragment", s)
	return ""
}

// assignsOnlyKnown: every assignment in s targets a name bound so far
func (t *tr) normStmt(s ast.Stmt) (string, bool) {
	ok := true
	ast.Inspect(s, func(n ast.Node) bool {
		switch x := n.(type) {
		case *ast.AssignStmt:
			for _, l := range x.Lhs {
				if nm, k := t.name(l); !k || !(t.ints[nm] || t.bools[nm]) || x.Tok == token.DEFINE {
					ok = false
				}
			}
		case *ast.ReturnStmt, *ast.ExprStmt, *ast.GoStmt, *ast.DeferStmt, *ast.ForStmt, *ast.RangeStmt, *ast.DeclStmt, *ast.IncDecStmt, *ast.SendStmt:
			ok = false
		}
		return ok
	})
	if !ok {
		return "", false
	}
	switch s.(type) {
	case *ast.IfStmt, *ast.AssignStmt:
	default:
		return "", false
	}
	var out string
	func() {
		defer func() {
			if r := recover(); r != nil {
				if _, is := r.(terr); is {
					ok = false
					return
				}
				panic(r)
			}
		}()
		out = t.stmt(s)
	}()
	return out, ok
}

type result struct {
	Spec   string   `json:"spec"`
	Name   string   `json:"name"`
	Ok     bool     `json:"ok"`
	Error  string   `json:"error,omitempty"`
	Params []string `json:"params,omitempty"`
	Nodes  int      `json:"ir_nodes,omitempty"`
	Source string   `json:"source,omitempty"`
}

func translate(repo, spec string) (res result, coq string) {
	res.Spec = spec
	parts := strings.Split(spec, ":")
	if len(parts) != 3 {
		res.Error = "spec must be file:Recv.Func[:var]:name"
		return
	}
	file, fq, name := parts[0], parts[1], parts[2]
	res.Name = name
	retVar := ""
	if i := strings.Index(fq, "["); i >= 0 && strings.HasSuffix(fq, "]") {
		retVar = fq[i+1 : len(fq)-1]
		fq = fq[:i]
	}
	recvT, fname := "", fq
	if i := strings.Index(fq, "."); i >= 0 {
		recvT, fname = fq[:i], fq[i+1:]
	}
	fset := token.NewFileSet()
	af, err := parser.ParseFile(fset, filepath.Join(repo, file), nil, 0)
	if err != nil {
		res.Error = err.Error()
		return
	}
	t := &tr{fset: fset, ints: map[string]bool{}, bools: map[string]bool{}}
	var fd *ast.FuncDecl
	var st *ast.StructType
	for _, d := range af.Decls {
		switch x := d.(type) {
		case *ast.FuncDecl:
			if x.Name.Name != fname {
				continue
			}
			rt := ""
			if x.Recv != nil && len(x.Recv.List) == 1 {
				switch r := x.Recv.List[0].Type.(type) {
				case *ast.Ident:
					rt = r.Name
				case *ast.StarExpr:
					if id, ok := r.X.(*ast.Ident); ok {
						rt = id.Name
					}
				}
			}
			if rt == recvT {
				fd = x
			}
		case *ast.GenDecl:
			for _, sp := range x.Specs {
				if ts, ok := sp.(*ast.TypeSpec); ok && ts.Name.Name == recvT {
					st, _ = ts.Type.(*ast.StructType)
				}
			}
		}
	}
	if fd == nil || fd.Body == nil {
		res.Error = fmt.Sprintf("function %s not found in %s", fq, file)
		return
	}
	var params []string
	if recvT != "" {
		if st == nil {
			res.Error = "receiver type " + recvT + " is not a struct declared in " + file
			return
		}
		if len(fd.Recv.List[0].Names) == 1 {
			t.recv = fd.Recv.List[0].Names[0].Name
		}
		for _, f := range st.Fields.List {
			for _, n := range f.Names {
				q := t.recv + "." + n.Name
				if is64(f.Type) {
					t.ints[q] = true
					params = append(params, q)
				} else if isBool(f.Type) {
					t.bools[q] = true
					params = append(params, q)
				}
			}
		}
	}
	for _, f := range fd.Type.Params.List {
		for _, n := range f.Names {
			if is64(f.Type) {
				t.ints[n.Name] = true
				params = append(params, n.Name)
			} else if isBool(f.Type) {
				t.bools[n.Name] = true
				params = append(params, n.Name)
			}
		}
	}
	body := ""
	func() {
		defer func() {
			if r := recover(); r != nil {
				if e, ok := r.(terr); ok {
					res.Error = e.Error()
					return
				}
				panic(r)
			}
		}()
		if retVar == "" {
			body = t.block(fd.Body)
		} else {
			var ss []string
			for _, s := range fd.Body.List {
				if _, isFor := s.(*ast.ForStmt); isFor {
					break
				}
				if c, ok := t.normStmt(s); ok {
					ss = append(ss, c)
				}
			}
			if !t.ints[retVar] && !t.bools[retVar] {
				panic(terr{fset.Position(fd.Pos()), "variable " + retVar + " is not a 64-bit integer or bool"})
			}
			ss = append(ss, fmt.Sprintf("(SRet (EVar %q))", retVar))
			body = seq(ss)
		}
	}()
	if res.Error != "" {
		return
	}
	res.Ok, res.Params, res.Nodes = true, params, t.nnodes
	res.Source = fmt.Sprintf("%s:%d", file, fset.Position(fd.Pos()).Line)
	var ps []string
	for _, p := range params {
		ps = append(ps, fmt.Sprintf("%q", p))
	}
	coq = fmt.Sprintf("(* %s %s, %s *)\nDefinition %s : fn :=\n  {| fn_name := %q; fn_params := [%s];\n     fn_body := %s |}.\n\n",
		spec, res.Source, "translated by tools/go-fn-ir", name, fq, strings.Join(ps, "; "), body)
	return
}

func main() {
	var specs specList
	repo := flag.String("repo", "/repo", "repository root")
	out := flag.String("out", ".", "output directory")
	mod := flag.String("module", "GoFnCode", "name of the generated Coq file (without .v)")
	flag.Var(&specs, "spec", "file:Recv.Func[:var]:coqname (repeatable)")
	flag.Parse()
	var b strings.Builder
	b.WriteString("(* GENERATED by tools/go-fn-ir from the Go source of this run; do not edit *)\n")
	b.WriteString("From Coq Require Import ZArith String List.\nFrom LLRP Require Import GoFn.IR.\nImport ListNotations.\nOpen Scope string_scope.\nOpen Scope Z_scope.\n\n")
	var all []result
	bad := 0
	for _, s := range specs {
		r, c := translate(*repo, s)
		all = append(all, r)
		if !r.Ok {
			bad++
			continue
		}
		b.WriteString(c)
	}
	if err := os.MkdirAll(*out, 0o755); err != nil {
		fmt.Fprintln(os.Stderr, err)
		os.Exit(2)
	}
	if err := os.WriteFile(filepath.Join(*out, *mod+".v"), []byte(b.String()), 0o644); err != nil {
		fmt.Fprintln(os.Stderr, err)
		os.Exit(2)
	}
	js, _ := json.MarshalIndent(all, "", " ")
	_ = os.WriteFile(filepath.Join(*out, *mod+".json"), js, 0o644)
	if bad > 0 {
		for _, r := range all {
			if !r.Ok {
				fmt.Fprintf(os.Stderr, "%s: %s\n", r.Spec, r.Error)
			}
		}
		os.Exit(1)
	}
}
