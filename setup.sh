#!/bin/sh
# one-time offline setup after a fresh restore: full .vo build of the Coq development,
# extraction + OCaml build of every oracle, Go harness warm-up.
set -e
cd "$(dirname "$0")"
export GOFLAGS=-mod=mod GOPROXY=off GOSUMDB=off GOTOOLCHAIN=local
mkdir -p build gen replays evidence
tools/mkcoqproject.sh
( cd coq && timeout 3000 make -j16 ) > build/coq_build.log 2>&1 || { tail -40 build/coq_build.log; exit 1; }
for d in oracle/*/; do id=$(basename "$d"); [ -f "$d/extract.v" ] && tools/build_oracle.sh "$id"; done
for t in tools/*/; do [ -f "$t/main.go" ] && ( cd "$t" && go build -o ../../build/$(basename "$t") . ); done
echo setup ok
