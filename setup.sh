#!/bin/sh
# one-time offline setup after a fresh restore: full .vo build of the Coq development,
# extraction + OCaml build of every oracle, Go harness warm-up.
set -e
cd "$(dirname "$0")"
export GOFLAGS=-mod=mod GOPROXY=off GOSUMDB=off GOTOOLCHAIN=local
mkdir -p build gen replays evidence
tools/mkcoqproject.sh
python3 tools/gen_schema_table.py --check || python3 tools/gen_schema_table.py
[ -f tools/gen_json_table.py ] && { python3 tools/gen_json_table.py --check || python3 tools/gen_json_table.py; }
# -k: a file that does not compile must not stop the others; every check rebuilds (and judges) its own Props target;
# no single file may take more than 15 minutes (a diverging proof search must not hold up the whole setup)
( cd coq && timeout 3000 make -k -j16 COQC="timeout 900 coqc" ) > build/coq_build.log 2>&1 || { echo "WARNING: some Coq files did not build (see build/coq_build.log)"; grep -B2 -A6 "^Error" build/coq_build.log | head -40; }
for d in oracle/*/; do id=$(basename "$d"); if [ -f "$d/extract.v" ]; then tools/build_oracle.sh "$id" || echo "WARNING: oracle $id did not build"; fi; done
for t in tools/*/; do [ -f "$t/main.go" ] && ( cd "$t" && go build -o ../../build/$(basename "$t") . ); done
echo setup ok
