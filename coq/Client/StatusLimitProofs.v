(* C12 — lemmas about Client/StatusLimit.v *)
From Coq Require Import NArith List Bool Lia.
From LLRP Require Import Client.StatusLimit.
Import ListNotations.
Open Scope N_scope.

(* with one limit for both checks (as in the code), a complete reply reaches SendFor with exactly its payload
   iff it is within the limit; beyond it, the exchange is an error — never a shortened or empty payload *)
Lemma reply_bytes_same_limit : forall lim declared payload,
  reply_bytes lim lim declared payload =
  if declared <=? lim then DBytes payload else DTooLarge.
Proof.
  intros lim declared payload. unfold reply_bytes, message_data, hand_over.
  destruct (N.leb_spec (declared) lim) as [L|L].
  - destruct (N.ltb_spec lim (declared)); [lia|reflexivity].
  - destruct (N.ltb_spec lim (declared)); [reflexivity|lia].
Qed.

(* the two checks must agree: if the read loop's threshold is lower than Message.data's, every complete reply
   whose length lies between them reaches SendFor as an EMPTY payload *)
Lemma reply_bytes_gap_loses_payload : forall lim_loop lim_data declared payload,
  lim_loop < declared -> declared <= lim_data ->
  reply_bytes lim_loop lim_data declared payload = DBytes [].
Proof.
  intros lim_loop lim_data declared payload L1 L2. unfold reply_bytes, message_data, hand_over.
  destruct (N.ltb_spec lim_data (declared)); [lia|].
  destruct (N.leb_spec (declared) lim_loop); [lia|reflexivity].
Qed.
