(* Client/C09CloseResp.v — an UNSOLICITED CloseConnectionResponse never turns the end of the stream into a wait.

   handleIncoming tolerates EOF (and parks on <-c.done) only after it has seen a CloseConnectionResponse
   that answers a CloseConnection this client wrote: receivedClosed is set only while c.sentClose is set
   (reader.go 736-738; Model.note_close_resp / close_sent). Here, over every run of the LTS (today's and
   the fixed Connect):

     cs_inv:  saw_close s = true -> close_sent s = true

   i.e. whatever frames the reader has sent — CloseConnectionResponse frames with ANY message id, any
   number of them, at any point of the session — receivedClosed stays false as long as the write loop has
   never had a CloseConnection in its hand. Consequently the end of the stream (at a frame boundary, inside
   a header, inside a payload) ends the read loop with a read error, which is what makes Connect return
   (C09_loop_error_first / C09_connect_watching_returns). The message id plays no part in the model: that
   the code does not let it play one either is tied by the script family `unsolicited-ccr` (checks/c09.py). *)
From Coq Require Import NArith Arith List Bool Lia.
From LLRP Require Import Client.Types Client.Model Client.ModelX Client.MapLemmas Client.StepFacts
     Client.InvC08 Client.InvC09 Client.C09Proofs.
Import ListNotations.
Open Scope N_scope.

Definition cs_inv (s : state) : Prop := saw_close s = true -> close_sent s = true.

(* ---- the parts of the state cs_inv reads ---- *)
Definition same_cs (s s' : state) : Prop :=
  saw_close s' = saw_close s /\ writer s' = writer s /\ wire s' = wire s.

Lemma same_cs_refl : forall s, same_cs s s.
Proof. intro; repeat split. Qed.

Lemma same_cs_trans : forall a b c, same_cs a b -> same_cs b c -> same_cs a c.
Proof. intros a b c (A1 & A2 & A3) (B1 & B2 & B3). repeat split; congruence. Qed.

Lemma close_sent_same : forall s s', writer s' = writer s -> wire s' = wire s -> close_sent s' = close_sent s.
Proof. intros s s' Hw Hr. unfold close_sent. rewrite Hw, Hr. reflexivity. Qed.

Lemma cs_mono : forall s s', saw_close s' = saw_close s -> (close_sent s = true -> close_sent s' = true) ->
  cs_inv s -> cs_inv s'.
Proof. intros s s' Hs Hc I H. apply Hc, I. congruence. Qed.

Lemma cs_same : forall s s', same_cs s s' -> cs_inv s -> cs_inv s'.
Proof.
  intros s s' (A & B & C) I. apply (cs_mono s); auto. rewrite (close_sent_same s s' B C). auto.
Qed.

Lemma do_cancel_cs : forall c i s, same_cs s (do_cancel c i s).
Proof.
  intros. unfold do_cancel, set_caller. destruct (lookup i (awaiting s)); [|apply same_cs_refl].
  destruct (n =? c); [repeat split|].
  destruct (lookup n _) as [[r|r|r j|r res0]|]; repeat split.
Qed.

Lemma leave_cs : forall res c s, same_cs s (leave res c s).
Proof.
  intros. unfold leave, set_caller. destruct (lookup c (callers s)) as [[r|r|r i|r res0]|]; try (repeat split).
  - destruct (do_cancel_cs c i s) as (A & _). st_simpl_goal. exact A.
  - destruct (do_cancel_cs c i s) as (_ & A & _). st_simpl_goal. exact A.
  - destruct (do_cancel_cs c i s) as (_ & _ & A). st_simpl_goal. exact A.
Qed.

Lemma take_waiter_cs : forall cfg whole seq f s, same_cs s (fst (take_waiter cfg whole seq f s)).
Proof.
  intros. unfold take_waiter, set_caller. destruct (consults cfg (f_typ f)); [|apply same_cs_refl].
  destruct (lookup (f_id f) (awaiting s)); [|apply same_cs_refl].
  destruct (whole || _).
  - st_simpl_goal. destruct (lookup n (callers s)) as [[r|r|r j|r res0]|]; repeat split.
  - st_simpl_goal. destruct (lookup n (callers s)) as [[r|r|r j|r res0]|]; repeat split.
Qed.

Lemma ack_enqueue_cs : forall i s, same_cs s (ack_enqueue i s).
Proof. intros. unfold ack_enqueue. destruct (Nat.ltb _ _); repeat split. Qed.

Lemma run_handler_cs : forall cfg seq f h rep s, same_cs s (run_handler cfg seq f h rep s).
Proof.
  intros. unfold run_handler. cbv zeta.
  destruct (handler_for cfg (f_typ f)); try (repeat split; fail).
  eapply same_cs_trans; [|apply ack_enqueue_cs]. repeat split.
Qed.

(* the only place receivedClosed is set *)
Lemma note_close_resp_cs : forall f s,
  writer (note_close_resp f s) = writer s /\ wire (note_close_resp f s) = wire s /\
  (saw_close (note_close_resp f s) = true -> saw_close s = true \/ close_sent s = true) /\
  (saw_close s = true -> saw_close (note_close_resp f s) = true) /\
  (close_sent s = false -> saw_close (note_close_resp f s) = saw_close s).
Proof.
  intros. unfold note_close_resp. destruct (_ =? _); cbn [andb]; [|repeat split; auto].
  destruct (close_sent s) eqn:E; repeat split; auto; discriminate.
Qed.

Lemma cs_note : forall f s, cs_inv s -> cs_inv (note_close_resp f s).
Proof.
  intros f s I H. destruct (note_close_resp_cs f s) as (A & B & C & _).
  rewrite (close_sent_same s _ A B). destruct (C H) as [X|X]; auto.
Qed.

Lemma existsb_snoc : forall {A} (p : A -> bool) l x, existsb p (l ++ [x]) = existsb p l || p x.
Proof. intros. rewrite existsb_app. cbn. rewrite orb_false_r. reflexivity. Qed.

Lemma stamp_typ : forall cfg v o, f_typ (o_frame (stamp_o cfg v o)) = f_typ (o_frame o).
Proof. reflexivity. Qed.

Ltac cs_keep := first [ assumption | (eapply cs_same; [|eassumption]; repeat split; reflexivity) ].

(* one step: needs pre_inv only where Connect starts the loops (the write loop does not exist before) *)
Lemma cs_step : forall cfg s e, pre_inv s -> cs_inv s -> cs_inv (step cfg s e).
Proof.
  intros cfg s e P I. destruct e; cbn [step].
  - unfold step_submit. destruct (_ && _); cs_keep.
  - unfold step_pass_gate, set_caller. destruct (lookup c (callers s)) as [[r|r|r i|r res0]|]; try assumption.
    destruct (ready s); [destruct (max_payload <? q_len r)|]; cs_keep.
  - unfold step_see_closed. destruct (closed s); [|assumption]. apply (cs_same s); [apply leave_cs|assumption].
  - unfold step_cancel. apply (cs_same s); [apply leave_cs|assumption].
  - unfold step_wdefault. destruct (writer s) eqn:Ew, (ackq s); try assumption. destruct (closed s); [assumption|].
    apply (cs_mono s); [reflexivity| |assumption]. unfold close_sent. rewrite Ew. st_simpl_goal. auto.
  - unfold step_waccept, set_caller. destruct (writer s) eqn:Ew; try assumption.
    destruct (lookup c (callers s)) as [[r|r|r i|r res0]|]; try assumption.
    cbn zeta. apply (cs_mono s); [destruct (q_wait r), (q_id r =? 0); reflexivity| |assumption].
    unfold close_sent. rewrite Ew. cbn [orb]. intro H.
    destruct (q_wait r), (q_id r =? 0); st_simpl_goal; rewrite H; apply orb_true_r.
  - unfold step_wtakeack. destruct (writer s) eqn:Ew, (ackq s); try assumption;
      (apply (cs_mono s); [reflexivity| |assumption]; unfold close_sent; rewrite Ew; st_simpl_goal; cbn [orb]; intro H; rewrite H; apply orb_true_r).
  - unfold step_wwritehdr. destruct (writer s) eqn:Ew; try assumption. cbn zeta.
    apply (cs_mono s); [destruct (f_len _ =? 0); reflexivity| |assumption].
    unfold close_sent. rewrite Ew. intro H.
    destruct (f_len _ =? 0); st_simpl_goal; rewrite existsb_snoc; cbn [is_close_chunk]; rewrite ?stamp_typ;
      apply orb_true_iff in H; destruct H as [H|H]; rewrite H; rewrite ?orb_true_r; reflexivity.
  - unfold step_wwritepay. destruct (writer s) eqn:Ew; try assumption.
    apply (cs_mono s); [reflexivity| |assumption]. unfold close_sent. rewrite Ew. cbn [orb]. intro H.
    st_simpl_goal. rewrite existsb_snoc, H. apply orb_true_r.
  - unfold step_writefail. destruct (writer s) eqn:Ew; try assumption.
    + destruct (k <? header_sz); [|assumption].
      apply (cs_mono s); [reflexivity| |assumption]. unfold close_sent. rewrite Ew. intro H.
      st_simpl_goal. rewrite existsb_snoc. cbn [is_close_chunk orb]. rewrite ?stamp_typ.
      apply orb_true_iff in H; destruct H as [H|H]; rewrite H; rewrite ?orb_true_r; reflexivity.
    + destruct (k <? f_len _); [|assumption].
      apply (cs_mono s); [reflexivity| |assumption]. unfold close_sent. rewrite Ew. cbn [orb]. intro H.
      st_simpl_goal. rewrite existsb_snoc, H. reflexivity.
  - unfold step_wseedone. destruct (writer s) eqn:Ew; try assumption; destruct (closed s); try assumption;
      (apply (cs_mono s); [reflexivity| |assumption]; unfold close_sent; rewrite Ew; st_simpl_goal; auto).
  - unfold step_rcheck. destruct (reader s); try assumption; destruct (closed s); cs_keep.
  - unfold step_rseedone. destruct (reader s); try assumption; destruct (closed s); cs_keep.
  - unfold step_rframe. destruct (reader s); try assumption.
    set (s1 := note_close_resp f (set_peer_sent (peer_sent s ++ [f]) s)).
    assert (I1 : cs_inv s1) by (apply cs_note; cs_keep).
    pose proof (take_waiter_cs cfg true (length (peer_sent s)) f s1) as H.
    destruct (take_waiter cfg true (length (peer_sent s)) f s1) as [s2 rep]. cbn [fst] in H.
    apply (cs_same s1); [|assumption].
    eapply same_cs_trans; [exact H|]. eapply same_cs_trans; [apply run_handler_cs|]. repeat split.
  - unfold step_peer_eof. destruct (reader s); try assumption. destruct p.
    + destruct (saw_close s); unfold reader_dies; cs_keep.
    + unfold reader_dies; cs_keep.
    + set (s1 := note_close_resp f (set_peer_sent (peer_sent s ++ [f]) s)).
      assert (I1 : cs_inv s1) by (apply cs_note; cs_keep).
      pose proof (take_waiter_cs cfg false (length (peer_sent s)) f s1) as H.
      destruct (take_waiter cfg false (length (peer_sent s)) f s1) as [s2 rep]. cbn [fst] in H.
      apply (cs_same s1); [|assumption].
      destruct (rep && _).
      * eapply same_cs_trans; [exact H|]. unfold reader_dies. repeat split.
      * eapply same_cs_trans; [exact H|]. eapply same_cs_trans; [apply run_handler_cs|].
        unfold eof_after_dispatch. destruct (handler_for cfg (f_typ f)), rep; unfold reader_dies;
          try (repeat split; fail); destruct (saw_close _) eqn:Esc; repeat split; st_simpl_goal; congruence.
  - unfold step_close. destruct (closed s); cs_keep.
  - unfold step_conn_start. destruct (phase s); cs_keep.
  - unfold step_conn_first. destruct (phase s) eqn:Ep; try assumption. cbv zeta.
    destruct (pi_quiet s P) as (Hw & _ & _ & Hwire); [rewrite Ep; reflexivity|].
    assert (Hf : saw_close s = false).
    { destruct (saw_close s) eqn:E; [|reflexivity]. specialize (I E). unfold close_sent in I. rewrite Hw, Hwire in I. discriminate. }
    unfold init_fail. intro H. exfalso. revert H.
    destruct (max_buffered <? f_len f); [st_simpl_goal; congruence|].
    destruct (first_handler cfg (f_typ f)) as [k|].
    + destruct k; unfold ack_enqueue; try destruct (Nat.ltb _ _); destruct (_ && _); st_simpl_goal; congruence.
    + destruct (_ && _); st_simpl_goal; congruence.
  - unfold step_conn_first_fail, init_fail. destruct (phase s); cs_keep.
  - unfold step_neg_submit. destruct (phase s) as [| |st o| | |]; try assumption.
    destruct st, o; try assumption; destruct (is_fresh c s); cs_keep.
  - unfold step_neg_step, neg_fail, neg_fail_with. destruct (phase s) as [| |st o| | |]; try assumption.
    destruct o as [c0|]; [|assumption].
    destruct (lookup c0 (callers s)) as [[r|r|r i|r res0]|]; try assumption.
    destruct st, res0; try cs_keep.
    + destruct (gsv_outcome f) as [[cur mx]|]; [destruct (cur =? _)|]; cs_keep.
    + destruct (spv_ok f); cs_keep.
  - unfold step_conn_ready. destruct (phase s) as [| |st o| | |]; try assumption. destruct st; cs_keep.
  - unfold step_conn_select. destruct (phase s); try assumption.
    destruct pick_err; [destruct (errs s)|destruct (closed s)]; cs_keep.
  - unfold step_conn_return. destruct (phase s); try assumption. destruct (_ && _); cs_keep.
  - unfold step_shutdown_close, step_close. destruct (lookup c (callers s)) as [[r|r|r i|r res0]|]; try assumption.
    destruct res0; try assumption. destruct (_ && _); [|assumption]. st_simpl_goal. destruct (closed s); cs_keep.
Qed.

Lemma cs_neg_abort : forall s, cs_inv s -> cs_inv (neg_abort s).
Proof.
  intros s I. unfold neg_abort, neg_fail_with. destruct (phase s); try assumption. destruct (errs s); cs_keep.
Qed.

Lemma cs_xstep : forall w cfg s e, pre_inv s -> cs_inv s -> cs_inv (xstep w cfg s e).
Proof.
  intros w cfg s e P I. destruct (xstep_cases w cfg s e) as [H|H]; rewrite H; [now apply cs_step|now apply cs_neg_abort].
Qed.

Lemma cs_init : forall cfg, cs_inv (init cfg).
Proof. intros cfg H. discriminate. Qed.

Theorem cs_run : forall w cfg evs, cs_inv (xrun w cfg evs).
Proof.
  intros w cfg evs. unfold xrun, xrun_from.
  assert (G : forall evs s, x_inv s -> cs_inv s -> cs_inv (fold_left (xstep w cfg) evs s)).
  { induction evs0 as [|e evs0 IH]; intros s X I; cbn; [assumption|].
    apply IH; [now apply x_inv_step|apply cs_xstep; [apply (x_pre s X)|assumption]]. }
  apply G; [|apply cs_init].
  exact (x_inv_run w cfg []).
Qed.

(* over every run: receivedClosed is set only if this client has had a CloseConnection in its write loop's hand *)
Theorem close_response_counts_only_after_close_connection : forall w cfg evs,
  let s := xrun w cfg evs in saw_close s = true -> close_sent s = true.
Proof. intros w cfg evs. exact (cs_run w cfg evs). Qed.

(* ... hence, whatever the reader has sent unasked, the end of the stream — at a frame boundary, inside a header, inside the
   payload of any frame (a further CloseConnectionResponse included) — ends the read loop with a read error *)
Theorem unsolicited_close_response_then_eof_fails : forall w cfg evs p,
  let s := xrun w cfg evs in
  close_sent s = false -> reader s = RRead ->
  let s' := xstep w cfg s (PeerEOF p) in
  reader s' = RDead /\ errs s' = errs s ++ [ERead].
Proof.
  intros w cfg evs p s Hc Hr s'.
  assert (Hs : saw_close s = false).
  { destruct (saw_close s) eqn:E; [|reflexivity]. pose proof (cs_run w cfg evs E) as X. fold s in X. congruence. }
  assert (E : s' = step cfg s (PeerEOF p)).
  { subst s'. unfold xstep. destruct w; reflexivity. }
  rewrite E. cbn [step]. unfold step_peer_eof. rewrite Hr. destruct p.
  - rewrite Hs. unfold reader_dies. split; reflexivity.
  - unfold reader_dies. split; reflexivity.
  - set (s0 := set_peer_sent (peer_sent s ++ [f]) s).
    assert (Hc0 : close_sent s0 = false) by exact Hc.
    destruct (note_close_resp_cs f s0) as (_ & _ & _ & _ & K). specialize (K Hc0).
    set (s1 := note_close_resp f s0) in *.
    assert (H1 : saw_close s1 = false) by (rewrite K; exact Hs).
    assert (E1 : errs s1 = errs s).
    { destruct (note_close_resp_same_ctl f s0) as (_ & _ & _ & _ & _ & _ & _ & X & _). exact X. }
    pose proof (take_waiter_cs cfg false (length (peer_sent s)) f s1) as (A & _ & _).
    pose proof (take_waiter_same_ctl cfg false (length (peer_sent s)) f s1) as (_ & _ & _ & _ & _ & _ & _ & B & _).
    destruct (take_waiter cfg false (length (peer_sent s)) f s1) as [s2 rep]. cbn [fst] in A, B.
    destruct (rep && _).
    + unfold reader_dies. st_simpl_goal. split; [reflexivity|congruence].
    + pose proof (run_handler_cs cfg (length (peer_sent s)) f HBAll rep s2) as (A2 & _ & _).
      pose proof (run_handler_same_ctl cfg (length (peer_sent s)) f HBAll rep s2) as (_ & _ & _ & _ & _ & _ & _ & B2 & _).
      unfold eof_after_dispatch.
      assert (S3 : saw_close (run_handler cfg (length (peer_sent s)) f HBAll rep s2) = false) by congruence.
      destruct (handler_for cfg (f_typ f)), rep; try rewrite S3; unfold reader_dies; st_simpl_goal; (split; [reflexivity|congruence]).
Qed.
