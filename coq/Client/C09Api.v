(* Client/C09Api.v — every exported send, in every position in which it can block, is released on a closed client.

   In the LTS a call is a [req] with two flags: q_gate (waits for c.ready first) and q_wait (wants the reply).
     SendMessage, SendFor (= marshal, SendMessage, unmarshal), Shutdown : q_gate = true,  q_wait = true
     SendNoWait                                                        : q_gate = true,  q_wait = false
     negotiate's internal send                                         : q_gate = false, q_wait = true
   The positions: [Gate r] (select on ready / done / ctx: SendMessage 577-583, SendNoWait 620-626), [Queued r] (select on done /
   ctx / sendQueue<-: send 1004-1014, SendNoWait's second select 628-635), [HasToken r i] (select on done / ctx / replyChan,
   only with q_wait). [SeeClosed c] = that select takes <-c.done. The statement does not look at the flags at all: whatever the
   kind of call, in whichever of the three positions, on a closed client the <-done case is enabled and returns ErrClientClosed;
   nothing else about the client matters (write loop parked, stuck in a Write, or gone; gate open or shut). A SendNoWait whose
   second select lacks the done case has no such step in [Queued]. *)
From Coq Require Import NArith List Bool.
From LLRP Require Import Client.Types Client.Model Client.MapLemmas Client.StepFacts Client.C09Proofs.
Import ListNotations.
Open Scope N_scope.

Definition blocked_at (p : cphase) (r : req) : Prop :=
  p = Gate r \/ p = Queued r \/ exists i, p = HasToken r i.

Theorem every_send_released_on_closed_client : forall cfg s c p r,
  closed s = true -> lookup c (callers s) = Some p -> blocked_at p r ->
  caller_result (step cfg s (SeeClosed c)) c = Some RErrClosed.
Proof.
  intros cfg s c p r Hc L Hb. unfold caller_result.
  assert (Hnd : not_done p) by (destruct Hb as [->|[->|(i & ->)]]; exact I).
  rewrite (see_closed_releases cfg s c p Hc L Hnd). reflexivity.
Qed.

(* the instance the scripts exercise hardest: a fire-and-forget message queued behind a write loop that will never take it *)
Definition sendnowait_req (typ len tag : N) : req := mkReq typ len tag 0 1 false true.

Corollary sendnowait_released_on_closed_client : forall cfg s c typ len tag,
  closed s = true ->
  (lookup c (callers s) = Some (Gate (sendnowait_req typ len tag)) \/ lookup c (callers s) = Some (Queued (sendnowait_req typ len tag))) ->
  caller_result (step cfg s (SeeClosed c)) c = Some RErrClosed.
Proof.
  intros cfg s c typ len tag Hc [L|L]; eapply every_send_released_on_closed_client; eauto; unfold blocked_at; auto.
Qed.

(* a SendNoWait never holds a token: the write loop's acceptance is its return *)
Lemma sendnowait_accept_returns : forall cfg s c r,
  writer s = WInner -> lookup c (callers s) = Some (Queued r) -> q_wait r = false ->
  caller_result (step cfg s (WAccept c)) c = Some RSent.
Proof.
  intros cfg s c r Hw L Hq. cbn [step]. unfold step_waccept, caller_result. rewrite Hw, L. cbn zeta. rewrite Hq.
  destruct (q_id r =? 0); unfold set_caller; st_simpl_goal; (erewrite lookup_update_same by eauto); reflexivity.
Qed.
