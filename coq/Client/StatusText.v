(* The text of an LLRP status code (pkg/llrp/params.go 166-263): StatusCode.defaultText chooses
   one of four tables by class predicates and indexes it with (code - first code of the class);
   StatusError.Error / FieldError.Error / ParameterError.Error concatenate the texts of the codes
   an LLRPStatus carries (its own, its FieldError's, its ParameterError's, recursively).  The
   codes are 16 bits chosen by the peer; Error() is called directly by the device service on
   goroutines that do not recover, so an index out of range here ends the process.

   [classify]: how the class predicates decide — ByRange: first <= code <= last code the table
   covers (the tree as found); ByBlock: by the block of one hundred the code lies in.
   No proofs here. *)
From Coq Require Import NArith List Bool.
Import ListNotations.
Open Scope N_scope.

Inductive classify := ByRange | ByBlock.

(* first code, last code covered by the table (= table length - 1 + first) *)
Definition msg_first := 100.   Definition msg_last := 112.      (* statusMsgErrs: 13 texts *)
Definition param_first := 200. Definition param_last := 209.    (* statusParamErrs: 10 *)
Definition field_first := 300. Definition field_last := 301.    (* statusFieldErrs: 2 *)
Definition device_first := 401. Definition device_last := 401.  (* statusDeviceErrs: 1 *)

Definition in_class (m : classify) (first last sc : N) : bool :=
  match m with
  | ByRange => (first <=? sc) && (sc <=? last)
  | ByBlock => sc / 100 =? first / 100
  end.

Inductive text :=
| TSuccess
| TTable (first idx : N)     (* the idx-th text of the table of the class starting at [first] *)
| TUnknown                   (* "unknown LLRP status code n" *)
| TPanic.                    (* index out of range *)

(* table[sc - first] with a table of (last - first + 1) entries; Go's unsigned subtraction wraps
   for sc < first, which is out of range as well *)
Definition lookup (first last sc : N) : text :=
  if (first <=? sc) && (sc - first <? last - first + 1) then TTable first (sc - first) else TPanic.

Definition default_text (m : classify) (sc : N) : text :=
  if sc =? 0 then TSuccess
  else if in_class m msg_first msg_last sc then lookup msg_first msg_last sc
  else if in_class m param_first param_last sc then lookup param_first param_last sc
  else if in_class m field_first field_last sc then lookup field_first field_last sc
  else if in_class m device_first device_last sc then lookup device_first device_last sc
  else TUnknown.

(* what an LLRPStatus carries, as far as its text goes *)
Inductive perr := PErr (code : N) (field : option N) (inner : option perr).   (* ParameterError *)
Record status := mkStatus { st_code : N; st_field : option N; st_param : option perr }.

Definition is_panic (t : text) : bool := match t with TPanic => true | _ => false end.

Fixpoint perr_panics (m : classify) (p : perr) : bool :=
  match p with
  | PErr code field inner =>
      is_panic (default_text m code)
      || match field with Some c => is_panic (default_text m c) | None => false end
      || match inner with Some q => perr_panics m q | None => false end
  end.

(* StatusError.Error() panics *)
Definition status_error_panics (m : classify) (s : status) : bool :=
  is_panic (default_text m (st_code s))
  || match st_field s with Some c => is_panic (default_text m c) | None => false end
  || match st_param s with Some p => perr_panics m p | None => false end.
