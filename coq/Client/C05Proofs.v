(* Client/C05Proofs.v — all invariants together for every run, the id invariant, and the C05
   statements derived from them. *)
From Coq Require Import NArith ZArith Arith List Bool Lia ZifyN ZifyNat ZifyBool.
From LLRP Require Import Client.Types Client.Model Client.MapLemmas Client.StepFacts
     Client.InvCore Client.InvAck Client.InvOut Client.C03Proofs.
Import ListNotations.
Open Scope N_scope.
Ltac Zify.zify_post_hook ::= Z.div_mod_to_equations.

(* ---------------- all invariants along every run ---------------- *)
Lemma all_inv_run_from : forall cfg evs s,
  core_inv cfg s -> ack_inv s -> out_inv s ->
  core_inv cfg (run_from cfg s evs) /\ ack_inv (run_from cfg s evs) /\ out_inv (run_from cfg s evs).
Proof.
  intros cfg evs. induction evs as [|e evs IH]; intros s H1 H2 H3; cbn; [auto|].
  apply IH; [now apply core_inv_step | now apply ack_inv_step | now apply out_inv_step].
Qed.

Theorem out_inv_run : forall cfg evs, out_inv (run cfg evs).
Proof.
  intros. apply (all_inv_run_from cfg evs (init cfg)); [apply core_inv_init | apply ack_inv_init | apply out_inv_init].
Qed.

(* ---------------- message ids ---------------- *)
Definition unset_id (r : req) : Prop := q_id r = 0.
Definition no_preset (evs : list event) : Prop := Forall (ev_new_ok unset_id) evs.

Record id_inv (s : state) : Prop := mkIdInv {
  ii_unset : forall c p, lookup c (callers s) = Some p -> unset_id (req_of p);
  ii_next : next_id s = u32 (N.of_nat (length (assigned s)));
  ii_ids : forall k i, nth_error (map snd (assigned s)) k = Some i -> i = u32 (N.of_nat k)
}.

Definition same_id (s s' : state) : Prop := next_id s' = next_id s /\ assigned s' = assigned s.

Ltac same_id_tac :=
  repeat match goal with
         | |- same_id ?s ?s => split; reflexivity
         | |- same_id _ (match ?x with _ => _ end) => destruct x
         | |- same_id _ (if ?x then _ else _) => destruct x
         | |- same_id _ _ => unfold same_id; st_simpl_goal; split; reflexivity
         end.

Lemma same_id_trans : forall a b c, same_id a b -> same_id b c -> same_id a c.
Proof. intros a b c (A1 & A2) (B1 & B2). split; congruence. Qed.

Lemma leave_same_id : forall res c s, same_id s (leave res c s).
Proof.
  intros. unfold leave, do_cancel, set_caller.
  destruct (lookup c (callers s)) as [[r|r|r i|r res0]|]; try (same_id_tac; fail).
  destruct (lookup i (awaiting s)) as [c'|]; [|same_id_tac].
  destruct (c' =? c); [same_id_tac|]. st_simpl_goal.
  destruct (lookup c' (callers s)) as [[]|]; same_id_tac.
Qed.

Lemma take_waiter_same_id : forall cfg whole seq f s, same_id s (fst (take_waiter cfg whole seq f s)).
Proof.
  intros. unfold take_waiter.
  destruct (consults cfg (f_typ f)); [|split; reflexivity].
  destruct (lookup (f_id f) (awaiting s)); [|split; reflexivity].
  destruct (whole || (max_buffered <? f_len f)); cbn [fst]; [|same_id_tac].
  st_simpl_goal. destruct (lookup n (callers s)) as [[]|]; cbn [fst]; unfold set_caller; same_id_tac.
Qed.

Lemma ack_enqueue_same_id : forall i s, same_id s (ack_enqueue i s).
Proof. intros. unfold ack_enqueue. same_id_tac. Qed.

Lemma run_handler_same_id : forall cfg seq f h rep s, same_id s (run_handler cfg seq f h rep s).
Proof.
  intros. unfold run_handler. destruct (handler_for cfg (f_typ f)); try (same_id_tac; fail).
  eapply same_id_trans; [|apply ack_enqueue_same_id]. same_id_tac.
Qed.

Lemma id_inv_same : forall cfg s e, ev_new_ok unset_id e ->
  same_id s (step cfg s e) -> id_inv s -> id_inv (step cfg s e).
Proof.
  intros cfg s e Hq (E1 & E2) [U Nx I].
  constructor; rewrite ?E1, ?E2; try assumption.
  destruct (step_evolve unset_id cfg s e Hq) as (Hev & _). eapply cevolve_req; eauto.
Qed.

Lemma id_inv_init : forall cfg, id_inv (init cfg).
Proof. intros. constructor; cbn; [intros; discriminate | reflexivity | intros [|k] i H; discriminate]. Qed.

Lemma id_inv_step : forall cfg s e, ev_new_ok unset_id e -> id_inv s -> id_inv (step cfg s e).
Proof.
  intros cfg s e Hq Hinv.
  destruct e;
    try (apply id_inv_same; [exact Hq| |exact Hinv]; cbn [step];
         match goal with |- same_id _ (?f _) => unfold f | |- same_id _ (?f _ _) => unfold f | |- same_id _ (?f _ _ _) => unfold f end;
         unfold set_caller, init_fail, neg_fail, neg_fail_with, step_close;
         same_id_tac; fail).
  - apply id_inv_same; [exact Hq| |exact Hinv]. cbn [step]. unfold step_see_closed.
    destruct (closed s); [apply leave_same_id|split; reflexivity].
  - apply id_inv_same; [exact Hq| |exact Hinv]. apply leave_same_id.
  - (* WAccept *) cbn [step].
    destruct (step_evolve unset_id cfg s (WAccept c) Hq) as (Hev & _). cbn [step] in Hev.
    unfold step_waccept in *.
    destruct (writer s); try assumption.
    destruct (lookup c (callers s)) as [[r|r|r i|r res0]|] eqn:Hc; try assumption.
    destruct Hinv as [U Nx I]. pose proof (U c (Queued r) Hc) as Hz. cbn in Hz. unfold unset_id in Hz.
    cbn zeta in *. rewrite Hz in *. cbn [N.eqb] in *.
    assert (Hids : forall k i, nth_error (map snd (assigned s ++ [(c, next_id s)])) k = Some i -> i = u32 (N.of_nat k)).
    { intros k i. rewrite map_app. cbn [map snd].
      destruct (Nat.lt_ge_cases k (length (map snd (assigned s)))) as [Hlt|Hge].
      - rewrite nth_error_app1 by assumption. apply I.
      - rewrite nth_error_app2 by assumption. rewrite map_length in *.
        destruct (k - length (assigned s))%nat as [|[|m]] eqn:Ek; cbn; try discriminate.
        intros H; inversion H; subst. rewrite Nx. f_equal. lia. }
    assert (Hnext : u32 (next_id s + 1) = u32 (N.of_nat (length (assigned s ++ [(c, next_id s)])))).
    { rewrite app_length. cbn [length]. rewrite Nx. unfold u32, two32. lia. }
    destruct (q_wait r); unfold set_caller in *; st_simpl; constructor; st_simpl_goal; try assumption;
      eapply cevolve_req; eauto.
  - (* RFrame *) apply id_inv_same; [exact Hq| |exact Hinv]. cbn [step]. unfold step_rframe.
    destruct (reader s); try (split; reflexivity).
    destruct (take_waiter cfg true (length (peer_sent s)) f
                (note_close_resp f (set_peer_sent (peer_sent s ++ [f]) s))) as [s2 rep] eqn:Htw.
    pose proof (take_waiter_same_id cfg true (length (peer_sent s)) f
                  (note_close_resp f (set_peer_sent (peer_sent s ++ [f]) s))) as H2.
    rewrite Htw in H2. cbn [fst] in H2.
    eapply same_id_trans; [|eapply same_id_trans; [exact H2|eapply same_id_trans; [apply run_handler_same_id|]]].
    + unfold note_close_resp. same_id_tac.
    + same_id_tac.
  - (* PeerEOF *) apply id_inv_same; [exact Hq| |exact Hinv]. cbn [step]. unfold step_peer_eof.
    destruct (reader s); try (split; reflexivity).
    destruct p.
    + unfold reader_dies. same_id_tac.
    + unfold reader_dies. same_id_tac.
    + destruct (take_waiter cfg false (length (peer_sent s)) f
                  (note_close_resp f (set_peer_sent (peer_sent s ++ [f]) s))) as [s2 rep] eqn:Htw.
      pose proof (take_waiter_same_id cfg false (length (peer_sent s)) f
                    (note_close_resp f (set_peer_sent (peer_sent s ++ [f]) s))) as H2.
      rewrite Htw in H2. cbn [fst] in H2.
      assert (H3 : same_id s s2).
      { eapply same_id_trans; [|exact H2]. unfold note_close_resp. same_id_tac. }
      destruct (rep && (f_len f <=? max_buffered)).
      * eapply same_id_trans; [exact H3|]. unfold reader_dies. same_id_tac.
      * eapply same_id_trans; [exact H3|]. eapply same_id_trans; [apply run_handler_same_id|].
        unfold eof_after_dispatch, reader_dies. same_id_tac.
  - (* ConnFirst *) apply id_inv_same; [exact Hq| |exact Hinv]. cbn [step]. unfold step_conn_first.
    destruct (phase s); try (split; reflexivity).
    destruct (max_buffered <? f_len f); [unfold init_fail; same_id_tac|].
    set (s2 := match first_handler cfg (f_typ f) with Some _ => _ | None => _ end).
    assert (Hs2 : same_id s s2).
    { subst s2. destruct (first_handler cfg (f_typ f)) as [k|]; [|same_id_tac].
      destruct k; try (same_id_tac; fail).
      eapply same_id_trans; [|apply ack_enqueue_same_id]. same_id_tac. }
    eapply same_id_trans; [exact Hs2|].
    destruct ((f_typ f =? T_ReaderEventNotification) && is_conn_success (f_info f)); unfold init_fail; same_id_tac.
Qed.

Theorem id_inv_run : forall cfg evs, no_preset evs -> id_inv (run cfg evs).
Proof.
  intros cfg evs. unfold run, run_from. generalize (id_inv_init cfg). generalize (init cfg).
  induction evs as [|e evs IH]; intros s H Hnp; cbn; [assumption|].
  inversion Hnp; subst. apply IH; [|assumption]. now apply id_inv_step.
Qed.

(* ids assigned on one connection are pairwise distinct as long as the counter has not wrapped:
   at most 2^32 requests accepted, no caller-chosen ids *)
Theorem ids_pairwise_distinct : forall cfg evs,
  no_preset evs ->
  N.of_nat (length (assigned (run cfg evs))) <= two32 ->
  NoDup (ids_assigned (run cfg evs)).
Proof.
  intros cfg evs Hnp Hlen. destruct (id_inv_run cfg evs Hnp) as [_ _ I].
  unfold ids_assigned. set (l := map snd (assigned (run cfg evs))) in *.
  assert (Hl : length l = length (assigned (run cfg evs))) by (subst l; apply map_length).
  apply NoDup_nth_error. intros i j Hi E.
  destruct (nth_error l i) as [x|] eqn:Ei; [|apply nth_error_None in Ei; lia].
  symmetry in E. pose proof (I i x Ei) as Hx. pose proof (I j x E) as Hy.
  assert (Hj : (j < length l)%nat) by (apply nth_error_Some; congruence).
  unfold u32, two32 in *. lia.
Qed.

(* and the counter does wrap: with 2^32 + 1 accepted requests the first id comes back *)
Lemma ids_wrap_statement : forall cfg evs k i,
  no_preset evs -> nth_error (ids_assigned (run cfg evs)) k = Some i -> i = (N.of_nat k) mod two32.
Proof. intros cfg evs k i Hnp H. destruct (id_inv_run cfg evs Hnp) as [_ _ I]. apply (I k i H). Qed.

(* ---------------- the outbound stream ---------------- *)
Theorem wire_is_whole_frames : forall cfg evs,
  exists tail, wire (run cfg evs) = flat_map chunks_of (out (run cfg evs)) ++ tail /\
               tail_ok (writer (run cfg evs)) tail.
Proof. intros. apply (oi_wire _ (out_inv_run cfg evs)). Qed.

Theorem length_field_exact : forall cfg evs o,
  In o (out (run cfg evs)) ->
  f_len (o_frame o) <= max_payload /\ wire_len_field (o_frame o) = f_len (o_frame o) + 10.
Proof.
  intros cfg evs o Hin.
  destruct (oi_frames _ (out_inv_run cfg evs) o) as (Hl & _).
  { unfold pipeline. apply in_or_app. now left. }
  split; [assumption|]. unfold wire_len_field, u32, header_sz, two32, max_payload in *. lia.
Qed.

Theorem frame_carries_callers_request : forall cfg evs o c,
  let s := run cfg evs in
  In o (out s) -> o_src o = Some c ->
  exists p, lookup c (callers s) = Some p /\
    f_typ (o_frame o) = q_typ (req_of p) /\ f_len (o_frame o) = q_len (req_of p) /\
    f_tag (o_frame o) = q_tag (req_of p) /\ In (c, f_id (o_frame o)) (assigned s).
Proof.
  intros cfg evs o c s Hin Hsrc.
  destruct (oi_frames _ (out_inv_run cfg evs) o) as (_ & H).
  { unfold pipeline. apply in_or_app. now left. }
  rewrite Hsrc in H. exact H.
Qed.

Lemma srcs_cons : forall o l, srcs (o :: l) = match o_src o with Some c => [c] | None => [] end ++ srcs l.
Proof. reflexivity. Qed.

Lemma srcs_frames_of : forall l c, length (frames_of c l) = count_occ N.eq_dec (srcs l) c.
Proof.
  induction l as [|o l IH]; intros c; [reflexivity|].
  rewrite srcs_cons. cbn [frames_of filter]. destruct (o_src o) as [c'|]; cbn [app].
  - destruct (c' =? c) eqn:E.
    + apply N.eqb_eq in E. subst. cbn [length count_occ]. destruct (N.eq_dec c c); [|congruence].
      f_equal. apply IH.
    + apply N.eqb_neq in E. cbn [count_occ]. destruct (N.eq_dec c' c); [congruence|]. apply IH.
  - apply IH.
Qed.

Theorem request_at_most_once : forall cfg evs c, (length (frames_of c (out (run cfg evs))) <= 1)%nat.
Proof.
  intros cfg evs c. rewrite srcs_frames_of.
  pose proof (oi_nodup _ (out_inv_run cfg evs)) as Hnd. unfold pipeline in Hnd. rewrite srcs_app in Hnd.
  apply NoDup_app_keep_l in Hnd. rewrite (NoDup_count_occ N.eq_dec) in Hnd. apply Hnd.
Qed.

(* a caller that obtained a reply had its request accepted; the request is then on the wire exactly
   once — unless the write loop still holds it (the peer answered a request it had not received in
   full) or died *)
Theorem exactly_once_if_replied : forall cfg evs c q f,
  let s := run cfg evs in
  caller_result s c = Some (ROk q f) ->
  length (frames_of c (out s)) = 1%nat \/
  (exists o, In o (held (writer s)) /\ o_src o = Some c) \/
  writer s = WDead.
Proof.
  intros cfg evs c q f s Hres.
  pose proof (result_is_delivery cfg evs c q f Hres) as Hd.
  destruct (replies_only_to_requester cfg evs c q f Hd) as (Ha & _).
  fold s in Ha.
  destruct (oi_cover _ (out_inv_run cfg evs) c) as [Hin|Hw].
  { change c with (fst (c, f_id f)). now apply in_map. }
  - fold s in Hin. unfold pipeline in Hin. rewrite srcs_app in Hin. apply in_app_or in Hin. destruct Hin as [Hin|Hin].
    + left. pose proof (request_at_most_once cfg evs c) as Hle. fold s in Hle.
      rewrite srcs_frames_of in *. apply (count_occ_In N.eq_dec) in Hin. lia.
    + right. left. apply in_srcs in Hin. exact Hin.
  - right. right. exact Hw.
Qed.


(* ---------------- a started frame is finished, or the connection is dead ----------------
   Only write-loop events touch the write side. In particular no caller event (Cancel, SeeClosed, ...)
   can change [wire], [out] or the write loop's control state: once the header of a frame is written
   (WPayload o), the only ways on are WWritePay (the whole payload follows) and WriteFail (the write
   loop dies and nothing is ever written again). *)
Definition is_writer_event (e : event) : bool :=
  match e with
  | WDefault | WAccept _ | WTakeAck | WWriteHdr | WWritePay | WriteFail _ | WSeeDone => true
  | _ => false
  end.

Lemma nonwriter_same_out : forall cfg s e,
  ack_inv s -> writer s <> WNone -> is_writer_event e = false -> same_out s (step cfg s e).
Proof.
  intros cfg s e Hack Hw He.
  destruct e; try discriminate He; cbn [step];
    try (match goal with |- same_out _ (?f _) => unfold f | |- same_out _ (?f _ _) => unfold f | |- same_out _ (?f _ _ _) => unfold f end;
         unfold set_caller, init_fail, neg_fail, neg_fail_with, step_close; same_out_tac; fail).
  - unfold step_see_closed. destruct (closed s); [apply leave_same_out|repeat split].
  - apply leave_same_out.
  - (* RFrame *) unfold step_rframe. destruct (reader s); try (repeat split; fail).
    destruct (take_waiter cfg true (length (peer_sent s)) f
                (note_close_resp f (set_peer_sent (peer_sent s ++ [f]) s))) as [s2 rep] eqn:Htw.
    pose proof (take_waiter_same_out cfg true (length (peer_sent s)) f
                  (note_close_resp f (set_peer_sent (peer_sent s ++ [f]) s))) as H2.
    rewrite Htw in H2. cbn [fst] in H2.
    eapply same_out_trans; [|eapply same_out_trans; [exact H2|eapply same_out_trans; [apply run_handler_same_out|]]].
    + unfold note_close_resp. same_out_tac.
    + same_out_tac.
  - (* PeerEOF *) unfold step_peer_eof. destruct (reader s); try (repeat split; fail).
    destruct p.
    + unfold reader_dies. same_out_tac.
    + unfold reader_dies. same_out_tac.
    + destruct (take_waiter cfg false (length (peer_sent s)) f
                  (note_close_resp f (set_peer_sent (peer_sent s ++ [f]) s))) as [s2 rep] eqn:Htw.
      pose proof (take_waiter_same_out cfg false (length (peer_sent s)) f
                    (note_close_resp f (set_peer_sent (peer_sent s ++ [f]) s))) as H2.
      rewrite Htw in H2. cbn [fst] in H2.
      assert (H3 : same_out s s2).
      { eapply same_out_trans; [|exact H2]. unfold note_close_resp. same_out_tac. }
      destruct (rep && (f_len f <=? max_buffered)).
      * eapply same_out_trans; [exact H3|]. unfold reader_dies. same_out_tac.
      * eapply same_out_trans; [exact H3|]. eapply same_out_trans; [apply run_handler_same_out|].
        unfold eof_after_dispatch, reader_dies. same_out_tac.
  - (* ConnFirst: only before the loops exist *)
    unfold step_conn_first. destruct (phase s) eqn:Eph; try (repeat split; fail).
    exfalso. apply Hw. apply (ai_phase s Hack). rewrite Eph. reflexivity.
Qed.

Theorem started_frame_finished_or_dead : forall cfg evs o e,
  let s := run cfg evs in
  writer s = WPayload o ->
  let s' := step cfg s e in
  (writer s' = WPayload o /\ wire s' = wire s /\ out s' = out s) \/
  (e = WWritePay /\ wire s' = wire s ++ [CPay o] /\ out s' = out s ++ [o] /\ writer s' = after_frame o) \/
  (exists k, e = WriteFail k /\ writer s' = WDead /\ wire s' = wire s ++ [CPartial o true k] /\ out s' = out s).
Proof.
  intros cfg evs o e s Hw s'. subst s'.
  pose proof (ack_inv_run cfg evs) as Hack. fold s in Hack.
  destruct (is_writer_event e) eqn:He.
  - destruct e; try discriminate He; cbn [step].
    + left. unfold step_wdefault. rewrite Hw. auto.
    + left. unfold step_waccept. rewrite Hw. auto.
    + left. unfold step_wtakeack. rewrite Hw. destruct (ackq s); auto.
    + left. unfold step_wwritehdr. rewrite Hw. auto.
    + right. left. unfold step_wwritepay. rewrite Hw. st_simpl_goal. auto.
    + unfold step_writefail. rewrite Hw. destruct (k <? f_len (o_frame o)).
      * right. right. exists k. st_simpl_goal. auto.
      * left. auto.
    + left. unfold step_wseedone. rewrite Hw. auto.
  - left. destruct (nonwriter_same_out cfg s e Hack) as (Eo & Ewi & Ewr & _); [rewrite Hw; discriminate | assumption |].
    rewrite Ewr, Ewi, Eo. auto.
Qed.

(* a cancellation (or a caller seeing the client closed) never touches the write side, in ANY state *)
Theorem cancel_leaves_write_side : forall cfg s c,
  wire (step cfg s (Cancel c)) = wire s /\ out (step cfg s (Cancel c)) = out s /\ writer (step cfg s (Cancel c)) = writer s /\
  wire (step cfg s (SeeClosed c)) = wire s /\ out (step cfg s (SeeClosed c)) = out s /\ writer (step cfg s (SeeClosed c)) = writer s.
Proof.
  intros. cbn [step]. unfold step_cancel, step_see_closed.
  destruct (leave_same_out RErrCtx c s) as (A & B & C & _).
  destruct (closed s).
  - destruct (leave_same_out RErrClosed c s) as (A' & B' & C' & _). repeat split; assumption.
  - repeat split; assumption.
Qed.

(* ---------------- after a CloseConnection frame nothing more is written ----------------
   The write loop parks for good once a CloseConnection message has gone out completely (reader.go:
   "stop processing messages ... <-c.done"), whoever submitted it (Shutdown, or a caller's own
   SendMessage(MsgCloseConnection)) and whatever the reader answers — a refusal included. From then
   on, for every continuation of the run, no byte is written, no request is accepted and no id is
   assigned: the outbound stream of the connection is complete, and "ids on one connection are pairwise
   distinct" is a statement about the ids given before that point. (A write loop that RESUMED after a
   refused CloseConnection would need its counter to carry on where it stopped; that there is no such
   transition is what this theorem states for the model and what the check family after-close pins on
   the code.) *)
Definition is_close (o : oframe) : bool := f_typ (o_frame o) =? T_CloseConnection.
Definition parked_or_exit (w : wstate) : Prop := w = WParked \/ w = WExit.

Lemma parked_step : forall cfg s e,
  ack_inv s -> parked_or_exit (writer s) ->
  out (step cfg s e) = out s /\ wire (step cfg s e) = wire s /\ assigned (step cfg s e) = assigned s /\
  parked_or_exit (writer (step cfg s e)).
Proof.
  intros cfg s e Hack Hw.
  destruct (is_writer_event e) eqn:He.
  - destruct e; try discriminate He; cbn [step].
    + unfold step_wdefault. destruct Hw as [Hw|Hw]; rewrite Hw; auto using or_introl, or_intror.
      all: repeat split; unfold parked_or_exit; auto.
    + unfold step_waccept. destruct Hw as [Hw|Hw]; rewrite Hw; repeat split; unfold parked_or_exit; auto.
    + unfold step_wtakeack. destruct Hw as [Hw|Hw]; rewrite Hw; repeat split; unfold parked_or_exit; auto.
    + unfold step_wwritehdr. destruct Hw as [Hw|Hw]; rewrite Hw; repeat split; unfold parked_or_exit; auto.
    + unfold step_wwritepay. destruct Hw as [Hw|Hw]; rewrite Hw; repeat split; unfold parked_or_exit; auto.
    + unfold step_writefail. destruct Hw as [Hw|Hw]; rewrite Hw; repeat split; unfold parked_or_exit; auto.
    + unfold step_wseedone. destruct Hw as [Hw|Hw]; rewrite Hw.
      * destruct (closed s); st_simpl_goal; repeat split; unfold parked_or_exit; auto.
      * repeat split; unfold parked_or_exit; auto.
  - destruct (nonwriter_same_out cfg s e Hack) as (Eo & Ewi & Ewr & Ea); [|assumption|].
    + destruct Hw as [Hw|Hw]; rewrite Hw; discriminate.
    + rewrite Eo, Ewi, Ewr, Ea. auto.
Qed.

Lemma parked_run_from : forall cfg evs s,
  ack_inv s -> parked_or_exit (writer s) ->
  out (run_from cfg s evs) = out s /\ wire (run_from cfg s evs) = wire s /\ assigned (run_from cfg s evs) = assigned s /\
  parked_or_exit (writer (run_from cfg s evs)).
Proof.
  intros cfg evs. induction evs as [|e evs IH]; intros s Hack Hw; [cbn; auto|].
  change (run_from cfg s (e :: evs)) with (run_from cfg (step cfg s e) evs).
  destruct (parked_step cfg s e Hack Hw) as (A & B & C & D).
  destruct (IH (step cfg s e) (ack_inv_step cfg s e Hack) D) as (A' & B' & C' & D').
  rewrite A', B', C', A, B, C. auto.
Qed.

(* along every run: a CloseConnection frame in [out] means the write loop is parked (or has left) *)
Lemma close_out_parks_step : forall cfg s e,
  ack_inv s ->
  (existsb is_close (out s) = true -> parked_or_exit (writer s)) ->
  existsb is_close (out (step cfg s e)) = true -> parked_or_exit (writer (step cfg s e)).
Proof.
  intros cfg s e Hack IH H.
  destruct (existsb is_close (out s)) eqn:Eold.
  - destruct (parked_step cfg s e Hack (IH eq_refl)) as (_ & _ & _ & D). exact D.
  - (* the CloseConnection frame is the one this step completes *)
    clear IH. destruct (is_writer_event e) eqn:He.
    + destruct e; try discriminate He; cbn [step] in *.
      * unfold step_wdefault in *. destruct (writer s), (ackq s); try (rewrite Eold in H; discriminate).
        destruct (closed s); st_simpl; rewrite Eold in H; discriminate.
      * unfold step_waccept in *. destruct (writer s); try (rewrite Eold in H; discriminate).
        destruct (lookup c (callers s)) as [[r|r|r i|r res0]|]; try (rewrite Eold in H; discriminate).
        cbn zeta in H. unfold set_caller in H. destruct (q_wait r), (q_id r =? 0); st_simpl; rewrite Eold in H; discriminate.
      * unfold step_wtakeack in *. destruct (writer s), (ackq s); st_simpl; rewrite Eold in H; discriminate.
      * unfold step_wwritehdr in *. destruct (writer s) as [| | | o | o | | |]; try (rewrite Eold in H; discriminate).
        cbv zeta in *. destruct (f_len (o_frame o) =? 0) eqn:El; st_simpl; [|rewrite Eold in H; discriminate].
        rewrite existsb_app, Eold in H. cbn in H. rewrite orb_false_r in H.
        unfold after_frame. unfold is_close in H. rewrite H. left; reflexivity.
      * unfold step_wwritepay in *. destruct (writer s) as [| | | o | o | | |]; try (rewrite Eold in H; discriminate).
        st_simpl. rewrite existsb_app, Eold in H. cbn in H. rewrite orb_false_r in H.
        unfold after_frame. unfold is_close in H. rewrite H. left; reflexivity.
      * unfold step_writefail in *. destruct (writer s) as [| | | o | o | | |]; try (rewrite Eold in H; discriminate).
        -- destruct (k <? header_sz); st_simpl; rewrite Eold in H; discriminate.
        -- destruct (k <? f_len (o_frame o)); st_simpl; rewrite Eold in H; discriminate.
      * unfold step_wseedone in *. destruct (writer s); try (rewrite Eold in H; discriminate);
          destruct (closed s); st_simpl; rewrite Eold in H; discriminate.
    + destruct (writer s) eqn:Ew.
      1: { (* the loops do not exist yet: nothing has been written, and a non-writer step writes nothing *)
           exfalso.
           assert (Hout : out (step cfg s e) = out s).
           { destruct e; try discriminate He; cbn [step];
               try (match goal with |- out (?f _) = _ => unfold f | |- out (?f _ _) = _ => unfold f | |- out (?f _ _ _) = _ => unfold f end;
                    unfold set_caller, init_fail, neg_fail, neg_fail_with, step_close;
                    repeat match goal with
                           | |- out (match ?x with _ => _ end) = _ => destruct x
                           | |- out (if ?x then _ else _) = _ => destruct x
                           end; st_simpl_goal; reflexivity).
             - unfold step_see_closed. destruct (closed s); [apply (leave_same_out RErrClosed c s)|reflexivity].
             - apply (leave_same_out RErrCtx c s).
             - unfold step_rframe. destruct (reader s); try reflexivity.
               destruct (take_waiter cfg true (length (peer_sent s)) f
                           (note_close_resp f (set_peer_sent (peer_sent s ++ [f]) s))) as [s2 rep] eqn:Htw.
               pose proof (take_waiter_same_out cfg true (length (peer_sent s)) f
                             (note_close_resp f (set_peer_sent (peer_sent s ++ [f]) s))) as H2.
               rewrite Htw in H2. cbn [fst] in H2. destruct H2 as (H2 & _).
               st_simpl_goal. destruct (run_handler_same_out cfg (length (peer_sent s)) f h rep s2) as (H3 & _).
               rewrite H3, H2. unfold note_close_resp. destruct (_ && _); st_simpl_goal; reflexivity.
             - unfold step_peer_eof. destruct (reader s); try reflexivity. destruct p.
               + unfold reader_dies. destruct (saw_close s); st_simpl_goal; reflexivity.
               + unfold reader_dies. st_simpl_goal; reflexivity.
               + destruct (take_waiter cfg false (length (peer_sent s)) f
                             (note_close_resp f (set_peer_sent (peer_sent s ++ [f]) s))) as [s2 rep] eqn:Htw.
                 pose proof (take_waiter_same_out cfg false (length (peer_sent s)) f
                               (note_close_resp f (set_peer_sent (peer_sent s ++ [f]) s))) as H2.
                 rewrite Htw in H2. cbn [fst] in H2. destruct H2 as (H2 & _).
                 assert (H3 : out s2 = out s).
                 { rewrite H2. unfold note_close_resp. destruct (_ && _); st_simpl_goal; reflexivity. }
                 destruct (rep && (f_len f <=? max_buffered)).
                 * unfold reader_dies. st_simpl_goal. exact H3.
                 * destruct (run_handler_same_out cfg (length (peer_sent s)) f HBAll rep s2) as (H4 & _).
                   unfold eof_after_dispatch, reader_dies.
                   repeat match goal with
                          | |- out (match ?x with _ => _ end) = _ => destruct x
                          | |- out (if ?x then _ else _) = _ => destruct x
                          end; st_simpl_goal; rewrite ?H4, ?H3; reflexivity.
             - unfold step_conn_first. destruct (phase s); try reflexivity.
               destruct (max_buffered <? f_len f); [unfold init_fail; st_simpl_goal; reflexivity|].
               set (s2 := match first_handler cfg (f_typ f) with Some _ => _ | None => _ end).
               assert (Hs2 : out s2 = out s).
               { subst s2. destruct (first_handler cfg (f_typ f)) as [k|]; [|reflexivity].
                 destruct k; try reflexivity. unfold ack_enqueue. destruct (Nat.ltb _ _); st_simpl_goal; reflexivity. }
               destruct ((f_typ f =? T_ReaderEventNotification) && is_conn_success (f_info f)); unfold init_fail; st_simpl_goal; exact Hs2. }
           rewrite Hout, Eold in H. discriminate. }
      all: destruct (nonwriter_same_out cfg s e Hack) as (Eo & _); [rewrite Ew; discriminate|assumption|];
        rewrite Eo, Eold in H; discriminate.
Qed.

Lemma close_out_parks : forall cfg evs,
  existsb is_close (out (run cfg evs)) = true -> parked_or_exit (writer (run cfg evs)).
Proof.
  intros cfg evs. unfold run, run_from.
  assert (G : forall s, ack_inv s -> (existsb is_close (out s) = true -> parked_or_exit (writer s)) ->
              existsb is_close (out (fold_left (step cfg) evs s)) = true -> parked_or_exit (writer (fold_left (step cfg) evs s))).
  { induction evs as [|e evs IH]; intros s Hack Hs; cbn; [assumption|].
    apply IH; [now apply ack_inv_step|]. now apply close_out_parks_step. }
  apply G; [apply ack_inv_init|]. cbn. discriminate.
Qed.

Theorem nothing_written_after_close_connection : forall cfg evs evs' o,
  let s := run cfg evs in
  In o (out s) -> f_typ (o_frame o) = T_CloseConnection ->
  let s' := run_from cfg s evs' in
  out s' = out s /\ wire s' = wire s /\ assigned s' = assigned s.
Proof.
  intros cfg evs evs' o s Hin Ht s'.
  assert (Hex : existsb is_close (out s) = true).
  { apply existsb_exists. exists o. split; [assumption|]. unfold is_close. rewrite Ht. reflexivity. }
  pose proof (close_out_parks cfg evs Hex) as Hw. fold s in Hw.
  destruct (parked_run_from cfg evs' s (ack_inv_run cfg evs) Hw) as (A & B & C & _).
  auto.
Qed.
