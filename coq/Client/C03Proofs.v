(* Client/C03Proofs.v — the C03 statements derived from the core invariant *)
From Coq Require Import NArith Arith List Bool Lia.
From LLRP Require Import Client.Types Client.Model Client.MapLemmas Client.InvCore.
Import ListNotations.
Open Scope N_scope.

Lemma nodup_fst_functional : forall {A B} (l : list (A * B)) a b b',
  NoDup (map fst l) -> In (a, b) l -> In (a, b') l -> b = b'.
Proof.
  induction l as [|[x y] l IH]; cbn; intros a b b' Hnd H1 H2; [contradiction|].
  inversion Hnd; subst.
  destruct H1 as [H1|H1], H2 as [H2|H2].
  - congruence.
  - inversion H1; subst. exfalso. apply H3. change a with (fst (a, b')). now apply in_map.
  - inversion H2; subst. exfalso. apply H3. change a with (fst (a, b)). now apply in_map.
  - eapply IH; eauto.
Qed.

Lemma nodup_proj_functional : forall {A B} (p : A -> B) (l : list A) x y,
  NoDup (map p l) -> In x l -> In y l -> p x = p y -> x = y.
Proof.
  induction l as [|a l IH]; cbn; intros x y Hnd H1 H2 E; [contradiction|].
  inversion Hnd; subst.
  destruct H1 as [H1|H1], H2 as [H2|H2]; subst.
  - reflexivity.
  - exfalso. apply H3. rewrite E. now apply in_map.
  - exfalso. apply H3. rewrite <- E. now apply in_map.
  - eapply IH; eauto.
Qed.

Definition seq_of (x : N * nat * frame) : nat := snd (fst x).
Definition caller_of (x : N * nat * frame) : N := fst (fst x).

(* main statement, for both values of the flag *)
Theorem replies_only_to_requester : forall cfg evs c q f,
  let s := run cfg evs in
  In (c, q, f) (delivered s) ->
  In (c, f_id f) (assigned s) /\
  (forall i, In (c, i) (assigned s) -> i = f_id f) /\
  nth_error (peer_sent s) q = Some f /\
  caller_result s c = Some (ROk q f) /\
  (forall c' f', In (c', q, f') (delivered s) -> c' = c /\ f' = f) /\
  (forall q' f', In (c, q', f') (delivered s) -> q' = q /\ f' = f) /\
  NoDup (delivered s) /\
  (filter_unsolicited cfg = true -> is_unsolicited (f_typ f) = false).
Proof.
  intros cfg evs c q f s Hin. subst s.
  pose proof (core_inv_run cfg evs) as Hinv. set (s := run cfg evs) in *.
  destruct (ci_deliv cfg s Hinv c q f Hin) as ((r & Hc) & Hn & Ha & Hf).
  repeat split.
  - assumption.
  - intros i Hi. eapply nodup_fst_functional; [apply (ci_assigned_nodup cfg s Hinv)| exact Hi | exact Ha].
  - assumption.
  - unfold caller_result. rewrite Hc. reflexivity.
  - pose proof (nodup_proj_functional seq_of (delivered s) (c', q, f') (c, q, f)
                  (ci_deliv_seq cfg s Hinv) H Hin eq_refl) as E. congruence.
  - pose proof (nodup_proj_functional seq_of (delivered s) (c', q, f') (c, q, f)
                  (ci_deliv_seq cfg s Hinv) H Hin eq_refl) as E. congruence.
  - pose proof (nodup_proj_functional caller_of (delivered s) (c, q', f') (c, q, f)
                  (ci_deliv_caller cfg s Hinv) H Hin eq_refl) as E. congruence.
  - pose proof (nodup_proj_functional caller_of (delivered s) (c, q', f') (c, q, f)
                  (ci_deliv_caller cfg s Hinv) H Hin eq_refl) as E. congruence.
  - eapply NoDup_map_inv. apply (ci_deliv_seq cfg s Hinv).
  - assumption.
Qed.

(* a caller's reply is a delivered frame, and what SendMessage hands back is that frame's
   type and (up to the buffering limit) payload *)
Theorem result_is_delivery : forall cfg evs c q f,
  caller_result (run cfg evs) c = Some (ROk q f) -> In (c, q, f) (delivered (run cfg evs)).
Proof.
  intros cfg evs c q f H. unfold caller_result in H.
  destruct (lookup c (callers (run cfg evs))) as [[r|r|r i|r res]|] eqn:Hc; try discriminate.
  inversion H; subst. eapply ci_done; [apply core_inv_run | exact Hc].
Qed.

Lemma reply_view_exact : forall f, f_len f <= max_buffered -> reply_view f = (f_typ f, f_len f, f_tag f).
Proof. intros f H. unfold reply_view. apply N.leb_le in H. rewrite H. reflexivity. Qed.

Lemma reply_view_typ : forall f, fst (fst (reply_view f)) = f_typ f.
Proof. intros f. unfold reply_view. destruct (f_len f <=? max_buffered); reflexivity. Qed.

(* ---------------- the liveness half: an awaited reply IS delivered ----------------
   In every reachable state in which the read loop is waiting for a header (RRead), a frame whose type
   consults the await map and whose id is registered there is handed to exactly that caller by the one
   RFrame event, whatever the handler does, and the read loop is back at its loop head: it cannot park
   inside the dispatch (cf. C09_read_loop_never_parks_in_dispatch in Client/C09Flood.v). *)
Lemma note_close_resp_fields : forall f s,
  awaiting (note_close_resp f s) = awaiting s /\ callers (note_close_resp f s) = callers s /\
  delivered (note_close_resp f s) = delivered s /\ peer_sent (note_close_resp f s) = peer_sent s.
Proof. intros. unfold note_close_resp. destruct (_ && _); repeat split; reflexivity. Qed.

Theorem awaited_reply_is_delivered : forall cfg evs f h c,
  let s := run cfg evs in
  reader s = RRead -> consults cfg (f_typ f) = true -> lookup (f_id f) (awaiting s) = Some c ->
  let s' := step cfg s (RFrame f h) in
  In (c, length (peer_sent s), f) (delivered s') /\
  caller_result s' c = Some (ROk (length (peer_sent s)) f) /\
  lookup (f_id f) (awaiting s') = None /\
  reader s' = RTop.
Proof.
  intros cfg evs f h c s Hr Hcons Haw s'. subst s'.
  pose proof (core_inv_run cfg evs) as Hinv. fold s in Hinv.
  destruct (ci_await cfg s Hinv _ _ Haw) as (r & Hc).
  cbn [step]. unfold step_rframe. rewrite Hr.
  set (s1 := note_close_resp f (set_peer_sent (peer_sent s ++ [f]) s)).
  destruct (note_close_resp_fields f (set_peer_sent (peer_sent s ++ [f]) s)) as (Ea & Ec & Ed & Ep). fold s1 in Ea, Ec, Ed, Ep.
  st_simpl.
  unfold take_waiter. rewrite Hcons, Ea, Haw. cbn [orb]. st_simpl_goal. rewrite Ec, Hc.
  set (s2 := set_delivered _ _).
  destruct (run_handler_same_core cfg (length (peer_sent s)) f h true s2) as (Hc2 & Ha2 & _ & Hd2 & _).
  unfold caller_result. st_simpl_goal. rewrite Hd2, Ha2, Hc2.
  subst s2. unfold set_caller. st_simpl_goal. rewrite Ed, Ec.
  repeat split.
  - apply in_or_app. right. now left.
  - rewrite (lookup_update_same _ _ _ _ Hc). reflexivity.
  - rewrite lookup_remove, N.eqb_refl. reflexivity.
Qed.
