(* Client/StepFacts.v — how one step changes the caller table and the assignment history:
   callers are never removed and keep their request; [assigned] only grows at the end. *)
From Coq Require Import NArith Arith List Bool Lia.
From LLRP Require Import Client.Types Client.Model Client.MapLemmas.
Import ListNotations.
Open Scope N_scope.

(* a request that is (or was) in the write loop's hands has a payload length a header can express *)
Definition sendable (p : cphase) : Prop :=
  match p with Queued r | HasToken r _ => q_len r <= max_payload | _ => True end.

(* [cevolve Q a b]: the caller table b arises from a by adding callers (whose requests satisfy Q)
   and by moving existing callers to another phase of the same request *)
Inductive cevolve (Q : req -> Prop) : list (N * cphase) -> list (N * cphase) -> Prop :=
| ce_refl : forall l, cevolve Q l l
| ce_new : forall l c p, lookup c l = None -> sendable p -> Q (req_of p) -> cevolve Q l (l ++ [(c, p)])
| ce_upd : forall l c p p', lookup c l = Some p -> req_of p' = req_of p -> (sendable p -> sendable p') ->
           cevolve Q l (update c p' l)
| ce_trans : forall a b c, cevolve Q a b -> cevolve Q b c -> cevolve Q a c.

(* what an event promises about the request of the caller it may add *)
Definition ev_new_ok (Q : req -> Prop) (e : event) : Prop :=
  match e with
  | Submit _ r => Q r
  | NegSubmit _ => forall st v, Q (neg_req st v)
  | _ => True
  end.
Definition any_req (r : req) : Prop := True.
Lemma ev_new_ok_any : forall e, ev_new_ok any_req e.
Proof. destruct e; cbn; unfold any_req; auto. Qed.

Lemma cevolve_mono : forall Q a b, cevolve Q a b ->
  forall c p, lookup c a = Some p -> exists p', lookup c b = Some p' /\ req_of p' = req_of p.
Proof.
  intros Q a b Hev. induction Hev as [l|l c p Hn Hsd Hq|l c p p' Hl Hr Hsd|a b c0 H1 IH1 H2 IH2]; intros k q Hk.
  - eauto.
  - exists q. rewrite lookup_app, Hk. auto.
  - rewrite lookup_update. destruct (k =? c) eqn:E.
    + apply N.eqb_eq in E; subst. rewrite Hl. rewrite Hl in Hk. inversion Hk; subst. eauto.
    + eauto.
  - destruct (IH1 k q Hk) as (p1 & A1 & E1).
    destruct (IH2 k p1 A1) as (p2 & A2 & E2). exists p2. split; [assumption|congruence].
Qed.

Lemma cevolve_sendable : forall Q a b, cevolve Q a b ->
  (forall c p, lookup c a = Some p -> sendable p) -> (forall c p, lookup c b = Some p -> sendable p).
Proof.
  intros Q a b Hev. induction Hev as [l|l c p Hn Hsd Hq|l c p p' Hl Hr Hsd|a b c0 H1 IH1 H2 IH2]; intros Ha k q Hk.
  - eauto.
  - rewrite lookup_app in Hk. destruct (lookup k l) eqn:E.
    + inversion Hk; subst. eauto.
    + destruct (k =? c); [|discriminate]. inversion Hk; subst. assumption.
  - rewrite lookup_update in Hk. destruct (k =? c) eqn:E.
    + rewrite Hl in Hk. inversion Hk; subst. apply Hsd. eauto.
    + eauto.
  - eauto.
Qed.

Lemma cevolve_req : forall Q a b, cevolve Q a b ->
  (forall c p, lookup c a = Some p -> Q (req_of p)) -> (forall c p, lookup c b = Some p -> Q (req_of p)).
Proof.
  intros Q a b Hev. induction Hev as [l|l c p Hn Hsd Hq|l c p p' Hl Hr Hsd|a b c0 H1 IH1 H2 IH2]; intros Ha k q Hk.
  - eauto.
  - rewrite lookup_app in Hk. destruct (lookup k l) eqn:E.
    + inversion Hk; subst. eauto.
    + destruct (k =? c); [|discriminate]. inversion Hk; subst. assumption.
  - rewrite lookup_update in Hk. destruct (k =? c) eqn:E.
    + rewrite Hl in Hk. inversion Hk; subst. rewrite Hr. eauto.
    + eauto.
  - eauto.
Qed.

Lemma do_cancel_evolve : forall Q c i s, cevolve Q (callers s) (callers (do_cancel c i s)).
Proof.
  intros. unfold do_cancel.
  destruct (lookup i (awaiting s)) as [c'|]; [|apply ce_refl].
  destruct (c' =? c); [apply ce_refl|]. st_simpl_goal.
  destruct (lookup c' (callers s)) as [[r|r|r i0|r res]|] eqn:E; try apply ce_refl.
  unfold set_caller. st_simpl_goal. eapply ce_upd; eauto; intros _; exact I.
Qed.

Lemma do_cancel_keeps : forall c i s r,
  lookup c (callers s) = Some (HasToken r i) -> lookup c (callers (do_cancel c i s)) = Some (HasToken r i).
Proof.
  intros c i s r H. unfold do_cancel.
  destruct (lookup i (awaiting s)) as [c'|]; [|assumption].
  destruct (c' =? c) eqn:E; [assumption|]. apply N.eqb_neq in E. st_simpl_goal.
  destruct (lookup c' (callers s)) as [[r0|r0|r0 i0|r0 res]|]; try assumption.
  unfold set_caller. st_simpl_goal. rewrite lookup_update_other by congruence. assumption.
Qed.

Lemma leave_evolve : forall Q res c s, cevolve Q (callers s) (callers (leave res c s)).
Proof.
  intros. unfold leave.
  destruct (lookup c (callers s)) as [[r|r|r i|r res0]|] eqn:E; try apply ce_refl;
    unfold set_caller; st_simpl_goal.
  - eapply ce_upd; eauto; intros _; exact I.
  - eapply ce_upd; eauto; intros _; exact I.
  - eapply ce_trans; [apply do_cancel_evolve|].
    eapply ce_upd; [apply do_cancel_keeps; eassumption|reflexivity|intros _; exact I].
Qed.

Lemma take_waiter_evolve : forall Q cfg whole seq f s, cevolve Q (callers s) (callers (fst (take_waiter cfg whole seq f s))).
Proof.
  intros. unfold take_waiter.
  destruct (consults cfg (f_typ f)); [|apply ce_refl].
  destruct (lookup (f_id f) (awaiting s)) as [c|]; [|apply ce_refl].
  destruct (whole || (max_buffered <? f_len f)); [|apply ce_refl].
  st_simpl_goal. destruct (lookup c (callers s)) as [[r|r|r i0|r res]|] eqn:E; try apply ce_refl.
  cbn [fst]. unfold set_caller. st_simpl_goal. eapply ce_upd; eauto; intros _; exact I.
Qed.

Lemma take_waiter_assigned : forall cfg whole seq f s, assigned (fst (take_waiter cfg whole seq f s)) = assigned s.
Proof.
  intros. unfold take_waiter.
  destruct (consults cfg (f_typ f)); [|reflexivity].
  destruct (lookup (f_id f) (awaiting s)) as [c|]; [|reflexivity].
  destruct (whole || (max_buffered <? f_len f)); [|reflexivity].
  st_simpl_goal. destruct (lookup c (callers s)) as [[]|]; reflexivity.
Qed.

Lemma leave_assigned : forall res c s, assigned (leave res c s) = assigned s.
Proof.
  intros. unfold leave, do_cancel, set_caller.
  destruct (lookup c (callers s)) as [[r|r|r i|r res0]|]; try reflexivity.
  destruct (lookup i (awaiting s)) as [c'|]; [|reflexivity].
  destruct (c' =? c); [reflexivity|]. st_simpl_goal.
  destruct (lookup c' (callers s)) as [[]|]; reflexivity.
Qed.

Lemma ack_enqueue_callers : forall i s, callers (ack_enqueue i s) = callers s /\ assigned (ack_enqueue i s) = assigned s.
Proof. intros. unfold ack_enqueue. destruct (Nat.ltb _ _); split; reflexivity. Qed.

Lemma run_handler_callers : forall cfg seq f h rep s,
  callers (run_handler cfg seq f h rep s) = callers s /\ assigned (run_handler cfg seq f h rep s) = assigned s.
Proof.
  intros. unfold run_handler. destruct (handler_for cfg (f_typ f)); try (split; reflexivity).
  match goal with |- callers (ack_enqueue ?i ?x) = _ /\ _ => destruct (ack_enqueue_callers i x) as (A & B); rewrite A, B end.
  split; reflexivity.
Qed.

(* after the dispatch of a truncated frame only the read loop's control state (and errs) change *)
Lemma eof_after_dispatch_cases : forall cfg f rep s,
  eof_after_dispatch cfg f rep s = reader_dies s \/ eof_after_dispatch cfg f rep s = set_reader RWaitDone s.
Proof.
  intros. unfold eof_after_dispatch.
  destruct (handler_for cfg (f_typ f)), rep, (saw_close s); auto.
Qed.

Ltac eof_cases :=
  match goal with
  | |- context [eof_after_dispatch ?c ?f ?r ?x] =>
      let E := fresh "Eeof" in destruct (eof_after_dispatch_cases c f r x) as [E|E]; rewrite E
  end.

Lemma eof_after_dispatch_callers : forall cfg f rep s,
  callers (eof_after_dispatch cfg f rep s) = callers s /\ assigned (eof_after_dispatch cfg f rep s) = assigned s.
Proof.
  intros. unfold eof_after_dispatch, reader_dies.
  destruct (handler_for cfg (f_typ f)), rep, (saw_close s); split; reflexivity.
Qed.

Lemma note_close_resp_callers : forall f s, callers (note_close_resp f s) = callers s /\ assigned (note_close_resp f s) = assigned s.
Proof. intros. unfold note_close_resp. destruct (_ && _); split; reflexivity. Qed.

(* every step: the caller table evolves, and assigned grows by at most one entry at the end *)
Lemma step_evolve : forall Q cfg s e, ev_new_ok Q e ->
  cevolve Q (callers s) (callers (step cfg s e)) /\
  (assigned (step cfg s e) = assigned s \/ exists c i, assigned (step cfg s e) = assigned s ++ [(c, i)]).
Proof.
  intros Q cfg s e Hq. destruct e; cbn [step]; cbn [ev_new_ok] in Hq.
  - (* Submit *) unfold step_submit, is_fresh. destruct (lookup c (callers s)) eqn:E; cbn [andb].
    + split; [apply ce_refl|now left].
    + destruct (q_gate r || (q_len r <=? max_payload)) eqn:G; st_simpl_goal.
      * split; [|now left].
        apply ce_new; [assumption| |destruct (q_gate r); exact Hq]. destruct (q_gate r); [exact I|]. cbn in G. cbn. now apply N.leb_le.
      * split; [apply ce_refl|now left].
  - (* PassGate *) unfold step_pass_gate.
    destruct (lookup c (callers s)) as [[r|r|r i|r res0]|] eqn:E; try (split; [apply ce_refl|now left]).
    destruct (ready s); [|split; [apply ce_refl|now left]].
    unfold set_caller. st_simpl_goal. split; [|now left].
    destruct (max_payload <? q_len r) eqn:G.
    + eapply ce_upd; [exact E|reflexivity|intros _; exact I].
    + eapply ce_upd; [exact E|reflexivity|intros _; cbn; now apply N.ltb_ge in G].
  - unfold step_see_closed. destruct (closed s); [|split; [apply ce_refl|now left]].
    split; [apply leave_evolve | left; apply leave_assigned].
  - unfold step_cancel. split; [apply leave_evolve | left; apply leave_assigned].
  - unfold step_wdefault. destruct (writer s), (ackq s); try (split; [apply ce_refl|now left]).
    destruct (closed s); split; try apply ce_refl; now left.
  - (* WAccept *) unfold step_waccept.
    destruct (writer s); try (split; [apply ce_refl|now left]).
    destruct (lookup c (callers s)) as [[r|r|r i|r res0]|] eqn:E; try (split; [apply ce_refl|now left]).
    cbn zeta. unfold set_caller.
    destruct (q_wait r), (q_id r =? 0); st_simpl_goal; (split; [eapply ce_upd; eauto | right; eauto]).
    all: try (intros _; exact I).
  - unfold step_wtakeack. destruct (writer s), (ackq s); split; try apply ce_refl; now left.
  - unfold step_wwritehdr. destruct (writer s); try (split; [apply ce_refl|now left]).
    destruct (f_len _ =? _); split; try apply ce_refl; now left.
  - unfold step_wwritepay. destruct (writer s); split; try apply ce_refl; now left.
  - unfold step_writefail. destruct (writer s); try (split; [apply ce_refl|now left]).
    + destruct (k <? header_sz); split; try apply ce_refl; now left.
    + destruct (k <? f_len _); split; try apply ce_refl; now left.
  - unfold step_wseedone. destruct (writer s); try (split; [apply ce_refl|now left]);
      destruct (closed s); split; try apply ce_refl; now left.
  - unfold step_rcheck. destruct (reader s); try (split; [apply ce_refl|now left]).
    destruct (closed s); split; try apply ce_refl; now left.
  - unfold step_rseedone. destruct (reader s); try (split; [apply ce_refl|now left]);
      destruct (closed s); split; try apply ce_refl; now left.
  - (* RFrame *) unfold step_rframe. destruct (reader s); try (split; [apply ce_refl|now left]).
    destruct (take_waiter cfg true (length (peer_sent s)) f
                (note_close_resp f (set_peer_sent (peer_sent s ++ [f]) s))) as [s2 rep] eqn:Htw.
    pose proof (take_waiter_evolve Q cfg true (length (peer_sent s)) f
                  (note_close_resp f (set_peer_sent (peer_sent s ++ [f]) s))) as H1.
    pose proof (take_waiter_assigned cfg true (length (peer_sent s)) f
                  (note_close_resp f (set_peer_sent (peer_sent s ++ [f]) s))) as H2.
    rewrite Htw in H1, H2. cbn [fst] in H1, H2.
    destruct (note_close_resp_callers f (set_peer_sent (peer_sent s ++ [f]) s)) as (E1 & E2).
    rewrite E1 in H1. rewrite E2 in H2. st_simpl.
    destruct (run_handler_callers cfg (length (peer_sent s)) f h rep s2) as (E3 & E4).
    rewrite E3, E4. split; [assumption|now left].
  - (* PeerEOF *) unfold step_peer_eof. destruct (reader s); try (split; [apply ce_refl|now left]).
    destruct p.
    + destruct (saw_close s); unfold reader_dies; st_simpl_goal; split; try apply ce_refl; now left.
    + unfold reader_dies; st_simpl_goal; split; try apply ce_refl; now left.
    + destruct (take_waiter cfg false (length (peer_sent s)) f
                  (note_close_resp f (set_peer_sent (peer_sent s ++ [f]) s))) as [s2 rep] eqn:Htw.
      pose proof (take_waiter_evolve Q cfg false (length (peer_sent s)) f
                    (note_close_resp f (set_peer_sent (peer_sent s ++ [f]) s))) as H1.
      pose proof (take_waiter_assigned cfg false (length (peer_sent s)) f
                    (note_close_resp f (set_peer_sent (peer_sent s ++ [f]) s))) as H2.
      rewrite Htw in H1, H2. cbn [fst] in H1, H2.
      destruct (note_close_resp_callers f (set_peer_sent (peer_sent s ++ [f]) s)) as (E1 & E2).
      rewrite E1 in H1. rewrite E2 in H2. st_simpl.
      destruct (rep && (f_len f <=? max_buffered)).
      * unfold reader_dies; st_simpl_goal. split; [assumption|now left].
      * destruct (run_handler_callers cfg (length (peer_sent s)) f HBAll rep s2) as (E3 & E4).
        destruct (eof_after_dispatch_callers cfg f rep (run_handler cfg (length (peer_sent s)) f HBAll rep s2)) as (E5 & E6).
        rewrite E5, E6, E3, E4. split; [assumption|now left].
  - unfold step_close. destruct (closed s); split; try apply ce_refl; now left.
  - unfold step_conn_start. destruct (phase s); split; try apply ce_refl; now left.
  - (* ConnFirst *) unfold step_conn_first. destruct (phase s); try (split; [apply ce_refl|now left]).
    destruct (max_buffered <? f_len f); [unfold init_fail; st_simpl_goal; split; [apply ce_refl|now left]|].
    set (s2 := match first_handler cfg (f_typ f) with Some _ => _ | None => _ end).
    assert (Hs2 : callers s2 = callers s /\ assigned s2 = assigned s).
    { subst s2. destruct (first_handler cfg (f_typ f)) as [k|]; [|split; reflexivity].
      destruct k; try (split; reflexivity).
      match goal with |- callers (ack_enqueue ?i ?x) = _ /\ _ => destruct (ack_enqueue_callers i x) as (A & B); rewrite A, B end.
      split; reflexivity. }
    destruct Hs2 as (A & B).
    destruct ((f_typ f =? T_ReaderEventNotification) && is_conn_success (f_info f)); unfold init_fail; st_simpl_goal;
      rewrite A, B; split; try apply ce_refl; now left.
  - unfold step_conn_first_fail, init_fail. destruct (phase s); split; try apply ce_refl; now left.
  - (* NegSubmit *) unfold step_neg_submit, is_fresh.
    destruct (phase s) as [| |st o| | |]; try (split; [apply ce_refl|now left]).
    destruct st, o; try (split; [apply ce_refl|now left]);
      (destruct (lookup c (callers s)) eqn:E; [split; [apply ce_refl|now left]|]);
      st_simpl_goal; (split; [apply ce_new; [assumption|cbn; discriminate|apply Hq]|now left]).
  - (* NegStep *) unfold step_neg_step, neg_fail, neg_fail_with.
    destruct (phase s) as [| |st o| | |]; try (split; [apply ce_refl|now left]).
    destruct o as [c0|]; [|destruct st; split; try apply ce_refl; now left].
    destruct (lookup c0 (callers s)) as [[r|r|r i|r res0]|]; try (destruct st; split; try apply ce_refl; now left).
    destruct st, res0; st_simpl_goal; try (split; [apply ce_refl|now left]).
    + destruct (gsv_outcome f) as [[cur mx]|]; [destruct (cur =? _)|]; st_simpl_goal; split; try apply ce_refl; now left.
    + destruct (spv_ok f); st_simpl_goal; split; try apply ce_refl; now left.
  - unfold step_conn_ready. destruct (phase s) as [| |st o| | |]; try (split; [apply ce_refl|now left]).
    destruct st; split; try apply ce_refl; now left.
  - unfold step_conn_select. destruct (phase s); try (split; [apply ce_refl|now left]).
    destruct pick_err; [destruct (errs s)|destruct (closed s)]; split; try apply ce_refl; now left.
  - unfold step_conn_return. destruct (phase s); try (split; [apply ce_refl|now left]).
    destruct (_ && _); split; try apply ce_refl; now left.
  - unfold step_shutdown_close, step_close.
    destruct (lookup c (callers s)) as [[r|r|r i|r res0]|]; try (split; [apply ce_refl|now left]).
    destruct res0; try (split; [apply ce_refl|now left]).
    destruct (_ && _); [destruct (closed _)|]; split; try apply ce_refl; now left.
Qed.

Lemma step_callers_mono : forall cfg s e c p, lookup c (callers s) = Some p ->
  exists p', lookup c (callers (step cfg s e)) = Some p' /\ req_of p' = req_of p.
Proof. intros. eapply cevolve_mono; eauto. apply (step_evolve any_req). apply ev_new_ok_any. Qed.

Lemma step_assigned_mono : forall cfg s e x, In x (assigned s) -> In x (assigned (step cfg s e)).
Proof.
  intros cfg s e x H. destruct (step_evolve any_req cfg s e (ev_new_ok_any e)) as (_ & [E|(c & i & E)]); rewrite E; [assumption|].
  apply in_or_app. now left.
Qed.
