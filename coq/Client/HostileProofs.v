(* Proofs about the hostile-peer model (Client/Hostile.v). *)
From Coq Require Import NArith ZArith List Bool Lia ZifyN ZifyNat ZifyBool.
From LLRP Require Import Client.Stream Client.StreamProofs Client.Hostile.
Import ListNotations.
Open Scope N_scope.

(* ------------------------------------------------------------------ read loop facts *)
Section Facts.
Variable maxbuf : N.
Variable cfg : config.

(* what one dispatch can look like, whatever the bytes *)
Definition dispatch_ok (h : header) (d : dispatch) : Prop :=
  d_hdr d = h /\
  d_alloc d <= HeaderSz + maxbuf /\
  (d_reply d = Some RHeaderOnly -> maxbuf < h_len h) /\
  (forall pl, d_reply d = Some (RBuffered pl) -> len pl = h_len h /\ h_len h <= maxbuf).

Local Opaque N.add.
Lemma pass_to_handler_ok : forall aw h e bs r aw',
  pass_to_handler maxbuf cfg aw h e bs = (r, aw') ->
  match r with PthOk d _ => dispatch_ok h d
             | PthErr d => dispatch_ok h d /\ (d_reply d = None \/ d_reply d = Some RTruncated) end.
Proof.
  intros aw h e bs r aw'. unfold pass_to_handler.
  destruct (split_at (h_len h) bs) as [pl rest] eqn:Hs.
  destruct (negb (never_reply cfg (h_typ h)) && mem (h_id h) (register (e_register e) aw)) eqn:Hn;
    destruct (pick_handler cfg (h_typ h)) as [w|] eqn:Hp;
    destruct (N.ltb_spec maxbuf (h_len h)); destruct (N.eqb_spec (len pl) (h_len h));
    intro Heq; inversion Heq; subst; clear Heq; unfold dispatch_ok, HeaderSz; cbn [d_hdr d_alloc d_reply];
    try (split; [|auto; fail]);
    repeat split; try discriminate; try lia; intros; try discriminate;
    try (match goal with Hs : Some _ = Some _ |- _ => inversion Hs; subst end); try lia; auto.
Qed.

Local Transparent N.add.

Lemma read_iter_ok : forall st e bs,
  match read_iter maxbuf cfg st e bs with
  | ItNext d _ _ => exists h, dispatch_ok h d
  | ItLast d => exists h, dispatch_ok h d /\ (d_reply d = None \/ d_reply d = Some RTruncated)
  | ItEnd _ _ => True
  end.
Proof.
  intros st e bs. unfold read_iter.
  destruct (read_header bs) as [h rest| | |]; auto.
  destruct (pass_to_handler maxbuf cfg (s_aw st) h e rest) as [r aw'] eqn:Hp.
  apply pass_to_handler_ok in Hp. destruct r; exists h; assumption.
Qed.

End Facts.

(* ------------------------------------------------------------------ outcomes *)
Definition out_safe {A} (o : outcome A) : Prop := o <> OPanic /\ o <> OHang.
Definition out_is_err {A} (o : outcome A) : Prop := o = OErr.

Definition co_safe (c : cons_out) : Prop :=
  match c with
  | CoNone => True
  | CoGsv o => out_safe o | CoSpv o => out_safe o | CoUser o => out_safe o | CoShutdown o => out_safe o
  end.

Definition co_is_err (c : cons_out) : Prop :=
  match c with
  | CoNone => False
  | CoGsv o => o = OErr | CoSpv o => o = OErr | CoUser o => o = OErr | CoShutdown o => o = OErr
  end.

Lemma lift_dec_safe : forall A B (d : list byte -> dec_out A) (k : A -> outcome B) bs,
  total_dec d -> (forall v, out_safe (k v)) -> out_safe (lift_dec (d bs) k).
Proof.
  intros A B d k bs Ht Hk. destruct (Ht bs) as [[v Hv]|Hv]; rewrite Hv; cbn.
  - apply Hk.
  - split; discriminate.
Qed.

Lemma status_out_safe : forall s, out_safe (status_out s).
Proof. intros. unfold status_out. destruct (s =? 0); split; discriminate. Qed.

Section Consumers.
Variable maxbuf : N.
Variable cfg : config.
Variable fl : flags.
Variable D : decoders.

Lemma msg_data_safe : forall h r, out_safe (msg_data maxbuf fl h r).
Proof.
  intros h r. unfold msg_data. destruct r; try (split; discriminate).
  destruct (_ && _); split; discriminate.
Qed.

Lemma gsv_decode_safe : good D -> forall h data, out_safe (gsv_decode D h data).
Proof.
  intros G h data. unfold gsv_decode.
  destruct (h_typ h =? MsgErrorMessage).
  - apply lift_dec_safe; [apply G|]. intro s. destruct (_ || _); split; discriminate.
  - destruct (h_typ h =? MsgGetSupportedVersionResponse).
    + apply lift_dec_safe; [apply G|]. intros [[cur mx] s]. destruct (s =? 0); split; discriminate.
    + split; discriminate.
Qed.

Lemma consume_safe : good D -> gsv_uses_checked_read fl = true ->
  forall k h r co a, consume maxbuf fl D k h r = (co, a) -> co_safe co /\ a = 0.
Proof.
  intros G Hg k h r co a. unfold consume. destruct k.
  - unfold consume_gsv. rewrite Hg.
    intro H. inversion H; subst; clear H. split; [|reflexivity]. cbn.
    pose proof (msg_data_safe h r) as [Hp Hh].
    destruct (msg_data maxbuf fl h r) eqn:Hm; try (split; discriminate); try congruence.
    apply gsv_decode_safe; assumption.
  - intro H. inversion H; subst; clear H. split; [|reflexivity]. cbn. unfold consume_spv.
    destruct (h_typ h =? MsgSetProtocolVersionResponse); [|split; discriminate].
    pose proof (msg_data_safe h r) as [Hp Hh].
    destruct (msg_data maxbuf fl h r) eqn:Hm; try (split; discriminate); try congruence.
    apply lift_dec_safe; [apply G|apply status_out_safe].
  - intro H. inversion H; subst; clear H. split; [|reflexivity]. cbn. unfold consume_user.
    pose proof (msg_data_safe h r) as [Hp Hh].
    destruct (msg_data maxbuf fl h r) eqn:Hm; try (split; discriminate); congruence.
  - intro H. inversion H; subst; clear H. split; [|reflexivity]. cbn. unfold consume_shutdown, consume_user.
    pose proof (msg_data_safe h r) as [Hp Hh].
    destruct (msg_data maxbuf fl h r) eqn:Hm; try (split; discriminate); try congruence.
    destruct (h_typ h =? MsgCloseConnectionResponse).
    + apply lift_dec_safe; [apply G|apply status_out_safe].
    + destruct (h_typ h =? MsgErrorMessage); [|split; discriminate].
      apply lift_dec_safe; [apply G|apply status_out_safe].
Qed.

(* allocation of the consumer alone needs no assumption on the decoders *)
Lemma consume_alloc : gsv_uses_checked_read fl = true ->
  forall k h r co a, consume maxbuf fl D k h r = (co, a) -> a = 0.
Proof.
  intros Hg k h r co a. unfold consume. destruct k; try (intro H; inversion H; reflexivity).
  unfold consume_gsv. rewrite Hg. intro H; inversion H; reflexivity.
Qed.

(* an oversize (header-only) reply is an error for whoever consumes it *)
Lemma consume_header_only_err : data_checks_size_first fl = true -> gsv_uses_checked_read fl = true ->
  forall k h co a, maxbuf < h_len h -> consume maxbuf fl D k h RHeaderOnly = (co, a) -> co_is_err co.
Proof.
  intros Hd Hg k h co a Hlt. unfold consume.
  assert (Hm : msg_data maxbuf fl h RHeaderOnly = OErr).
  { unfold msg_data. rewrite Hd. replace (maxbuf <? h_len h) with true; [reflexivity|].
    symmetry. apply N.ltb_lt. assumption. }
  destruct k.
  - unfold consume_gsv. rewrite Hg, Hm. intro H; inversion H; subst. reflexivity.
  - intro H; inversion H; subst. cbn. unfold consume_spv. rewrite Hm.
    destruct (h_typ h =? MsgSetProtocolVersionResponse); reflexivity.
  - intro H; inversion H; subst. cbn. unfold consume_user. rewrite Hm. reflexivity.
  - intro H; inversion H; subst. cbn. unfold consume_shutdown, consume_user. rewrite Hm. reflexivity.
Qed.

(* SendMessage succeeds only with the complete buffered payload *)
Lemma consume_user_ok : data_checks_size_first fl = true ->
  forall h r t data, (r = RHeaderOnly -> maxbuf < h_len h) ->
  consume_user maxbuf fl h r = OOk (t, data) -> r = RBuffered data /\ t = h_typ h.
Proof.
  intros Hd h r t data Hr. unfold consume_user, msg_data. destruct r.
  - intro H; inversion H; subst. auto.
  - rewrite Hd. replace (maxbuf <? h_len h) with true; [discriminate|].
    symmetry. apply N.ltb_lt. auto.
  - discriminate.
Qed.

End Consumers.

(* ------------------------------------------------------------------ one step: what records look like *)
Section Steps.
Variable maxbuf : N.
Variable cfg : config.
Variable fl : flags.
Variable D : decoders.
Variable neg_timeout : bool.

Notation step := (session_step maxbuf cfg fl D neg_timeout).

(* every record a step emits *)
Definition rec_spec (r : srecord) : Prop :=
  exists h, dispatch_ok maxbuf h (sr_d r) /\
  ((sr_cons r = CoNone /\ sr_alloc r = d_alloc (sr_d r) /\
    (d_reply (sr_d r) = None \/ d_reply (sr_d r) = Some RTruncated)) \/
   (exists rr k a, d_reply (sr_d r) = Some rr /\ (rr = RHeaderOnly \/ exists pl, rr = RBuffered pl) /\
                   consume maxbuf fl D k h rr = (sr_cons r, a) /\ sr_alloc r = d_alloc (sr_d r) + a)).

Definition emitted (s : step_result) (r : srecord) : Prop :=
  match s with SsNext r' _ _ => r = r' | SsStop l _ => In r l end.

Lemma after_consumer_emits : forall ss rec rest r,
  emitted (after_consumer ss rec rest) r -> r = rec.
Proof.
  intros ss rec rest r. unfold after_consumer.
  destruct (sr_cons rec) as [|[[cur mx]| | |]|[u| | |]|[p| | |]|[u| | |]]; cbn;
    intros H; try assumption; destruct H as [H|[]]; auto.
Qed.

Lemma step_emits_spec : forall ss e bs r, emitted (step ss e bs) r -> rec_spec r.
Proof.
  intros ss e bs r. unfold session_step.
  destruct (do_register ss e) as [ss1 ids].
  pose proof (read_iter_ok maxbuf cfg (ss_st ss1) (mkEnv ids (se_beh e) (negb (close_wait_only_if_sent fl) || ss_sent_close ss1)) bs) as Hok.
  destruct (read_iter maxbuf cfg (ss_st ss1) (mkEnv ids (se_beh e) (negb (close_wait_only_if_sent fl) || ss_sent_close ss1)) bs) as [d st' rest|d|en rest].
  - destruct Hok as [h Hd].
    assert (Hh : d_hdr d = h) by apply Hd.
    destruct (d_reply d) as [[pl| |]|] eqn:Hr.
    + destruct (consume maxbuf fl D _ (d_hdr d) (RBuffered pl)) as [co a] eqn:Hc.
      intro H. apply after_consumer_emits in H. subst r. exists h. split; [assumption|]. right.
      cbn [sr_d sr_cons sr_alloc]. eexists. eexists. exists a. rewrite <- Hh.
      split; [eassumption|]. split; [right; eexists; reflexivity|]. split; [eassumption|reflexivity].
    + destruct (consume maxbuf fl D _ (d_hdr d) RHeaderOnly) as [co a] eqn:Hc.
      intro H. apply after_consumer_emits in H. subst r. exists h. split; [assumption|]. right.
      cbn [sr_d sr_cons sr_alloc]. eexists. eexists. exists a. rewrite <- Hh.
      split; [eassumption|]. split; [left; reflexivity|]. split; [eassumption|reflexivity].
    + cbn. intro H; subst r. exists h. split; [assumption|]. left. cbn. auto.
    + cbn. intro H; subst r. exists h. split; [assumption|]. left. cbn. auto.
  - destruct Hok as [h [Hd Hn]]. cbn. intros [H|[]]. subst r. exists h. split; [assumption|]. left. cbn. auto.
  - cbn. intros [].
Qed.

(* ------------------------------------------------------------------ the loop *)
Lemma step_next_shorter : forall ss e bs r ss' rest,
  step ss e bs = SsNext r ss' rest -> (length rest < length bs)%nat.
Proof.
  intros ss e bs r ss' rest. unfold session_step.
  destruct (do_register ss e) as [ss1 ids].
  destruct (read_iter maxbuf cfg (ss_st ss1) (mkEnv ids (se_beh e) (negb (close_wait_only_if_sent fl) || ss_sent_close ss1)) bs) as [d st' rest0|d|en rest0] eqn:Hit;
    try discriminate.
  apply read_iter_next_shorter in Hit.
  assert (Hac : forall ss2 rec, after_consumer ss2 rec rest0 = SsNext r ss' rest -> rest = rest0).
  { intros ss2 rec. unfold after_consumer.
    destruct (sr_cons rec) as [|[[cur mx]| | |]|[u| | |]|[p| | |]|[u| | |]];
      intro H; inversion H; reflexivity. }
  destruct (d_reply d) as [[pl| |]|].
  - destruct (consume _ _ _ _ _ _) as [co a]. intro H. apply Hac in H. subst. assumption.
  - destruct (consume _ _ _ _ _ _) as [co a]. intro H. apply Hac in H. subst. assumption.
  - intro H; inversion H; subst. assumption.
  - intro H; inversion H; subst. assumption.
Qed.

(* a property of all records, an invariant of the state, a property of the ending *)
Lemma session_loop_inv :
  forall (P : senv -> Prop) (R : srecord -> Prop) (I : sstate -> Prop) (E : send -> Prop),
  (forall ss e bs r, emitted (step ss e bs) r -> R r) ->
  (forall ss e bs r ss' rest, P e -> I ss -> step ss e bs = SsNext r ss' rest -> I ss') ->
  (forall ss e bs l en, P e -> I ss -> step ss e bs = SsStop l en -> E en) ->
  forall fuel ss env i bs, (forall j, P (env j)) -> I ss -> (length bs < fuel)%nat ->
  Forall R (fst (session_loop maxbuf cfg fl D neg_timeout fuel ss env i bs)) /\
  E (snd (session_loop maxbuf cfg fl D neg_timeout fuel ss env i bs)).
Proof.
  intros P R I E HR HI HE. induction fuel as [|fuel IH]; intros ss env i bs HP Hss Hf; [lia|].
  cbn [session_loop].
  destruct (step ss (env i) bs) as [r ss' rest|l en] eqn:Hs.
  - pose proof (step_next_shorter _ _ _ _ _ _ Hs) as Hlen.
    specialize (IH ss' env (S i) rest HP (HI _ _ _ _ _ _ (HP i) Hss Hs) ltac:(lia)).
    destruct (session_loop maxbuf cfg fl D neg_timeout fuel ss' env (S i) rest) as [l e].
    cbn [fst snd] in *. destruct IH as [IH1 IH2]. split; [|assumption].
    constructor; [|assumption]. apply (HR ss (env i) bs). rewrite Hs. reflexivity.
  - cbn [fst snd]. split.
    + apply Forall_forall. intros r Hin. apply (HR ss (env i) bs). rewrite Hs. exact Hin.
    + eapply HE; eauto.
Qed.

(* ------------------------------------------------------------------ endings of a step *)
Lemma after_consumer_stop : forall ss rec rest l en,
  after_consumer ss rec rest = SsStop l en ->
  (en = SeErr /\ (sr_cons rec = CoGsv OErr \/ sr_cons rec = CoSpv OErr)) \/
  (en = SeClosed /\ exists u, sr_cons rec = CoShutdown (OOk u)) \/
  ((en = SePanic \/ en = SeHang) /\ ~ co_safe (sr_cons rec)).
Proof.
  intros ss rec rest l en. unfold after_consumer.
  destruct (sr_cons rec) as [|[[cur mx]| | |]|[u| | |]|[p| | |]|[u| | |]];
    intro H; inversion H; subst; clear H;
    try (left; split; [reflexivity|]; auto; fail);
    try (right; left; split; [reflexivity|]; eexists; reflexivity);
    right; right; (split; [auto|]); cbn; unfold out_safe; intros [Ha Hb]; congruence.
Qed.

Definition end_of_cases (ss : sstate) (en : send) : Prop :=
  exists e, e <> EndOutOfFuel /\ en = end_of fl neg_timeout ss e.

Lemma read_iter_end_not_oof : forall st e bs en rest,
  read_iter maxbuf cfg st e bs = ItEnd en rest -> en <> EndOutOfFuel.
Proof.
  intros st e bs en rest. unfold read_iter.
  destruct (read_header bs); try (intro H; inversion H; subst; try discriminate).
  - destruct (pass_to_handler _ _ _ _ _ _) as [[? ?|?] ?]; discriminate.
  - destruct (s_closed_seen st); discriminate.
Qed.

(* a step that stops: either the consumer ended the session, or the read loop ended *)
Lemma step_stop_cases : forall ss e bs l en,
  step ss e bs = SsStop l en ->
  (exists rec, l = [rec] /\
     ((en = SeErr /\ (sr_cons rec = CoGsv OErr \/ sr_cons rec = CoSpv OErr)) \/
      (en = SeClosed /\ exists u, sr_cons rec = CoShutdown (OOk u)) \/
      ((en = SePanic \/ en = SeHang) /\ ~ co_safe (sr_cons rec)))) \/
  end_of_cases (fst (do_register ss e)) en.
Proof.
  intros ss e bs l en. unfold session_step.
  destruct (do_register ss e) as [ss1 ids]. cbn [fst].
  destruct (read_iter maxbuf cfg (ss_st ss1) (mkEnv ids (se_beh e) (negb (close_wait_only_if_sent fl) || ss_sent_close ss1)) bs) as [d st' rest|d|en0 rest] eqn:Hit.
  - assert (Hac : forall ss2 rec, after_consumer ss2 rec rest = SsStop l en ->
        exists rec0, l = [rec0] /\
         ((en = SeErr /\ (sr_cons rec0 = CoGsv OErr \/ sr_cons rec0 = CoSpv OErr)) \/
          (en = SeClosed /\ exists u, sr_cons rec0 = CoShutdown (OOk u)) \/
          ((en = SePanic \/ en = SeHang) /\ ~ co_safe (sr_cons rec0)))).
    { intros ss2 rec H. exists rec. split.
      - revert H. unfold after_consumer.
        destruct (sr_cons rec) as [|[[cur mx]| | |]|[u| | |]|[p| | |]|[u| | |]];
          intro H; inversion H; reflexivity.
      - eapply after_consumer_stop; eassumption. }
    destruct (d_reply d) as [[pl| |]|].
    + destruct (consume _ _ _ _ _ _) as [co a]. intro H. left. eapply Hac; eassumption.
    + destruct (consume _ _ _ _ _ _) as [co a]. intro H. left. eapply Hac; eassumption.
    + discriminate.
    + discriminate.
  - intro H; inversion H; subst. right. exists EndShortDiscard. split; [discriminate|reflexivity].
  - intro H; inversion H; subst. right. exists en0. split; [|reflexivity].
    eapply read_iter_end_not_oof; eassumption.
Qed.

End Steps.

(* ------------------------------------------------------------------ whole sessions *)
Section Sessions.
Variable maxbuf : N.
Variable cfg : config.
Variable fl : flags.
Variable D : decoders.
Variable neg_timeout : bool.

Notation step := (session_step maxbuf cfg fl D neg_timeout).
Notation sess := (session maxbuf cfg fl D neg_timeout).

Lemma end_of_not_panic : forall ss e,
  end_of fl neg_timeout ss e <> SePanic /\ end_of fl neg_timeout ss e <> SeHang.
Proof.
  intros ss e. unfold end_of.
  destruct e; destruct (ss_neg ss);
    repeat match goal with |- context [if ?c then _ else _] => destruct c end;
    split; discriminate.
Qed.

Lemma rec_spec_safe : good D -> gsv_uses_checked_read fl = true ->
  forall r, rec_spec maxbuf fl D r -> co_safe (sr_cons r).
Proof.
  intros G Hg r [h [Hd [[Hc _]|[rr [k [a [Hr [_ [Hc _]]]]]]]]].
  - rewrite Hc. exact I.
  - eapply consume_safe in Hc; eauto. apply Hc.
Qed.

Lemma check_initial_safe : good D -> forall bs,
  ci_res (check_initial maxbuf cfg fl D bs) <> CiPanic /\ ci_res (check_initial maxbuf cfg fl D bs) <> CiHang.
Proof.
  intros G bs. unfold check_initial.
  destruct (read_header bs) as [h rest| | |]; try (cbn; split; discriminate).
  destruct (maxbuf <? h_len h); [cbn; split; discriminate|].
  destruct (split_at (h_len h) rest) as [pl rest'].
  destruct (negb (len pl =? h_len h)); [cbn; split; discriminate|].
  destruct (negb (h_typ h =? MsgReaderEventNotification)); [cbn; split; discriminate|].
  destruct (g_ren D G pl) as [[v Hv]|Hv]; rewrite Hv.
  - destruct v as [s|]; cbn; [destruct (s =? 0)|]; split; discriminate.
  - cbn; split; discriminate.
Qed.

Lemma check_initial_alloc : forall bs, ci_alloc (check_initial maxbuf cfg fl D bs) <= HeaderSz + maxbuf.
Proof.
  intros bs. unfold check_initial, HeaderSz.
  destruct (read_header bs) as [h rest| | |]; try (cbn [ci_alloc]; lia).
  destruct (N.ltb_spec maxbuf (h_len h)); [cbn [ci_alloc]; lia|].
  destruct (split_at (h_len h) rest) as [pl rest'].
  destruct (negb (len pl =? h_len h)); [cbn [ci_alloc]; lia|].
  destruct (negb (h_typ h =? MsgReaderEventNotification)); [cbn [ci_alloc]; lia|].
  destruct (dec_ren D pl) as [[s|]| | |]; cbn [ci_alloc]; lia.
Qed.

(* generic transfer from the loop to the session *)
Lemma session_transfer :
  forall (P : senv -> Prop) (R : srecord -> Prop) (I : sstate -> Prop) (E : send -> Prop),
  (forall ss e bs r, emitted (step ss e bs) r -> R r) ->
  (forall ss e bs r ss' rest, P e -> I ss -> step ss e bs = SsNext r ss' rest -> I ss') ->
  (forall ss e bs l en, P e -> I ss -> step ss e bs = SsStop l en -> E en) ->
  forall negotiate ver env bs, (forall j, P (env j)) -> I (init_ss negotiate ver) ->
  Forall R (s_log (sess negotiate ver env bs)) /\
  (E (s_end (sess negotiate ver env bs)) \/
   (s_log (sess negotiate ver env bs) = [] /\
    ((s_end (sess negotiate ver env bs) = SeErr /\ ci_res (s_init (sess negotiate ver env bs)) = CiErr) \/
     (s_end (sess negotiate ver env bs) = SePanic /\ ci_res (s_init (sess negotiate ver env bs)) = CiPanic) \/
     (s_end (sess negotiate ver env bs) = SeHang /\ ci_res (s_init (sess negotiate ver env bs)) = CiHang)))).
Proof.
  intros P R I E HR HI HE negotiate ver env bs HP Hinit. unfold session.
  destruct (ci_res (check_initial maxbuf cfg fl D bs)) as [rest| | |] eqn:Hci.
  - pose proof (session_loop_inv maxbuf cfg fl D neg_timeout P R I E HR HI HE
                  (S (length rest)) (init_ss negotiate ver) env O rest HP Hinit ltac:(lia)) as [H1 H2].
    destruct (session_loop maxbuf cfg fl D neg_timeout (S (length rest)) (init_ss negotiate ver) env 0 rest) as [l e].
    cbn [fst snd s_log s_end] in *. split; [assumption|left; assumption].
  - cbn [s_log s_end s_init]. split; [constructor|]. right. split; [reflexivity|]. left. auto.
  - cbn [s_log s_end s_init]. split; [constructor|]. right. split; [reflexivity|]. right. left. auto.
  - cbn [s_log s_end s_init]. split; [constructor|]. right. split; [reflexivity|]. right. right. auto.
Qed.

(* ---- T1: no panic, no hang *)
Theorem session_never_panics : good D -> gsv_uses_checked_read fl = true ->
  forall negotiate ver env bs,
  let r := sess negotiate ver env bs in
  s_end r <> SePanic /\ s_end r <> SeHang /\
  Forall (fun x => co_safe (sr_cons x)) (s_log r) /\
  ci_res (s_init r) <> CiPanic /\ ci_res (s_init r) <> CiHang.
Proof.
  intros G Hg negotiate ver env bs r.
  assert (Hci : ci_res (s_init r) <> CiPanic /\ ci_res (s_init r) <> CiHang).
  { subst r. unfold session. pose proof (check_initial_safe G bs) as Hs.
    destruct (ci_res (check_initial maxbuf cfg fl D bs)) eqn:E; try destruct (session_loop _ _ _ _ _ _ _ _ _ _);
      cbn [s_init]; rewrite E; assumption. }
  pose proof (session_transfer (fun _ => True) (fun x => co_safe (sr_cons x)) (fun _ => True)
                (fun e => e <> SePanic /\ e <> SeHang)) as T.
  specialize (T ltac:(intros ss e bs0 x Hx; apply (rec_spec_safe G Hg); eapply step_emits_spec; eassumption)).
  specialize (T ltac:(auto)).
  assert (HE : forall ss e bs0 l en, True -> True -> step ss e bs0 = SsStop l en -> en <> SePanic /\ en <> SeHang).
  { intros ss e bs0 l en _ _ Hs.
    destruct (step_stop_cases _ _ _ _ _ _ _ _ _ _ Hs) as [[rec [Hl Hc]]|[e0 [_ He]]].
    - assert (Hsafe : co_safe (sr_cons rec)).
      { apply (rec_spec_safe G Hg). eapply (step_emits_spec maxbuf cfg fl D neg_timeout ss e bs0).
        rewrite Hs. cbn [emitted]. rewrite Hl. left. reflexivity. }
      destruct Hc as [[-> _]|[[-> _]|[_ Hn]]]; [split; discriminate|split; discriminate|contradiction].
    - subst en. apply end_of_not_panic. }
  specialize (T HE negotiate ver env bs (fun _ => I) I). fold r in T. destruct T as [T1 T2].
  destruct Hci as [Hp Hh].
  destruct T2 as [[E1 E2]|[_ [[E _]|[[_ E]|[_ E]]]]]; try congruence.
  - repeat split; assumption.
  - repeat split; try assumption; rewrite E; discriminate.
Qed.

(* ---- T2: allocation per message *)
Theorem session_alloc_bounded : gsv_uses_checked_read fl = true ->
  forall negotiate ver env bs,
  let r := sess negotiate ver env bs in
  ci_alloc (s_init r) <= HeaderSz + maxbuf /\
  Forall (fun x => sr_alloc x <= HeaderSz + maxbuf) (s_log r).
Proof.
  intros Hg negotiate ver env bs r. split.
  - subst r. unfold session.
    destruct (ci_res (check_initial maxbuf cfg fl D bs)); try destruct (session_loop _ _ _ _ _ _ _ _ _ _);
      cbn [s_init]; apply check_initial_alloc.
  - pose proof (session_transfer (fun _ => True) (fun x => sr_alloc x <= HeaderSz + maxbuf) (fun _ => True) (fun _ => True)) as T.
    specialize (T ltac:(intros ss e bs0 x Hx; apply step_emits_spec in Hx;
      destruct Hx as [h [Hd [[_ [Ha _]]|[rr [k [a [_ [_ [Hc Ha]]]]]]]]];
      [rewrite Ha; apply Hd | apply (consume_alloc maxbuf fl D Hg) in Hc; subst a; rewrite Ha, N.add_0_r; apply Hd])).
    specialize (T ltac:(auto) ltac:(auto) negotiate ver env bs (fun _ => I) I). apply T.
Qed.

(* ---- T3: a reply too large to buffer is an error for its caller, and a successful
        SendMessage carries the complete payload *)
Definition reply_ok (x : srecord) : Prop :=
  (d_reply (sr_d x) = Some RHeaderOnly -> co_is_err (sr_cons x)) /\
  (forall t data, sr_cons x = CoUser (OOk (t, data)) ->
     d_reply (sr_d x) = Some (RBuffered data) /\ len data = h_len (d_hdr (sr_d x)) /\
     t = h_typ (d_hdr (sr_d x))).

Lemma rec_spec_reply_ok : data_checks_size_first fl = true -> gsv_uses_checked_read fl = true ->
  forall x, rec_spec maxbuf fl D x -> reply_ok x.
Proof.
  intros Hd Hg x [h [Hok [[Hc [_ Hnr]]|[rr [k [a [Hr [Hrr [Hc _]]]]]]]]]; split.
  - intro Hro. destruct Hnr as [Hn|Hn]; rewrite Hn in Hro; discriminate.
  - intros t data Hu. rewrite Hc in Hu. discriminate.
  - intro Hro. rewrite Hr in Hro. inversion Hro; subst rr.
    destruct Hok as [_ [_ [Hlt _]]]. rewrite Hr in Hlt. specialize (Hlt eq_refl).
    eapply consume_header_only_err; eauto.
  - intros t data Hu. rewrite Hu in Hc.
    destruct Hok as [Hh [_ [Hlt Hb]]].
    destruct k; unfold consume in Hc; try (destruct (consume_gsv _ _ _ _ _) ; discriminate); try discriminate.
    inversion Hc as [Hcu].
    apply (consume_user_ok maxbuf fl Hd) in Hcu.
    + destruct Hcu as [-> ->]. rewrite Hr. split; [reflexivity|]. rewrite Hh. split; [|reflexivity].
      apply (Hb data). assumption.
    + intros ->. apply Hlt. assumption.
Qed.

Theorem session_reply_ok : data_checks_size_first fl = true -> gsv_uses_checked_read fl = true ->
  forall negotiate ver env bs, Forall reply_ok (s_log (sess negotiate ver env bs)).
Proof.
  intros Hd Hg negotiate ver env bs.
  pose proof (session_transfer (fun _ => True) reply_ok (fun _ => True) (fun _ => True)) as T.
  specialize (T ltac:(intros ss e bs0 x Hx; apply (rec_spec_reply_ok Hd Hg); eapply step_emits_spec; eassumption)).
  specialize (T ltac:(auto) ltac:(auto) negotiate ver env bs (fun _ => I) I). apply T.
Qed.

(* ---- T4: how Connect ends *)
Definition user_kind (c : consumer) : Prop := c = CUser \/ c = CShutdown.
Definition neg_kind (c : consumer) : Prop := c = CGsv \/ c = CSpv.

(* who can be waiting for a reply, by phase of Connect *)
Definition phase_inv (ss : sstate) : Prop :=
  match ss_neg ss with
  | NWill k => ss_cons ss = [] /\ ss_sent_close ss = false /\ neg_kind k
  | NAwait k id => ss_cons ss = [(id, k)] /\ ss_sent_close ss = false /\ neg_kind k
  | NDone => forall i c, In (i, c) (ss_cons ss) -> user_kind c
  end.

Lemma reg_users_spec : forall us next cons sc n' c' s' ids,
  reg_users us next cons sc = (n', c', s', ids) ->
  (forall i c, In (i, c) c' -> In (i, c) cons \/ c = CUser \/ (c = CShutdown /\ In true us)) /\
  s' = sc || existsb (fun u => u) us.
Proof.
  induction us as [|u us IH]; intros next cons sc n' c' s' ids H; cbn [reg_users] in H.
  - inversion H; subst. split; [auto|]. cbn. now rewrite orb_false_r.
  - destruct (reg_users us (u32 (next + 1)) ((next, if u then CShutdown else CUser) :: cons) (sc || u))
      as [[[n1 c1] s1] ids1] eqn:Hr.
    inversion H; subst. apply IH in Hr. destruct Hr as [Hin Hs]. split.
    + intros i c Hi. apply Hin in Hi. destruct Hi as [[Hi|Hi]|[Hi|[Hi Ht]]].
      * inversion Hi; subst. destruct u; [right; right; split; [reflexivity|left; reflexivity]|right; left; reflexivity].
      * left. assumption.
      * right. left. assumption.
      * right. right. split; [assumption|right; assumption].
    + rewrite Hs. cbn [existsb]. now rewrite orb_assoc.
Qed.

Lemma lookup_cons_in : forall id l, lookup_cons id l = CUser \/ In (id, lookup_cons id l) l.
Proof.
  induction l as [|[i k] l IH]; cbn [lookup_cons]; [left; reflexivity|].
  destruct (N.eqb_spec i id).
  - subst. right. left. reflexivity.
  - destruct IH as [IH|IH]; [left; assumption|right; right; assumption].
Qed.

Lemma remove_cons_in : forall id l i c, In (i, c) (remove_cons id l) -> In (i, c) l.
Proof. intros id l i c H. unfold remove_cons in H. apply filter_In in H. apply H. Qed.

Lemma consume_shape : forall k h r co a, consume maxbuf fl D k h r = (co, a) ->
  match k with
  | CGsv => exists o, co = CoGsv o | CSpv => exists o, co = CoSpv o
  | CUser => exists o, co = CoUser o | CShutdown => exists o, co = CoShutdown o
  end.
Proof.
  intros k h r co a. unfold consume. destruct k.
  - destruct (consume_gsv _ _ _ _ _) as [o a0]. intro H; inversion H. eexists; reflexivity.
  - intro H; inversion H. eexists; reflexivity.
  - intro H; inversion H. eexists; reflexivity.
  - intro H; inversion H. eexists; reflexivity.
Qed.

Lemma do_register_inv : forall ss e ss1 ids,
  phase_inv ss -> do_register ss e = (ss1, ids) -> phase_inv ss1.
Proof.
  intros ss e ss1 ids. unfold phase_inv, do_register.
  destruct (ss_neg ss) as [k|k id|] eqn:Hn.
  - intros [Hc [Hs Hk]]. destruct (se_neg_sent e); intro H; inversion H; subst; cbn.
    + rewrite Hc. auto.
    + rewrite Hn. auto.
  - intros Hi H; inversion H; subst. rewrite Hn. assumption.
  - intros Hi. destruct (reg_users _ _ _ _) as [[[n' c'] s'] ids'] eqn:Hr.
    intro H; inversion H; subst; cbn. apply reg_users_spec in Hr. destruct Hr as [Hin _].
    intros i c Hic. apply Hin in Hic. destruct Hic as [Hic|[Hic|[Hic _]]].
    + eapply Hi; eassumption.
    + left; assumption.
    + right; assumption.
Qed.

Lemma step_phase_inv : forall ss e bs r ss' rest,
  phase_inv ss -> step ss e bs = SsNext r ss' rest -> phase_inv ss'.
Proof.
  intros ss e bs r ss' rest Hinv. unfold session_step.
  destruct (do_register ss e) as [ss1 ids] eqn:Hreg.
  pose proof (do_register_inv _ _ _ _ Hinv Hreg) as H1. clear Hinv Hreg.
  destruct (read_iter maxbuf cfg (ss_st ss1) (mkEnv ids (se_beh e) (negb (close_wait_only_if_sent fl) || ss_sent_close ss1)) bs) as [d st' rest0|d|en rest0];
    try discriminate.
  assert (Hkeep : phase_inv (with_st ss1 st')) by (unfold phase_inv, with_st in *; cbn; exact H1).
  assert (Hmain : forall rr, d_reply d = Some rr -> (rr = RHeaderOnly \/ exists pl, rr = RBuffered pl) ->
     (let id := h_id (d_hdr d) in
      let k := lookup_cons id (ss_cons (with_st ss1 st')) in
      let ss3 := mkSS (ss_st (with_st ss1 st')) (ss_neg (with_st ss1 st')) (ss_next (with_st ss1 st'))
                      (remove_cons id (ss_cons (with_st ss1 st'))) (ss_ver (with_st ss1 st'))
                      (ss_sent_close (with_st ss1 st')) in
      let (co, a) := consume maxbuf fl D k (d_hdr d) rr in
      after_consumer ss3 (mkRec d co (d_alloc d + a)) rest0) = SsNext r ss' rest -> phase_inv ss').
  { intros rr Hrr _. cbn zeta.
    remember (h_id (d_hdr d)) as id eqn:Hid. remember (with_st ss1 st') as ss2 eqn:Hss2. clear Hss2 Hid.
    destruct (consume maxbuf fl D (lookup_cons id (ss_cons ss2)) (d_hdr d) rr) as [co a] eqn:Hc.
    pose proof (consume_shape _ _ _ _ _ Hc) as Hshape.
    unfold phase_inv in Hkeep.
    destruct (ss_neg ss2) as [k|k id0|] eqn:Hn.
    - (* NWill: nobody registered *)
      destruct Hkeep as [Hcons [Hsc Hk]]. rewrite Hcons in *. cbn [lookup_cons] in *.
      destruct Hshape as [o ->]. unfold after_consumer. cbn [sr_cons].
      destruct o as [v| | |]; intro H; inversion H; subst; unfold phase_inv; cbn; try rewrite Hn; auto.
    - (* NAwait k id0 *)
      destruct Hkeep as [Hcons [Hsc Hk]]. rewrite Hcons in *. cbn [lookup_cons remove_cons filter fst] in *.
      destruct (N.eqb_spec id0 id) as [Heq|Hne]; cbn [negb] in *.
      + destruct Hk as [-> | ->]; destruct Hshape as [o ->]; unfold after_consumer; cbn [sr_cons].
        * destruct o as [[cur mx]| | |]; intro H; inversion H; subst; unfold phase_inv; cbn.
          destruct (cur =? N.min (ss_ver ss2) mx); cbn; [intros i c []|repeat split; auto; right; reflexivity].
        * destruct o as [u| | |]; intro H; inversion H; subst; unfold phase_inv; cbn. intros i c [].
      + destruct Hshape as [o ->]. unfold after_consumer. cbn [sr_cons].
        destruct o as [v| | |]; intro H; inversion H; subst; unfold phase_inv; cbn; try rewrite Hn; auto.
    - (* NDone *)
      assert (Hk : user_kind (lookup_cons id (ss_cons ss2))).
      { destruct (lookup_cons_in id (ss_cons ss2)) as [E|E]; [left; assumption|eapply Hkeep; eassumption]. }
      assert (Hrem : forall i c, In (i, c) (remove_cons id (ss_cons ss2)) -> user_kind c).
      { intros i c Hi. apply remove_cons_in in Hi. eapply Hkeep; eassumption. }
      destruct Hk as [Hk|Hk]; rewrite Hk in Hshape; destruct Hshape as [o ->];
        unfold after_consumer; cbn [sr_cons];
        destruct o as [v| | |]; intro H; inversion H; subst; unfold phase_inv; cbn; try rewrite Hn; assumption. }
  destruct (d_reply d) as [[pl| |]|] eqn:Hr.
  - apply (Hmain (RBuffered pl) eq_refl). right. eexists; reflexivity.
  - apply (Hmain RHeaderOnly eq_refl). left. reflexivity.
  - intro H; inversion H; subst. assumption.
  - intro H; inversion H; subst. assumption.
Qed.

Lemma init_phase_inv : forall negotiate ver, phase_inv (init_ss negotiate ver).
Proof.
  intros [|] ver; unfold phase_inv, init_ss; cbn.
  - repeat split; auto. left. reflexivity.
  - intros i c [].
Qed.

(* with the repaired waiting rules the session never ends wedged inside negotiate *)
Lemma end_of_repaired : neg_aborts_on_loop_end fl = true -> close_wait_only_if_sent fl = true ->
  forall ss e, phase_inv ss -> e <> EndOutOfFuel ->
  let en := end_of fl neg_timeout ss e in
  en = SeErr \/ (en = SeWaitClose /\ ss_sent_close ss = true /\ e = EndWaitClose).
Proof.
  intros Ha Hc ss e Hinv Hne. unfold end_of. rewrite Ha, Hc. unfold phase_inv in Hinv.
  destruct (ss_neg ss) as [k|k id|].
  - destruct Hinv as [_ [Hs _]]. rewrite Hs. destruct e; try congruence; cbn;
      destruct neg_timeout; cbn; auto.
  - destruct Hinv as [_ [Hs _]]. rewrite Hs. destruct e; try congruence; cbn;
      destruct neg_timeout; cbn; auto.
  - destruct e; try congruence; cbn; auto.
    destruct (ss_sent_close ss); cbn; auto.
Qed.

Theorem session_ends : good D -> gsv_uses_checked_read fl = true ->
  neg_aborts_on_loop_end fl = true -> close_wait_only_if_sent fl = true ->
  forall negotiate ver env bs,
  let en := s_end (sess negotiate ver env bs) in
  en = SeErr \/ en = SeClosed \/ en = SeWaitClose.
Proof.
  intros G Hg Ha Hc negotiate ver env bs en.
  pose proof (session_never_panics G Hg negotiate ver env bs) as [Hp [Hh _]].
  pose proof (session_transfer (fun _ => True) (fun _ => True) phase_inv
                (fun e => e = SeErr \/ e = SeClosed \/ e = SeWaitClose \/ e = SePanic \/ e = SeHang)) as T.
  specialize (T (fun _ _ _ _ _ => I) (fun ss e bs r ss' rest _ => step_phase_inv ss e bs r ss' rest)).
  assert (HE : forall ss e bs0 l en0, True -> phase_inv ss -> step ss e bs0 = SsStop l en0 ->
             en0 = SeErr \/ en0 = SeClosed \/ en0 = SeWaitClose \/ en0 = SePanic \/ en0 = SeHang).
  { intros ss e bs0 l en0 _ Hinv Hs.
    destruct (step_stop_cases _ _ _ _ _ _ _ _ _ _ Hs) as [[rec [_ Hcs]]|[e0 [Hne He]]].
    - destruct Hcs as [[-> _]|[[-> _]|[[->| ->] _]]]; auto 6.
    - destruct (do_register ss e) as [ss1 ids] eqn:Hreg. cbn [fst] in He.
      pose proof (do_register_inv _ _ _ _ Hinv Hreg) as H1.
      destruct (end_of_repaired Ha Hc ss1 e0 H1 Hne) as [E|[E _]]; rewrite <- He in E; auto. }
  specialize (T HE negotiate ver env bs (fun _ => I) (init_phase_inv negotiate ver)).
  destruct T as [_ [T|[_ [[T _]|[[T _]|[T _]]]]]]; fold en in T; fold en in Hp; fold en in Hh.
  - destruct T as [T|[T|[T|[T|T]]]]; auto; congruence.
  - auto.
  - congruence.
  - congruence.
Qed.


(* ---- without a user-initiated Shutdown, Connect returns an error when the stream ends *)
Definition no_shutdown (e : senv) : Prop := existsb (fun u => u) (se_users e) = false.

Definition quiet_inv (ss : sstate) : Prop :=
  phase_inv ss /\ ss_sent_close ss = false /\ (forall i c, In (i, c) (ss_cons ss) -> c <> CShutdown).

Lemma do_register_quiet : forall ss e ss1 ids, no_shutdown e ->
  quiet_inv ss -> do_register ss e = (ss1, ids) -> quiet_inv ss1.
Proof.
  intros ss e ss1 ids Hns [Hph [Hsc Hcons]] Hreg.
  split; [eapply do_register_inv; eassumption|].
  revert Hreg. unfold do_register. unfold phase_inv in Hph.
  destruct (ss_neg ss) as [k|k id|] eqn:Hn.
  - destruct Hph as [_ [_ Hk]]. destruct (se_neg_sent e); intro H; inversion H; subst; cbn.
    + split; [assumption|]. intros i c [Hi|Hi]; [inversion Hi; subst; destruct Hk; congruence|eapply Hcons; eassumption].
    + split; assumption.
  - intro H; inversion H; subst. split; assumption.
  - destruct (reg_users _ _ _ _) as [[[n' c'] s'] ids'] eqn:Hr.
    intro H; inversion H; subst; cbn. apply reg_users_spec in Hr. destruct Hr as [Hin Hs].
    unfold no_shutdown in Hns. split.
    + rewrite Hs, Hsc, Hns. reflexivity.
    + intros i c Hic. apply Hin in Hic. destruct Hic as [Hic|[Hic|[_ Ht]]].
      * eapply Hcons; eassumption.
      * congruence.
      * exfalso. assert (existsb (fun u => u) (se_users e) = true) by (apply existsb_exists; exists true; auto).
        congruence.
Qed.

Lemma after_consumer_keeps : forall ss rec rest r ss' rest',
  after_consumer ss rec rest = SsNext r ss' rest' ->
  ss_sent_close ss' = ss_sent_close ss /\ ss_cons ss' = ss_cons ss.
Proof.
  intros ss rec rest r ss' rest'. unfold after_consumer.
  destruct (sr_cons rec) as [|[[cur mx]| | |]|[u| | |]|[p| | |]|[u| | |]];
    intro H; inversion H; subst; cbn; auto.
Qed.

Lemma step_quiet : forall ss e bs r ss' rest, no_shutdown e ->
  quiet_inv ss -> step ss e bs = SsNext r ss' rest -> quiet_inv ss'.
Proof.
  intros ss e bs r ss' rest Hns Hq Hs.
  split; [eapply step_phase_inv; [apply Hq|eassumption]|].
  revert Hs. unfold session_step.
  destruct (do_register ss e) as [ss1 ids] eqn:Hreg.
  pose proof (do_register_quiet _ _ _ _ Hns Hq Hreg) as [_ [Hsc Hcons]].
  destruct (read_iter maxbuf cfg (ss_st ss1) (mkEnv ids (se_beh e) (negb (close_wait_only_if_sent fl) || ss_sent_close ss1)) bs) as [d st' rest0|d|en rest0];
    try discriminate.
  assert (Hmain : forall k rr,
     (let ss3 := mkSS (ss_st (with_st ss1 st')) (ss_neg (with_st ss1 st')) (ss_next (with_st ss1 st'))
                      (remove_cons (h_id (d_hdr d)) (ss_cons (with_st ss1 st'))) (ss_ver (with_st ss1 st'))
                      (ss_sent_close (with_st ss1 st')) in
      let (co, a) := consume maxbuf fl D k (d_hdr d) rr in
      after_consumer ss3 (mkRec d co (d_alloc d + a)) rest0) = SsNext r ss' rest ->
     ss_sent_close ss' = false /\ (forall i c, In (i, c) (ss_cons ss') -> c <> CShutdown)).
  { intros k rr. cbn zeta. destruct (consume maxbuf fl D k (d_hdr d) rr) as [co a].
    intro H. apply after_consumer_keeps in H. destruct H as [H1 H2]. cbn in H1, H2.
    rewrite H1, H2. split; [assumption|]. intros i c Hi. apply remove_cons_in in Hi. eapply Hcons; eassumption. }
  destruct (d_reply d) as [[pl| |]|].
  - apply Hmain.
  - apply Hmain.
  - intro H; inversion H; subst. cbn. split; assumption.
  - intro H; inversion H; subst. cbn. split; assumption.
Qed.

Lemma step_closed_needs_shutdown : forall ss e bs l,
  step ss e bs = SsStop l SeClosed ->
  exists id, lookup_cons id (ss_cons (fst (do_register ss e))) = CShutdown.
Proof.
  intros ss e bs l. unfold session_step.
  destruct (do_register ss e) as [ss1 ids]. cbn [fst].
  destruct (read_iter maxbuf cfg (ss_st ss1) (mkEnv ids (se_beh e) (negb (close_wait_only_if_sent fl) || ss_sent_close ss1)) bs) as [d st' rest0|d|en rest0].
  - assert (Hmain : forall rr,
     (let k := lookup_cons (h_id (d_hdr d)) (ss_cons (with_st ss1 st')) in
      let ss3 := mkSS (ss_st (with_st ss1 st')) (ss_neg (with_st ss1 st')) (ss_next (with_st ss1 st'))
                      (remove_cons (h_id (d_hdr d)) (ss_cons (with_st ss1 st'))) (ss_ver (with_st ss1 st'))
                      (ss_sent_close (with_st ss1 st')) in
      let (co, a) := consume maxbuf fl D k (d_hdr d) rr in
      after_consumer ss3 (mkRec d co (d_alloc d + a)) rest0) = SsStop l SeClosed ->
     exists id, lookup_cons id (ss_cons ss1) = CShutdown).
    { intros rr. cbn zeta. cbn [with_st ss_cons].
      destruct (consume maxbuf fl D (lookup_cons (h_id (d_hdr d)) (ss_cons ss1)) (d_hdr d) rr) as [co a] eqn:Hc.
      pose proof (consume_shape _ _ _ _ _ Hc) as Hshape.
      intro H. apply after_consumer_stop in H. destruct H as [[H _]|[[_ [u Hu]]|[[H|H] _]]]; try discriminate.
      cbn [sr_cons] in Hu. subst co.
      destruct (lookup_cons (h_id (d_hdr d)) (ss_cons ss1)) eqn:Hk; destruct Hshape as [o Ho]; try discriminate.
      eexists; eassumption. }
    destruct (d_reply d) as [[pl| |]|]; try discriminate; apply Hmain.
  - intro H; inversion H as [[Hl He]]. unfold end_of in He.
    destruct (ss_neg ss1); repeat match type of He with context [if ?c then _ else _] => destruct c end; discriminate.
  - intro H; inversion H as [[Hl He]]. unfold end_of in He.
    destruct en; destruct (ss_neg ss1);
      repeat match type of He with context [if ?c then _ else _] => destruct c end; discriminate.
Qed.

Theorem session_ends_without_shutdown : good D -> gsv_uses_checked_read fl = true ->
  neg_aborts_on_loop_end fl = true -> close_wait_only_if_sent fl = true ->
  forall negotiate ver env bs, (forall j, no_shutdown (env j)) ->
  s_end (sess negotiate ver env bs) = SeErr.
Proof.
  intros G Hg Ha Hc negotiate ver env bs Hns.
  pose proof (session_never_panics G Hg negotiate ver env bs) as [Hp [Hh _]].
  pose proof (session_transfer no_shutdown (fun _ => True) quiet_inv
                (fun e => e = SeErr \/ e = SePanic \/ e = SeHang)) as T.
  specialize (T (fun _ _ _ _ _ => I) step_quiet).
  assert (HE : forall ss e bs0 l en0, no_shutdown e -> quiet_inv ss -> step ss e bs0 = SsStop l en0 ->
             en0 = SeErr \/ en0 = SePanic \/ en0 = SeHang).
  { intros ss e bs0 l en0 Hn Hq Hs.
    destruct (do_register ss e) as [ss1 ids] eqn:Hreg.
    pose proof (do_register_quiet _ _ _ _ Hn Hq Hreg) as [Hph [Hsc Hcons]].
    destruct (step_stop_cases _ _ _ _ _ _ _ _ _ _ Hs) as [[rec [_ Hcs]]|[e0 [Hne He]]].
    - destruct Hcs as [[-> _]|[[-> _]|[[->| ->] _]]]; auto.
      exfalso. apply step_closed_needs_shutdown in Hs. rewrite Hreg in Hs. cbn [fst] in Hs.
      destruct Hs as [id Hid]. destruct (lookup_cons_in id (ss_cons ss1)) as [E|E]; [congruence|].
      rewrite Hid in E. apply Hcons in E. congruence.
    - rewrite Hreg in He. cbn [fst] in He.
      destruct (end_of_repaired Ha Hc ss1 e0 Hph Hne) as [E|[_ [E _]]]; [rewrite <- He in E; auto|congruence]. }
  assert (Hinit : quiet_inv (init_ss negotiate ver)).
  { split; [apply init_phase_inv|]. destruct negotiate; cbn; split; auto; intros i c []. }
  specialize (T HE negotiate ver env bs Hns Hinit).
  destruct T as [_ [T|[_ [[T _]|[[T _]|[T _]]]]]]; try congruence.
  destruct T as [T|[T|T]]; congruence.
Qed.

(* ------------------------------------------------------------------ witnesses for the tree as found *)
End Sessions.

Definition wit_D : decoders :=
  mkDec (fun _ => DOk (Some 0)) (fun _ => DOk 0) (fun _ => DOk (1, 2, 0))
        (fun _ => DOk 0) (fun _ => DOk 0) (fun _ => DOk 0).

Lemma wit_D_good : good wit_D.
Proof. constructor; intro bs; left; eexists; reflexivity. Qed.

Definition wit_cfg : config := mkConfig (fun _ => false) false (fun t => (t =? 61) || (t =? 62) || (t =? 63)).

(* a well-formed first message: ReaderEventNotification with 2 payload bytes *)
Definition wit_ren : list byte := frame_bytes (mkFrame 0 1 63 0 [1; 2]).

(* the negotiation request is registered at once; nobody else sends *)
Definition wit_env_neg : nat -> senv := fun _ => mkSenv true [] (HRead 0).
(* one user SendMessage registered before the first lookup *)
Definition wit_env_user : nat -> senv :=
  fun j => mkSenv false (match j with O => [false] | _ => [] end) (HRead 0).
Definition wit_env_idle : nat -> senv := fun _ => mkSenv false [] (HRead 0).

(* F4: reply to GetSupportedVersion (id 0) claiming limit+1 = 5 bytes *)
Lemma wit_f4_panics :
  s_end (session 4 wit_cfg flags_as_found wit_D false true 2 wit_env_neg
           (wit_ren ++ frame_bytes (mkFrame 0 2 56 0 [1; 2; 3; 4; 5]))) = SePanic.
Proof. vm_compute. reflexivity. Qed.

(* F4, allocation: a bare header claiming 2^32-1 makes the client allocate 4294967285 bytes *)
Lemma wit_f4_alloc :
  exists x, In x (s_log (session 655360 wit_cfg flags_as_found wit_D false true 2 wit_env_neg
                            (wit_ren ++ [8; 56; 255; 255; 255; 255; 0; 0; 0; 0])))
            /\ sr_alloc x = 4294967295 /\ HeaderSz + 655360 < sr_alloc x.
Proof. eexists. split; [vm_compute; left; reflexivity|]. vm_compute. split; reflexivity. Qed.

(* F3: SendMessage gets (type 12, no data, no error) for a 5-byte reply with limit 4 *)
Lemma wit_f3_empty_success :
  exists x, In x (s_log (session 4 wit_cfg flags_as_found wit_D false false 1 wit_env_user
                            (wit_ren ++ frame_bytes (mkFrame 0 1 12 0 [1; 2; 3; 4; 5]))))
            /\ d_reply (sr_d x) = Some RHeaderOnly /\ sr_cons x = CoUser (OOk (12, [])).
Proof. eexists. split; [vm_compute; left; reflexivity|]. vm_compute. split; reflexivity. Qed.

(* the stream ends during negotiation, no timeout configured: Connect stays inside negotiate *)
Lemma wit_neg_blocked :
  s_end (session 4 wit_cfg flags_as_found wit_D false true 2 wit_env_neg wit_ren) = SeNegBlocked.
Proof. vm_compute. reflexivity. Qed.

(* an unsolicited CloseConnectionResponse, then the stream ends: the read loop parks *)
Lemma wit_close_wait :
  s_end (session 4 wit_cfg flags_as_found wit_D true false 1 wit_env_idle
           (wit_ren ++ frame_bytes (mkFrame 0 1 4 9 []))) = SeWaitClose.
Proof. vm_compute. reflexivity. Qed.

(* the same inputs with the repaired behaviours *)
Lemma wit_repaired :
  s_end (session 4 wit_cfg flags_repaired wit_D false true 2 wit_env_neg
           (wit_ren ++ frame_bytes (mkFrame 0 2 56 0 [1; 2; 3; 4; 5]))) = SeErr /\
  s_end (session 4 wit_cfg flags_repaired wit_D false true 2 wit_env_neg wit_ren) = SeErr /\
  s_end (session 4 wit_cfg flags_repaired wit_D true false 1 wit_env_idle
           (wit_ren ++ frame_bytes (mkFrame 0 1 4 9 []))) = SeErr.
Proof. vm_compute. repeat split; reflexivity. Qed.

(* Message.data as C10's session model has it ([msg_data]) is the caller's view of C04's
   stream model ([Stream.caller_data]) for every delivery the read loop can produce (a buffered
   reply never exceeds the limit: [dispatch_ok]) *)
Lemma msg_data_is_caller_data : forall maxbuf fl h r,
  (forall pl, r = RBuffered pl -> h_len h <= maxbuf) ->
  msg_data maxbuf fl h r
  = match caller_data maxbuf (data_checks_size_first fl) h r with Some b => OOk b | None => OErr end.
Proof.
  intros maxbuf fl h r Hb. unfold msg_data, caller_data. destruct r as [pl| |]; try reflexivity.
  - specialize (Hb pl eq_refl). destruct (N.ltb_spec maxbuf (h_len h)); [lia|].
    rewrite andb_false_r. reflexivity.
  - destruct (data_checks_size_first fl && (maxbuf <? h_len h)); reflexivity.
Qed.
