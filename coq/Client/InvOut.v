(* Client/InvOut.v — the invariant behind C05: what is on the wire is a sequence of whole frames
   (plus at most one unfinished frame), every frame that belongs to a caller carries that
   caller's type / payload / assigned id, no caller's request is written twice, and an accepted
   request is in the stream or in the write loop's hand unless the write loop died. *)
From Coq Require Import NArith Arith List Bool Lia.
From LLRP Require Import Client.Types Client.Model Client.MapLemmas Client.StepFacts Client.InvCore Client.InvAck.
Import ListNotations.
Open Scope N_scope.

Definition srcs (l : list oframe) : list N :=
  flat_map (fun o => match o_src o with Some c => [c] | None => [] end) l.
Definition held (w : wstate) : list oframe :=
  match w with WHolding o | WPayload o => [o] | _ => [] end.
Definition pipeline (s : state) : list oframe := out s ++ held (writer s).

Definition req_frame_ok (cs : list (N * cphase)) (asg : list (N * N)) (o : oframe) : Prop :=
  f_len (o_frame o) <= max_payload /\
  match o_src o with
  | None => True
  | Some c => exists p, lookup c cs = Some p /\
                f_typ (o_frame o) = q_typ (req_of p) /\ f_len (o_frame o) = q_len (req_of p) /\
                f_tag (o_frame o) = q_tag (req_of p) /\ In (c, f_id (o_frame o)) asg
  end.

Definition tail_ok (w : wstate) (tail : list chunk) : Prop :=
  match w with
  | WPayload o => tail = [CHdr o]
  | WDead => tail = [] \/ (exists o k, tail = [CPartial o false k]) \/ (exists o k, tail = [CHdr o; CPartial o true k])
  | _ => tail = []
  end.

Record out_inv (s : state) : Prop := mkOutInv {
  oi_frames : forall o, In o (pipeline s) -> req_frame_ok (callers s) (assigned s) o;
  oi_nodup : NoDup (srcs (pipeline s));
  oi_cover : forall c, In c (map fst (assigned s)) -> In c (srcs (pipeline s)) \/ writer s = WDead;
  oi_wire : exists tail, wire s = flat_map chunks_of (out s) ++ tail /\ tail_ok (writer s) tail;
  oi_payload : forall o, writer s = WPayload o -> (f_len (o_frame o) =? 0) = false;
  oi_sendable : forall c p, lookup c (callers s) = Some p -> sendable p
}.

Lemma srcs_app : forall a b, srcs (a ++ b) = srcs a ++ srcs b.
Proof. intros. unfold srcs. apply flat_map_app. Qed.

Lemma in_srcs : forall l c, In c (srcs l) <-> exists o, In o l /\ o_src o = Some c.
Proof.
  intros l c. unfold srcs. rewrite in_flat_map. split.
  - intros (o & Hin & Hc). exists o. split; [assumption|]. destruct (o_src o); [|contradiction].
    destruct Hc as [->|[]]. reflexivity.
  - intros (o & Hin & E). exists o. split; [assumption|]. rewrite E. now left.
Qed.

Lemma req_frame_ok_mono : forall cs cs' asg asg' o,
  cevolve any_req cs cs' -> (forall x, In x asg -> In x asg') ->
  req_frame_ok cs asg o -> req_frame_ok cs' asg' o.
Proof.
  intros cs cs' asg asg' o Hev Hasg (Hl & H). split; [assumption|].
  destruct (o_src o) as [c|]; [|exact I].
  destruct H as (p & Hp & A & B & C & D).
  destruct (cevolve_mono any_req cs cs' Hev c p Hp) as (p' & Hp' & E).
  exists p'. rewrite E. repeat split; auto.
Qed.

(* steps that leave the write side alone *)
Definition same_out (s s' : state) : Prop :=
  out s' = out s /\ wire s' = wire s /\ writer s' = writer s /\ assigned s' = assigned s.

Lemma out_inv_callers_only : forall cfg s e,
  same_out s (step cfg s e) -> out_inv s -> out_inv (step cfg s e).
Proof.
  intros cfg s e (Ho & Hw & Hwr & Ha) [F N C W P S].
  destruct (step_evolve any_req cfg s e (ev_new_ok_any e)) as (Hev & _).
  assert (Hp : pipeline (step cfg s e) = pipeline s) by (unfold pipeline; now rewrite Ho, Hwr).
  constructor; rewrite ?Hp, ?Ho, ?Hw, ?Hwr, ?Ha; try assumption.
  - intros o Hin. eapply req_frame_ok_mono; [exact Hev| |apply F; assumption]. auto.
  - eapply cevolve_sendable; eauto.
Qed.

Ltac same_out_tac :=
  repeat match goal with
         | |- same_out ?s ?s => repeat split
         | |- same_out _ (match ?x with _ => _ end) => destruct x
         | |- same_out _ (if ?x then _ else _) => destruct x
         | |- same_out _ _ => unfold same_out; st_simpl_goal; repeat split; reflexivity
         end.

Lemma leave_same_out : forall res c s, same_out s (leave res c s).
Proof.
  intros. unfold leave, do_cancel, set_caller.
  destruct (lookup c (callers s)) as [[r|r|r i|r res0]|]; try (same_out_tac; fail).
  destruct (lookup i (awaiting s)) as [c'|]; [|same_out_tac].
  destruct (c' =? c); [same_out_tac|]. st_simpl_goal.
  destruct (lookup c' (callers s)) as [[]|]; same_out_tac.
Qed.

Lemma take_waiter_same_out : forall cfg whole seq f s, same_out s (fst (take_waiter cfg whole seq f s)).
Proof.
  intros. unfold take_waiter.
  destruct (consults cfg (f_typ f)); [|repeat split].
  destruct (lookup (f_id f) (awaiting s)); [|repeat split].
  destruct (whole || (max_buffered <? f_len f)); cbn [fst]; [|same_out_tac].
  st_simpl_goal. destruct (lookup n (callers s)) as [[]|]; cbn [fst]; unfold set_caller; same_out_tac.
Qed.

Lemma same_out_trans : forall a b c, same_out a b -> same_out b c -> same_out a c.
Proof. intros a b c (A1 & A2 & A3 & A4) (B1 & B2 & B3 & B4). repeat split; congruence. Qed.

Lemma ack_enqueue_same_out : forall i s, same_out s (ack_enqueue i s).
Proof. intros. unfold ack_enqueue. same_out_tac. Qed.

Lemma run_handler_same_out : forall cfg seq f h rep s, same_out s (run_handler cfg seq f h rep s).
Proof.
  intros. unfold run_handler. destruct (handler_for cfg (f_typ f)); try (same_out_tac; fail).
  eapply same_out_trans; [|apply ack_enqueue_same_out]. same_out_tac.
Qed.

Lemma out_inv_init : forall cfg, out_inv (init cfg).
Proof.
  intros. constructor; cbn; try (intros; discriminate); try (intros; contradiction).
  - constructor.
  - exists []. split; reflexivity.
Qed.

Lemma stamp_ok : forall cfg cs asg v o, req_frame_ok cs asg o -> req_frame_ok cs asg (stamp_o cfg v o).
Proof. intros cfg cs asg v o H. exact H. Qed.

Lemma after_frame_cases : forall o, after_frame o = WParked \/ after_frame o = WTop.
Proof. intros. unfold after_frame. destruct (f_typ _ =? _); auto. Qed.

Lemma out_inv_step : forall cfg s e,
  core_inv cfg s -> ack_inv s -> out_inv s -> out_inv (step cfg s e).
Proof.
  intros cfg s e Hcore Hack Hinv.
  destruct e;
    try (apply out_inv_callers_only; [|exact Hinv]; cbn [step];
         match goal with |- same_out _ (?f _) => unfold f | |- same_out _ (?f _ _) => unfold f | |- same_out _ (?f _ _ _) => unfold f end;
         unfold set_caller, init_fail, neg_fail, neg_fail_with, step_close;
         same_out_tac; fail).
  - (* SeeClosed *) apply out_inv_callers_only; [|exact Hinv]. cbn [step]. unfold step_see_closed.
    destruct (closed s); [apply leave_same_out|repeat split].
  - (* Cancel *) apply out_inv_callers_only; [|exact Hinv]. apply leave_same_out.
  - (* WDefault *) cbn [step]. unfold step_wdefault.
    destruct (writer s) eqn:Ew; try assumption. destruct (ackq s); try assumption. destruct (closed s); try assumption.
    destruct Hinv as [F N C W P S]. unfold pipeline in *. rewrite Ew in *. cbn [held] in *.
    constructor; unfold pipeline; st_simpl_goal; cbn [held]; try assumption; try (intros; discriminate).
    intros c Hc. destruct (C c Hc) as [H|H]; [now left|discriminate].
  - (* WAccept *) cbn [step]. unfold step_waccept.
    destruct (writer s) eqn:Ew; try assumption.
    destruct (lookup c (callers s)) as [[r|r|r i|r res0]|] eqn:Hc; try assumption.
    destruct Hinv as [F N C W P S]. unfold pipeline in *. rewrite Ew in *. cbn [held] in *.
    rewrite app_nil_r in *.
    set (id := if q_id r =? 0 then next_id s else q_id r).
    set (o := stamp_o cfg (version s) (mkOFrame (mkFrame (q_ver r) (q_typ r) id (q_len r) (q_tag r) IOpaque) (Some c))).
    assert (Hnotass : ~ In c (map fst (assigned s))).
    { intros Hin. apply in_map_iff in Hin. destruct Hin as ([c0 i0] & E & Hin). cbn in E; subst.
      destruct (ci_assigned cfg s Hcore c i0 Hin) as (p & Hp & Htd). rewrite Hc in Hp. inversion Hp; subst. destruct Htd. }
    assert (Hnotsrc : ~ In c (srcs (out s))).
    { intros Hin. apply in_srcs in Hin. destruct Hin as (o0 & Hin & E).
      destruct (F o0 Hin) as (_ & H). rewrite E in H. destruct H as (p & _ & _ & _ & _ & Ha).
      apply Hnotass. change c with (fst (c, f_id (o_frame o0))). now apply in_map. }
    assert (Hlen : q_len r <= max_payload) by (apply (S c (Queued r) Hc)).
    assert (Hgen : forall s' pnew, out s' = out s -> wire s' = wire s -> writer s' = WHolding o ->
                   assigned s' = assigned s ++ [(c, id)] -> callers s' = update c pnew (callers s) ->
                   req_of pnew = r -> sendable pnew -> out_inv s').
    { intros s' pnew Eo Ewi Ewr Ea Ec Er Hsd.
      assert (Hev : cevolve any_req (callers s) (callers s')).
      { rewrite Ec. eapply ce_upd; [exact Hc|exact Er|]. intros _. exact Hsd. }
      constructor; unfold pipeline; rewrite ?Eo, ?Ewi, ?Ewr, ?Ea; cbn [held]; try (intros; discriminate).
      - intros o0 Hin. apply in_app_or in Hin. destruct Hin as [Hin|[Hin|[]]].
        + eapply req_frame_ok_mono; [exact Hev| |apply F; assumption]. intros x Hx. apply in_or_app. now left.
        + subst o0. split; [exact Hlen|]. cbn. exists pnew. rewrite Ec, Er.
          split; [eapply lookup_update_same; eauto|]. repeat split; try reflexivity. apply in_or_app. right. now left.
      - rewrite srcs_app. cbn. apply NoDup_app_last; assumption.
      - intros c0 Hin. rewrite map_app in Hin. apply in_app_or in Hin. left. rewrite srcs_app. apply in_or_app.
        destruct Hin as [Hin|[Hin|[]]].
        + destruct (C c0 Hin) as [H|H]; [now left|discriminate].
        + cbn in Hin. subst c0. right. now left.
      - destruct W as (tail & Hw & Ht). cbn in Ht. subst tail. exists []. split; [assumption|reflexivity].
      - eapply cevolve_sendable; eauto. }
    cbn zeta. fold id. fold o.
    destruct (q_wait r); unfold set_caller; destruct (q_id r =? 0); st_simpl_goal.
    + eapply (Hgen _ (HasToken r id)); st_simpl_goal; try reflexivity; try exact Hlen.
    + eapply (Hgen _ (HasToken r id)); st_simpl_goal; try reflexivity; try exact Hlen.
    + eapply (Hgen _ (Done r RSent)); st_simpl_goal; try reflexivity; try exact I.
    + eapply (Hgen _ (Done r RSent)); st_simpl_goal; try reflexivity; try exact I.
  - (* WTakeAck *) cbn [step]. unfold step_wtakeack. pose proof Hinv as Hcopy.
    destruct Hinv as [F N C W P S]. unfold pipeline in *.
    destruct (writer s) eqn:Ew; try exact Hcopy;
      (destruct (ackq s) as [|i q]; [exact Hcopy|]); cbn [held] in *; rewrite app_nil_r in *;
      (constructor; unfold pipeline; st_simpl_goal; cbn [held]; try assumption; try (intros; discriminate);
       [ intros o Hin; apply in_app_or in Hin; destruct Hin as [Hin|[Hin|[]]]; [now apply F|];
         subst o; split; [cbn; discriminate|exact I]
       | rewrite srcs_app; cbn; now rewrite app_nil_r
       | intros c0 Hin; rewrite srcs_app; cbn; rewrite app_nil_r; destruct (C c0 Hin) as [H|H]; [now left|discriminate] ]).
  - (* WWriteHdr *) cbn [step]. unfold step_wwritehdr.
    destruct (writer s) as [| | |o| | | |] eqn:Ew; try assumption.
    destruct Hinv as [F N C W P S]. unfold pipeline in *. rewrite Ew in *. cbn [held] in *.
    destruct W as (tail & Hw & Ht). cbn in Ht. subst tail. rewrite app_nil_r in Hw.
    set (o' := o).
    assert (Hsr : srcs [o'] = srcs [o]) by reflexivity.
    assert (Hfo : forall x, In x (out s ++ [o']) -> req_frame_ok (callers s) (assigned s) x).
    { intros x Hin. apply in_app_or in Hin. destruct Hin as [Hin|[Hin|[]]].
      - apply F. apply in_or_app. now left.
      - subst x. apply F. apply in_or_app. right. now left. }
    assert (Hcov : forall c0, In c0 (map fst (assigned s)) -> In c0 (srcs (out s ++ [o'])) \/ False).
    { intros c0 Hin. destruct (C c0 Hin) as [H|H]; [|discriminate]. left.
      rewrite srcs_app in *. now rewrite Hsr. }
    assert (Hnd : NoDup (srcs (out s ++ [o']))) by (rewrite srcs_app in *; now rewrite Hsr).
    destruct (f_len (o_frame o') =? 0) eqn:El.
    + destruct (after_frame_cases o') as [E|E]; rewrite E;
        (constructor; unfold pipeline; st_simpl_goal; cbn [held]; rewrite ?app_nil_r; try assumption; try (intros; discriminate);
         [ intros c0 Hin; destruct (Hcov c0 Hin) as [H|[]]; now left
         | exists []; split; [|reflexivity]; rewrite flat_map_app, Hw, app_nil_r; cbn [flat_map]; rewrite app_nil_r;
           unfold chunks_of; rewrite El; reflexivity ]).
    + constructor; unfold pipeline; st_simpl_goal; cbn [held]; try assumption; try (intros; discriminate).
      * intros c0 Hin. destruct (Hcov c0 Hin) as [H|[]]. now left.
      * exists [CHdr o']. split; [now rewrite Hw|reflexivity].
      * intros o0 Ho. inversion Ho; subst. fold o'. exact El.
  - (* WWritePay *) cbn [step]. unfold step_wwritepay.
    destruct (writer s) as [| | | |o| | |] eqn:Ew; try assumption.
    destruct Hinv as [F N C W P S]. unfold pipeline in *. rewrite Ew in *. cbn [held] in *.
    destruct W as (tail & Hw & Ht). cbn in Ht. subst tail.
    destruct (after_frame_cases o) as [E|E]; rewrite E;
      (constructor; unfold pipeline; st_simpl_goal; cbn [held]; rewrite ?app_nil_r; try assumption; try (intros; discriminate);
       [ intros c0 Hin; destruct (C c0 Hin) as [H|H]; [now left|discriminate]
       | exists []; split; [|reflexivity]; rewrite flat_map_app, Hw, app_nil_r; cbn [flat_map]; rewrite app_nil_r;
         unfold chunks_of; rewrite (P o eq_refl); rewrite <- app_assoc; reflexivity ]).
  - (* WriteFail *) cbn [step]. unfold step_writefail. pose proof Hinv as Hcopy.
    destruct Hinv as [F N C W P S]. unfold pipeline in *.
    destruct (writer s) as [| | |o|o| | |] eqn:Ew; try exact Hcopy; cbn [held] in *.
    + destruct (k <? header_sz); [|exact Hcopy].
      destruct W as (tail & Hw & Ht). cbn in Ht. subst tail. rewrite app_nil_r in Hw.
      constructor; unfold pipeline; st_simpl_goal; cbn [held]; rewrite ?app_nil_r; try (intros; discriminate); try assumption.
      * intros o0 Hin. apply F. apply in_or_app. now left.
      * rewrite srcs_app in N. eapply NoDup_app_keep_l; eauto.
      * intros c0 Hin. now right.
      * exists [CPartial o false k]. split; [now rewrite Hw|]. right. left. eauto.
    + destruct (k <? f_len (o_frame o)); [|exact Hcopy].
      destruct W as (tail & Hw & Ht). cbn in Ht. subst tail.
      constructor; unfold pipeline; st_simpl_goal; cbn [held]; rewrite ?app_nil_r; try (intros; discriminate); try assumption.
      * intros o0 Hin. apply F. apply in_or_app. now left.
      * rewrite srcs_app in N. eapply NoDup_app_keep_l; eauto.
      * intros c0 Hin. now right.
      * exists [CHdr o; CPartial o true k]. split; [rewrite Hw, <- app_assoc; reflexivity|]. right. right. eauto.
  - (* WSeeDone *) cbn [step]. unfold step_wseedone. pose proof Hinv as Hcopy.
    destruct Hinv as [F N C W P S]. unfold pipeline in *.
    destruct (writer s) eqn:Ew; try exact Hcopy; (destruct (closed s); [|exact Hcopy]); cbn [held] in *;
      (constructor; unfold pipeline; st_simpl_goal; cbn [held]; try assumption; try (intros; discriminate);
       intros c0 Hin; destruct (C c0 Hin) as [H|H]; [now left|discriminate]).
  - (* RFrame *) apply out_inv_callers_only; [|exact Hinv]. cbn [step]. unfold step_rframe.
    destruct (reader s); try (repeat split; fail).
    destruct (take_waiter cfg true (length (peer_sent s)) f
                (note_close_resp f (set_peer_sent (peer_sent s ++ [f]) s))) as [s2 rep] eqn:Htw.
    pose proof (take_waiter_same_out cfg true (length (peer_sent s)) f
                  (note_close_resp f (set_peer_sent (peer_sent s ++ [f]) s))) as H2.
    rewrite Htw in H2. cbn [fst] in H2.
    eapply same_out_trans; [|eapply same_out_trans; [exact H2|eapply same_out_trans; [apply run_handler_same_out|]]].
    + unfold note_close_resp. same_out_tac.
    + same_out_tac.
  - (* PeerEOF *) apply out_inv_callers_only; [|exact Hinv]. cbn [step]. unfold step_peer_eof.
    destruct (reader s); try (repeat split; fail).
    destruct p.
    + unfold reader_dies. same_out_tac.
    + unfold reader_dies. same_out_tac.
    + destruct (take_waiter cfg false (length (peer_sent s)) f
                  (note_close_resp f (set_peer_sent (peer_sent s ++ [f]) s))) as [s2 rep] eqn:Htw.
      pose proof (take_waiter_same_out cfg false (length (peer_sent s)) f
                    (note_close_resp f (set_peer_sent (peer_sent s ++ [f]) s))) as H2.
      rewrite Htw in H2. cbn [fst] in H2.
      assert (H3 : same_out s s2).
      { eapply same_out_trans; [|exact H2]. unfold note_close_resp. same_out_tac. }
      destruct (rep && (f_len f <=? max_buffered)).
      * eapply same_out_trans; [exact H3|]. unfold reader_dies. same_out_tac.
      * eapply same_out_trans; [exact H3|]. eapply same_out_trans; [apply run_handler_same_out|].
        unfold eof_after_dispatch, reader_dies. same_out_tac.
  - (* ConnFirst: the write loop starts; before that it held nothing *)
    cbn [step]. unfold step_conn_first. destruct (phase s) eqn:Eph; try assumption.
    assert (Hw : writer s = WNone) by (apply (ai_phase s Hack); rewrite Eph; reflexivity).
    destruct (max_buffered <? f_len f).
    { destruct Hinv as [F N C W P S]. unfold pipeline in *. unfold init_fail.
      constructor; unfold pipeline; st_simpl_goal; assumption. }
    set (s2 := match first_handler cfg (f_typ f) with Some _ => _ | None => _ end) in *.
    assert (Hs2 : same_out s s2 /\ callers s2 = callers s).
    { subst s2. destruct (first_handler cfg (f_typ f)) as [k|]; [|split; [same_out_tac|reflexivity]].
      destruct k; try (split; [same_out_tac|reflexivity]).
      split.
      - eapply same_out_trans; [|apply ack_enqueue_same_out]. same_out_tac.
      - match goal with |- callers (ack_enqueue ?i ?x) = _ => destruct (ack_enqueue_callers i x) as (A & _); rewrite A end.
        reflexivity. }
    destruct Hs2 as ((Eo & Ewi & Ewr & Ea) & Ec).
    destruct Hinv as [F N C W P S]. unfold pipeline in *. rewrite Hw in *. cbn [held] in *.
    destruct ((f_typ f =? T_ReaderEventNotification) && is_conn_success (f_info f)); unfold init_fail;
      constructor; unfold pipeline; st_simpl_goal; rewrite ?Eo, ?Ewi, ?Ewr, ?Ea, ?Ec, ?Hw; cbn [held];
      try assumption; try (intros; discriminate).
    intros c0 Hin. destruct (C c0 Hin) as [H|H]; [now left|discriminate].
Qed.
