(* C10 at the device-service level: what internal/driver/device.go does with the messages the
   client hands to the device's two handlers (device.go 349-388 newReaderEventHandler, 405-427
   newROHandler, 439-466 processReport), as far as "can bytes from the peer make a goroutine
   panic" is concerned.

   The handlers themselves run inside the client's handleGuarded; the goroutines they start
   (`go func() { processReport(..); sendEdgeXEvent(..) }()`) do not: a panic there ends the
   process.  A message is represented by what the library's decoder makes of it:

     MEvent utc uptime     a ReaderEventNotification: UTCTimestamp (0 = parameter absent) and Uptime
     MReport tags          an ROAccessReport: for every TagReportData which of the four optional
                           stamps are present (pointer fields: nil when the Reader did not send them)
     MUndecodable          UnmarshalTo failed (malformed, or larger than the buffering limit):
                           the handler logs and returns, nothing is started

   [now] is the device's clock when the handler runs.  readerStart is the zero Time (None)
   until a handler stores one.

   Two code behaviours are flags:
     stores_reader_start  the event handler writes the readerStart it computed for a Reader
                          without UTC clock into l.readerStart.  FALSE in the tree as found: the
                          field is read by both handlers and never assigned, so processReport
                          always sees the zero Time and returns at once.
     process_guards_nil   processReport assigns through FirstSeenUTC / LastSeenUTC only after
                          making sure the pointer is not nil (allocating it).  FALSE in the tree
                          as found: `*data.FirstSeenUTC = ...` whenever FirstSeenUptime != nil.

   No proofs here (DeviceHostileProofs.v). *)
From Coq Require Import ZArith List Bool.
Import ListNotations.
Open Scope Z_scope.

Record tag := mkTag {
  t_first_utc : option Z; t_first_uptime : option Z;
  t_last_utc : option Z; t_last_uptime : option Z }.

Inductive dmsg :=
| MEvent (utc uptime : Z)
| MReport (tags : list tag)
| MUndecodable.

Record dflags := mkDFlags { stores_reader_start : bool; process_guards_nil : bool }.
Definition dflags_as_found : dflags := mkDFlags false false.

Record dstate := mkDState {
  ds_reader_start : option Z;      (* l.readerStart; None = the zero Time *)
  ds_published : list dmsg;        (* what reached the asynchronous-values channel, newest first *)
  ds_panicked : bool }.            (* a goroutine outside the panic guard dereferenced nil: the process is gone *)

Definition ds0 : dstate := mkDState None [] false.

Definition uptime_to_utc (rs up : Z) : Z := rs + up.

(* one TagReportData in processReport; None = nil pointer dereference *)
Definition process_tag (guards : bool) (rs : Z) (t : tag) : option tag :=
  let step1 :=
    match t_first_uptime t with
    | None => Some t
    | Some u =>
        match t_first_utc t with
        | Some _ => Some (mkTag (Some (uptime_to_utc rs u)) (t_first_uptime t) (t_last_utc t) (t_last_uptime t))
        | None => if guards then Some (mkTag (Some (uptime_to_utc rs u)) (t_first_uptime t) (t_last_utc t) (t_last_uptime t))
                  else None
        end
    end in
  match step1 with
  | None => None
  | Some t1 =>
      match t_last_uptime t1 with
      | None => Some t1
      | Some u =>
          match t_last_utc t1 with
          | Some _ => Some (mkTag (t_first_utc t1) (t_first_uptime t1) (Some (uptime_to_utc rs u)) (t_last_uptime t1))
          | None => if guards then Some (mkTag (t_first_utc t1) (t_first_uptime t1) (Some (uptime_to_utc rs u)) (t_last_uptime t1))
                    else None
          end
      end
  end.

Fixpoint process_tags (guards : bool) (rs : Z) (ts : list tag) : option (list tag) :=
  match ts with
  | [] => Some []
  | t :: r => match process_tag guards rs t with
              | None => None
              | Some t' => match process_tags guards rs r with
                           | None => None
                           | Some r' => Some (t' :: r')
                           end
              end
  end.

(* one message handed to the device's handler at device time [now] *)
Definition dev_step (fl : dflags) (st : dstate) (nm : Z * dmsg) : dstate :=
  if ds_panicked st then st else
  let (now, m) := nm in
  match m with
  | MUndecodable => st
  | MEvent utc uptime =>
      (* readerStart := l.readerStart; if utc == 0 && readerStart.IsZero() { readerStart = now - uptime }
         if !readerStart.IsZero() { utc = readerStart + uptime } *)
      let computed := match ds_reader_start st with
                      | Some rs => Some rs
                      | None => if utc =? 0 then Some (now - uptime) else None
                      end in
      let utc' := match computed with Some rs => uptime_to_utc rs uptime | None => utc end in
      let stored := if stores_reader_start fl then computed else ds_reader_start st in
      mkDState stored (MEvent utc' uptime :: ds_published st) false
  | MReport tags =>
      match ds_reader_start st with
      | None => mkDState None (MReport tags :: ds_published st) false
      | Some rs =>
          match process_tags (process_guards_nil fl) rs tags with
          | Some tags' => mkDState (Some rs) (MReport tags' :: ds_published st) false
          | None => mkDState (Some rs) (ds_published st) true
          end
      end
  end.

Definition dev_run (fl : dflags) (ms : list (Z * dmsg)) : dstate := fold_left (dev_step fl) ms ds0.

Definition decodable (m : dmsg) : bool := match m with MUndecodable => false | _ => true end.

(* ------------------------------------------------------------------ discovery: probe() after its session
   (internal/driver/discover.go 346-456).  probe runs an exchange goroutine (GetReaderConfig, then
   GetReaderCapabilities through SendFor, then Shutdown — or Close if that fails) next to
   Connect; when Connect returns ErrClientClosed it builds the discovery record from the two
   replies.  It runs in autoDiscover's ipWorker goroutines: a panic ends the service.

     session end   SeClosedByUs: Connect returned ErrClientClosed (the goroutine shut the client
                   down or closed it); SeFailed: any other error — probe returns it
     a reply       None = SendFor failed (ErrorMessage, failure status, undecodable, wrong type,
                   beyond the buffering limit, no answer, ...): nothing was received in full;
                   Some b = received, b = does it carry the parameter probe wants
                   (Identification / GeneralDeviceCapabilities)

   Flags: [by_pointer] the replies reach the building code as pointers that are nil when
   nothing was received (false in the tree as found: two response VALUES shared with the
   goroutine — not received = zero value = parameter nil); [config_nil_checked] /
   [caps_nil_checked]: the pointer is tested before its field is read. *)
Inductive session_end := SeClosedByUs | SeFailed.
Record pflags := mkPFlags { by_pointer : bool; config_nil_checked : bool; caps_nil_checked : bool }.
Definition pflags_as_found : pflags := mkPFlags false false false.
Inductive probe_out :=
| PoErr                       (* probe returns an error: no device discovered *)
| PoInfo (caps_known : bool)  (* a discovery record; vendor/model known or "unknown" *)
| PoPanic.                    (* nil pointer dereference in the ipWorker goroutine *)

Definition probe_after (fl : pflags) (se : session_end) (config caps : option bool) : probe_out :=
  match se with
  | SeFailed => PoErr
  | SeClosedByUs =>
      (* if readerCaps.GeneralDeviceCapabilities == nil { unknown } else { ... } *)
      let caps_step : option bool :=
        match caps with
        | Some b => Some b
        | None => if by_pointer fl && negb (caps_nil_checked fl) then None else Some false
        end in
      match caps_step with
      | None => PoPanic
      | Some known =>
          (* if readerConfig.Identification == nil { return error } *)
          match config with
          | Some true => PoInfo known
          | Some false => PoErr
          | None => if by_pointer fl && negb (config_nil_checked fl) then PoPanic else PoErr
          end
      end
  end.
