(* Client/C07Proofs.v — C07 statements: from ack_inv (InvAck.v) and from a second invariant that
   ties the ackHandler's log to the keep-alive frames actually received, in order. *)
From Coq Require Import NArith Arith List Bool Lia Sorted.
From LLRP Require Import Client.Types Client.Model Client.MapLemmas Client.InvAck.
Import ListNotations.
Open Scope N_scope.

(* ---------------- acks vs enqueued keep-alives ---------------- *)
Theorem acks_prefix_of_enqueued : forall cfg evs,
  exists rest, ka_enqueued (run cfg evs) = acked (run cfg evs) ++ rest.
Proof.
  intros. destruct (ai_split _ (ack_inv_run cfg evs)) as (mid & Hs & _).
  exists (mid ++ ackq (run cfg evs)). exact Hs.
Qed.

Theorem acks_exact_while_writer_lives : forall cfg evs,
  let s := run cfg evs in
  writer s <> WDead ->
  ka_enqueued s = acked s ++ ack_in_hand s ++ ackq s.
Proof.
  intros cfg evs s Hw. destruct (ai_split _ (ack_inv_run cfg evs)) as (mid & Hs & Hm).
  fold s in Hs, Hm. rewrite Hs. f_equal. f_equal.
  unfold ack_in_hand. unfold mid_ok in Hm.
  destruct (writer s) as [| | |o|o| | |]; try assumption; try congruence.
  destruct (is_own o); assumption.
Qed.

Theorem own_frames_are_acks : forall cfg evs o,
  let s := run cfg evs in
  In o (out s) -> is_own o = true ->
  f_typ (o_frame o) = T_KeepAliveAck /\ f_len (o_frame o) = 0 /\ In (f_id (o_frame o)) (ka_enqueued s).
Proof.
  intros cfg evs o s Hin Hown.
  destruct (ai_out _ (ack_inv_run cfg evs) o Hin Hown) as (Ht & Hl).
  repeat split; try assumption.
  destruct (acks_prefix_of_enqueued cfg evs) as (rest & Hr). fold s in Hr. rewrite Hr.
  apply in_or_app. left. unfold acked. apply in_map_iff. exists o. split; [reflexivity|].
  apply filter_In. auto.
Qed.

(* ---------------- one keep-alive through the read loop ---------------- *)
Lemma take_waiter_ack_fields : forall cfg whole seq f s,
  let s' := fst (take_waiter cfg whole seq f s) in
  ka_log s' = ka_log s /\ ackq s' = ackq s /\ handled s' = handled s /\ peer_sent s' = peer_sent s.
Proof.
  intros. subst s'. unfold take_waiter.
  destruct (consults cfg (f_typ f)); [|repeat split; reflexivity].
  destruct (lookup (f_id f) (awaiting s)); [|repeat split; reflexivity].
  destruct (whole || (max_buffered <? f_len f)); [|repeat split; reflexivity].
  st_simpl_goal. destruct (lookup n (callers s)) as [[]|]; repeat split; reflexivity.
Qed.

Lemma handler_for_keepalive : forall cfg, ack_handler cfg = true -> handler_for cfg T_KeepAlive = HAck.
Proof. intros cfg H. unfold handler_for, typed_handler. rewrite H. reflexivity. Qed.

Theorem keepalive_dispatch : forall cfg s f h,
  ack_handler cfg = true -> f_typ f = T_KeepAlive -> reader s = RRead ->
  let s' := step cfg s (RFrame f h) in
  ka_log s' = ka_log s ++ [(f_id f, length (ackq s))] /\
  ((length (ackq s) < ack_cap)%nat -> ackq s' = ackq s ++ [f_id f]) /\
  ((ack_cap <= length (ackq s))%nat -> ackq s' = ackq s).
Proof.
  intros cfg s f h Hack Htyp Hr s'. subst s'. cbn [step]. unfold step_rframe. rewrite Hr.
  destruct (take_waiter cfg true (length (peer_sent s)) f
              (note_close_resp f (set_peer_sent (peer_sent s ++ [f]) s))) as [s2 rep] eqn:Htw.
  pose proof (take_waiter_ack_fields cfg true (length (peer_sent s)) f
                (note_close_resp f (set_peer_sent (peer_sent s ++ [f]) s))) as H2.
  rewrite Htw in H2. cbn [fst] in H2. destruct H2 as (Ek & Eq & _ & _).
  assert (Ek' : ka_log s2 = ka_log s) by (rewrite Ek; unfold note_close_resp; destruct (_ && _); reflexivity).
  assert (Eq' : ackq s2 = ackq s) by (rewrite Eq; unfold note_close_resp; destruct (_ && _); reflexivity).
  unfold run_handler. rewrite Htyp, (handler_for_keepalive cfg Hack). unfold ack_enqueue. st_simpl_goal.
  rewrite Ek', Eq'.
  destruct (Nat.ltb (length (ackq s)) ack_cap) eqn:E; st_simpl_goal; rewrite ?Ek', ?Eq'.
  - repeat split; auto. intros Hge. apply Nat.ltb_lt in E. lia.
  - repeat split; auto. intros Hlt. apply Nat.ltb_ge in E. lia.
Qed.

(* ---------------- enabledness: acknowledging does not wait for anything else ---------------- *)
Definition ack_frame (i : N) : oframe := mkOFrame (mkFrame 0 T_KeepAliveAck i 0 0 IOpaque) None.

Theorem ack_not_blocked : forall cfg s i q,
  writer s = WTop \/ writer s = WInner -> ackq s = i :: q ->
  writer (step cfg s WTakeAck) = WHolding (stamp_o cfg (version s) (ack_frame i)) /\ ackq (step cfg s WTakeAck) = q /\
  awaiting (step cfg s WTakeAck) = awaiting s /\ callers (step cfg s WTakeAck) = callers s /\
  phase (step cfg s WTakeAck) = phase s.
Proof.
  intros cfg s i q Hw Hq. cbn [step]. unfold step_wtakeack.
  destruct Hw as [Hw|Hw]; rewrite Hw, Hq; st_simpl_goal; repeat split; reflexivity.
Qed.

Theorem ack_written_next : forall cfg s v i,
  writer s = WHolding (stamp_o cfg v (ack_frame i)) ->
  out (step cfg s WWriteHdr) = out s ++ [stamp_o cfg v (ack_frame i)] /\
  writer (step cfg s WWriteHdr) = WTop /\
  f_id (o_frame (stamp_o cfg v (ack_frame i))) = i /\
  f_typ (o_frame (stamp_o cfg v (ack_frame i))) = T_KeepAliveAck.
Proof.
  intros cfg s v i Hw. cbn [step]. unfold step_wwritehdr. rewrite Hw. cbn. repeat split; reflexivity.
Qed.

(* ---------------- the log is the sequence of keep-alives received ---------------- *)
Definition is_hack (h : hrec) : bool := match h_kind h with HAck => true | _ => false end.

Record ka_hist (s : state) : Prop := mkKaHist {
  kh_log : map fst (ka_log s) = map (fun h => f_id (h_frame h)) (filter is_hack (handled s));
  kh_rec : forall h, In h (handled s) ->
           nth_error (peer_sent s) (h_seq h) = Some (h_frame h) /\
           (h_kind h = HAck -> f_typ (h_frame h) = T_KeepAlive);
  kh_sorted : StronglySorted lt (map h_seq (handled s))
}.

Definition same_ka (s s' : state) : Prop :=
  ka_log s' = ka_log s /\ handled s' = handled s /\ peer_sent s' = peer_sent s.

Lemma ka_hist_same : forall s s', same_ka s s' -> ka_hist s -> ka_hist s'.
Proof. intros s s' (A & B & C) []. constructor; rewrite ?A, ?B, ?C; assumption. Qed.

Ltac same_ka_tac :=
  repeat match goal with
         | |- same_ka ?s ?s => repeat split
         | |- same_ka _ (match ?x with _ => _ end) => destruct x
         | |- same_ka _ (if ?x then _ else _) => destruct x
         | |- same_ka _ _ => unfold same_ka; st_simpl_goal; repeat split; reflexivity
         end.

Lemma StronglySorted_app_last : forall (l : list nat) x,
  StronglySorted lt l -> (forall y, In y l -> (y < x)%nat) -> StronglySorted lt (l ++ [x]).
Proof.
  induction l as [|a l IH]; cbn; intros x Hs Hlt.
  - constructor; constructor.
  - inversion Hs; subst. constructor.
    + apply IH; auto.
    + apply Forall_app. split; [assumption|]. constructor; [|constructor]. apply Hlt. now left.
Qed.

(* a frame is appended to the inbound history and dispatched to a handler *)
Lemma ka_hist_dispatch : forall cfg s s1 f h rep,
  ka_hist s ->
  ka_log s1 = ka_log s -> handled s1 = handled s -> peer_sent s1 = peer_sent s ++ [f] ->
  ka_hist (run_handler cfg (length (peer_sent s)) f h rep s1).
Proof.
  intros cfg s s1 f h rep [Hl Hr Hs] E1 E2 E3. unfold run_handler.
  set (k := handler_for cfg (f_typ f)).
  assert (Hk : k = HAck -> f_typ f = T_KeepAlive).
  { subst k. unfold handler_for, typed_handler.
    destruct (ack_handler cfg && (f_typ f =? T_KeepAlive)) eqn:E.
    - intros _. apply andb_true_iff in E. destruct E as (_ & E). now apply N.eqb_eq in E.
    - destruct (existsb _ _); [discriminate|]. destruct (default_handler cfg); discriminate. }
  assert (Hrec : forall h0, In h0 (handled s ++ [mkHrec (length (peer_sent s)) f k h rep]) ->
                 nth_error (peer_sent s ++ [f]) (h_seq h0) = Some (h_frame h0) /\
                 (h_kind h0 = HAck -> f_typ (h_frame h0) = T_KeepAlive)).
  { intros h0 Hin. apply in_app_or in Hin. destruct Hin as [Hin|[Hin|[]]].
    - destruct (Hr h0 Hin) as (A & B). split; [now apply nth_error_app_old|assumption].
    - subst h0. cbn. split; [apply nth_error_app_last|assumption]. }
  assert (Hsort : StronglySorted lt (map h_seq (handled s ++ [mkHrec (length (peer_sent s)) f k h rep]))).
  { rewrite map_app. cbn. apply StronglySorted_app_last; [assumption|].
    intros y Hy. apply in_map_iff in Hy. destruct Hy as (h0 & Ey & Hin). subst y.
    destruct (Hr h0 Hin) as (A & _). eapply nth_error_lt; eauto. }
  destruct k eqn:Ek; unfold ack_enqueue.
  - (* HAck: logged *)
    destruct (Nat.ltb _ _); constructor; st_simpl_goal; rewrite ?E1, ?E2, ?E3; try assumption;
      rewrite map_app, filter_app, map_app, Hl; cbn; reflexivity.
  - constructor; st_simpl_goal; rewrite ?E1, ?E2, ?E3; try assumption.
    rewrite filter_app. cbn. rewrite app_nil_r. assumption.
  - constructor; st_simpl_goal; rewrite ?E1, ?E2, ?E3; try assumption.
    rewrite filter_app. cbn. rewrite app_nil_r. assumption.
  - constructor; st_simpl_goal; rewrite ?E1, ?E2, ?E3; try assumption.
    rewrite filter_app. cbn. rewrite app_nil_r. assumption.
Qed.

Lemma ka_hist_peer_app : forall s f, ka_hist s -> ka_hist (set_peer_sent (peer_sent s ++ [f]) s).
Proof.
  intros s f [Hl Hr Hs]. constructor; st_simpl_goal; try assumption.
  intros h Hin. destruct (Hr h Hin) as (A & B). split; [now apply nth_error_app_old|assumption].
Qed.

Lemma ka_hist_init : forall cfg, ka_hist (init cfg).
Proof. intros. constructor; cbn; [reflexivity | intros h [] | constructor]. Qed.

Lemma leave_same_ka : forall res c s, same_ka s (leave res c s).
Proof.
  intros. unfold leave, do_cancel, set_caller.
  destruct (lookup c (callers s)) as [[r|r|r i|r res0]|]; try (same_ka_tac; fail).
  destruct (lookup i (awaiting s)) as [c'|]; [|same_ka_tac].
  destruct (c' =? c); [same_ka_tac|]. st_simpl_goal.
  destruct (lookup c' (callers s)) as [[]|]; same_ka_tac.
Qed.

Lemma ka_hist_step : forall cfg s e, ka_hist s -> ka_hist (step cfg s e).
Proof.
  intros cfg s e Hinv. destruct e; cbn [step];
    try (eapply ka_hist_same; [|exact Hinv];
         match goal with |- same_ka _ (?f _) => unfold f | |- same_ka _ (?f _ _) => unfold f | |- same_ka _ (?f _ _ _) => unfold f end;
         unfold set_caller, init_fail, neg_fail, neg_fail_with, step_close;
         same_ka_tac; fail).
  - unfold step_see_closed. destruct (closed s); [|assumption]. eapply ka_hist_same; [apply leave_same_ka|assumption].
  - eapply ka_hist_same; [apply leave_same_ka|assumption].
  - (* WAccept *) unfold step_waccept.
    destruct (writer s); try assumption.
    destruct (lookup c (callers s)) as [[r|r|r i|r res0]|]; try assumption.
    eapply ka_hist_same; [|exact Hinv]. cbn zeta. unfold set_caller.
    destruct (q_wait r), (q_id r =? 0); same_ka_tac.
  - (* RFrame *) unfold step_rframe. destruct (reader s); try assumption.
    destruct (take_waiter cfg true (length (peer_sent s)) f
                (note_close_resp f (set_peer_sent (peer_sent s ++ [f]) s))) as [s2 rep] eqn:Htw.
    pose proof (take_waiter_ack_fields cfg true (length (peer_sent s)) f
                  (note_close_resp f (set_peer_sent (peer_sent s ++ [f]) s))) as H2.
    rewrite Htw in H2. cbn [fst] in H2. destruct H2 as (Ek & _ & Eh & Ep).
    eapply ka_hist_same; [|apply (ka_hist_dispatch cfg s s2 f h rep Hinv)].
    + same_ka_tac.
    + rewrite Ek. unfold note_close_resp. destruct (_ && _); reflexivity.
    + rewrite Eh. unfold note_close_resp. destruct (_ && _); reflexivity.
    + rewrite Ep. unfold note_close_resp. destruct (_ && _); reflexivity.
  - (* PeerEOF *) unfold step_peer_eof. destruct (reader s); try assumption.
    destruct p.
    + eapply ka_hist_same; [|exact Hinv]. unfold reader_dies. same_ka_tac.
    + eapply ka_hist_same; [|exact Hinv]. unfold reader_dies. same_ka_tac.
    + destruct (take_waiter cfg false (length (peer_sent s)) f
                  (note_close_resp f (set_peer_sent (peer_sent s ++ [f]) s))) as [s2 rep] eqn:Htw.
      pose proof (take_waiter_ack_fields cfg false (length (peer_sent s)) f
                    (note_close_resp f (set_peer_sent (peer_sent s ++ [f]) s))) as H2.
      rewrite Htw in H2. cbn [fst] in H2. destruct H2 as (Ek & _ & Eh & Ep).
      assert (Ek' : ka_log s2 = ka_log s) by (rewrite Ek; unfold note_close_resp; destruct (_ && _); reflexivity).
      assert (Eh' : handled s2 = handled s) by (rewrite Eh; unfold note_close_resp; destruct (_ && _); reflexivity).
      assert (Ep' : peer_sent s2 = peer_sent s ++ [f]) by (rewrite Ep; unfold note_close_resp; destruct (_ && _); reflexivity).
      destruct (rep && (f_len f <=? max_buffered)).
      * eapply ka_hist_same; [|apply (ka_hist_peer_app s f Hinv)].
        unfold reader_dies, same_ka. st_simpl_goal. rewrite Ek', Eh', Ep'. repeat split; reflexivity.
      * eapply ka_hist_same; [|apply (ka_hist_dispatch cfg s s2 f HBAll rep Hinv Ek' Eh' Ep')].
        unfold eof_after_dispatch, reader_dies. same_ka_tac.
  - (* ConnFirst *) unfold step_conn_first. destruct (phase s); try assumption.
    pose proof (ka_hist_peer_app s f Hinv) as H1.
    destruct (max_buffered <? f_len f).
    { eapply ka_hist_same; [|exact H1]. unfold init_fail. same_ka_tac. }
    set (s2 := match first_handler cfg (f_typ f) with Some _ => _ | None => _ end).
    assert (Hs2 : ka_hist s2).
    { subst s2. destruct (first_handler cfg (f_typ f)) as [k|] eqn:Eth; [|assumption].
      (* the same record run_handler would write, with the typed handler's kind *)
      pose proof (ka_hist_dispatch cfg s (set_peer_sent (peer_sent s ++ [f]) s) f h false Hinv eq_refl eq_refl eq_refl) as Hd.
      assert (Ek : handler_for cfg (f_typ f) = k).
      { unfold first_handler in Eth. unfold handler_for. destruct (typed_handler cfg (f_typ f)) as [k'|].
        - injection Eth as <-. reflexivity.
        - destruct (default_handler cfg); [injection Eth as <-; reflexivity|discriminate]. }
      unfold run_handler in Hd. rewrite Ek in Hd. exact Hd. }
    eapply ka_hist_same; [|exact Hs2].
    destruct ((f_typ f =? T_ReaderEventNotification) && is_conn_success (f_info f)); unfold init_fail; same_ka_tac.
Qed.

Theorem ka_hist_run : forall cfg evs, ka_hist (run cfg evs).
Proof.
  intros cfg evs. unfold run, run_from. generalize (ka_hist_init cfg). generalize (init cfg).
  induction evs as [|e evs IH]; intros s H; cbn; [assumption|]. apply IH. now apply ka_hist_step.
Qed.

(* the ids logged by the ackHandler are the ids of keep-alive frames received, in arrival order:
   there is an increasing sequence of frame numbers whose frames are KeepAlives with those ids *)
Theorem ka_log_is_received_keepalives : forall cfg evs,
  let s := run cfg evs in
  exists seqs : list nat,
    StronglySorted lt seqs /\
    Forall2 (fun q p => exists f, nth_error (peer_sent s) q = Some f /\ f_typ f = T_KeepAlive /\ f_id f = fst p)
            seqs (ka_log s).
Proof.
  intros cfg evs s. destruct (ka_hist_run cfg evs) as [Hl Hr Hs]. fold s in Hl, Hr, Hs.
  exists (map h_seq (filter is_hack (handled s))). split.
  - clear Hl Hr. induction (handled s) as [|a l IH]; cbn; [constructor|].
    inversion Hs; subst. destruct (is_hack a); [|auto]. cbn. constructor; [auto|].
    apply Forall_forall. intros y Hy. apply in_map_iff in Hy. destruct Hy as (h0 & E & Hin). subst y.
    apply filter_In in Hin. destruct Hin as (Hin & _).
    rewrite Forall_forall in H2. apply H2. now apply in_map.
  - assert (Hall : forall h, In h (filter is_hack (handled s)) ->
                   nth_error (peer_sent s) (h_seq h) = Some (h_frame h) /\ f_typ (h_frame h) = T_KeepAlive).
    { intros h Hin. apply filter_In in Hin. destruct Hin as (Hin & Hk). destruct (Hr h Hin) as (A & B).
      split; [assumption|]. apply B. unfold is_hack in Hk. destruct (h_kind h); try discriminate. reflexivity. }
    revert Hl Hall. generalize (filter is_hack (handled s)). generalize (ka_log s).
    induction l as [|p l IH]; intros l0 Hl Hall; destruct l0 as [|h0 l0]; cbn in *; try discriminate; [constructor|].
    inversion Hl; subst. constructor.
    + exists (h_frame h0). destruct (Hall h0 (or_introl eq_refl)) as (A & B). auto.
    + apply IH; auto.
Qed.
