(* Client/C09Proofs.v — the C09 statements. Invariants: Client/InvC09.v (for [xstep watch], both values of watch). *)
From Coq Require Import NArith Arith List Bool Lia.
From LLRP Require Import Client.Types Client.Model Client.ModelX Client.MapLemmas Client.StepFacts
     Client.InvC08 Client.InvC09.
Import ListNotations.
Open Scope N_scope.

(* ---------------- lifting the invariants to the extended LTS ---------------- *)
Lemma xstep_false : forall cfg s e, xstep false cfg s e = step cfg s e.
Proof. reflexivity. Qed.

Lemma xstep_cases : forall w cfg s e, xstep w cfg s e = step cfg s e \/ xstep w cfg s e = neg_abort s.
Proof.
  intros. unfold xstep. destruct w; [|now left].
  destruct e; try (now left). destruct pick_err; [|now left]. destruct (phase s); auto.
Qed.

Lemma neg_abort_pre : forall s, pre_inv s -> pre_inv (neg_abort s).
Proof.
  intros s P. unfold neg_abort. destruct (phase s) eqn:Hp; try assumption. destruct (errs s); try assumption.
  unfold neg_fail_with. apply (pre_inv_passed_gen s); auto; rewrite ?Hp; reflexivity.
Qed.

Lemma neg_abort_c09 : forall s, c09_inv s -> c09_inv (neg_abort s).
Proof.
  intros s I. unfold neg_abort. destruct (phase s) eqn:Hp; try assumption. destruct (errs s) eqn:He; try assumption.
  unfold neg_fail_with. apply (c09_frame s); auto.
  right. st_simpl_goal. intros r e [X|X] Y; [discriminate|]. rewrite He. cbn. congruence.
Qed.

Definition over_closed (s : state) : Prop := over_phase (phase s) = true -> closed s = true.

Record x_inv (s : state) : Prop := mkX { x_pre : pre_inv s; x_c09 : c09_inv s; x_over : over_closed s }.

Lemma neg_abort_over : forall s, over_closed s -> over_closed (neg_abort s).
Proof.
  intros s O. unfold neg_abort. destruct (phase s) eqn:Hp; auto. destruct (errs s); auto.
  unfold over_closed, neg_fail_with. reflexivity.
Qed.

Lemma x_inv_step : forall w cfg s e, x_inv s -> x_inv (xstep w cfg s e).
Proof.
  intros w cfg s e [P I O]. destruct (xstep_cases w cfg s e) as [E|E]; rewrite E.
  - constructor; [now apply pre_inv_step|now apply c09_step|]. unfold over_closed. apply over_closed_step. exact O.
  - constructor; [now apply neg_abort_pre|now apply neg_abort_c09|now apply neg_abort_over].
Qed.

Theorem x_inv_run : forall w cfg evs, x_inv (xrun w cfg evs).
Proof.
  intros w cfg evs. unfold xrun, xrun_from.
  assert (G : forall evs s, x_inv s -> x_inv (fold_left (xstep w cfg) evs s)).
  { clear evs. induction evs as [|e evs IH]; intros s H; cbn; [assumption|]. apply IH. now apply x_inv_step. }
  apply G. constructor; [apply pre_inv_init|apply c09_init|]. unfold over_closed. cbn. discriminate.
Qed.

(* ---------------- callers are never stuck on a closed client ---------------- *)
Definition not_done (p : cphase) : Prop := match p with Done _ _ => False | _ => True end.

Theorem see_closed_releases : forall cfg s c p,
  closed s = true -> lookup c (callers s) = Some p -> not_done p ->
  lookup c (callers (step cfg s (SeeClosed c))) = Some (Done (req_of p) RErrClosed).
Proof.
  intros cfg s c p Hc L Hnd. cbn [step]. unfold step_see_closed. rewrite Hc. unfold leave. rewrite L.
  destruct p as [r|r|r i|r res]; cbn in Hnd; try contradiction; unfold set_caller; st_simpl_goal; cbn [req_of].
  - eapply lookup_update_same; eauto.
  - eapply lookup_update_same; eauto.
  - eapply lookup_update_same. apply do_cancel_keeps. exact L.
Qed.

Lemma xstep_see_closed : forall w cfg s c, xstep w cfg s (SeeClosed c) = step cfg s (SeeClosed c).
Proof. intros. destruct w; reflexivity. Qed.

Theorem submit_after_close_fails : forall cfg s c r,
  closed s = true -> is_fresh c s = true -> (q_gate r = true \/ q_len r <= max_payload) ->
  let s1 := step cfg s (Submit c r) in
  closed s1 = true /\ (exists p, lookup c (callers s1) = Some p /\ not_done p /\ req_of p = r) /\
  caller_result (step cfg s1 (SeeClosed c)) c = Some RErrClosed.
Proof.
  intros cfg s c r Hc Hf Hok s1.
  assert (E : s1 = set_callers (callers s ++ [(c, if q_gate r then Gate r else Queued r)]) s).
  { unfold s1. cbn [step]. unfold step_submit. rewrite Hf.
    destruct Hok as [H|H]; [rewrite H; reflexivity|]. apply N.leb_le in H. rewrite H, orb_true_r. reflexivity. }
  assert (L : lookup c (callers s1) = Some (if q_gate r then Gate r else Queued r)).
  { rewrite E. st_simpl_goal. rewrite lookup_app. unfold is_fresh in Hf. destruct (lookup c (callers s)); [discriminate|].
    rewrite N.eqb_refl. reflexivity. }
  assert (Hc1 : closed s1 = true) by (rewrite E; exact Hc).
  split; [assumption|]. split.
  - eexists. split; [exact L|]. destruct (q_gate r); cbn; auto.
  - unfold caller_result. rewrite (see_closed_releases cfg s1 c _ Hc1 L); [reflexivity|]. destruct (q_gate r); exact I.
Qed.

(* ---------------- what Connect returns ---------------- *)
Theorem close_on_healthy_connection : forall cfg s,
  phase s = PReady -> errs s = [] -> closed s = true ->
  step cfg s (ConnSelect true) = s /\ phase (step cfg s (ConnSelect false)) = PDraining CErrClosed.
Proof.
  intros cfg s Hp He Hc. cbn [step]. unfold step_conn_select. rewrite Hp, He, Hc. split; reflexivity.
Qed.

Theorem loop_error_first : forall cfg s e rest,
  c09_inv s -> phase s = PReady -> closed s = false -> errs s = e :: rest ->
  step cfg s (ConnSelect false) = s /\
  phase (step cfg s (ConnSelect true)) = PDraining (CErrLoop e) /\ closed (step cfg s (ConnSelect true)) = true /\
  (e = EWrite \/ e = ERead).
Proof.
  intros cfg s e rest [E _ _] Hp Hc He. cbn [step]. unfold step_conn_select. rewrite Hp, He, Hc. repeat split.
  destruct e; auto; exfalso.
  - assert (X : closed s = true) by (apply (E EClosedW); [rewrite He; now left|now left]). congruence.
  - assert (X : closed s = true) by (apply (E EClosedR); [rewrite He; now left|now right]). congruence.
Qed.

Theorem connect_result_is_first_error : forall w cfg evs r e,
  let s := xrun w cfg evs in
  phase s = PDraining r \/ phase s = PReturned r ->
  closed s = true /\ (r = CErrLoop e -> hd_error (errs s) = Some e).
Proof.
  intros w cfg evs r e s H. destruct (x_inv_run w cfg evs) as [_ [_ _ F] O]. fold s in F, O. split.
  - apply O. destruct H as [H|H]; rewrite H; reflexivity.
  - intro Hr. eapply F; eauto.
Qed.

Theorem drain_returns_same_result : forall cfg s r,
  phase s = PDraining r -> writer_over (writer s) = true -> reader_over (reader s) = true ->
  phase (step cfg s ConnReturn) = PReturned r.
Proof. intros cfg s r Hp Hw Hr. cbn [step]. unfold step_conn_return. rewrite Hp, Hw, Hr. reflexivity. Qed.

(* ---------------- nothing after CloseConnection ---------------- *)
Theorem silent_after_close_conn : forall w cfg evs i o,
  let s := xrun w cfg evs in
  nth_error (out s) i = Some o -> f_typ (o_frame o) = T_CloseConnection ->
  S i = length (out s) /\ (writer s = WParked \/ writer s = WExit).
Proof. intros w cfg evs i o s Hn Hc. destruct (x_inv_run w cfg evs) as [_ [_ C _] _]. exact (C i o Hn Hc). Qed.

(* ---------------- Close twice ---------------- *)
Theorem double_close_reports : forall cfg s,
  (closed s = true -> step cfg s Close = set_close_calls (close_calls s ++ [false]) s) /\
  (closed s = false -> step cfg s Close = set_closed true (set_close_calls (close_calls s ++ [true]) s)).
Proof. intros cfg s. cbn [step]. unfold step_close. split; intro H; rewrite H; reflexivity. Qed.

(* ---------------- cancellation ---------------- *)
Theorem cancel_isolated : forall cfg s c r i,
  lookup c (callers s) = Some (HasToken r i) ->
  (lookup i (awaiting s) = Some c \/ lookup i (awaiting s) = None) ->
  let s' := step cfg s (Cancel c) in
  lookup c (callers s') = Some (Done r RErrCtx) /\
  (forall c', c' <> c -> lookup c' (callers s') = lookup c' (callers s)) /\
  awaiting s' = remove i (awaiting s) /\ same_ctl s s' /\
  (forall whole seq f, f_id f = i -> take_waiter cfg whole seq f s' = (s', false)).
Proof.
  intros cfg s c r i L Ha s'.
  assert (E : s' = set_caller c (Done r RErrCtx) (set_awaiting (remove i (awaiting s)) s)).
  { unfold s'. cbn [step]. unfold step_cancel, leave. rewrite L. unfold do_cancel.
    destruct Ha as [Ha|Ha]; rewrite Ha.
    - rewrite N.eqb_refl. reflexivity.
    - assert (R : remove i (awaiting s) = awaiting s).
      { clear -Ha. induction (awaiting s) as [|[k v] m IH]; cbn in *; [reflexivity|].
        destruct (i =? k) eqn:Ek; [discriminate|]. rewrite IH by assumption. reflexivity. }
      rewrite R. destruct s; reflexivity. }
  rewrite E. unfold set_caller. st_simpl_goal. repeat split.
  - eapply lookup_update_same; eauto.
  - intros c' Hne. now apply lookup_update_other.
  - intros whole seq f Hf. unfold take_waiter. st_simpl_goal. rewrite Hf, lookup_remove, N.eqb_refl.
    destruct (consults cfg (f_typ f)); reflexivity.
Qed.

Theorem cancel_waiting_caller : forall cfg s c p,
  lookup c (callers s) = Some p -> (exists r, p = Gate r \/ p = Queued r) ->
  let s' := step cfg s (Cancel c) in
  lookup c (callers s') = Some (Done (req_of p) RErrCtx) /\
  (forall c', c' <> c -> lookup c' (callers s') = lookup c' (callers s)) /\
  awaiting s' = awaiting s /\ same_ctl s s'.
Proof.
  intros cfg s c p L (r & Hp) s'. unfold s'. cbn [step]. unfold step_cancel, leave. rewrite L.
  destruct Hp as [-> | ->]; unfold set_caller; st_simpl_goal; cbn [req_of]; repeat split;
    try (eapply lookup_update_same; eauto); try (intros c' Hne; now apply lookup_update_other).
Qed.

(* ---------------- Connect while negotiating ---------------- *)
Theorem connect_watching_returns : forall cfg s st o e rest,
  phase s = PNegotiating st o -> errs s = e :: rest ->
  let s' := xstep true cfg s (ConnSelect true) in
  phase s' = PReturned (CErrLoop e) /\ closed s' = true.
Proof.
  intros cfg s st o e rest Hp He s'. unfold s', xstep, neg_abort. rewrite Hp, He. split; reflexivity.
Qed.

