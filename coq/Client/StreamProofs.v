(* Proofs about the byte-stream model of the read loop (Client/Stream.v): header round trip,
   one-frame lemma, frame alignment for every handler behaviour, by induction over the list
   of frames (unbounded). *)
From Coq Require Import NArith ZArith List Bool Lia ZifyN ZifyNat ZifyBool.
From LLRP Require Import Client.Stream.
Import ListNotations.
Open Scope N_scope.
Ltac Zify.zify_post_hook ::= Z.div_mod_to_equations.

(* ------------------------------------------------------------------ split_at *)

Lemma len_cons : forall A (x : A) l, len (x :: l) = len l + 1.
Proof. intros. unfold len. cbn [length]. lia. Qed.

Lemma len_app : forall A (a b : list A), len (a ++ b) = len a + len b.
Proof. intros. unfold len. rewrite app_length. lia. Qed.

Lemma split_at_app_exact : forall A (a b : list A), split_at (len a) (a ++ b) = (a, b).
Proof.
  induction a as [|x a IH]; intros b.
  - cbn [app]. destruct b; cbn [split_at]; auto.
  - cbn [app split_at]. rewrite len_cons.
    replace (len a + 1 =? 0) with false by (symmetry; apply N.eqb_neq; lia).
    replace (N.pred (len a + 1)) with (len a) by lia.
    rewrite IH. reflexivity.
Qed.

Lemma split_at_spec : forall A n (l : list A),
  split_at n l = (firstn (N.to_nat n) l, skipn (N.to_nat n) l).
Proof.
  intros A n l. revert n. induction l as [|x l IH]; intros n.
  - cbn [split_at]. now rewrite firstn_nil, skipn_nil.
  - cbn [split_at]. destruct (N.eqb_spec n 0) as [->|Hn].
    + reflexivity.
    + replace (N.to_nat n) with (S (N.to_nat (N.pred n))) by lia.
      rewrite IH. reflexivity.
Qed.

Lemma split_at_app : forall A n (l : list A), fst (split_at n l) ++ snd (split_at n l) = l.
Proof. intros. rewrite split_at_spec. apply firstn_skipn. Qed.

Lemma split_at_len_fst : forall A n (l : list A), len (fst (split_at n l)) = N.min n (len l).
Proof.
  intros. rewrite split_at_spec. cbn [fst]. unfold len. rewrite firstn_length. lia.
Qed.

Lemma split_at_length_snd : forall A n (l : list A),
  (length (snd (split_at n l)) <= length l)%nat.
Proof. intros. rewrite split_at_spec. cbn [snd]. rewrite skipn_length. lia. Qed.

Lemma split_at_length_snd_full : forall A n (l : list A),
  len (fst (split_at n l)) = n -> (length (snd (split_at n l)) + N.to_nat n = length l)%nat.
Proof.
  intros A n l. rewrite split_at_spec. cbn [fst snd]. unfold len.
  rewrite firstn_length, skipn_length. lia.
Qed.

(* ------------------------------------------------------------------ header arithmetic *)

Lemma lor_shiftl_add : forall a k b, b < 2 ^ k -> N.lor (N.shiftl a k) b = a * 2 ^ k + b.
Proof.
  intros a k b Hb. rewrite N.shiftl_mul_pow2.
  assert (Hl : N.land (a * 2 ^ k) b = 0).
  { apply N.bits_inj. intro n. rewrite N.land_spec, N.bits_0.
    destruct (N.ltb_spec n k).
    - rewrite N.mul_pow2_bits_low by assumption. reflexivity.
    - rewrite <- (N.mod_small b (2 ^ k)) by assumption.
      rewrite N.mod_pow2_bits_high by assumption. apply andb_false_r. }
  rewrite <- N.lxor_lor by assumption. symmetry. apply N.add_nocarry_lxor. assumption.
Qed.

Lemma be32_val : forall a b c d, b < 256 -> c < 256 -> d < 256 ->
  be32 a b c d = a * 16777216 + b * 65536 + c * 256 + d.
Proof.
  intros a b c d Hb Hc Hd. unfold be32.
  rewrite (lor_shiftl_add c 8 d) by (change (2 ^ 8) with 256; lia).
  change (2 ^ 8) with 256.
  rewrite (lor_shiftl_add b 16) by (change (2 ^ 16) with 65536; lia).
  change (2 ^ 16) with 65536.
  rewrite (lor_shiftl_add a 24) by (change (2 ^ 24) with 16777216; lia).
  change (2 ^ 24) with 16777216. lia.
Qed.

Lemma be32_roundtrip : forall x, x < 2 ^ 32 ->
  match be32_bytes x with
  | [a; b; c; d] => be32 a b c d = x
  | _ => False
  end.
Proof.
  intros x Hx. unfold be32_bytes.
  change (2 ^ 24) with 16777216. change (2 ^ 16) with 65536. change (2 ^ 8) with 256.
  change (2 ^ 32) with 4294967296 in Hx.
  rewrite be32_val by lia. lia.
Qed.

Record frame_wf (f : frame) : Prop := mkWf {
  wf_rsv : f_rsv f < 8;
  wf_ver : f_ver f < 8;
  wf_typ : f_typ f < 1024;
  wf_id : f_id f < 2 ^ 32;
  wf_len : len (f_payload f) + HeaderSz < 2 ^ 32 }.

Lemma land_1023 : forall x, N.land x 1023 = x mod 1024.
Proof. intros. change 1023 with (N.ones 10). rewrite N.land_ones. reflexivity. Qed.

Lemma land_7 : forall x, N.land x 7 = x mod 8.
Proof. intros. change 7 with (N.ones 3). rewrite N.land_ones. reflexivity. Qed.

Lemma hdr_decode_header_bytes : forall f, frame_wf f ->
  hdr_decode (header_bytes f) = Some (frame_header f).
Proof.
  intros f [Hr Hv Ht Hi Hl]. unfold header_bytes.
  pose proof (be32_roundtrip _ Hl) as R1. pose proof (be32_roundtrip _ Hi) as R2.
  unfold be32_bytes in *. cbn [app].
  unfold hdr_decode. rewrite R1, R2.
  unfold HeaderSz in *.
  replace (len (f_payload f) + 10 <? 10) with false by (symmetry; apply N.ltb_ge; lia).
  unfold frame_header. f_equal. f_equal.
  - rewrite land_7, N.shiftr_div_pow2. change (2 ^ 2) with 4. lia.
  - rewrite land_1023. unfold be16. rewrite lor_shiftl_add by (change (2 ^ 8) with 256; lia).
    change (2 ^ 8) with 256. lia.
  - lia.
Qed.

Lemma header_bytes_len : forall f, len (header_bytes f) = HeaderSz.
Proof. reflexivity. Qed.

Lemma read_header_frame : forall f x, frame_wf f ->
  read_header (header_bytes f ++ x) = RhOk (frame_header f) x.
Proof.
  intros f x Hwf. unfold read_header.
  rewrite <- (header_bytes_len f) at 1. rewrite split_at_app_exact.
  rewrite header_bytes_len. cbn [N.eqb N.ltb N.compare HeaderSz Pos.compare Pos.compare_cont].
  rewrite hdr_decode_header_bytes by assumption. reflexivity.
Qed.

(* ------------------------------------------------------------------ specification side *)

Section Spec.
Variable maxbuf : N.
Variable cfg : config.

(* is the frame's id awaited when it is looked up? *)
Definition awaited (aw : list N) (e : env_step) (f : frame) : bool :=
  negb (never_reply cfg (f_typ f)) && mem (f_id f) (register (e_register e) aw).

Definition aw_next (aw : list N) (e : env_step) (f : frame) : list N :=
  if never_reply cfg (f_typ f) then register (e_register e) aw
  else remove (f_id f) (register (e_register e) aw).

Definition state_next (st : state) (e : env_step) (f : frame) : state :=
  mkState (aw_next (s_aw st) e f)
          (s_closed_seen st || ((f_typ f =? MsgCloseConnectionResponse) && e_close_sent e)).

(* what the code is supposed to do with one complete frame, written declaratively *)
Definition expected_dispatch (aw : list N) (e : env_step) (f : frame) : dispatch :=
  let n := len (f_payload f) in
  let a := awaited aw e f in
  let buffered := a && (n <=? maxbuf) in
  mkDispatch (frame_header f)
    (if a then Some (if n <=? maxbuf then RBuffered (f_payload f) else RHeaderOnly) else None)
    (match pick_handler cfg (f_typ f) with
     | Some w => Some (mkCall w buffered (f_payload f) (N.min (hb_k (e_beh e)) n) (hb_panics (e_beh e)))
     | None => None
     end)
    (negb a && match pick_handler cfg (f_typ f) with None => true | _ => false end)
    (HeaderSz + if buffered then n else 0).

Fixpoint expected_log (st : state) (env : nat -> env_step) (i : nat) (fs : list frame)
  : list dispatch :=
  match fs with
  | [] => []
  | f :: r => expected_dispatch (s_aw st) (env i) f
              :: expected_log (state_next st (env i) f) env (S i) r
  end.

Fixpoint state_after (st : state) (env : nat -> env_step) (i : nat) (fs : list frame) : state :=
  match fs with
  | [] => st
  | f :: r => state_after (state_next st (env i) f) env (S i) r
  end.

Definition prepend (l : list dispatch) (r : result) : result :=
  mkResult (l ++ r_log r) (r_end r) (r_rest r).

(* ---------------------------------------------------------------- one frame *)

Lemma pass_to_handler_frame : forall aw e f more,
  pass_to_handler maxbuf cfg aw (frame_header f) e (f_payload f ++ more)
  = (PthOk (expected_dispatch aw e f) more, aw_next aw e f).
Proof.
  intros aw e f more. unfold pass_to_handler, expected_dispatch, awaited, aw_next.
  cbn [frame_header h_len h_id h_typ].
  rewrite split_at_app_exact. rewrite N.eqb_refl.
  destruct (never_reply cfg (f_typ f)); cbn [negb andb];
  set (a := mem (f_id f) (register (e_register e) aw));
  set (n := len (f_payload f));
  destruct a; destruct (pick_handler cfg (f_typ f)) as [w|];
    cbn [andb negb option_map]; unfold call_handler;
    destruct (N.ltb_spec maxbuf n); destruct (N.leb_spec n maxbuf); try lia;
    cbn [andb]; try reflexivity; repeat f_equal; lia.
Qed.

Lemma read_iter_frame : forall st e f more, frame_wf f ->
  read_iter maxbuf cfg st e (frame_bytes f ++ more)
  = ItNext (expected_dispatch (s_aw st) e f) (state_next st e f) more.
Proof.
  intros st e f more Hwf. unfold read_iter, frame_bytes.
  rewrite <- app_assoc. rewrite read_header_frame by assumption.
  rewrite pass_to_handler_frame. reflexivity.
Qed.

(* ---------------------------------------------------------------- fuel *)

Lemma read_iter_next_shorter : forall st e bs d st' rest,
  read_iter maxbuf cfg st e bs = ItNext d st' rest -> (length rest < length bs)%nat.
Proof.
  intros st e bs d st' rest. unfold read_iter, read_header.
  destruct (split_at HeaderSz bs) as [hb r0] eqn:Hs.
  pose proof (split_at_app _ HeaderSz bs) as Happ.
  pose proof (split_at_len_fst _ HeaderSz bs) as Hlen.
  rewrite Hs in Happ, Hlen. cbn [fst snd] in Happ, Hlen.
  destruct (len hb =? 0) eqn:E0; [discriminate|].
  destruct (len hb <? HeaderSz) eqn:E1; [discriminate|].
  destruct (hdr_decode hb) as [h|]; [|discriminate].
  unfold pass_to_handler.
  destruct (split_at (h_len h) r0) as [pl r1] eqn:Hs1.
  pose proof (split_at_length_snd _ (h_len h) r0) as Hr1. rewrite Hs1 in Hr1. cbn [snd] in Hr1.
  apply N.eqb_neq in E0. apply N.ltb_ge in E1.
  assert (Hbs : (length bs = length hb + length r0)%nat) by (rewrite <- Happ, app_length; lia).
  unfold len, HeaderSz in *.
  destruct (never_reply cfg (h_typ h)); cbn [negb andb];
  try match goal with |- context [mem ?a ?b] => destruct (mem a b) end;
  destruct (pick_handler _ _);
    repeat match goal with |- context [if ?c then _ else _] => destruct c end;
    intro H; inversion H; subst; lia.
Qed.

(* more fuel than bytes: the result does not depend on the fuel *)
Lemma read_loop_fuel : forall fuel1 fuel2 st env i bs,
  (length bs < fuel1)%nat -> (length bs < fuel2)%nat ->
  read_loop maxbuf cfg fuel1 st env i bs = read_loop maxbuf cfg fuel2 st env i bs.
Proof.
  induction fuel1 as [|f1 IH]; intros fuel2 st env i bs H1 H2; [lia|].
  destruct fuel2 as [|f2]; [lia|].
  cbn [read_loop].
  destruct (read_iter maxbuf cfg st (env i) bs) as [d st' rest| |] eqn:Hit; try reflexivity.
  apply read_iter_next_shorter in Hit.
  rewrite (IH f2) by lia. reflexivity.
Qed.

Lemma read_loop_never_out_of_fuel : forall fuel st env i bs,
  (length bs < fuel)%nat -> r_end (read_loop maxbuf cfg fuel st env i bs) <> EndOutOfFuel.
Proof.
  induction fuel as [|f IH]; intros st env i bs H; [lia|].
  cbn [read_loop].
  destruct (read_iter maxbuf cfg st (env i) bs) as [d st' rest|d|e rest] eqn:Hit.
  - apply read_iter_next_shorter in Hit. cbn [cons_log r_end]. apply IH. lia.
  - cbn. discriminate.
  - cbn [r_end]. unfold read_iter in Hit.
    destruct (read_header bs); try (inversion Hit; subst; try discriminate).
    + destruct (pass_to_handler _ _ _ _ _ _) as [[? ?|?] ?]; discriminate.
    + destruct (s_closed_seen st); discriminate.
Qed.

Definition serve_from (st : state) (env : nat -> env_step) (i : nat) (bs : list byte) : result :=
  read_loop maxbuf cfg (S (length bs)) st env i bs.

Lemma serve_from_0 : forall st env bs, serve maxbuf cfg st env bs = serve_from st env O bs.
Proof. reflexivity. Qed.

(* ---------------------------------------------------------------- alignment *)

Lemma serve_frame : forall st env i f more, frame_wf f ->
  serve_from st env i (frame_bytes f ++ more)
  = cons_log (expected_dispatch (s_aw st) (env i) f)
             (serve_from (state_next st (env i) f) env (S i) more).
Proof.
  intros st env i f more Hwf. unfold serve_from.
  remember (S (length more)) as fuel2 eqn:Hf2. cbn [read_loop].
  rewrite read_iter_frame by assumption. f_equal.
  subst fuel2. apply read_loop_fuel; rewrite ?app_length; unfold frame_bytes;
    rewrite ?app_length; cbn [length header_bytes app be32_bytes]; lia.
Qed.

Lemma frames_alignment : forall fs st env i rest, Forall frame_wf fs ->
  serve_from st env i (concat (map frame_bytes fs) ++ rest)
  = prepend (expected_log st env i fs)
            (serve_from (state_after st env i fs) env (i + length fs) rest).
Proof.
  induction fs as [|f fs IH]; intros st env i rest Hwf.
  - cbn [map concat app expected_log state_after length prepend]. rewrite Nat.add_0_r.
    destruct (serve_from st env i rest); reflexivity.
  - inversion Hwf as [|? ? Hf Hfs]; subst.
    cbn [map concat expected_log state_after length]. rewrite <- app_assoc.
    rewrite serve_frame by assumption. rewrite IH by assumption.
    replace (S i + length fs)%nat with (i + S (length fs))%nat by lia.
    unfold cons_log, prepend. cbn [r_log r_end r_rest app]. reflexivity.
Qed.

(* ---------------------------------------------------------------- exactly once *)

(* what each party entitled to frame f must have been given, stated without the model *)
Definition entitled (a : bool) (e : env_step) (f : frame) (d : dispatch) : Prop :=
  let n := len (f_payload f) in
  d_hdr d = frame_header f /\
  (* the awaiting caller, if any: exactly one delivery (the field holds at most one) *)
  (a = false -> d_reply d = None) /\
  (a = true -> n <= maxbuf -> d_reply d = Some (RBuffered (f_payload f))) /\
  (a = true -> maxbuf < n -> d_reply d = Some RHeaderOnly) /\
  (* the type handler, else the default handler: one call, offered exactly the payload *)
  (has_handler cfg (f_typ f) = true ->
     exists c, d_handler d = Some c /\ hc_who c = TypeHandler /\ hc_offered c = f_payload f
               /\ hc_consumed c = N.min (hb_k (e_beh e)) n /\ hc_panicked c = hb_panics (e_beh e)) /\
  (has_handler cfg (f_typ f) = false -> has_default cfg = true ->
     exists c, d_handler d = Some c /\ hc_who c = DefaultHandler /\ hc_offered c = f_payload f
               /\ hc_consumed c = N.min (hb_k (e_beh e)) n /\ hc_panicked c = hb_panics (e_beh e)) /\
  (has_handler cfg (f_typ f) = false -> has_default cfg = false -> d_handler d = None) /\
  (* discarded exactly when nobody is entitled *)
  (d_discarded d = true <-> (a = false /\ has_handler cfg (f_typ f) = false /\ has_default cfg = false)).

Lemma expected_dispatch_entitled : forall aw e f,
  entitled (awaited aw e f) e f (expected_dispatch aw e f).
Proof.
  intros aw e f. unfold entitled, expected_dispatch, pick_handler.
  cbn [d_hdr d_reply d_handler d_discarded].
  destruct (awaited aw e f); destruct (has_handler cfg (f_typ f)); destruct (has_default cfg);
    cbn [andb negb];
    (repeat split; try discriminate; try tauto; intros;
     try (destruct (N.leb_spec (len (f_payload f)) maxbuf); try lia; reflexivity);
     try (eexists; repeat split; reflexivity)).
Qed.

(* the flags "was frame j awaited when it arrived" along a run *)
Fixpoint awaited_seq (st : state) (env : nat -> env_step) (i : nat) (fs : list frame) : list bool :=
  match fs with
  | [] => []
  | f :: r => awaited (s_aw st) (env i) f :: awaited_seq (state_next st (env i) f) env (S i) r
  end.

(* Forall over three lists in step, with the running index *)
Inductive all_entitled (env : nat -> env_step) : nat -> list bool -> list frame -> list dispatch -> Prop :=
| ae_nil : forall i, all_entitled env i [] [] []
| ae_cons : forall i a f d la lf ld, entitled a (env i) f d -> all_entitled env (S i) la lf ld ->
    all_entitled env i (a :: la) (f :: lf) (d :: ld).

Lemma expected_log_entitled : forall fs st env i,
  all_entitled env i (awaited_seq st env i fs) fs (expected_log st env i fs).
Proof.
  induction fs as [|f fs IH]; intros; cbn [awaited_seq expected_log]; constructor.
  - apply expected_dispatch_entitled.
  - apply IH.
Qed.

Lemma expected_log_length : forall fs st env i, length (expected_log st env i fs) = length fs.
Proof. induction fs; intros; cbn [expected_log length]; auto. Qed.

Lemma expected_log_app : forall fs1 fs2 st env i,
  expected_log st env i (fs1 ++ fs2)
  = expected_log st env i fs1 ++ expected_log (state_after st env i fs1) env (i + length fs1) fs2.
Proof.
  induction fs1 as [|f fs1 IH]; intros; cbn [app expected_log state_after length].
  - now rewrite Nat.add_0_r.
  - rewrite IH. replace (S i + length fs1)%nat with (i + S (length fs1))%nat by lia. reflexivity.
Qed.


(* ---------------------------------------------------------------- property-level corollaries *)

Lemma serve_alignment : forall fs st env rest, Forall frame_wf fs ->
  serve maxbuf cfg st env (concat (map frame_bytes fs) ++ rest)
  = prepend (expected_log st env O fs)
            (serve_from (state_after st env O fs) env (length fs) rest).
Proof. intros. rewrite serve_from_0. now rewrite frames_alignment. Qed.

Lemma serve_from_nil : forall st env i,
  serve_from st env i [] = mkResult [] (if s_closed_seen st then EndWaitClose else EndEOF) [].
Proof. reflexivity. Qed.

Lemma serve_whole_stream : forall fs st env, Forall frame_wf fs ->
  serve maxbuf cfg st env (concat (map frame_bytes fs))
  = mkResult (expected_log st env O fs)
             (if s_closed_seen (state_after st env O fs) then EndWaitClose else EndEOF) [].
Proof.
  intros. rewrite <- (app_nil_r (concat _)). rewrite serve_alignment by assumption.
  rewrite serve_from_nil. unfold prepend. cbn [r_log r_end r_rest]. now rewrite app_nil_r.
Qed.

Lemma serve_exactly_once : forall fs st env rest, Forall frame_wf fs ->
  exists l tail,
    r_log (serve maxbuf cfg st env (concat (map frame_bytes fs) ++ rest)) = l ++ tail /\
    all_entitled env O (awaited_seq st env O fs) fs l /\
    tail = r_log (serve_from (state_after st env O fs) env (length fs) rest).
Proof.
  intros. rewrite serve_alignment by assumption.
  eexists. eexists. split; [reflexivity|]. split; [apply expected_log_entitled|reflexivity].
Qed.

Lemma state_after_app : forall fs1 fs2 st env i,
  state_after st env i (fs1 ++ fs2)
  = state_after (state_after st env i fs1) env (i + length fs1) fs2.
Proof.
  induction fs1 as [|f fs1 IH]; intros; cbn [app state_after length].
  - now rewrite Nat.add_0_r.
  - rewrite IH. replace (S i + length fs1)%nat with (i + S (length fs1))%nat by lia. reflexivity.
Qed.

Lemma serve_panic_does_not_end : forall fs1 f fs2 st env rest w,
  Forall frame_wf (fs1 ++ f :: fs2) ->
  pick_handler cfg (f_typ f) = Some w ->
  hb_panics (e_beh (env (length fs1))) = true ->
  let st1 := state_after st env O fs1 in
  let st2 := state_next st1 (env (length fs1)) f in
  let r := serve maxbuf cfg st env (concat (map frame_bytes (fs1 ++ f :: fs2)) ++ rest) in
  exists d c,
    r_log r = expected_log st env O fs1 ++ d :: expected_log st2 env (S (length fs1)) fs2
              ++ r_log (serve_from (state_after st2 env (S (length fs1)) fs2) env
                          (length (fs1 ++ f :: fs2)) rest) /\
    d_hdr d = frame_header f /\
    d_handler d = Some c /\ hc_who c = w /\ hc_panicked c = true /\ hc_offered c = f_payload f /\
    r_end r = r_end (serve_from (state_after st2 env (S (length fs1)) fs2) env
                          (length (fs1 ++ f :: fs2)) rest).
Proof.
  intros fs1 f fs2 st env rest w Hwf Hw Hp st1 st2 r. subst r.
  rewrite serve_alignment by assumption.
  rewrite expected_log_app, state_after_app. cbn [expected_log state_after Nat.add].
  fold st1. fold st2.
  eexists. eexists. unfold prepend. cbn [r_log r_end].
  split; [rewrite <- !app_assoc; cbn [app]; reflexivity|].
  unfold expected_dispatch. cbn [d_hdr d_handler]. rewrite Hw.
  cbn [hc_who hc_panicked hc_offered]. repeat split; auto.
Qed.

Lemma serve_never_out_of_fuel : forall st env bs,
  r_end (serve maxbuf cfg st env bs) <> EndOutOfFuel.
Proof. intros. unfold serve. apply read_loop_never_out_of_fuel. lia. Qed.

(* ---------------------------------------------------------------- the awaiting caller's view *)

(* What the caller awaiting frame f is handed (Message.data on the delivered Message, with the
   order of checks [sf]): exactly f's payload bytes under f's type, or an error — and an error
   only for a payload beyond the limit.  Never a success with other bytes. *)
Definition caller_exact (sf : bool) (f : frame) (d : dispatch) : Prop :=
  forall r, d_reply d = Some r ->
    match caller_data maxbuf sf (d_hdr d) r with
    | Some data => data = f_payload f /\ h_typ (d_hdr d) = f_typ f
    | None => maxbuf < len (f_payload f)
    end.

Lemma expected_dispatch_caller_exact : forall aw e f,
  caller_exact true f (expected_dispatch aw e f).
Proof.
  intros aw e f r. unfold expected_dispatch. cbn [d_reply d_hdr frame_header].
  destruct (awaited aw e f); [|discriminate].
  destruct (N.leb_spec (len (f_payload f)) maxbuf) as [Hle|Hgt];
    intro Hr; inversion Hr; subst; clear Hr; unfold caller_data, frame_header; cbn [h_len h_typ andb].
  - destruct (N.ltb_spec maxbuf (len (f_payload f))); [lia|]. split; reflexivity.
  - destruct (N.ltb_spec maxbuf (len (f_payload f))); [assumption|lia].
Qed.

Lemma expected_log_caller_exact : forall fs st env i,
  Forall2 (caller_exact true) fs (expected_log st env i fs).
Proof.
  induction fs as [|f fs IH]; intros; cbn [expected_log]; constructor.
  - apply expected_dispatch_caller_exact.
  - apply IH.
Qed.

Lemma serve_caller_exact : forall fs st env rest, Forall frame_wf fs ->
  exists l tail,
    r_log (serve maxbuf cfg st env (concat (map frame_bytes fs) ++ rest)) = l ++ tail /\
    Forall2 (caller_exact true) fs l /\
    tail = r_log (serve_from (state_after st env O fs) env (length fs) rest).
Proof.
  intros. rewrite serve_alignment by assumption.
  eexists. eexists. split; [reflexivity|]. split; [apply expected_log_caller_exact|reflexivity].
Qed.

(* with the shortcuts first, EVERY awaited over-limit frame is handed to its caller as a
   success with no bytes *)
Lemma expected_dispatch_nil_first_empty : forall aw e f,
  awaited aw e f = true -> maxbuf < len (f_payload f) ->
  caller_handed maxbuf false (expected_dispatch aw e f) = Some (Some (f_typ f, [])).
Proof.
  intros aw e f Ha Hgt. unfold caller_handed, expected_dispatch. cbn [d_reply d_hdr frame_header].
  rewrite Ha. destruct (N.leb_spec (len (f_payload f)) maxbuf); [lia|]. reflexivity.
Qed.

(* ---------------------------------------------------------------- reader-initiated messages and the real reply *)

Lemma mem_register_mono : forall ids aw x, mem x aw = true -> mem x (register ids aw) = true.
Proof.
  unfold register. induction ids as [|i ids IH]; intros aw x H; cbn [fold_left]; [assumption|].
  apply IH. destruct (mem i aw); [assumption|].
  unfold mem in *. cbn [existsb]. rewrite H. apply orb_true_r.
Qed.

(* a frame of a type that is never looked up in c.awaiting is delivered to no caller and leaves
   every awaiting entry in place *)
Lemma exempt_frame_keeps_entries : forall st e f x,
  never_reply cfg (f_typ f) = true ->
  d_reply (expected_dispatch (s_aw st) e f) = None /\
  (mem x (s_aw st) = true -> mem x (s_aw (state_next st e f)) = true).
Proof.
  intros st e f x Hn. unfold expected_dispatch, awaited, state_next, aw_next.
  cbn [d_reply s_aw]. rewrite Hn. cbn [negb andb]. split; [reflexivity|].
  apply mem_register_mono.
Qed.

Lemma exempt_frames_keep_entries : forall ris st env i x,
  Forall (fun r => never_reply cfg (f_typ r) = true) ris ->
  mem x (s_aw st) = true ->
  Forall (fun d => d_reply d = None) (expected_log st env i ris) /\
  mem x (s_aw (state_after st env i ris)) = true.
Proof.
  induction ris as [|r ris IH]; intros st env i x Hf Hm; cbn [expected_log state_after].
  - split; [constructor|assumption].
  - inversion Hf as [|? ? Hr Hrs]; subst.
    destruct (exempt_frame_keeps_entries st (env i) r x Hr) as [Hd Hk].
    destruct (IH (state_next st (env i) r) env (S i) x Hrs (Hk Hm)) as [Hl Hm'].
    split; [constructor; assumption|assumption].
Qed.

(* a request with id (f_id f) is outstanding; the reader sends any number of frames of exempt
   types (also with that very id), then the real reply f: none of the former is delivered to a
   caller, f is — buffered byte for byte within the limit, header-only beyond it *)
Lemma real_reply_after_exempt_frames : forall ris f st env rest,
  Forall frame_wf (ris ++ [f]) ->
  Forall (fun r => never_reply cfg (f_typ r) = true) ris ->
  never_reply cfg (f_typ f) = false ->
  mem (f_id f) (s_aw st) = true ->
  exists l d tail,
    r_log (serve maxbuf cfg st env (concat (map frame_bytes (ris ++ [f])) ++ rest)) = l ++ d :: tail /\
    length l = length ris /\
    Forall (fun x => d_reply x = None) l /\
    d_hdr d = frame_header f /\
    d_reply d = Some (if len (f_payload f) <=? maxbuf then RBuffered (f_payload f) else RHeaderOnly) /\
    caller_exact true f d.
Proof.
  intros ris f st env rest Hwf Hex Hnf Hm.
  rewrite serve_alignment by assumption. rewrite expected_log_app. cbn [expected_log].
  destruct (exempt_frames_keep_entries ris st env O (f_id f) Hex Hm) as [Hl Hm'].
  exists (expected_log st env O ris).
  exists (expected_dispatch (s_aw (state_after st env O ris)) (env (0 + length ris)%nat) f).
  eexists. unfold prepend. cbn [r_log]. split; [rewrite <- app_assoc; cbn [app]; reflexivity|].
  split; [apply expected_log_length|]. split; [assumption|].
  split; [reflexivity|]. split; [|apply expected_dispatch_caller_exact].
  unfold expected_dispatch, awaited. cbn [d_reply]. rewrite Hnf. cbn [negb andb].
  rewrite (mem_register_mono _ _ _ Hm'). reflexivity.
Qed.

(* ---------------------------------------------------------------- a stream that stalls *)

(* what may be dispatched for a frame whose bytes were cut by the stall: its own header; a handler
   saw a prefix of its payload; no caller was given a buffered reply *)
Definition partial_ok (f : frame) (d : dispatch) : Prop :=
  d_hdr d = frame_header f /\
  (forall c, d_handler d = Some c -> exists q, f_payload f = hc_offered c ++ q) /\
  (forall pl, d_reply d <> Some (RBuffered pl)).

(* the log against the frames the reader sent: complete frames dispatched as specified, in
   order, then possibly ONE frame that was cut — its own header, a prefix of its payload —
   and nothing else *)
Inductive stall_sound (env : nat -> env_step) : state -> nat -> list frame -> list dispatch -> Prop :=
| ss_nil : forall st i fs, stall_sound env st i fs []
| ss_cons : forall st i f fs l,
    stall_sound env (state_next st (env i) f) (S i) fs l ->
    stall_sound env st i (f :: fs) (expected_dispatch (s_aw st) (env i) f :: l)
| ss_partial : forall st i f fs d, partial_ok f d -> stall_sound env st i (f :: fs) [d].

Lemma split_at_short : forall A n (l : list A), len l <= n -> split_at n l = (l, []).
Proof.
  intros A n l. revert n. induction l as [|x l IH]; intros n H; [reflexivity|].
  cbn [split_at]. rewrite len_cons in H.
  destruct (N.eqb_spec n 0); [lia|].
  rewrite IH by lia. reflexivity.
Qed.

Lemma read_header_short : forall bs, len bs < HeaderSz ->
  read_header bs = RhEOF \/ read_header bs = RhShort.
Proof.
  intros bs H. unfold read_header. rewrite split_at_short by lia.
  destruct (len bs =? 0); [left; reflexivity|].
  destruct (N.ltb_spec (len bs) HeaderSz); [right; reflexivity|lia].
Qed.

Lemma pass_to_handler_cut : forall aw e f m q,
  f_payload f = m ++ q -> q <> [] ->
  forall r aw', pass_to_handler maxbuf cfg aw (frame_header f) e m = (r, aw') ->
  exists d, (r = PthOk d [] \/ r = PthErr d) /\ partial_ok f d.
Proof.
  intros aw e f m q Hpl Hq r aw'. unfold pass_to_handler.
  cbn [frame_header h_len h_id h_typ].
  assert (Hlt : len m < len (f_payload f)).
  { rewrite Hpl, len_app. destruct q; [congruence|]. rewrite len_cons. lia. }
  rewrite split_at_short by lia.
  destruct (N.eqb_spec (len m) (len (f_payload f))); [lia|].
  destruct (negb (never_reply cfg (f_typ f)) && mem (f_id f) (register (e_register e) aw));
    destruct (pick_handler cfg (f_typ f)) as [w|];
    try destruct (maxbuf <? len (f_payload f));
    intro H; inversion H; subst; clear H;
    eexists; (split; [first [left; reflexivity|right; reflexivity]|]);
    unfold partial_ok, call_handler; cbn [d_hdr d_handler d_reply option_map hc_offered];
    (split; [reflexivity|split; [intros c Hc; inversion Hc; subst; cbn [hc_offered]; exists q; assumption|intros pl; discriminate]])
    || (split; [reflexivity|split; [intros c Hc; discriminate|intros pl; discriminate]]).
Qed.

Lemma read_loop_stall_unfold : forall ig fuel st env i bs after,
  read_loop_stall maxbuf cfg ig (S fuel) st env i bs after =
  match read_header bs with
  | RhOk h rest =>
      if len rest <? h_len h then
        let cs := s_closed_seen st || ((h_typ h =? MsgCloseConnectionResponse) && e_close_sent (env i)) in
        match pass_to_handler maxbuf cfg (s_aw st) h (env i) rest with
        | (PthOk d _, aw') =>
            if ig then d :: r_log (read_loop maxbuf cfg (S (length after)) (mkState aw' cs) env (S i) after) else [d]
        | (PthErr d, _) => [d]
        end
      else
        match read_iter maxbuf cfg st (env i) bs with
        | ItNext d st' rest' => d :: read_loop_stall maxbuf cfg ig fuel st' env (S i) rest' after
        | ItLast d => [d]
        | ItEnd _ _ => []
        end
  | _ => []
  end.
Proof. reflexivity. Qed.

Lemma stall_loop_sound : forall fs fuel st env i before after,
  Forall frame_wf fs ->
  before ++ after = concat (map frame_bytes fs) ->
  (length before < fuel)%nat ->
  stall_sound env st i fs (read_loop_stall maxbuf cfg false fuel st env i before after).
Proof.
  induction fs as [|f fs IH]; intros fuel st env i before after Hwf Heq Hfuel.
  - cbn [map concat] in Heq. apply app_eq_nil in Heq. destruct Heq as [-> _].
    destruct fuel; [cbn; constructor|]. rewrite read_loop_stall_unfold. cbn. constructor.
  - inversion Hwf as [|? ? Hf Hfs]; subst.
    destruct fuel as [|fuel]; [lia|]. rewrite read_loop_stall_unfold.
    cbn [map concat] in Heq.
    assert (Hcomplete : forall l, before = frame_bytes f ++ l -> l ++ after = concat (map frame_bytes fs) ->
              stall_sound env st i (f :: fs)
                match read_header before with
                | RhOk h rest =>
                    if len rest <? h_len h then
                      let cs := s_closed_seen st || ((h_typ h =? MsgCloseConnectionResponse) && e_close_sent (env i)) in
                      match pass_to_handler maxbuf cfg (s_aw st) h (env i) rest with
                      | (PthOk d _, aw') => [d]
                      | (PthErr d, _) => [d]
                      end
                    else
                      match read_iter maxbuf cfg st (env i) before with
                      | ItNext d st' rest' => d :: read_loop_stall maxbuf cfg false fuel st' env (S i) rest' after
                      | ItLast d => [d]
                      | ItEnd _ _ => []
                      end
                | _ => []
                end).
    { intros l Hb Hl. subst before. unfold frame_bytes at 1. rewrite <- app_assoc.
      rewrite read_header_frame by assumption. cbn [frame_header h_len].
      replace (len (f_payload f ++ l) <? len (f_payload f)) with false
        by (symmetry; apply N.ltb_ge; rewrite len_app; lia).
      rewrite read_iter_frame by assumption.
      constructor. apply IH; try assumption.
      unfold frame_bytes in Hfuel. rewrite !app_length in Hfuel.
      cbn [length header_bytes app be32_bytes] in Hfuel. lia. }
    apply app_eq_app in Heq. destruct Heq as [l [[Hb Hl]|[Hb Hl]]].
    + apply (Hcomplete l Hb). symmetry. exact Hl.
    + destruct l as [|x l'].
      * rewrite app_nil_r in Hb. cbn [app] in Hl. apply (Hcomplete []); [rewrite app_nil_r; auto|]. cbn [app]. exact Hl.
      * (* before is a strict prefix of frame_bytes f *)
        unfold frame_bytes in Hb. apply app_eq_app in Hb. destruct Hb as [m [[Hh Hp]|[Hh Hp]]].
        -- (* header_bytes f = before ++ m *)
           destruct m as [|y m'].
           ++ rewrite app_nil_r in Hh. cbn [app] in Hp. subst before.
              rewrite <- (app_nil_r (header_bytes f)). rewrite read_header_frame by assumption. cbn [frame_header h_len].
              replace (len (@nil byte) <? len (f_payload f)) with true
                by (symmetry; apply N.ltb_lt; rewrite <- Hp, len_cons; cbn; lia).
              fold (frame_header f).
              destruct (pass_to_handler maxbuf cfg (s_aw st) (frame_header f) (env i) []) as [r aw'] eqn:Hpth.
              destruct (pass_to_handler_cut (s_aw st) (env i) f [] (x :: l') (eq_sym Hp) ltac:(discriminate) r aw' Hpth)
                as [d [[->| ->] Hok]]; cbn zeta; apply ss_partial; assumption.
           ++ assert (Hshort : len before < HeaderSz).
              { pose proof (header_bytes_len f) as Hl10. rewrite Hh, len_app, len_cons in Hl10. lia. }
              destruct (read_header_short before Hshort) as [-> | ->]; constructor.
        -- (* before = header_bytes f ++ m, payload = m ++ x :: l' *)
           subst before. rewrite read_header_frame by assumption. cbn [frame_header h_len].
           replace (len m <? len (f_payload f)) with true
             by (symmetry; apply N.ltb_lt; rewrite Hp, len_app, len_cons; lia).
           fold (frame_header f).
           destruct (pass_to_handler maxbuf cfg (s_aw st) (frame_header f) (env i) m) as [r aw'] eqn:Hpth.
           destruct (pass_to_handler_cut (s_aw st) (env i) f m (x :: l') Hp ltac:(discriminate) r aw' Hpth)
             as [d [[->| ->] Hok]]; cbn zeta; apply ss_partial; assumption.
Qed.

Lemma serve_stall_sound : forall fs st env before after,
  Forall frame_wf fs -> before ++ after = concat (map frame_bytes fs) ->
  stall_sound env st O fs (serve_stall maxbuf cfg false st env before after).
Proof. intros. unfold serve_stall. apply stall_loop_sound; auto. Qed.

(* what stall_sound gives, position by position: every dispatched header is the header of the
   frame the reader sent at that position, and a handler saw a prefix of that frame's payload *)
Lemma stall_sound_headers : forall env fs st i l,
  stall_sound env st i fs l ->
  forall j d, nth_error l j = Some d ->
  exists f, nth_error fs j = Some f /\ d_hdr d = frame_header f /\
            (forall c, d_handler d = Some c -> exists q, f_payload f = hc_offered c ++ q).
Proof.
  intros env fs st i l H. induction H as [st i fs|st i f fs l H IH|st i f fs d0 Hp]; intros j d Hn.
  - destruct j; discriminate.
  - destruct j as [|j]; cbn [nth_error] in *.
    + inversion Hn; subst. exists f. split; [reflexivity|]. split; [reflexivity|].
      intros c Hc. unfold expected_dispatch in Hc. cbn [d_handler] in Hc.
      destruct (pick_handler cfg (f_typ f)); inversion Hc; subst. cbn [hc_offered]. exists []. now rewrite app_nil_r.
    + apply IH. assumption.
  - destruct j as [|j]; cbn [nth_error] in *; [|destruct j; discriminate].
    inversion Hn; subst. exists f. destruct Hp as [Hh [Hc _]]. auto.
Qed.

End Spec.

(* witness for the shortcut-first order of Message.data: limit 4, an awaited reply with 5
   payload bytes is handed to its caller as (type 12, no bytes, no error) *)
Lemma wit_nil_first_empty_success :
  let cfg := mkConfig (fun _ => false) false (fun _ => false) in
  let f := mkFrame 0 1 12 7 [1; 2; 3; 4; 5] in
  let r := serve 4 cfg (mkState [7] false) (fun _ => mkEnv [] (HRead 0) false) (frame_bytes f) in
  frame_wf f /\
  exists d, r_log r = [d] /\ d_hdr d = frame_header f /\
            caller_handed 4 false d = Some (Some (12, [])) /\ f_payload f <> [] /\
            caller_handed 4 true d = Some None.
Proof.
  cbv zeta. split; [constructor; vm_compute; reflexivity|].
  eexists. split; [vm_compute; reflexivity|]. vm_compute. repeat split; try reflexivity. discriminate.
Qed.

(* witness: ROAccessReport NOT exempt from the lookup.  Request 7 is outstanding; the reader
   sends a report that happens to carry id 7, then the real reply (type 12): the report is
   delivered to the caller and the real reply to nobody *)
Lemma wit_report_not_exempt_steals_reply :
  let cfg_bad := mkConfig (fun _ => false) true (fun t => (t =? 62) || (t =? 63)) in
  let cfg_ok := mkConfig (fun _ => false) true reader_initiated in
  let fs := [mkFrame 0 1 61 7 [9; 9]; mkFrame 0 1 12 7 [1; 2; 3]] in
  let env := fun _ : nat => mkEnv [] (HRead 0) false in
  Forall frame_wf fs /\
  map d_reply (r_log (serve 100 cfg_bad (mkState [7] false) env (concat (map frame_bytes fs))))
  = [Some (RBuffered [9; 9]); None] /\
  map d_reply (r_log (serve 100 cfg_ok (mkState [7] false) env (concat (map frame_bytes fs))))
  = [None; Some (RBuffered [1; 2; 3])].
Proof.
  cbv zeta. split; [repeat constructor; vm_compute; reflexivity|]. vm_compute. split; reflexivity.
Qed.

(* witness: the drain's error dropped.  One frame (type 12, a handler that reads nothing) whose
   payload is 1 2 3 followed by bytes that look like a frame (type 30, id 99, payload 7 7); the
   stream stalls after the third payload byte: a second message is dispatched that the reader
   never sent; the tree as found dispatches the cut frame only *)
Lemma wit_stall_resync :
  let cfg := mkConfig (fun t => t =? 12) true (fun _ => false) in
  let inner := mkFrame 0 1 30 99 [7; 7] in
  let f := mkFrame 0 1 12 5 ([1; 2; 3] ++ frame_bytes inner) in
  let env := fun _ : nat => mkEnv [] (HRead 0) false in
  let before := header_bytes f ++ [1; 2; 3] in
  let after := frame_bytes inner in
  frame_wf f /\ before ++ after = concat (map frame_bytes [f]) /\
  map d_hdr (serve_stall 100 cfg true st0 env before after) = [frame_header f; frame_header inner] /\
  map d_hdr (serve_stall 100 cfg false st0 env before after) = [frame_header f].
Proof.
  cbv zeta. split; [constructor; vm_compute; reflexivity|]. vm_compute. repeat split; reflexivity.
Qed.

(* ------------------------------------------------------------------ stages / refused close (round 10) *)

Lemma read_loop_staged_faithful : forall maxbuf cfg neg fuel st env i bs,
  read_loop_staged false false maxbuf cfg neg fuel st env i bs = read_loop maxbuf cfg fuel st env i bs.
Proof.
  induction fuel as [|fuel IH]; intros; simpl; [reflexivity|].
  destruct (read_iter maxbuf cfg st (env i) bs); try reflexivity.
  now rewrite IH.
Qed.

Lemma serve_staged_faithful : forall maxbuf cfg neg st env bs,
  serve_staged false false maxbuf cfg neg st env bs = serve maxbuf cfg st env bs.
Proof. intros. apply read_loop_staged_faithful. Qed.

(* for every placement of the stages: the frames are dispatched as specified, the loop goes on behind them *)
Lemma serve_staged_alignment : forall maxbuf cfg neg fs st env rest, Forall frame_wf fs ->
  serve_staged false false maxbuf cfg neg st env (concat (map frame_bytes fs) ++ rest)
  = prepend (expected_log maxbuf cfg st env O fs)
            (serve_from maxbuf cfg (state_after cfg st env O fs) env (length fs) rest).
Proof. intros. rewrite serve_staged_faithful. now apply serve_alignment. Qed.

(* a CloseConnectionResponse answering this client's CloseConnection, then anything: everything behind it is
   dispatched as specified, with the state the response left behind *)
Lemma serve_after_close_response : forall maxbuf cfg neg fs1 ccr fs2 st env,
  Forall frame_wf (fs1 ++ ccr :: fs2) ->
  r_log (serve_staged false false maxbuf cfg neg st env (concat (map frame_bytes (fs1 ++ ccr :: fs2))))
  = expected_log maxbuf cfg st env O (fs1 ++ [ccr])
    ++ expected_log maxbuf cfg (state_after cfg st env O (fs1 ++ [ccr])) env (length fs1 + 1) fs2.
Proof.
  intros. rewrite serve_staged_faithful, serve_whole_stream by assumption. simpl.
  replace (fs1 ++ ccr :: fs2) with ((fs1 ++ [ccr]) ++ fs2) by (now rewrite <- app_assoc).
  rewrite expected_log_app. rewrite app_length. simpl. reflexivity.
Qed.

(* witness: user handlers gated on the ready flag.  A report (type 61, which has a MessageHandler) arrives while the
   client is negotiating: gated, it is discarded as unhandled — no handler call; as found, the handler is called with
   exactly its bytes.  Once the client is ready both variants agree. *)
Lemma wit_gated_handlers_drop_early_message :
  let cfg := mkConfig (fun t => t =? 61) false reader_initiated in
  let f := mkFrame 0 2 61 77 [222; 173; 190] in
  let env := fun _ : nat => mkEnv [] (HRead 3) false in
  let negotiating := fun _ : nat => true in
  let ready := fun _ : nat => false in
  frame_wf f /\
  map (fun d => (d_handler d, d_discarded d)) (r_log (serve_staged true false 100 cfg negotiating st0 env (frame_bytes f)))
  = [(None, true)] /\
  map (fun d => (d_handler d, d_discarded d)) (r_log (serve_staged false false 100 cfg negotiating st0 env (frame_bytes f)))
  = [(Some (mkCall TypeHandler false [222; 173; 190] 3 false), false)] /\
  serve_staged true false 100 cfg ready st0 env (frame_bytes f) = serve_staged false false 100 cfg ready st0 env (frame_bytes f).
Proof.
  cbv zeta. split; [constructor; vm_compute; reflexivity|]. vm_compute. repeat split; reflexivity.
Qed.

(* witness: the loop that stops reading at the answer to its CloseConnection.  The reader refuses the close (the status
   in the payload is not looked at by either loop) and then sends a report: stopping, the report is never dispatched —
   its bytes are left unread; as found, it reaches its handler. *)
Lemma wit_stop_at_close_loses_later_messages :
  let cfg := mkConfig (fun t => t =? 61) false reader_initiated in
  let ccr := mkFrame 0 1 4 0 [1; 31; 0; 8; 1; 145; 0; 0] in      (* LLRPStatus 401 *)
  let rep := mkFrame 0 1 61 41 [202; 254] in
  let env := fun _ : nat => mkEnv [0] (HRead 2) true in
  let neg := fun _ : nat => false in
  Forall frame_wf [ccr; rep] /\
  map d_hdr (r_log (serve_staged false true 100 cfg neg st0 env (concat (map frame_bytes [ccr; rep])))) = [frame_header ccr] /\
  r_rest (serve_staged false true 100 cfg neg st0 env (concat (map frame_bytes [ccr; rep]))) = frame_bytes rep /\
  map d_hdr (r_log (serve_staged false false 100 cfg neg st0 env (concat (map frame_bytes [ccr; rep]))))
  = [frame_header ccr; frame_header rep].
Proof.
  cbv zeta. split; [repeat constructor; vm_compute; reflexivity|]. vm_compute. repeat split; reflexivity.
Qed.

(* ------------------------------------------------------------------ whoever awaits (round 11)
   which callers await — or have stopped awaiting: a caller that gives up removes its entry — changes who is handed a
   message, never where the next one starts *)
Lemma expected_log_headers : forall maxbuf cfg fs st env i,
  map d_hdr (expected_log maxbuf cfg st env i fs) = map frame_header fs.
Proof. induction fs as [|f fs IH]; intros; cbn [expected_log map]; [reflexivity|]. now rewrite IH. Qed.

Lemma serve_headers_whoever_awaits : forall maxbuf cfg fs st env, Forall frame_wf fs ->
  map d_hdr (r_log (serve maxbuf cfg st env (concat (map frame_bytes fs)))) = map frame_header fs
  /\ r_rest (serve maxbuf cfg st env (concat (map frame_bytes fs))) = [].
Proof. intros. rewrite serve_whole_stream by assumption. simpl. split; [apply expected_log_headers|reflexivity]. Qed.
