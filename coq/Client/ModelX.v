(* Client/ModelX.v — the client LTS with the one transition the fix for the C09 finding adds.

   Today (reader.go 420-424) Connect calls negotiate() and waits for it and for nothing else; the
   errors the two loops report on [errs] are looked at only in the final select (430-436). If a
   loop ends while negotiate's send waits for its reply, nobody closes c.done and Connect never
   returns (notes/C09.md). The fixed Connect selects on [errs] while negotiate runs.

   [xstep watch]: watch = false is [step] (by computation); watch = true additionally enables
   [ConnSelect true] (Connect takes <-errs) in the negotiating phases, with the effect of a failed
   negotiation that reports the loop's error (deferred Close included). No constructor is added
   to [event] and no field to [config], so everything proved about [step] stays as it is.
   Executable definitions only. *)
From Coq Require Import NArith List Bool.
From LLRP Require Import Client.Types Client.Model.
Import ListNotations.
Open Scope N_scope.

Definition neg_abort (s : state) : state :=
  match phase s with
  | PNegotiating _ _ => match errs s with e :: _ => neg_fail_with (CErrLoop e) s | [] => s end
  | _ => s
  end.

Definition xstep (watch : bool) (cfg : config) (s : state) (e : event) : state :=
  if watch then
    match e, phase s with
    | ConnSelect true, PNegotiating _ _ => neg_abort s
    | _, _ => step cfg s e
    end
  else step cfg s e.

Definition xrun_from (watch : bool) (cfg : config) (s : state) (evs : list event) : state :=
  fold_left (xstep watch cfg) evs s.
Definition xrun (watch : bool) (cfg : config) (evs : list event) : state := xrun_from watch cfg (init cfg) evs.
