(* Client/C03Zero.v — no caller is ever handed a fabricated reply.

   In Go a caller's send() receives from its private reply channel without looking at the "ok" flag
   (reader.go, send: `case resp := <-token.replyChan`), so CLOSING that channel while the caller is
   parked there makes SendMessage return the zero Message with a nil error: a "reply" (type 0, no
   payload) nobody sent. The model keeps that outcome as the result [RZero]. The only transition that
   produces it is token.cancel() run for ANOTHER request that was given the same message id
   (Model.do_cancel); every other event — in particular a failing Write, the write loop's exit, Close,
   the read loop's death — leaves the reply channels alone: the waiting callers are woken through
   c.done and return an error. This file proves that along every run in which ids are pairwise distinct
   (C05_ids_pairwise_distinct: no caller-chosen ids, at most 2^32 requests) [RZero] never occurs. *)
From Coq Require Import NArith Arith List Bool Lia.
From LLRP Require Import Client.Types Client.Model Client.MapLemmas Client.StepFacts Client.InvCore
     Client.C03Proofs Client.InvAck Client.InvOut Client.C05Proofs.
Import ListNotations.
Open Scope N_scope.

Definition is_zero (p : cphase) : bool := match p with Done _ RZero => true | _ => false end.
Definition zero_free (l : list (N * cphase)) : Prop := forall c p, lookup c l = Some p -> is_zero p = false.

Lemma zf_update : forall l c p, zero_free l -> is_zero p = false -> zero_free (update c p l).
Proof.
  intros l c p Hl Hp c' p' H. rewrite lookup_update in H. destruct (c' =? c).
  - destruct (lookup c l); [|discriminate]. inversion H; subst. exact Hp.
  - eapply Hl; eauto.
Qed.

Lemma zf_app : forall l c p, zero_free l -> is_zero p = false -> zero_free (l ++ [(c, p)]).
Proof.
  intros l c p Hl Hp c' p' H. rewrite lookup_app in H. destruct (lookup c' l) eqn:E.
  - inversion H; subst. eapply Hl; eauto.
  - destruct (c' =? c); [|discriminate]. inversion H; subst. exact Hp.
Qed.

(* token.cancel() of caller c for id i closes nobody else's channel when ids are distinct *)
Lemma do_cancel_zero_free : forall cfg c i r s,
  core_inv cfg s -> NoDup (ids_assigned s) -> lookup c (callers s) = Some (HasToken r i) ->
  callers (do_cancel c i s) = callers s.
Proof.
  intros cfg c i r s Hinv Hnd Hc. unfold do_cancel.
  destruct (lookup i (awaiting s)) as [c'|] eqn:Ha; [|reflexivity].
  destruct (c' =? c) eqn:E; [reflexivity|]. exfalso.
  destruct (ci_await cfg s Hinv i c' Ha) as (r' & Hc').
  pose proof (ci_token cfg s Hinv c r i Hc) as H1.
  pose proof (ci_token cfg s Hinv c' r' i Hc') as H2.
  assert (Heq : (c, i) = (c', i)).
  { apply (nodup_proj_functional snd (assigned s)); auto. }
  inversion Heq; subst. rewrite N.eqb_refl in E. discriminate.
Qed.

Lemma leave_zero_free : forall cfg res c s,
  core_inv cfg s -> NoDup (ids_assigned s) -> is_zero (Done (mkReq 0 0 0 0 0 false false) res) = false ->
  zero_free (callers s) -> zero_free (callers (leave res c s)).
Proof.
  intros cfg res c s Hinv Hnd Hres Hz. unfold leave.
  assert (Hd : forall r, is_zero (Done r res) = false) by (intros r; destruct res; cbn in *; congruence).
  destruct (lookup c (callers s)) as [[r|r|r i|r res0]|] eqn:Hc; try assumption.
  - unfold set_caller. st_simpl_goal. apply zf_update; auto.
  - unfold set_caller. st_simpl_goal. apply zf_update; auto.
  - unfold set_caller. st_simpl_goal. rewrite (do_cancel_zero_free cfg c i r s Hinv Hnd Hc). apply zf_update; auto.
Qed.

Lemma take_waiter_zero_free : forall cfg whole seq f s,
  zero_free (callers s) -> zero_free (callers (fst (take_waiter cfg whole seq f s))).
Proof.
  intros cfg whole seq f s Hz. unfold take_waiter.
  destruct (consults cfg (f_typ f)); [|assumption].
  destruct (lookup (f_id f) (awaiting s)) as [c|]; [|assumption].
  destruct (whole || (max_buffered <? f_len f)); cbn [fst]; [|st_simpl_goal; assumption].
  st_simpl_goal. destruct (lookup c (callers s)) as [[r|r|r i|r res0]|]; cbn [fst]; st_simpl_goal; try assumption.
  unfold set_caller. st_simpl_goal. apply zf_update; [assumption|reflexivity].
Qed.

Lemma zero_free_step : forall cfg s e,
  core_inv cfg s -> NoDup (ids_assigned s) ->
  zero_free (callers s) -> zero_free (callers (step cfg s e)).
Proof.
  intros cfg s e Hinv Hnd Hz. destruct e; cbn [step].
  - (* Submit *) unfold step_submit. destruct (is_fresh c s && _); [|assumption].
    st_simpl_goal. apply zf_app; [assumption|]. destruct (q_gate r); reflexivity.
  - (* PassGate *) unfold step_pass_gate.
    destruct (lookup c (callers s)) as [[r|r|r i|r res0]|]; try assumption.
    destruct (ready s); [|assumption]. unfold set_caller. st_simpl_goal.
    apply zf_update; [assumption|]. destruct (max_payload <? q_len r); reflexivity.
  - (* SeeClosed *) unfold step_see_closed. destruct (closed s); [|assumption].
    apply (leave_zero_free cfg); auto.
  - (* Cancel *) unfold step_cancel. apply (leave_zero_free cfg); auto.
  - unfold step_wdefault. destruct (writer s), (ackq s); try assumption. destruct (closed s); assumption.
  - (* WAccept *) unfold step_waccept.
    destruct (writer s); try assumption.
    destruct (lookup c (callers s)) as [[r|r|r i|r res0]|]; try assumption.
    cbn zeta. unfold set_caller.
    destruct (q_wait r), (q_id r =? 0); st_simpl_goal; apply zf_update; auto.
  - unfold step_wtakeack. destruct (writer s), (ackq s); assumption.
  - unfold step_wwritehdr. destruct (writer s); try assumption. destruct (f_len _ =? _); assumption.
  - unfold step_wwritepay. destruct (writer s); assumption.
  - (* WriteFail: the failing Write wakes nobody *)
    unfold step_writefail. destruct (writer s); try assumption.
    + destruct (k <? header_sz); assumption.
    + destruct (k <? f_len _); assumption.
  - unfold step_wseedone. destruct (writer s); try assumption; destruct (closed s); assumption.
  - unfold step_rcheck. destruct (reader s); try assumption. destruct (closed s); assumption.
  - unfold step_rseedone. destruct (reader s); try assumption; destruct (closed s); assumption.
  - (* RFrame *) unfold step_rframe. destruct (reader s); try assumption.
    destruct (take_waiter cfg true (length (peer_sent s)) f
                (note_close_resp f (set_peer_sent (peer_sent s ++ [f]) s))) as [s2 rep] eqn:Htw.
    pose proof (take_waiter_zero_free cfg true (length (peer_sent s)) f
                  (note_close_resp f (set_peer_sent (peer_sent s ++ [f]) s))) as H1.
    rewrite Htw in H1. cbn [fst] in H1.
    destruct (note_close_resp_callers f (set_peer_sent (peer_sent s ++ [f]) s)) as (E1 & _).
    rewrite E1 in H1. st_simpl.
    destruct (run_handler_callers cfg (length (peer_sent s)) f h rep s2) as (E3 & _).
    rewrite E3. auto.
  - (* PeerEOF *) unfold step_peer_eof. destruct (reader s); try assumption.
    destruct p.
    + destruct (saw_close s); unfold reader_dies; st_simpl_goal; assumption.
    + unfold reader_dies; st_simpl_goal; assumption.
    + destruct (take_waiter cfg false (length (peer_sent s)) f
                  (note_close_resp f (set_peer_sent (peer_sent s ++ [f]) s))) as [s2 rep] eqn:Htw.
      pose proof (take_waiter_zero_free cfg false (length (peer_sent s)) f
                    (note_close_resp f (set_peer_sent (peer_sent s ++ [f]) s))) as H1.
      rewrite Htw in H1. cbn [fst] in H1.
      destruct (note_close_resp_callers f (set_peer_sent (peer_sent s ++ [f]) s)) as (E1 & _).
      rewrite E1 in H1. st_simpl.
      destruct (rep && (f_len f <=? max_buffered)).
      * unfold reader_dies; st_simpl_goal. auto.
      * destruct (run_handler_callers cfg (length (peer_sent s)) f HBAll rep s2) as (E3 & _).
        destruct (eof_after_dispatch_callers cfg f rep (run_handler cfg (length (peer_sent s)) f HBAll rep s2)) as (E5 & _).
        rewrite E5, E3. auto.
  - unfold step_close. destruct (closed s); assumption.
  - unfold step_conn_start. destruct (phase s); assumption.
  - (* ConnFirst *) unfold step_conn_first. destruct (phase s); try assumption.
    destruct (max_buffered <? f_len f); [unfold init_fail; st_simpl_goal; assumption|].
    set (s2 := match first_handler cfg (f_typ f) with Some _ => _ | None => _ end).
    assert (Hs2 : callers s2 = callers s).
    { subst s2. destruct (first_handler cfg (f_typ f)) as [k|]; [|reflexivity].
      destruct k; try reflexivity.
      match goal with |- callers (ack_enqueue ?i ?x) = _ => destruct (ack_enqueue_callers i x) as (A & _); rewrite A end.
      reflexivity. }
    destruct ((f_typ f =? T_ReaderEventNotification) && is_conn_success (f_info f)); unfold init_fail; st_simpl_goal;
      rewrite Hs2; assumption.
  - unfold step_conn_first_fail, init_fail. destruct (phase s); assumption.
  - (* NegSubmit *) unfold step_neg_submit, is_fresh.
    destruct (phase s) as [| |st o| | |]; try assumption.
    destruct st, o; try assumption;
      (destruct (lookup c (callers s)); [assumption|]); st_simpl_goal; (apply zf_app; [assumption|reflexivity]).
  - (* NegStep *) unfold step_neg_step, neg_fail, neg_fail_with.
    destruct (phase s) as [| |st o| | |]; try assumption.
    destruct o as [c0|]; [|destruct st; assumption].
    destruct (lookup c0 (callers s)) as [[r|r|r i|r res0]|]; try (destruct st; assumption).
    destruct st, res0; st_simpl_goal; try assumption.
    + destruct (gsv_outcome f) as [[cur mx]|]; [destruct (cur =? _)|]; st_simpl_goal; assumption.
    + destruct (spv_ok f); st_simpl_goal; assumption.
  - unfold step_conn_ready. destruct (phase s) as [| |st o| | |]; try assumption. destruct st; assumption.
  - unfold step_conn_select. destruct (phase s); try assumption.
    destruct pick_err; [destruct (errs s)|destruct (closed s)]; assumption.
  - unfold step_conn_return. destruct (phase s); try assumption. destruct (_ && _); assumption.
  - unfold step_shutdown_close, step_close.
    destruct (lookup c (callers s)) as [[r|r|r i|r res0]|]; try assumption.
    destruct res0; try assumption.
    destruct (_ && _); [destruct (closed _)|]; assumption.
Qed.

Lemma ids_prefix_nodup : forall cfg s e, NoDup (ids_assigned (step cfg s e)) -> NoDup (ids_assigned s).
Proof.
  intros cfg s e H. unfold ids_assigned in *.
  destruct (step_evolve any_req cfg s e (ev_new_ok_any e)) as (_ & [E|(c & i & E)]); rewrite E in H; [assumption|].
  rewrite map_app in H. eapply NoDup_app_keep_l; eauto.
Qed.

Lemma run_snoc : forall cfg evs e, run cfg (evs ++ [e]) = step cfg (run cfg evs) e.
Proof. intros. unfold run, run_from. rewrite fold_left_app. reflexivity. Qed.

Theorem zero_free_run : forall cfg evs,
  NoDup (ids_assigned (run cfg evs)) -> zero_free (callers (run cfg evs)).
Proof.
  intros cfg evs. induction evs as [|e evs IH] using rev_ind; intros Hnd.
  - intros c p H. cbn in H. discriminate.
  - rewrite run_snoc in *. pose proof (ids_prefix_nodup cfg _ _ Hnd) as Hnd'.
    apply zero_free_step; [apply core_inv_run | assumption | auto].
Qed.

Theorem no_fabricated_reply : forall cfg evs c r,
  no_preset evs -> N.of_nat (length (assigned (run cfg evs))) <= two32 ->
  caller_phase (run cfg evs) c <> Some (Done r RZero).
Proof.
  intros cfg evs c r Hnp Hlen H.
  pose proof (zero_free_run cfg evs (ids_pairwise_distinct cfg evs Hnp Hlen) c _ H) as Hz. discriminate.
Qed.

(* the step that matters for a failing Write, in ANY state: it touches no caller and no await entry *)
Theorem write_failure_wakes_nobody : forall cfg s k,
  callers (step cfg s (WriteFail k)) = callers s /\ awaiting (step cfg s (WriteFail k)) = awaiting s /\
  delivered (step cfg s (WriteFail k)) = delivered s.
Proof.
  intros. cbn [step]. unfold step_writefail. destruct (writer s); try (repeat split; reflexivity).
  - destruct (k <? header_sz); repeat split; reflexivity.
  - destruct (k <? f_len _); repeat split; reflexivity.
Qed.
