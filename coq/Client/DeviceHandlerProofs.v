(* Client/DeviceHandlerProofs.v — acknowledgement and the device service's handlers *)
From Coq Require Import NArith List Bool Arith Lia.
From LLRP Require Import Client.DeviceHandler.
Import ListNotations.

(* ---- forwarding from a goroutine of its own: the read loop never waits for the channel ---- *)
Lemma spawn_step_head : forall cap s e, rloop s = RLHead -> rloop (dstep false cap s e) = RLHead.
Proof.
  intros cap s e H. destruct e; cbn -[Nat.ltb].
  - rewrite H. destruct (inbound s) as [|[|i] r]; cbn -[Nat.ltb]; auto.
  - destruct (chan s <? cap); [|assumption]. destruct (forwarders s); cbn -[Nat.ltb]; assumption.
  - destruct (chan s); cbn -[Nat.ltb]; [|assumption]. destruct (forwarders s); cbn -[Nat.ltb]; assumption.
Qed.

Theorem spawn_read_loop_never_blocks : forall cap evs s,
  rloop s = RLHead -> rloop (drun false cap evs s) = RLHead.
Proof.
  intros cap evs. induction evs as [|e evs IH]; intros s H; cbn -[Nat.ltb]; [assumption|].
  apply IH. now apply spawn_step_head.
Qed.

(* what the read loop has acknowledged and still has to read depends on its own steps only:
   forwarding and consuming events — the application's side — can be dropped from the schedule *)
Lemma spawn_nonread_irrelevant : forall cap s e, is_read e = false ->
  inbound (dstep false cap s e) = inbound s /\ acks (dstep false cap s e) = acks s /\ rloop (dstep false cap s e) = rloop s.
Proof.
  intros cap s e He. destruct e; try discriminate; cbn -[Nat.ltb].
  - destruct (chan s <? cap); [|auto]. destruct (forwarders s); cbn -[Nat.ltb]; auto.
  - destruct (chan s); cbn -[Nat.ltb]; [|auto]. destruct (forwarders s); cbn -[Nat.ltb]; auto.
Qed.

Lemma spawn_read_effect : forall cap s s',
  rloop s = RLHead -> rloop s' = RLHead -> inbound s' = inbound s -> acks s' = acks s ->
  inbound (dstep false cap s' DRead) = inbound (dstep false cap s DRead) /\
  acks (dstep false cap s' DRead) = acks (dstep false cap s DRead).
Proof.
  intros cap s s' H H' Ei Ea. cbn -[Nat.ltb]. rewrite H, H', Ei, Ea.
  destruct (inbound s) as [|[|i] r] eqn:E; cbn -[Nat.ltb]; rewrite ?E; auto.
Qed.

Theorem spawn_acks_ignore_application : forall cap evs s s',
  rloop s = RLHead -> rloop s' = RLHead -> inbound s' = inbound s -> acks s' = acks s ->
  acks (drun false cap evs s') = acks (drun false cap (filter is_read evs) s) /\
  inbound (drun false cap evs s') = inbound (drun false cap (filter is_read evs) s).
Proof.
  intros cap evs. induction evs as [|e evs IH]; intros s s' H H' Ei Ea; cbn [drun fold_left filter]; [auto|].
  destruct (is_read e) eqn:He.
  - destruct e; try discriminate. cbn [fold_left].
    destruct (spawn_read_effect cap s s' H H' Ei Ea) as (A & B).
    apply IH; auto using spawn_step_head.
  - destruct (spawn_nonread_irrelevant cap s' e He) as (A & B & C).
    apply IH; auto; congruence.
Qed.

(* with the consumer completely stalled and whatever the capacity: reading the frames acknowledges every keep-alive *)
Lemma spawn_reads : forall cap items s,
  rloop s = RLHead -> inbound s = items ->
  acks (drun false cap (repeat DRead (length items)) s) = acks s ++ ka_ids items.
Proof.
  intros cap items. induction items as [|it items IH]; intros s H Hi; cbn [length repeat drun fold_left].
  - cbn -[Nat.ltb]. now rewrite app_nil_r.
  - assert (Hs : rloop (dstep false cap s DRead) = RLHead) by now apply spawn_step_head.
    fold (drun false cap (repeat DRead (length items)) (dstep false cap s DRead)).
    rewrite (IH (dstep false cap s DRead) Hs).
    + cbn -[Nat.ltb]. rewrite H, Hi. destruct it as [|i]; cbn -[Nat.ltb]; [reflexivity|]. now rewrite <- app_assoc.
    + cbn -[Nat.ltb]. rewrite H, Hi. destruct it; reflexivity.
Qed.

Theorem spawn_keepalives_reach_ack_queue : forall cap items evs,
  filter is_read evs = repeat DRead (length items) ->
  acks (drun false cap evs (dinit items)) = ka_ids items.
Proof.
  intros cap items evs Hf.
  destruct (spawn_acks_ignore_application cap evs (dinit items) (dinit items)) as (A & _); try reflexivity.
  rewrite A, Hf. now rewrite (spawn_reads cap items (dinit items)).
Qed.

(* ---- sending from the handler itself: one full channel and a stalled consumer stop the read loop ---- *)
Definition starving : list item := [IReport; IReport; IKeepAlive 7].

Definition stuck_inv (s : dstate) : Prop :=
  acks s = [] /\ forwarders s = O /\
  ((chan s = 0 /\ rloop s = RLHead /\ inbound s = starving) \/
   (chan s = 1 /\ rloop s = RLHead /\ inbound s = [IReport; IKeepAlive 7]) \/
   (chan s = 1 /\ rloop s = RLSending /\ inbound s = [IKeepAlive 7])).

Lemma stuck_step : forall s e, is_consume e = false -> stuck_inv s -> stuck_inv (dstep true 1 s e).
Proof.
  intros s e He (Ha & Hf & [ (C & R & I) | [ (C & R & I) | (C & R & I) ] ]); destruct e; try discriminate; cbn -[Nat.ltb];
    rewrite ?R, ?I, ?C; cbn; unfold stuck_inv; cbn; rewrite ?Ha, ?Hf; auto 8.
  all: unfold starving in *; try (rewrite R; cbn); auto 8.
Qed.

Theorem inline_starves_keepalive : forall evs,
  forallb (fun e => negb (is_consume e)) evs = true ->
  acks (drun true 1 evs (dinit starving)) = [] /\ ka_ids starving = [7%N].
Proof.
  intros evs H. split; [|reflexivity].
  assert (G : forall s, stuck_inv s -> stuck_inv (drun true 1 evs s)).
  { induction evs as [|e evs IH]; intros s Hs; cbn; [assumption|].
    cbn in H. apply andb_prop in H as (H1 & H2). apply IH; [assumption|].
    apply stuck_step; [|assumption]. destruct (is_consume e); [discriminate|reflexivity]. }
  assert (H0 : stuck_inv (dinit starving)) by (unfold stuck_inv; split; [reflexivity|]; split; [reflexivity|]; left; repeat split).
  destruct (G (dinit starving) H0) as (A & _). exact A.
Qed.
