(* C12 — lemmas about Client/StatusWire.v *)
From Coq Require Import NArith List Bool Lia.
From LLRP Require Import Client.Status Client.StatusProofs Client.StatusExchange Client.StatusExchangeProofs Client.StatusWire.
Import ListNotations.
Open Scope N_scope.

Lemma number_app : forall a n b, number n (a ++ b) = number n a ++ number (n + written a) b.
Proof.
  induction a as [|ev a IH]; intros n b.
  - cbn. rewrite N.add_0_r. reflexivity.
  - destruct ev; cbn [app number written]; rewrite IH; cbn [app];
      try (replace (n + 1 + written a) with (n + (1 + written a)) by lia); reflexivity.
Qed.

(* every id handed out from counter value n on is at least n: a later message never repeats an earlier id *)
Lemma number_quiet : forall evs n id, id < n -> Forall (wquiet id) evs -> Forall (quiet id) (number n evs).
Proof.
  induction evs as [|ev r IH]; intros n id L F; [constructor|].
  inversion F as [|? ? Q QR]; subst. destruct ev; cbn [number].
  - constructor; [cbn; lia|]. apply IH; [lia|exact QR].
  - apply IH; [lia|exact QR].
  - constructor; [exact Q|]. apply IH; assumption.
  - constructor; [exact I|]. apply IH; assumption.
  - constructor; [exact Q|]. apply IH; assumption.
Qed.

(* the caller of a request is told the outcome of the reader's answer to THAT message — the frame echoing the
   number the write loop gave it — whatever other messages (requests, SendNoWait) were written before or after,
   whatever answers to those arrive in between *)
Lemma wire_own_reply : forall v n0 pre e mid f post,
  Forall (wquiet (n0 + written pre)) mid ->
  fr_id f = n0 + written pre -> reader_initiated (fr_type f) = false ->
  In (n0 + written pre, XOutcome (send_for_outcome e (fr_type f) (fr_dec f)))
     (wresults v n0 (pre ++ WRequest e :: mid ++ WFrame f :: post)).
Proof.
  intros v n0 pre e mid f post Q I R. unfold wresults.
  rewrite number_app. cbn [number]. rewrite number_app. cbn [number].
  apply own_reply_outcome; [|exact I|exact R].
  apply number_quiet; [lia|exact Q].
Qed.

(* a message that was written without awaiting a reply never gets a result, and its answer is nobody's reply:
   stated through the converse — every outcome belongs to a request, and comes from a frame echoing its number *)
Lemma wire_outcome_only_own : forall v n0 evs id o,
  In (id, XOutcome o) (wresults v n0 evs) ->
  exists pre e mid f post,
    number n0 evs = pre ++ XSend id e :: mid ++ XRecv f :: post /\ Forall (quiet id) mid /\
    fr_id f = id /\ reader_initiated (fr_type f) = false /\ o = send_for_outcome e (fr_type f) (fr_dec f).
Proof. intros v n0 evs id o H. exact (outcome_from_own_reply v (number n0 evs) id o H). Qed.

(* the ids of requests are the positions of their writes: request ids in [number n evs] are >= n and strictly increasing *)
Lemma number_send_ids : forall evs n id e, In (XSend id e) (number n evs) -> n <= id /\ id < n + written evs.
Proof.
  induction evs as [|ev r IH]; intros n id e H; [contradiction|].
  destruct ev; cbn [number written] in *.
  - destruct H as [H|H]; [injection H as H1 H2; subst; lia|]. destruct (IH _ _ _ H). lia.
  - destruct (IH _ _ _ H). lia.
  - destruct H as [H|H]; [discriminate|]. exact (IH _ _ _ H).
  - destruct H as [H|H]; [discriminate|]. exact (IH _ _ _ H).
  - destruct H as [H|H]; [discriminate|]. exact (IH _ _ _ H).
Qed.
