(* Client/NegRefine.v — consistency of the two models of version negotiation:
     Client/Negotiate.v  the decision function [negotiate]/[session] + the stamping rule (C06)
     Client/Model.v      the client LTS (phases PNegotiating …, events NegSubmit/NegStep/ConnReady,
                         stamping in WWriteHdr)
   Each is tied to the Go code separately; here the LTS is run through the canonical negotiation
   schedule against a reader that answers each negotiation message it receives with the frame that
   stands for the given reaction, and its observables are shown to be those [session] computes. *)
From Coq Require Import NArith List Bool Lia.
From LLRP Require Import Client.Types Client.Model.
From LLRP Require Client.Negotiate.
Import ListNotations.
Open Scope N_scope.

Module Ng := LLRP.Client.Negotiate.

(* ---- configurations --------------------------------------------------------------------- *)
(* A Client built with NewClient(WithVersion(cmax)) and no handler options: built-in ackHandler, no
   user handlers, no default handler. [fu] (does passToHandler skip reader-initiated types) is
   arbitrary; the write loop's stamping variant is the C06 model's [writer_overrides]. *)
Definition lts_cfg (nc : Ng.config) (fu : bool) (cmax : N) : config :=
  mkConfig fu (Ng.writer_overrides nc) cmax true [] false.

(* what newMessage pre-stamps into a request built by SendMessage *)
Definition qver_of (nc : Ng.config) : N := if Ng.prestamp nc then 1 else 0.

(* ---- the reader: reactions as frames ---------------------------------------------------- *)
Definition c1 : N := 1000000.      (* caller ids of negotiate's two internal sends (Script.neg_caller) *)
Definition c2 : N := 1000001.
Definition c3 : N := 0.            (* the later SendMessage *)

(* first message: ReaderEventNotification with ConnectionAttemptEvent = Success *)
Definition ren : frame := mkFrame 1 T_ReaderEventNotification 0 22 7 (IConn 0).

(* The frame a reaction stands for, as an answer to the request with id [id] whose proper
   response type is [resp] (56 / 57).  [versions]: the response carries the two version bytes
   (GET_SUPPORTED_VERSION_RESPONSE).  What the client sees inside the payload is [f_info]; the
   LTS does not decode bytes, so the decoding [data[0] >> 5] of the version bytes is applied here
   ([Ng.reader_ver]).  None: no reply (the internal send ends with ctx.Err(): event Cancel). *)
Definition reply_frame (versions : bool) (resp id : N) (r : Ng.reaction) : option frame :=
  match r with
  | Ng.Resp cb mb st =>
      Some (mkFrame 2 resp id (if versions then 10 else 8) 11
              (if versions then IVer (Ng.reader_ver cb) (Ng.reader_ver mb) st else IStatus st))
  | Ng.ErrMsg st => Some (mkFrame 2 T_ErrorMessage id 8 12 (IStatus st))
  | Ng.WrongType t => Some (mkFrame 2 t id 0 0 IOpaque)
  | Ng.Oversize => Some (mkFrame 2 resp id (max_buffered + 1) 13 IOpaque)
  | Ng.Garbage => Some (mkFrame 2 resp id 5 14 IOpaque)
  | Ng.NoReply => None
  end.

(* reactions both models can express: a "wrong type" must not be one of the three
   reader-initiated types (on a tree with the unsolicited filter those are never replies, and a
   KeepAlive would in addition be acknowledged) *)
Definition expressible (r : Ng.reaction) : Prop :=
  match r with Ng.WrongType t => is_unsolicited t = false | _ => True end.

(* ---- the canonical schedule ------------------------------------------------------------- *)
(* negotiate's internal send as caller c: submitted, accepted by the write loop, written *)
Definition seg_send (c : N) : list event := [NegSubmit c; WDefault; WAccept c; WWriteHdr; WWritePay].
(* the reader's answer reaches the read loop (or the send times out), negotiate looks at it *)
Definition seg_answer (c : N) (rf : option frame) : list event :=
  [RCheck; match rf with Some f => RFrame f HBNone | None => Cancel c end; NegStep].
(* after negotiation: a KEEPALIVE with id kid is acknowledged, then SendMessage(typ, nil) *)
Definition seg_later (nc : Ng.config) (typ kid : N) : list event :=
  [RCheck; RFrame (mkFrame 1 T_KeepAlive kid 0 0 IOpaque) HBNone; WTakeAck; WWriteHdr;
   Submit c3 (mkReq typ 0 0 0 (qver_of nc) true true); PassGate c3; WDefault; WAccept c3; WWriteHdr].

Definition p_connect : list event := [ConnStart; ConnFirst ren HBNone].
(* the reader answers a negotiation message only if the client has sent it: the schedule follows
   the LTS's own phase, not the C06 model *)
Definition p_gsv (cfg : config) (r1 : Ng.reaction) : list event :=
  match phase (run cfg p_connect) with
  | PNegotiating NGsv None => seg_send c1 ++ seg_answer c1 (reply_frame true T_GetSupportedVersionResponse 0 r1)
  | _ => []
  end.
Definition p_spv (cfg : config) (r1 r2 : Ng.reaction) : list event :=
  match phase (run cfg (p_connect ++ p_gsv cfg r1)) with
  | PNegotiating NSpv None => seg_send c2 ++ seg_answer c2 (reply_frame false T_SetProtocolVersionResponse 1 r2)
  | _ => []
  end.

(* the traffic after negotiation happens only if Connect has proceeded (ready closed) *)
Definition p_later (nc : Ng.config) (cfg : config) (r1 r2 : Ng.reaction) (typ kid : N) : list event :=
  match phase (run cfg (p_connect ++ p_gsv cfg r1 ++ p_spv cfg r1 r2 ++ [ConnReady])) with
  | PReady => seg_later nc typ kid
  | _ => []
  end.

Definition canon (nc : Ng.config) (cfg : config) (r1 r2 : Ng.reaction) (typ kid : N) : list event :=
  (p_connect ++ p_gsv cfg r1 ++ p_spv cfg r1 r2 ++ [ConnReady]) ++ p_later nc cfg r1 r2 typ kid.

(* ---- observables -------------------------------------------------------------------------- *)
(* a frame as (version bits, type, payload length, payload tag); the C06 model's payload bytes
   are mapped to the LTS's abstract payloads: [] = (0,0), [b] = (1, lit_tag b) *)
Definition view_o (o : oframe) : N * N * N * N :=
  (f_ver (o_frame o), f_typ (o_frame o), f_len (o_frame o), f_tag (o_frame o)).
Definition view_m (m : Ng.msg) : N * N * N * N :=
  match Ng.m_payload m with
  | [] => (Ng.m_ver m, Ng.m_typ m, 0, 0)
  | [b] => (Ng.m_ver m, Ng.m_typ m, 1, lit_tag b)
  | l => (Ng.m_ver m, Ng.m_typ m, N.of_nat (length l), 0)
  end.

Definition lts_outcome (s : state) : option Ng.outcome :=
  match phase s with
  | PReady => Some Ng.Proceeds
  | PReturned CErrNeg | PReturned CErrCtx => Some Ng.Fails
  | _ => None
  end.

(* ========================================================================================== *)
(* proofs *)

Ltac consts := cbv [T_GetSupportedVersion T_GetSupportedVersionResponse T_SetProtocolVersion
  T_SetProtocolVersionResponse T_CloseConnection T_CloseConnectionResponse T_ROAccessReport T_KeepAlive
  T_ReaderEventNotification T_KeepAliveAck T_ErrorMessage Status_Success Status_VerUnsupported
  Ng.V1_0_1 Ng.V1_1 Ng.VersionMin Ng.MsgGetSupportedVersion Ng.MsgSetProtocolVersion
  Ng.MsgGetSupportedVersionResponse Ng.MsgSetProtocolVersionResponse Ng.MsgKeepAliveAck Ng.MsgErrorMessage
  Ng.StatusSuccess Ng.StatusMsgVerUnsupported] in *.

Lemma if_same : forall (A : Type) (b : bool) (x : A), (if b then x else x) = x.
Proof. destruct b; reflexivity. Qed.

Lemma run_from_app : forall cfg s a b, run_from cfg s (a ++ b) = run_from cfg (run_from cfg s a) b.
Proof. intros. unfold run_from. apply fold_left_app. Qed.

Lemma unsol_cases : forall t, is_unsolicited t = false ->
  (t =? 62) = false /\ (t =? 61) = false /\ (t =? 63) = false.
Proof.
  intros t H. unfold is_unsolicited in H. consts.
  apply orb_false_elim in H. destruct H as [H H3]. apply orb_false_elim in H. destruct H as [H1 H2].
  auto.
Qed.

(* ---- 1. the two models read a reply the same way ----------------------------------------- *)
(* getSupportedVersion: Model.gsv_outcome on the frame = Negotiate.get_supported_strict on the reaction (/repo 6e714d1) *)
Lemma gsv_corr : forall r f, reply_frame true T_GetSupportedVersionResponse 0 r = Some f ->
  gsv_outcome f = Ng.get_supported_strict r.
Proof.
  intros r f H. destruct r; cbn [reply_frame] in H; inversion H; subst f; clear H;
    unfold gsv_outcome, Ng.get_supported_strict, Ng.strict_query, Ng.get_supported; cbn [f_len f_typ f_info]; consts.
  - replace (max_buffered <? 10) with false by reflexivity.
    replace (56 =? 100) with false by reflexivity. replace (56 =? 56) with true by reflexivity.
    reflexivity.
  - replace (max_buffered <? 8) with false by reflexivity.
    replace (100 =? 100) with true by reflexivity.
    destruct (st =? 0) eqn:E0.
    + apply N.eqb_eq in E0; subst st. reflexivity.
    + destruct (st =? 110) eqn:E1; cbn [orb]; [reflexivity|]. rewrite E0. reflexivity.
  - replace (max_buffered <? 0) with false by reflexivity.
    destruct (t =? 100); [reflexivity|]. destruct (t =? 56); reflexivity.
  - replace (max_buffered <? max_buffered + 1) with true by reflexivity. reflexivity.
  - replace (max_buffered <? 5) with false by reflexivity.
    replace (56 =? 100) with false by reflexivity. replace (56 =? 56) with true by reflexivity.
    reflexivity.
Qed.

(* the reply to SetProtocolVersion: Model.spv_ok = Negotiate.set_accepted *)
Lemma spv_corr : forall r f, reply_frame false T_SetProtocolVersionResponse 1 r = Some f ->
  spv_ok f = Ng.set_accepted r.
Proof.
  intros r f H. destruct r; cbn [reply_frame] in H; inversion H; subst f; clear H;
    unfold spv_ok, Ng.set_accepted; cbn [f_len f_typ f_info]; consts.
  - reflexivity.
  - reflexivity.
  - destruct (t =? 57); rewrite ?andb_true_r, ?andb_false_r; reflexivity.
  - reflexivity.
  - reflexivity.
Qed.

Lemma reply_none : forall v resp id r, reply_frame v resp id r = None -> r = Ng.NoReply.
Proof. destruct r; cbn; intros; try discriminate; reflexivity. Qed.

Lemma reply_props : forall v resp id r f, expressible r -> is_unsolicited resp = false ->
  reply_frame v resp id r = Some f -> f_id f = id /\ is_unsolicited (f_typ f) = false.
Proof.
  intros v resp id r f E U H. destruct r; cbn [reply_frame] in H; inversion H; subst f; clear H;
    cbn [f_id f_typ]; split; try reflexivity; try assumption.
Qed.

(* ---- 2. the states the canonical schedule passes through ---------------------------------- *)
Definition gsvreq : req := mkReq 46 0 0 0 1 true false.
Definition gsv_o : oframe := mkOFrame (mkFrame 2 46 0 0 0 IOpaque) (Some c1).
Definition spvreq (v : N) : req := mkReq 47 1 (lit_tag v) 0 1 true false.
Definition spv_o (v : N) : oframe := mkOFrame (mkFrame 2 47 1 1 (lit_tag v) IOpaque) (Some c2).

(* after ConnStart; ConnFirst *)
Definition S0 (st : nstage) (cmax : N) : state :=
  mkState (PNegotiating st None) false false cmax 0 [] [] WTop RTop false [] [] [] [] [ren] [] [] [] [] [] [].
(* GET_SUPPORTED_VERSION written *)
Definition S1 (cmax : N) : state :=
  mkState (PNegotiating NGsv (Some c1)) false false cmax 1 [(0, c1)] [] WTop RTop false
          [(c1, HasToken gsvreq 0)] [(c1, 0)] [gsv_o] [CHdr gsv_o] [ren] [] [] [] [] [] [].
(* its reply f handed to negotiate *)
Definition S2 (ph : conn_phase) (ver : N) (f : frame) (sc : bool) : state :=
  mkState ph false false ver 1 [] [] WTop RTop sc
          [(c1, Done gsvreq (ROk 1 f))] [(c1, 0)] [gsv_o] [CHdr gsv_o] [ren; f] [(c1, 1%nat, f)]
          [mkHrec 1 f HDiscard HBNone true] [] [] [] [].
(* SET_PROTOCOL_VERSION written *)
Definition S3 (ver : N) (f : frame) (sc : bool) : state :=
  mkState (PNegotiating NSpv (Some c2)) false false ver 2 [(1, c2)] [] WTop RTop sc
          [(c1, Done gsvreq (ROk 1 f)); (c2, HasToken (spvreq ver) 1)] [(c1, 0); (c2, 1)]
          [gsv_o; spv_o ver] [CHdr gsv_o; CHdr (spv_o ver); CPay (spv_o ver)] [ren; f] [(c1, 1%nat, f)]
          [mkHrec 1 f HDiscard HBNone true] [] [] [] [].
(* its reply g handed to negotiate *)
Definition S4 (ph : conn_phase) (ver : N) (f g : frame) (sc : bool) : state :=
  mkState ph false false ver 2 [] [] WTop RTop sc
          [(c1, Done gsvreq (ROk 1 f)); (c2, Done (spvreq ver) (ROk 2 g))] [(c1, 0); (c2, 1)]
          [gsv_o; spv_o ver] [CHdr gsv_o; CHdr (spv_o ver); CPay (spv_o ver)] [ren; f; g]
          [(c1, 1%nat, f); (c2, 2%nat, g)]
          [mkHrec 1 f HDiscard HBNone true; mkHrec 2 g HDiscard HBNone true] [] [] [] [].

Lemma connect_hi : forall nc fu cmax, 1 < cmax -> run (lts_cfg nc fu cmax) p_connect = S0 NGsv cmax.
Proof.
  intros. apply N.ltb_lt in H. unfold run, run_from, p_connect, lts_cfg. cbn. rewrite H. reflexivity.
Qed.
Lemma connect_lo : forall nc fu cmax, cmax <= 1 -> run (lts_cfg nc fu cmax) p_connect = S0 NDone cmax.
Proof.
  intros. apply N.ltb_ge in H. unfold run, run_from, p_connect, lts_cfg. cbn. rewrite H. reflexivity.
Qed.

Lemma sent1 : forall cfg cmax, run_from cfg (S0 NGsv cmax) (seg_send c1) = S1 cmax.
Proof. intros. cbn. reflexivity. Qed.

Lemma answered1 : forall nc fu cmax f, f_id f = 0 -> is_unsolicited (f_typ f) = false ->
  run_from (lts_cfg nc fu cmax) (S1 cmax) [RCheck; RFrame f HBNone]
  = S2 (PNegotiating NGsv (Some c1)) cmax f false.
Proof.
  intros nc fu cmax f I U. destruct (unsol_cases _ U) as [U1 [U2 U3]].
  destruct f as [fv ft fi fl fg fo]. cbn [f_id f_typ] in *. subst fi.
  unfold lts_cfg.
  cbn. unfold take_waiter, consults, note_close_resp, run_handler, handler_for, typed_handler.
  cbn [f_typ f_id filter_unsolicited ack_handler user_handlers default_handler existsb].
  rewrite U, andb_false_r. consts. rewrite U1. destruct (ft =? 4); vm_compute; reflexivity.
Qed.

(* negotiate looks at the reply of the version query *)
Lemma negstep1_ok : forall ver f sc cur mx, gsv_outcome f = Some (cur, mx) ->
  step_neg_step (S2 (PNegotiating NGsv (Some c1)) ver f sc)
  = S2 (PNegotiating (if cur =? (if mx <? ver then mx else ver) then NDone else NSpv) None)
       (if mx <? ver then mx else ver) f sc.
Proof.
  intros. unfold step_neg_step. cbn [phase S2 lookup callers]. 
  replace (c1 =? c1) with true by reflexivity. rewrite H. cbn [version].
  destruct (cur =? _); reflexivity.
Qed.
Lemma negstep1_fail : forall ver f sc, gsv_outcome f = None ->
  step_neg_step (S2 (PNegotiating NGsv (Some c1)) ver f sc)
  = neg_fail (S2 (PNegotiating NGsv (Some c1)) ver f sc).
Proof.
  intros. unfold step_neg_step. cbn [phase S2 lookup callers].
  replace (c1 =? c1) with true by reflexivity. rewrite H. reflexivity.
Qed.

Local Arguments lit_tag : simpl never.

(* no reply: the internal send returns ctx.Err() *)
Lemma timeout1 : forall cfg cmax,
  let s := run_from cfg (S1 cmax) [RCheck; Cancel c1; NegStep] in
  phase s = PReturned CErrCtx /\ out s = [gsv_o] /\ version s = cmax.
Proof. intros. cbn. repeat split. Qed.

Lemma sent2 : forall cfg ver f sc,
  run_from cfg (S2 (PNegotiating NSpv None) ver f sc) (seg_send c2) = S3 ver f sc.
Proof. intros. cbn. reflexivity. Qed.

Lemma answered2 : forall nc fu cmax ver f sc g, f_id g = 1 -> is_unsolicited (f_typ g) = false ->
  run_from (lts_cfg nc fu cmax) (S3 ver f sc) [RCheck; RFrame g HBNone]
  = S4 (PNegotiating NSpv (Some c2)) ver f g sc.
Proof.
  intros nc fu cmax ver f sc g I U. destruct (unsol_cases _ U) as [U1 [U2 U3]].
  destruct g as [fv ft fi fl fg fo]. cbn [f_id f_typ] in *. subst fi.
  unfold lts_cfg.
  cbn. unfold take_waiter, consults, note_close_resp, run_handler, handler_for, typed_handler.
  cbn [f_typ f_id filter_unsolicited ack_handler user_handlers default_handler existsb].
  rewrite U, andb_false_r. consts. rewrite U1. destruct (ft =? 4); cbn; reflexivity.
Qed.

Lemma negstep2 : forall ver f g sc,
  step_neg_step (S4 (PNegotiating NSpv (Some c2)) ver f g sc)
  = if spv_ok g then S4 (PNegotiating NDone None) ver f g sc
    else neg_fail (S4 (PNegotiating NSpv (Some c2)) ver f g sc).
Proof.
  intros. unfold step_neg_step. cbn [phase S4 lookup callers].
  replace (c2 =? c1) with false by reflexivity. replace (c2 =? c2) with true by reflexivity.
  destruct (spv_ok g); reflexivity.
Qed.

Lemma timeout2 : forall cfg ver f sc,
  let s := run_from cfg (S3 ver f sc) [RCheck; Cancel c2; NegStep] in
  phase s = PReturned CErrCtx /\ out s = [gsv_o; spv_o ver] /\ version s = ver.
Proof. intros. cbn. repeat split. Qed.

(* ---- 3. traffic after negotiation --------------------------------------------------------- *)
Local Arguments stamp_o : simpl never.

Definition ack_o (kid : N) : oframe := mkOFrame (mkFrame 0 T_KeepAliveAck kid 0 0 IOpaque) None.
Definition req_o (nc : Ng.config) (typ id : N) : oframe :=
  mkOFrame (mkFrame (qver_of nc) typ id 0 0 IOpaque) (Some c3).

Lemma stamp_o_len : forall cfg v o, f_len (o_frame (stamp_o cfg v o)) = f_len (o_frame o).
Proof. reflexivity. Qed.
Lemma stamp_o_typ : forall cfg v o, f_typ (o_frame (stamp_o cfg v o)) = f_typ (o_frame o).
Proof. reflexivity. Qed.

(* fu is the only parameter the control flow of these nine events branches on (consults); the
   payload tag of SET_PROTOCOL_VERSION is abstracted before computing (two32 + v does not
   normalise with v a variable) *)
Ltac later_tac fu :=
  destruct fu; unfold S0, S2, S4, spv_o, spvreq;
  repeat match goal with |- context [lit_tag ?v] => generalize (lit_tag v); intro end;
  vm_compute; repeat split.

Lemma later_S0 : forall nc fu cmax typ kid,
  let cfg := lts_cfg nc fu cmax in
  let s := run_from cfg (S0 NDone cmax) (ConnReady :: seg_later nc typ kid) in
  phase s = PReady /\ version s = cmax /\
  out s = [stamp_o cfg cmax (ack_o kid); stamp_o cfg cmax (req_o nc typ 0)].
Proof. intros. subst cfg s. later_tac fu. Qed.

Lemma later_S2 : forall nc fu cmax v f sc typ kid,
  let cfg := lts_cfg nc fu cmax in
  let s := run_from cfg (S2 (PNegotiating NDone None) v f sc) (ConnReady :: seg_later nc typ kid) in
  phase s = PReady /\ version s = v /\
  out s = [gsv_o; stamp_o cfg v (ack_o kid); stamp_o cfg v (req_o nc typ 1)].
Proof. intros. subst cfg s. later_tac fu. Qed.

Lemma later_S4 : forall nc fu cmax v f g sc typ kid,
  let cfg := lts_cfg nc fu cmax in
  let s := run_from cfg (S4 (PNegotiating NDone None) v f g sc) (ConnReady :: seg_later nc typ kid) in
  phase s = PReady /\ version s = v /\
  out s = [gsv_o; spv_o v; stamp_o cfg v (ack_o kid); stamp_o cfg v (req_o nc typ 2)].
Proof. intros. subst cfg s. later_tac fu. Qed.

(* ---- 4. the stamping rules agree ----------------------------------------------------------- *)
Lemma view_gsv : forall nc v, view_o gsv_o = view_m (Ng.stamp nc v (Ng.new_message nc Ng.MsgGetSupportedVersion [])).
Proof. reflexivity. Qed.
Lemma view_spv : forall nc v w,
  view_o (spv_o w) = view_m (Ng.stamp nc v (Ng.new_message nc Ng.MsgSetProtocolVersion [w])).
Proof. reflexivity. Qed.
Lemma view_ack : forall nc fu cmax v kid,
  view_o (stamp_o (lts_cfg nc fu cmax) v (ack_o kid)) = view_m (Ng.stamp nc v (Ng.build nc Ng.Ack)).
Proof.
  intros. destruct nc as [ps wo]. unfold stamp_o, stamp, Ng.stamp, Ng.build, Ng.ack_message, view_o, view_m, lts_cfg, ack_o.
  cbn. destruct wo; reflexivity.
Qed.
Lemma view_req : forall nc fu cmax v typ id, Ng.is_neg_type typ = false ->
  view_o (stamp_o (lts_cfg nc fu cmax) v (req_o nc typ id))
  = view_m (Ng.stamp nc v (Ng.build nc (Ng.Request typ []))).
Proof.
  intros nc fu cmax v typ id T. destruct nc as [ps wo].
  unfold stamp_o, stamp, Ng.stamp, Ng.build, Ng.new_message, view_o, view_m, lts_cfg, req_o, qver_of.
  cbn [o_frame f_typ f_ver f_len f_tag f_id stamp_always Ng.m_typ Ng.m_ver Ng.m_payload Ng.prestamp Ng.writer_overrides].
  unfold Ng.is_neg_type in *. consts. rewrite T.
  destruct wo, ps; reflexivity.
Qed.

(* ---- 5. the schedule, path by path --------------------------------------------------------- *)
Lemma conn_ready_returned : forall cfg s r, phase s = PReturned r -> run_from cfg s [ConnReady] = s.
Proof. intros. cbn. unfold step_conn_ready. rewrite H. reflexivity. Qed.

Lemma phase_neg_fail : forall s, phase (neg_fail s) = PReturned CErrNeg.
Proof. reflexivity. Qed.

(* the consistency statement *)
Definition agree (nc : Ng.config) (fu : bool) (cmax : N) (r1 r2 : Ng.reaction) (typ kid : N) : Prop :=
  let cfg := lts_cfg nc fu cmax in
  let s := run cfg (canon nc cfg r1 r2 typ kid) in
  let m := Ng.session nc cmax (Ng.strict_query r1) r2 [Ng.Ack; Ng.Request typ []] in   (* = negotiate_strict: /repo 6e714d1 *)
  map view_o (out s) = map view_m (Ng.n_frames (fst m) ++ snd m) /\
  lts_outcome s = Some (Ng.n_outcome (fst m)) /\
  version s = Ng.n_version (fst m).

Lemma run_connect_app : forall cfg l, run cfg (p_connect ++ l) = run_from cfg (run cfg p_connect) l.
Proof. intros. unfold run. apply run_from_app. Qed.

Lemma agree_low : forall nc fu cmax r1 r2 typ kid, cmax <= 1 -> Ng.is_neg_type typ = false ->
  agree nc fu cmax r1 r2 typ kid.
Proof.
  intros nc fu cmax r1 r2 typ kid L T. unfold agree.
  assert (G : p_gsv (lts_cfg nc fu cmax) r1 = []) by (unfold p_gsv; rewrite connect_lo by assumption; reflexivity).
  assert (P : p_spv (lts_cfg nc fu cmax) r1 r2 = [])
    by (unfold p_spv; rewrite G, app_nil_r, connect_lo by assumption; reflexivity).
  destruct (later_S0 nc fu cmax typ kid) as [L1 [L2 L3]].
  assert (Q : p_later nc (lts_cfg nc fu cmax) r1 r2 typ kid = seg_later nc typ kid).
  { unfold p_later. rewrite G, P. rewrite run_connect_app, connect_lo by assumption. reflexivity. }
  unfold canon. rewrite G, P, Q. rewrite <- app_assoc. rewrite run_connect_app, connect_lo by assumption.
  change (([] ++ [] ++ [ConnReady]) ++ seg_later nc typ kid) with (ConnReady :: seg_later nc typ kid).
  unfold Ng.session, Ng.negotiate. consts.
  assert (E : (cmax <=? 1) = true) by (apply N.leb_le; assumption). rewrite E.
  cbn [fst snd Ng.n_frames Ng.n_outcome Ng.n_version app Ng.write_later map].
  unfold lts_outcome. rewrite L1, L2, L3. cbn [map].
  rewrite view_ack, view_req by assumption. repeat split.
Qed.

(* the schedule as a composition of its adaptive parts *)
Definition rest2 (nc : Ng.config) (cfg : config) (typ kid : N) (sB : state) : state :=
  let sC := run_from cfg sB [ConnReady] in
  run_from cfg sC (match phase sC with PReady => seg_later nc typ kid | _ => [] end).
Definition rest1 (nc : Ng.config) (cfg : config) (r2 : Ng.reaction) (typ kid : N) (sA : state) : state :=
  rest2 nc cfg typ kid
    (run_from cfg sA (match phase sA with
                      | PNegotiating NSpv None =>
                          seg_send c2 ++ seg_answer c2 (reply_frame false T_SetProtocolVersionResponse 1 r2)
                      | _ => []
                      end)).

Lemma canon_run : forall nc cfg r1 r2 typ kid,
  run cfg (canon nc cfg r1 r2 typ kid) = rest1 nc cfg r2 typ kid (run cfg (p_connect ++ p_gsv cfg r1)).
Proof.
  intros. unfold canon, p_later, rest1, rest2.
  assert (E : run cfg (p_connect ++ p_gsv cfg r1 ++ p_spv cfg r1 r2 ++ [ConnReady])
              = run_from cfg (run_from cfg (run cfg (p_connect ++ p_gsv cfg r1)) (p_spv cfg r1 r2)) [ConnReady]).
  { unfold run. rewrite !app_assoc. rewrite !run_from_app. reflexivity. }
  rewrite E. unfold run at 1. rewrite run_from_app.
  fold (run cfg (p_connect ++ p_gsv cfg r1 ++ p_spv cfg r1 r2 ++ [ConnReady])).
  rewrite E. reflexivity.
Qed.

(* a negotiation that has failed: nothing more happens *)
Lemma rest2_failed : forall nc cfg typ kid s r, phase s = PReturned r -> rest2 nc cfg typ kid s = s.
Proof.
  intros. unfold rest2. rewrite (conn_ready_returned _ _ _ H). rewrite H. reflexivity.
Qed.
Lemma rest1_failed : forall nc cfg r2 typ kid s r, phase s = PReturned r -> rest1 nc cfg r2 typ kid s = s.
Proof. intros. unfold rest1. rewrite H. change (run_from cfg s []) with s. apply (rest2_failed _ _ _ _ _ _ H). Qed.

Lemma run_from_cons : forall cfg s e l, run_from cfg s (e :: l) = run_from cfg (run_from cfg s [e]) l.
Proof. reflexivity. Qed.
Lemma conn_ready_done : forall cfg s, phase s = PNegotiating NDone None ->
  run_from cfg s [ConnReady] = set_phase PReady (set_ready true s).
Proof. intros. cbn [run_from fold_left step]. unfold step_conn_ready. rewrite H. reflexivity. Qed.

Lemma rest2_done : forall nc cfg typ kid s, phase s = PNegotiating NDone None ->
  rest2 nc cfg typ kid s = run_from cfg s (ConnReady :: seg_later nc typ kid).
Proof.
  intros. unfold rest2. rewrite (run_from_cons cfg s ConnReady (seg_later nc typ kid)). rewrite (conn_ready_done cfg _ H).
  cbn [phase set_phase]. reflexivity.
Qed.
Lemma rest1_done : forall nc cfg r2 typ kid s, phase s = PNegotiating NDone None ->
  rest1 nc cfg r2 typ kid s = run_from cfg s (ConnReady :: seg_later nc typ kid).
Proof. intros. unfold rest1. rewrite H. change (run_from cfg s []) with s. apply rest2_done. assumption. Qed.

Lemma rest1_spv : forall nc cfg r2 typ kid v f sc,
  rest1 nc cfg r2 typ kid (S2 (PNegotiating NSpv None) v f sc)
  = rest2 nc cfg typ kid
      (run_from cfg (S3 v f sc) (seg_answer c2 (reply_frame false T_SetProtocolVersionResponse 1 r2))).
Proof. intros. unfold rest1. cbn [phase S2]. rewrite run_from_app, sent2. reflexivity. Qed.

(* observables of a failed negotiation *)
Lemma obs_neg_fail : forall s, phase (neg_fail s) = PReturned CErrNeg /\ out (neg_fail s) = out s /\ version (neg_fail s) = version s.
Proof. intros. repeat split. Qed.

Lemma agree_high : forall nc fu cmax r1 r2 typ kid, 1 < cmax ->
  expressible r1 -> expressible r2 -> Ng.is_neg_type typ = false ->
  agree nc fu cmax r1 r2 typ kid.
Proof.
  intros nc fu cmax r1 r2 typ kid H X1 X2 T. unfold agree. cbv zeta.
  rewrite canon_run.
  (* the version query goes out *)
  assert (A : run (lts_cfg nc fu cmax) (p_connect ++ p_gsv (lts_cfg nc fu cmax) r1)
              = run_from (lts_cfg nc fu cmax) (S1 cmax)
                  (seg_answer c1 (reply_frame true T_GetSupportedVersionResponse 0 r1))).
  { rewrite run_connect_app. rewrite connect_hi by assumption.
    unfold p_gsv. rewrite connect_hi by assumption. cbn [phase S0].
    rewrite run_from_app, sent1. reflexivity. }
  rewrite A. clear A.
  (* the C06 model's side *)
  assert (E : (cmax <=? 1) = false) by (apply N.leb_gt; assumption).
  unfold Ng.session, Ng.negotiate. consts. rewrite E.
  change (Ng.stamp nc cmax (Ng.new_message nc 46 [])) with (Ng.stamp nc cmax (Ng.new_message nc Ng.MsgGetSupportedVersion [])).
  destruct (reply_frame true 56 0 r1) as [f|] eqn:RF1.
  - (* the reader answers with f *)
    destruct (reply_props true 56 0 r1 f X1 (eq_refl : is_unsolicited 56 = false) RF1) as [I1 U1].
    pose proof (gsv_corr _ _ RF1) as GC.
    change (seg_answer c1 (Some f)) with ([RCheck; RFrame f HBNone] ++ [NegStep]).
    rewrite run_from_app. rewrite answered1 by assumption.
    change (run_from (lts_cfg nc fu cmax) (S2 (PNegotiating NGsv (Some c1)) cmax f false) [NegStep])
      with (step_neg_step (S2 (PNegotiating NGsv (Some c1)) cmax f false)).
    unfold Ng.get_supported_strict in GC.
    destruct (Ng.get_supported (Ng.strict_query r1)) as [[cur mx]|] eqn:GS.
    + rewrite (negstep1_ok _ _ _ _ _ GC).
      unfold Ng.version in *. remember (if mx <? cmax then mx else cmax) as v eqn:Hv.
      destruct (cur =? v) eqn:CV.
      * (* the reader already uses v: no switch *)
        rewrite rest1_done by reflexivity.
        destruct (later_S2 nc fu cmax v f false typ kid) as [L1 [L2 L3]].
        cbn [fst snd Ng.n_frames Ng.n_outcome Ng.n_version app Ng.write_later map].
        unfold lts_outcome. rewrite L1, L2, L3. cbn [map].
        rewrite view_ack, view_req by assumption. rewrite (view_gsv nc cmax). repeat split.
      * (* the switch *)
        rewrite rest1_spv. consts.
        change (Ng.stamp nc v (Ng.new_message nc 47 [v])) with (Ng.stamp nc v (Ng.new_message nc Ng.MsgSetProtocolVersion [v])).
        destruct (reply_frame false 57 1 r2) as [g|] eqn:RF2.
        -- destruct (reply_props false 57 1 r2 g X2 (eq_refl : is_unsolicited 57 = false) RF2) as [I2 U2].
           pose proof (spv_corr _ _ RF2) as SC.
           change (seg_answer c2 (Some g)) with ([RCheck; RFrame g HBNone] ++ [NegStep]).
           rewrite run_from_app. rewrite answered2 by assumption.
           set (sc := false).
           change (run_from (lts_cfg nc fu cmax) (S4 (PNegotiating NSpv (Some c2)) v f g sc) [NegStep])
             with (step_neg_step (S4 (PNegotiating NSpv (Some c2)) v f g sc)).
           rewrite negstep2, SC.
           destruct (Ng.set_accepted r2).
           ++ rewrite rest2_done by reflexivity.
              destruct (later_S4 nc fu cmax v f g sc typ kid) as [L1 [L2 L3]].
              cbn [fst snd Ng.n_frames Ng.n_outcome Ng.n_version app Ng.write_later map].
              unfold lts_outcome. rewrite L1, L2, L3. cbn [map].
              rewrite view_ack, view_req by assumption.
              rewrite (view_gsv nc cmax), (view_spv nc v v). repeat split.
           ++ rewrite (rest2_failed _ _ _ _ _ _ (phase_neg_fail _)).
              cbn [fst snd Ng.n_frames Ng.n_outcome Ng.n_version app map].
              unfold lts_outcome. cbn [phase neg_fail neg_fail_with set_phase set_closed out version S4 map].
              rewrite (view_gsv nc cmax), (view_spv nc v v). repeat split.
        -- (* no reply to the switch *)
           apply reply_none in RF2. subst r2.
           destruct (timeout2 (lts_cfg nc fu cmax) v f false) as [Q1 [Q2 Q3]].
           change (seg_answer c2 None) with [RCheck; Cancel c2; NegStep].
           rewrite (rest2_failed _ _ _ _ _ _ Q1).
           cbn [fst snd Ng.n_frames Ng.n_outcome Ng.n_version app map Ng.set_accepted].
           unfold lts_outcome. rewrite Q1, Q2, Q3. cbn [map].
           rewrite (view_gsv nc cmax), (view_spv nc v v). repeat split.
    + (* the query failed *)
      rewrite (negstep1_fail _ _ _ GC).
      rewrite (rest1_failed _ _ _ _ _ _ _ (phase_neg_fail _)).
      cbn [fst snd Ng.n_frames Ng.n_outcome Ng.n_version app map].
      unfold lts_outcome. cbn [phase neg_fail neg_fail_with set_phase set_closed out version S2 map].
      rewrite (view_gsv nc cmax). repeat split.
  - (* no reply to the query *)
    apply reply_none in RF1. subst r1.
    destruct (timeout1 (lts_cfg nc fu cmax) cmax) as [Q1 [Q2 Q3]].
    change (seg_answer c1 None) with [RCheck; Cancel c1; NegStep].
    rewrite (rest1_failed _ _ _ _ _ _ _ Q1).
    cbn [fst snd Ng.n_frames Ng.n_outcome Ng.n_version app map Ng.get_supported].
    unfold lts_outcome. rewrite Q1, Q2, Q3. cbn [map].
    rewrite (view_gsv nc cmax). repeat split.
Qed.

(* ---- 6. the consistency theorem -------------------------------------------------------------- *)
(* For every C06 configuration nc (pre-stamping / writer variant), every setting fu of the
   unsolicited filter, every client maximum, every pair of expressible reader reactions, every
   ordinary message type typ and keep-alive id kid: the LTS run through the canonical schedule
   writes exactly the frames [session] computes (negotiation frames, then — iff Connect proceeds —
   the acknowledgement and the request with the stamps [Ng.stamp] gives them), Connect proceeds
   or fails as [negotiate] says, and c.version ends up as [n_version]. *)
Theorem negotiate_agrees_with_lts : forall nc fu cmax r1 r2 typ kid,
  expressible r1 -> expressible r2 -> Ng.is_neg_type typ = false ->
  agree nc fu cmax r1 r2 typ kid.
Proof.
  intros. destruct (N.le_gt_cases cmax 1).
  - apply agree_low; assumption.
  - apply agree_high; assumption.
Qed.

(* the two reply decoders agree on every reaction that is a reply (used above; of independent
   interest: Model.gsv_outcome / spv_ok vs Negotiate.get_supported / set_accepted) *)
Theorem reply_decoders_agree : forall r f g,
  (reply_frame true T_GetSupportedVersionResponse 0 r = Some f -> gsv_outcome f = Ng.get_supported_strict r) /\
  (reply_frame false T_SetProtocolVersionResponse 1 r = Some g -> spv_ok g = Ng.set_accepted r).
Proof. intros. split; [apply gsv_corr | apply spv_corr]. Qed.

(* non-vacuity: client 1.1; reader at 1.0.1 able to do 1.1 (bytes 32, 64); switch accepted; C06's
   configuration of the code before fix e7ea34f (prestamp, writer does not override): both models
   show defect F5 — the acknowledgement carries 1.1, the request 1.0.1 *)
Example canon_example :
  let cfg := lts_cfg Ng.cfg_today true 2 in
  let evs := canon Ng.cfg_today cfg (Ng.Resp 32 64 0) (Ng.Resp 0 0 0) 2 777 in
  evs = [ConnStart; ConnFirst ren HBNone;
         NegSubmit c1; WDefault; WAccept c1; WWriteHdr; WWritePay;
         RCheck; RFrame (mkFrame 2 56 0 10 11 (IVer 1 2 0)) HBNone; NegStep;
         NegSubmit c2; WDefault; WAccept c2; WWriteHdr; WWritePay;
         RCheck; RFrame (mkFrame 2 57 1 8 11 (IStatus 0)) HBNone; NegStep;
         ConnReady;
         RCheck; RFrame (mkFrame 1 62 777 0 0 IOpaque) HBNone; WTakeAck; WWriteHdr;
         Submit c3 (mkReq 2 0 0 0 1 true true); PassGate c3; WDefault; WAccept c3; WWriteHdr]
  /\ map view_o (out (run cfg evs)) = [(2, 46, 0, 0); (2, 47, 1, lit_tag 2); (2, 72, 0, 0); (1, 2, 0, 0)]
  /\ map view_m (Ng.n_frames (fst (Ng.session Ng.cfg_today 2 (Ng.Resp 32 64 0) (Ng.Resp 0 0 0) [Ng.Ack; Ng.Request 2 []]))
                 ++ snd (Ng.session Ng.cfg_today 2 (Ng.Resp 32 64 0) (Ng.Resp 0 0 0) [Ng.Ack; Ng.Request 2 []]))
      = [(2, 46, 0, 0); (2, 47, 1, lit_tag 2); (2, 72, 0, 0); (1, 2, 0, 0)]
  /\ phase (run cfg evs) = PReady /\ version (run cfg evs) = 2.
Proof. vm_compute. repeat split. Qed.
