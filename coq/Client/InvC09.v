(* Client/InvC09.v — invariants behind C09, for the LTS with and without the fixed Connect
   (Client/ModelX.v, [xstep watch]):
     - a loop reports ErrClientClosed only on a closed client;
     - a CloseConnection frame is the last frame written, and the write loop is parked (or gone);
     - when Connect's result is a loop's error, it is the first error reported.
   Plus the one-step facts about callers leaving (SeeClosed / Cancel). *)
From Coq Require Import NArith Arith List Bool Lia.
From LLRP Require Import Client.Types Client.Model Client.ModelX Client.MapLemmas Client.StepFacts Client.InvC08.
Import ListNotations.
Open Scope N_scope.

Definition closed_kind (e : lerr) : Prop := e = EClosedW \/ e = EClosedR.
Definition is_cc (o : oframe) : Prop := f_typ (o_frame o) = T_CloseConnection.
Definition parked (w : wstate) : Prop := w = WParked \/ w = WExit.

Record c09_inv (s : state) : Prop := mkC09 {
  c9_errs : forall e, In e (errs s) -> closed_kind e -> closed s = true;
  c9_cc : forall i o, nth_error (out s) i = Some o -> is_cc o -> S i = length (out s) /\ parked (writer s);
  c9_first : forall r e, phase s = PDraining r \/ phase s = PReturned r -> r = CErrLoop e -> hd_error (errs s) = Some e
}.

Lemma hd_error_app : forall {A} (l : list A) x e, hd_error l = Some e -> hd_error (l ++ [x]) = Some e.
Proof. intros A l x e H. destruct l; [discriminate|exact H]. Qed.

Lemma c09_frame : forall s s',
  c09_inv s ->
  (closed s = true -> closed s' = true) ->
  (errs s' = errs s \/ exists x, errs s' = errs s ++ [x] /\ (closed_kind x -> closed s' = true)) ->
  out s' = out s ->
  (writer s' = writer s \/ ~ parked (writer s) \/ parked (writer s')) ->
  (phase s' = phase s \/
   forall r e, phase s' = PDraining r \/ phase s' = PReturned r -> r = CErrLoop e -> hd_error (errs s') = Some e) ->
  c09_inv s'.
Proof.
  intros s s' [E C F] Hcl He Ho Hw Hp. constructor.
  - intros e Hin Hk. destruct He as [He|(x & He & Hx)]; rewrite He in Hin.
    + apply Hcl. eauto.
    + apply in_app_or in Hin. destruct Hin as [Hin|[Hin|[]]]; [apply Hcl; eauto|subst; auto].
  - rewrite Ho. intros i o Hn Hc. destruct (C i o Hn Hc) as (A & B). split; [assumption|].
    destruct Hw as [Hw|[Hw|Hw]]; [rewrite Hw; assumption|contradiction|assumption].
  - destruct Hp as [Hp|Hp]; [|assumption].
    rewrite Hp. intros r e Hr Hre. specialize (F r e Hr Hre).
    destruct He as [He|(x & He & _)]; rewrite He; [assumption|now apply hd_error_app].
Qed.

Lemma c09_same_ctl : forall s s', same_ctl s s' -> c09_inv s -> c09_inv s'.
Proof.
  intros s s' (Hp & _ & Hw & _ & Ho & _ & _ & He & _ & Hc) I.
  apply (c09_frame s); auto. intro; congruence.
Qed.

Lemma c09_init : forall cfg, c09_inv (init cfg).
Proof.
  intros. constructor; cbn.
  - intros e [].
  - intros i o H. destruct i; discriminate.
  - intros r e [H|H]; discriminate.
Qed.

Lemma no_cc_unless_parked : forall s, c09_inv s -> ~ parked (writer s) -> forall o, In o (out s) -> ~ is_cc o.
Proof.
  intros s [_ C _] Hnp o Hin Hc. apply In_nth_error in Hin. destruct Hin as (i & Hi).
  destruct (C i o Hi Hc) as (_ & P). contradiction.
Qed.

Lemma c09_push : forall s s' o,
  c09_inv s -> ~ parked (writer s) ->
  closed s' = closed s -> errs s' = errs s -> phase s' = phase s ->
  out s' = out s ++ [o] -> (is_cc o -> parked (writer s')) ->
  c09_inv s'.
Proof.
  intros s s' o I Hnp Hc He Hp Ho Hw. pose proof (no_cc_unless_parked s I Hnp) as Hno. destruct I as [E C F].
  constructor; rewrite ?Hc, ?He, ?Hp; try assumption.
  rewrite Ho. intros i x Hn Hx.
  destruct (Nat.lt_ge_cases i (length (out s))) as [Hlt|Hge].
  - rewrite nth_error_app1 in Hn by assumption. exfalso. apply (Hno x); [eapply nth_error_In; eauto|assumption].
  - rewrite nth_error_app2 in Hn by assumption. rewrite app_length. cbn.
    destruct (i - length (out s))%nat eqn:D; cbn in Hn; [|destruct n; discriminate].
    inversion Hn; subst. split; [lia|auto].
Qed.

Lemma after_frame_parked : forall o, is_cc o -> parked (after_frame o).
Proof. intros o H. unfold after_frame. unfold is_cc in H. rewrite H. cbn. now left. Qed.

Lemma c09_step : forall cfg s e, pre_inv s -> c09_inv s -> c09_inv (step cfg s e).
Proof.
  intros cfg s e Hpre I. pose proof I as [E C F].
  pose proof (step_closed_mono cfg s e) as Hmono.
  destruct e; cbn [step] in *.
  - apply (c09_same_ctl s); [|assumption]. unfold step_submit. same_ctl_tac.
  - apply (c09_same_ctl s); [|assumption]. unfold step_pass_gate, set_caller. same_ctl_tac.
  - apply (c09_same_ctl s); [|assumption]. unfold step_see_closed. destruct (closed s); [apply leave_same_ctl|apply same_ctl_refl].
  - apply (c09_same_ctl s); [|assumption]. apply leave_same_ctl.
  - (* WDefault *) unfold step_wdefault in *. destruct (writer s) eqn:Hw; try assumption. destruct (ackq s); try assumption.
    destruct (closed s); try assumption.
    apply (c09_frame s); auto. right; left. rewrite Hw. intros [X|X]; discriminate.
  - (* WAccept *) unfold step_waccept in *. destruct (writer s) eqn:Hw; try assumption.
    destruct (lookup c (callers s)) as [[r|r|r i|r res0]|]; try assumption. cbn zeta in *.
    apply (c09_frame s); auto; try (destruct (q_wait r), (q_id r =? 0); reflexivity);
      try (left; destruct (q_wait r), (q_id r =? 0); reflexivity).
    right; left. rewrite Hw. intros [X|X]; discriminate.
  - (* WTakeAck *) unfold step_wtakeack in *.
    destruct (writer s) eqn:Hw; try assumption; destruct (ackq s); try assumption;
      (apply (c09_frame s); auto; right; left; rewrite Hw; intros [X|X]; discriminate).
  - (* WWriteHdr *) unfold step_wwritehdr in *. destruct (writer s) eqn:Hw; try assumption. cbn zeta in *.
    assert (Hnp : ~ parked (writer s)) by (rewrite Hw; intros [X|X]; discriminate).
    destruct (f_len (o_frame o) =? 0).
    + eapply (c09_push s); eauto; try reflexivity. st_simpl_goal. apply after_frame_parked.
    + apply (c09_frame s); auto.
  - (* WWritePay *) unfold step_wwritepay in *. destruct (writer s) eqn:Hw; try assumption.
    assert (Hnp : ~ parked (writer s)) by (rewrite Hw; intros [X|X]; discriminate).
    eapply (c09_push s); eauto; try reflexivity. st_simpl_goal. apply after_frame_parked.
  - (* WriteFail *) unfold step_writefail in *. destruct (writer s) eqn:Hw; try assumption;
      match goal with |- context [if ?b then _ else _] => destruct b end; try assumption;
      (apply (c09_frame s); auto;
       [right; exists EWrite; split; [reflexivity|intros [X|X]; discriminate]
       |right; left; rewrite Hw; intros [X|X]; discriminate]).
  - (* WSeeDone *) unfold step_wseedone in *.
    destruct (writer s) eqn:Hw; try assumption; destruct (closed s) eqn:Hc; try assumption;
      (apply (c09_frame s); auto; [right; exists EClosedW; split; [reflexivity|intros _; st_simpl_goal; exact Hc]
                                  |right; right; st_simpl_goal; now right]).
  - (* RCheck *) unfold step_rcheck in *. destruct (reader s); try assumption. destruct (closed s); try assumption.
    apply (c09_frame s); auto.
  - (* RSeeDone *) unfold step_rseedone in *.
    destruct (reader s); try assumption; destruct (closed s) eqn:Hc; try assumption;
      (apply (c09_frame s); auto; right; exists EClosedR; split; [reflexivity|intros _; st_simpl_goal; exact Hc]).
  - (* RFrame *) unfold step_rframe in *. destruct (reader s); try assumption.
    pose proof (receive_same_ctl cfg true f h s) as H. cbv zeta in H.
    destruct (take_waiter cfg true (length (peer_sent s)) f _) as [s2 rep]. destruct H as (_ & H).
    pose proof (note_close_resp_same_ctl f (set_peer_sent (peer_sent s ++ [f]) s)) as H0.
    pose proof (same_ctl_trans _ _ _ H0 H) as H1.
    assert (I1 : c09_inv (set_peer_sent (peer_sent s ++ [f]) s)) by (apply (c09_frame s); auto).
    pose proof (c09_same_ctl _ _ H1 I1) as I2.
    apply (c09_frame (run_handler cfg (length (peer_sent s)) f h rep s2)); auto.
  - (* PeerEOF *) unfold step_peer_eof in *. destruct (reader s); try assumption. destruct p.
    + destruct (saw_close s); unfold reader_dies; apply (c09_frame s); auto.
      right. exists ERead. split; [reflexivity|intros [X|X]; discriminate].
    + unfold reader_dies; apply (c09_frame s); auto.
      right. exists ERead. split; [reflexivity|intros [X|X]; discriminate].
    + pose proof (receive_same_ctl cfg false f HBAll s) as H. cbv zeta in H.
      destruct (take_waiter cfg false (length (peer_sent s)) f _) as [s2 rep]. destruct H as (Ha & Hb).
      pose proof (note_close_resp_same_ctl f (set_peer_sent (peer_sent s ++ [f]) s)) as H0.
      assert (I1 : c09_inv (set_peer_sent (peer_sent s ++ [f]) s)) by (apply (c09_frame s); auto).
      destruct (rep && _); [|eof_cases]; unfold reader_dies.
      * pose proof (c09_same_ctl _ _ (same_ctl_trans _ _ _ H0 Ha) I1) as I2.
        apply (c09_frame s2); auto. right. exists ERead. split; [reflexivity|intros [X|X]; discriminate].
      * pose proof (c09_same_ctl _ _ (same_ctl_trans _ _ _ H0 Hb) I1) as I2.
        apply (c09_frame (run_handler cfg (length (peer_sent s)) f HBAll rep s2)); auto.
        right. exists ERead. split; [reflexivity|intros [X|X]; discriminate].
      * (* the truncated frame was dispatched and the EOF is tolerated after a CloseConnectionResponse *)
        pose proof (c09_same_ctl _ _ (same_ctl_trans _ _ _ H0 Hb) I1) as I2.
        apply (c09_frame (run_handler cfg (length (peer_sent s)) f HBAll rep s2)); auto.
  - (* Close *) unfold step_close in *. destruct (closed s); apply (c09_frame s); auto.
  - (* ConnStart *) unfold step_conn_start in *. destruct (phase s) eqn:Hp; try assumption.
    apply (c09_frame s); auto. right. st_simpl_goal. intros r e [X|X]; discriminate.
  - (* ConnFirst *) unfold step_conn_first in *. destruct (phase s) eqn:Hp; try assumption. cbv zeta in *.
    destruct Hpre as [A _ _ _]. rewrite Hp in A. destruct (A eq_refl) as (Hw & _ & Ho & _).
    destruct (max_buffered <? f_len f).
    { unfold init_fail in *. apply (c09_frame s); auto. right. st_simpl_goal. intros r e [X|X]; inversion X; subst; discriminate. }
    match goal with |- c09_inv (if _ then _ else init_fail ?x) => remember x as s2 eqn:Hs2 end.
    assert (Hc : same_ctl (set_peer_sent (peer_sent s ++ [f]) s) s2).
    { subst s2. destruct (first_handler cfg (f_typ f)) as [k|]; [|apply same_ctl_refl].
      destruct k; try (same_ctl_tac; fail).
      eapply same_ctl_trans; [|apply ack_enqueue_same_ctl]. same_ctl_tac. }
    clear Hs2 Hmono.
    assert (I2 : c09_inv s2) by (apply (c09_same_ctl _ _ Hc); apply (c09_frame s); auto).
    destruct Hc as (Hp2 & _ & Hw2 & _ & Ho2 & _). st_simpl.
    destruct (_ && _); unfold init_fail.
    + apply (c09_frame s2); auto.
      * right; left. rewrite Hw2, Hw. intros [X|X]; discriminate.
      * right. st_simpl_goal. intros r e [X|X]; discriminate.
    + apply (c09_frame s2); auto. right. st_simpl_goal. intros r e [X|X]; inversion X; subst; discriminate.
  - (* ConnFirstFail *) unfold step_conn_first_fail, init_fail in *. destruct (phase s) eqn:Hp; try assumption.
    apply (c09_frame s); auto. right. st_simpl_goal. intros r e [X|X]; inversion X; subst; discriminate.
  - (* NegSubmit *) unfold step_neg_submit in *. destruct (phase s) as [| |st o| | |] eqn:Hp; try assumption.
    destruct st, o; try assumption; destruct (is_fresh c s); try assumption;
      (apply (c09_frame s); auto; right; st_simpl_goal; intros r e [X|X]; discriminate).
  - (* NegStep *) unfold step_neg_step, neg_fail, neg_fail_with in *.
    destruct (phase s) as [| |st o| | |] eqn:Hp; try assumption.
    destruct o as [c0|]; [|assumption].
    destruct (lookup c0 (callers s)) as [[r|r|r i|r res0]|]; try assumption.
    assert (Hgen : forall s', (closed s = true -> closed s' = true) -> errs s' = errs s -> out s' = out s -> writer s' = writer s ->
              (forall r e, phase s' = PDraining r \/ phase s' = PReturned r -> r = CErrLoop e -> False) -> c09_inv s').
    { intros s' H1 H2 H3 H4 H5. apply (c09_frame s); auto. right. intros r0 e0 X Y. exfalso. eauto. }
    destruct st, res0; try assumption;
      try (apply Hgen; st_simpl_goal; auto; intros r0 e0 [X|X] Y; inversion X; subst; discriminate).
    + destruct (gsv_outcome f) as [[cur mx]|]; [destruct (cur =? _)|];
        (apply Hgen; st_simpl_goal; auto; intros r0 e0 [X|X] Y; inversion X; subst; discriminate).
    + destruct (spv_ok f);
        (apply Hgen; st_simpl_goal; auto; intros r0 e0 [X|X] Y; inversion X; subst; discriminate).
  - (* ConnReady *) unfold step_conn_ready in *. destruct (phase s) as [| |st o| | |] eqn:Hp; try assumption.
    destruct st; try assumption. apply (c09_frame s); auto. right. st_simpl_goal. intros r e [X|X]; discriminate.
  - (* ConnSelect *) unfold step_conn_select in *. destruct (phase s) eqn:Hp; try assumption.
    destruct pick_err; [destruct (errs s) eqn:He|destruct (closed s)]; try assumption.
    + apply (c09_frame s); auto. right. st_simpl_goal. intros r e [X|X] Y; [|discriminate]. rewrite He. cbn. congruence.
    + apply (c09_frame s); auto. right. st_simpl_goal. intros r e [X|X] Y; [|discriminate]. congruence.
  - (* ConnReturn *) unfold step_conn_return in *. destruct (phase s) as [| |st o| |r|r] eqn:Hp; try assumption.
    destruct (_ && _); try assumption.
    apply (c09_frame s); auto. right. st_simpl_goal. intros r0 e [X|X] Y; [discriminate|].
    apply (F r e); [now left|congruence].
  - (* ShutdownClose *) unfold step_shutdown_close, step_close in *.
    destruct (lookup c (callers s)) as [[r|r|r i|r res0]|]; try assumption.
    destruct res0; try assumption. destruct (_ && _); try assumption.
    destruct (closed _); apply (c09_frame s); auto.
Qed.
