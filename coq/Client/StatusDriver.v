(* C12 — the device service's request/response exchange (internal/driver/device.go, LLRPDevice.TrySend):

     retry.Quick.RetryWithCtx(ctx, maxSendAttempts, func(ctx) (bool, error) {
         c := l.client;  if c == nil { return true, errors.New("no client available") }
         err := c.SendFor(ctx, request, reply)
         return err != nil && errors.Is(err, llrp.ErrClientClosed), err })

   Every command of the device service (Driver.HandleReadCommands, Driver.HandleWriteCommands) and the device's
   own exchange after connecting (onConnect) returns / acts on exactly what TrySend returns.  One attempt either
   finds no usable connection (no client, client closed: retried) or is a SendFor exchange whose outcome
   (Client/Status.v, send_for_outcome) decides the call: nil -> success, any other error -> that error, kept in
   the *retry.FError's exported Others (first attempt) or as its MainErr (later attempts).
   Model only; proofs in StatusDriverProofs.v. *)
From Coq Require Import NArith List Bool.
From LLRP Require Import Client.Status.
Import ListNotations.
Open Scope N_scope.

Inductive attempt :=
| ANoClient                 (* l.client == nil *)
| AClosed                   (* SendFor returned an error wrapping ErrClientClosed *)
| AOutcome (o : outcome).   (* SendFor completed the exchange (or failed it for a reason other than a closed client) *)

Inductive ts_result :=
| TSOutcome (o : outcome)   (* the deciding attempt's SendFor outcome: nil, or an error exposing that outcome's error *)
| TSGaveUp.                 (* attempts (or the context) exhausted without a completed exchange: an error *)

(* [fuel] = attempts still allowed (maxSendAttempts = 3, fewer if the context ends first);
   [atts] = what each successive attempt meets *)
Fixpoint try_send (fuel : nat) (atts : list attempt) : ts_result :=
  match fuel, atts with
  | S k, AOutcome o :: _ => TSOutcome o
  | S k, _ :: r => try_send k r
  | _, _ => TSGaveUp
  end.

(* the error the caller of TrySend (and of Handle{Read,Write}Commands, which return it unchanged) gets *)
Definition ts_err (r : ts_result) : option error_view :=
  match r with
  | TSOutcome o => out_err o
  | TSGaveUp => Some (EOther KMismatch)   (* some error without a status; the kind is immaterial *)
  end.

Definition retried (a : attempt) : bool := match a with AOutcome _ => false | _ => true end.
