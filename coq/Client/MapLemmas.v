(* Client/MapLemmas.v — facts about the association lists of Client/Types.v *)
From Coq Require Import NArith Arith List Bool Lia.
From LLRP Require Import Client.Types.
Import ListNotations.
Open Scope N_scope.

Section Maps.
Context {A : Type}.
Implicit Types m : list (N * A).

Lemma lookup_update : forall m k k' v,
  lookup k' (update k v m) =
  if k' =? k then match lookup k m with Some _ => Some v | None => None end else lookup k' m.
Proof.
  induction m as [|[a b] m IH]; intros; cbn.
  - destruct (k' =? k); reflexivity.
  - destruct (k =? a) eqn:E.
    + apply N.eqb_eq in E; subst. cbn. destruct (k' =? a); reflexivity.
    + cbn. destruct (k' =? a) eqn:E2.
      * apply N.eqb_eq in E2; subst. rewrite N.eqb_sym, E. reflexivity.
      * apply IH.
Qed.

Lemma lookup_update_same : forall m k v x, lookup k m = Some x -> lookup k (update k v m) = Some v.
Proof. intros. rewrite lookup_update, N.eqb_refl, H. reflexivity. Qed.

Lemma lookup_update_other : forall m k k' v, k' <> k -> lookup k' (update k v m) = lookup k' m.
Proof. intros. rewrite lookup_update. destruct (k' =? k) eqn:E; [apply N.eqb_eq in E; congruence | reflexivity]. Qed.

Lemma lookup_remove : forall m k k', lookup k' (remove k m) = if k' =? k then None else lookup k' m.
Proof.
  induction m as [|[a b] m IH]; intros; cbn.
  - destruct (k' =? k); reflexivity.
  - destruct (k =? a) eqn:E.
    + apply N.eqb_eq in E; subst. rewrite IH. destruct (k' =? a); reflexivity.
    + cbn. rewrite IH. destruct (k' =? a) eqn:E2; [|reflexivity].
      apply N.eqb_eq in E2; subst. rewrite N.eqb_sym, E. reflexivity.
Qed.

Lemma lookup_insert : forall m k k' v, lookup k' (insert k v m) = if k' =? k then Some v else lookup k' m.
Proof.
  intros. unfold insert. cbn. rewrite lookup_remove. destruct (k' =? k); reflexivity.
Qed.

Lemma lookup_app : forall m k k' v,
  lookup k' (m ++ [(k, v)]) =
  match lookup k' m with Some x => Some x | None => if k' =? k then Some v else None end.
Proof.
  induction m as [|[a b] m IH]; intros; cbn.
  - reflexivity.
  - destruct (k' =? a); [reflexivity | apply IH].
Qed.

Lemma lookup_in : forall m k v, lookup k m = Some v -> In (k, v) m.
Proof.
  induction m as [|[a b] m IH]; cbn; intros; [discriminate|].
  destruct (k =? a) eqn:E.
  - apply N.eqb_eq in E; subst. inversion H; subst. now left.
  - right. now apply IH.
Qed.
End Maps.

(* list facts *)
Lemma nth_error_app_last : forall {A} (l : list A) x, nth_error (l ++ [x]) (length l) = Some x.
Proof. intros. rewrite nth_error_app2 by lia. rewrite Nat.sub_diag. reflexivity. Qed.

Lemma nth_error_app_old : forall {A} (l : list A) x n y, nth_error l n = Some y -> nth_error (l ++ [x]) n = Some y.
Proof. intros. rewrite nth_error_app1; [assumption|]. apply nth_error_Some. congruence. Qed.

Lemma nth_error_lt : forall {A} (l : list A) n y, nth_error l n = Some y -> (n < length l)%nat.
Proof. intros. apply nth_error_Some. congruence. Qed.

Lemma NoDup_app_last : forall {A} (l : list A) x, NoDup l -> ~ In x l -> NoDup (l ++ [x]).
Proof.
  induction l as [|a l IH]; cbn; intros x Hnd Hnin.
  - constructor; [intros []|constructor].
  - inversion Hnd; subst. constructor.
    + intros Hin. apply in_app_or in Hin. destruct Hin as [Hin|[Hin|[]]]; [contradiction|]. subst. apply Hnin. now left.
    + apply IH; [assumption|]. intros Hin. apply Hnin. now right.
Qed.

Lemma NoDup_app_keep_l : forall {A} (l l' : list A), NoDup (l ++ l') -> NoDup l.
Proof.
  induction l as [|a l IH]; cbn; intros l' H; [constructor|].
  inversion H; subst. constructor.
  - intros Hin. apply H2. apply in_or_app. now left.
  - eapply IH; eauto.
Qed.
