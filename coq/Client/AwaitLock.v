(* Client/AwaitLock.v — awaitMu while the read loop is inside a frame, on its own.

   In Client/Model.v every event is atomic, so the mutex that guards the await map (c.awaitMu) is invisible: [Cancel c] and
   [SeeClosed c] (a caller leaves: token.cancel() deletes its await entry under awaitMu) and [WAccept c] (the write loop registers
   the next request under awaitMu) are enabled whatever the read loop is doing (C09_cancel_waiting_caller, C09_no_caller_stuck).
   That is faithful ONLY IF nobody holds awaitMu across something that waits for the peer. passToHandler takes it for the lookup
   and the delete and releases it BEFORE it reads the payload (reader.go: Lock / lookup / delete / Unlock, then io.ReadFull, the
   hand-off, the handler, the discard). This file is that discipline as a small LTS, with "the read loop keeps the lock until the
   frame is done" as a flag:
     hold = false (the code): whenever a leaving caller or the write loop wants the lock, a few INTERNAL steps (no byte from the
                  peer, no action of the environment) give it to them, and they finish;
     hold = true:  refuted — the reader goes quiet after the header, a caller's context is cancelled (or the client is closed), and
                  no internal step changes anything: the caller does not return, the write loop does not register, until the
                  rest of the frame arrives (for ever without a read deadline).
   checks/c09.py opens this window on the real code (`quiet-midframe`, `split-*` families). *)
From Coq Require Import List Bool.
Import ListNotations.

Inductive lreader := LRHeader | LRWant | LRLocked | LRPayload | LRBack.
  (* in readHeader; header read, at awaitMu.Lock(); lookup + delete under the lock; reading the payload / hand-off / handler; frame done *)
Inductive lcaller := LCWaiting | LCWant | LCLocked | LCLeft.
  (* in its select; ctx cancelled / done closed: in token.cancel() at awaitMu.Lock(); holds the lock; has returned *)
Inductive lwriter := LWIdle | LWWant | LWLocked | LWWritten.
  (* at its select; took a request: at awaitMu.Lock() to register the reply channel; holds the lock; token handed over, frame written *)
Inductive lowner := ONone | OReader | OCaller | OWriter.
Record lstate := mkL { l_reader : lreader; l_caller : lcaller; l_writer : lwriter; l_lock : lowner }.

Inductive levent :=
| LHeaderArrives | LPayloadArrives               (* the peer *)
| LCtxCancelled | LRequestQueued                 (* the environment: a caller's context ends / Close; a new request reaches the write loop *)
| LReaderLock | LReaderLookedUp                  (* internal *)
| LCallerLock | LCallerUnlock
| LWriterLock | LWriterUnlock.

Definition internal (e : levent) : bool :=
  match e with LHeaderArrives | LPayloadArrives | LCtxCancelled | LRequestQueued => false | _ => true end.

Definition linit : lstate := mkL LRHeader LCWaiting LWIdle ONone.

Definition lstep (hold : bool) (s : lstate) (e : levent) : lstate :=
  let '(mkL r c w k) := s in
  match e with
  | LHeaderArrives => match r with LRHeader => mkL LRWant c w k | _ => s end
  | LReaderLock => match r, k with LRWant, ONone => mkL LRLocked c w OReader | _, _ => s end
  | LReaderLookedUp => match r with LRLocked => mkL LRPayload c w (if hold then OReader else ONone) | _ => s end
  | LPayloadArrives => match r with LRPayload => mkL LRBack c w (if hold then ONone else k) | _ => s end
  | LCtxCancelled => match c with LCWaiting => mkL r LCWant w k | _ => s end
  | LCallerLock => match c, k with LCWant, ONone => mkL r LCLocked w OCaller | _, _ => s end
  | LCallerUnlock => match c with LCLocked => mkL r LCLeft w ONone | _ => s end
  | LRequestQueued => match w with LWIdle => mkL r c LWWant k | _ => s end
  | LWriterLock => match w, k with LWWant, ONone => mkL r c LWLocked OWriter | _, _ => s end
  | LWriterUnlock => match w with LWLocked => mkL r c LWWritten ONone | _ => s end
  end.

Definition lrun_from (hold : bool) (s : lstate) (evs : list levent) : lstate := fold_left (lstep hold) evs s.
Definition lrun (hold : bool) (evs : list levent) : lstate := lrun_from hold linit evs.

(* the lock has exactly the owner the phases say *)
Definition linv (hold : bool) (s : lstate) : bool :=
  let '(mkL r c w k) := s in
  let rd := match r with LRLocked => true | LRPayload => hold | _ => false end in
  let cl := match c with LCLocked => true | _ => false end in
  let wr := match w with LWLocked => true | _ => false end in
  match k with
  | ONone => negb rd && negb cl && negb wr
  | OReader => rd && negb cl && negb wr
  | OCaller => negb rd && cl && negb wr
  | OWriter => negb rd && negb cl && wr
  end.

Lemma linv_step : forall hold s e, linv hold s = true -> linv hold (lstep hold s e) = true.
Proof. intros hold [r c w k] e. destruct hold, r, c, w, k, e; cbn; intro H; try discriminate; reflexivity. Qed.

Lemma linv_run : forall hold evs, linv hold (lrun hold evs) = true.
Proof.
  intros hold evs. unfold lrun, lrun_from.
  assert (G : forall evs s, linv hold s = true -> linv hold (fold_left (lstep hold) evs s) = true).
  { induction evs0 as [|e evs0 IH]; intros s H; cbn; [exact H|]. apply IH. now apply linv_step. }
  apply G. destruct hold; reflexivity.
Qed.

(* internal steps that hand the lock to whoever wants it and let them finish *)
Definition free_lock (s : lstate) : list levent :=
  match l_lock s with ONone => [] | OReader => [LReaderLookedUp] | OCaller => [LCallerUnlock] | OWriter => [LWriterUnlock] end.
Definition caller_plan (s : lstate) : list levent := free_lock s ++ [LCallerLock; LCallerUnlock].
Definition writer_plan (s : lstate) : list levent := free_lock s ++ [LWriterLock; LWriterUnlock].

Lemma plans_internal : forall s, forallb internal (caller_plan s) = true /\ forallb internal (writer_plan s) = true.
Proof. intros [r c w k]. destruct k; split; reflexivity. Qed.

(* the code (hold = false): a caller that wants to leave does leave, and the write loop does register and write, by internal steps
   alone — wherever the read loop is, in particular in the middle of a payload that never arrives *)
Theorem leaving_caller_returns : forall evs,
  let s := lrun false evs in
  l_caller s = LCWant -> l_caller (lrun_from false s (caller_plan s)) = LCLeft.
Proof.
  intros evs s H. pose proof (linv_run false evs) as I. fold s in I.
  destruct s as [r c w k]. cbn in H. subst c. destruct r, w, k; cbn in I; try discriminate; reflexivity.
Qed.

Theorem write_loop_registers : forall evs,
  let s := lrun false evs in
  l_writer s = LWWant -> l_writer (lrun_from false s (writer_plan s)) = LWWritten.
Proof.
  intros evs s H. pose proof (linv_run false evs) as I. fold s in I.
  destruct s as [r c w k]. cbn in H. subst w. destruct r, c, k; cbn in I; try discriminate; reflexivity.
Qed.

(* hold = true: the reader goes quiet after the header; a context is cancelled and a request is queued; nothing internal moves *)
Theorem lock_held_across_payload_refuted :
  exists evs, let s := lrun true evs in
    l_reader s = LRPayload /\ l_caller s = LCWant /\ l_writer s = LWWant /\
    forall e, internal e = true -> lstep true s e = s.
Proof.
  exists [LHeaderArrives; LReaderLock; LReaderLookedUp; LCtxCancelled; LRequestQueued]. cbn. repeat split.
  intros e He. destruct e; try discriminate; reflexivity.
Qed.

(* the same schedule with the code's discipline *)
Example same_schedule_released :
  let s := lrun false [LHeaderArrives; LReaderLock; LReaderLookedUp; LCtxCancelled; LRequestQueued] in
  l_reader s = LRPayload /\ l_caller (lrun_from false s (caller_plan s)) = LCLeft /\
  l_writer (lrun_from false (lrun_from false s (caller_plan s)) [LWriterLock; LWriterUnlock]) = LWWritten.
Proof. cbn. repeat split. Qed.
