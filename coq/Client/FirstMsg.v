(* Client/FirstMsg.v — the FIRST message of a connection is dispatched too (C04).

   checkInitialMessage (reader.go) reads the first frame itself, outside the read loop, and hands
   it to the handler registered for its type through handleGuarded BEFORE it looks at the type,
   decodes the event or checks the connection status.  So whatever the first message is — a
   successful or failed ConnectionAttemptEvent, an event without one, a KeepAlive, a report,
   garbage that the decoder rejects (or that makes it panic: C11) — a complete first frame that
   fits the buffering limit has been offered to its handler exactly once before Connect decides
   to go on or to fail.  [check_initial] (Client/Hostile.v) is the model. *)
From Coq Require Import NArith List Bool Lia.
From LLRP Require Import Client.Stream Client.StreamProofs Client.Hostile Client.HostileProofs.
Import ListNotations.
Open Scope N_scope.

Theorem first_message_offered : forall maxbuf cfg fl D f rest,
  frame_wf f -> len (f_payload f) <= maxbuf ->
  ci_handler_called (check_initial maxbuf cfg fl D (frame_bytes f ++ rest))
  = has_handler cfg (f_typ f) || (first_offers_default fl && has_default cfg).
Proof.
  intros maxbuf cfg fl D f rest Hwf Hle. unfold check_initial, frame_bytes.
  rewrite <- app_assoc, read_header_frame by assumption.
  cbn [frame_header h_len h_typ].
  replace (maxbuf <? len (f_payload f)) with false by (symmetry; apply N.ltb_ge; assumption).
  rewrite split_at_app_exact, N.eqb_refl. cbn [negb].
  destruct (negb (f_typ f =? MsgReaderEventNotification)); [reflexivity|].
  destruct (dec_ren D (f_payload f)) as [[s|]| | |]; reflexivity.
Qed.

(* a first message that does not fit the limit, or is cut short, is offered to nobody *)
Theorem first_message_oversize_not_offered : forall maxbuf cfg fl D f rest,
  frame_wf f -> maxbuf < len (f_payload f) ->
  let r := check_initial maxbuf cfg fl D (frame_bytes f ++ rest) in
  ci_handler_called r = false /\ ci_res r = CiErr /\ ci_alloc r = HeaderSz.
Proof.
  intros maxbuf cfg fl D f rest Hwf Hgt. unfold check_initial, frame_bytes.
  rewrite <- app_assoc, read_header_frame by assumption.
  cbn [frame_header h_len].
  replace (maxbuf <? len (f_payload f)) with true by (symmetry; apply N.ltb_lt; assumption).
  repeat split; reflexivity.
Qed.

(* the tree as found: with only a default handler registered, the first message is offered to
   nobody although Connect accepts it (FALSE clause of "... else the default handler") *)
Definition wit_cfg_default : config :=
  mkConfig (fun _ => false) true (fun t => (t =? 61) || (t =? 62) || (t =? 63)).

Theorem first_message_default_handler_refuted :
  has_default wit_cfg_default = true /\
  has_handler wit_cfg_default MsgReaderEventNotification = false /\
  (exists rest, ci_res (check_initial 4 wit_cfg_default flags_as_found wit_D wit_ren) = CiOk rest) /\
  ci_handler_called (check_initial 4 wit_cfg_default flags_as_found wit_D wit_ren) = false /\
  ci_handler_called (check_initial 4 wit_cfg_default flags_repaired wit_D wit_ren) = true.
Proof. repeat split; try reflexivity. eexists. vm_compute. reflexivity. Qed.
