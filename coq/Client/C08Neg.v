(* Client/C08Neg.v — when negotiation is complete (C08: "only after version negotiation has completed, or fail if setup fails").

   The gate opens at ConnReady, which is enabled only in [PNegotiating NDone _]. Here: which replies take negotiate there, and that
   every other reply ends setup with the gate shut. Only an expected-type response with status Success does:
     - GetSupportedVersion: a GetSupportedVersionResponse with status Success (negotiation is then complete iff the reader's current
       version is the settled one, otherwise SetProtocolVersion follows) — or an ErrorMessage with VersionUnsupported (a 1.0.1 reader;
       an ErrorMessage carrying Success is no answer since /repo 6e714d1);
     - SetProtocolVersion: a SetProtocolVersionResponse with status Success, and nothing else — in particular not an ErrorMessage,
       whatever its status.
   The tie to the code is the `negotiation-replies` family of checks/c08.py ((reply type x status) in full for both messages). *)
From Coq Require Import NArith List Bool Lia.
From LLRP Require Import Client.Types Client.Model.
Import ListNotations.
Open Scope N_scope.

Lemma spv_ok_spec : forall f, spv_ok f = true <->
  f_len f <= max_buffered /\ f_typ f = T_SetProtocolVersionResponse /\ f_info f = IStatus Status_Success.
Proof.
  intro f. unfold spv_ok. split.
  - intro H. apply andb_true_iff in H. destruct H as (H & H3). apply andb_true_iff in H. destruct H as (H1 & H2).
    apply N.leb_le in H1. apply N.eqb_eq in H2. destruct (f_info f) as [|cs| |c0 m0 st|code]; try discriminate. apply N.eqb_eq in H3. subst. auto.
  - intros (H1 & H2 & H3). rewrite H2, H3. rewrite (proj2 (N.leb_le _ _) H1). reflexivity.
Qed.

Lemma gsv_outcome_spec : forall f cur mx, gsv_outcome f = Some (cur, mx) ->
  f_len f <= max_buffered /\
  ((f_typ f = T_GetSupportedVersionResponse /\ f_info f = IVer cur mx Status_Success) \/
   (f_typ f = T_ErrorMessage /\ cur = 1 /\ mx = 1 /\ f_info f = IStatus Status_VerUnsupported)).
Proof.
  intros f cur mx. unfold gsv_outcome.
  destruct (N.ltb_spec max_buffered (f_len f)) as [Hgt|Hle]; [discriminate|]. intro H. split; [assumption|].
  destruct (N.eqb_spec (f_typ f) T_ErrorMessage) as [Et|Nt].
  - right. destruct (f_info f) as [|cs| |c0 m0 st|code] eqn:Ei; try discriminate.
    destruct (N.eqb_spec code Status_VerUnsupported) as [E1|N1]; [|discriminate].
    inversion H; subst. auto.
  - destruct (N.eqb_spec (f_typ f) T_GetSupportedVersionResponse) as [Eg|Ng]; [|discriminate].
    left. destruct (f_info f) as [|cs| |c0 m0 st|code] eqn:Ei; try discriminate.
    destruct (N.eqb_spec st Status_Success) as [E2|N2]; [|discriminate]. inversion H; subst. auto.
Qed.

(* the reply to SetProtocolVersion decides: confirmed -> negotiation done (gate still shut, client open); anything else ->
   Connect returns the negotiation error on a closed client and the gate stays as it is (shut) *)
Theorem spv_reply_decides : forall cfg s c r seq f,
  phase s = PNegotiating NSpv (Some c) -> lookup c (callers s) = Some (Done r (ROk seq f)) ->
  let s' := step cfg s NegStep in
  ready s' = ready s /\
  (spv_ok f = true -> phase s' = PNegotiating NDone None /\ closed s' = closed s) /\
  (spv_ok f = false -> phase s' = PReturned CErrNeg /\ closed s' = true).
Proof.
  intros cfg s c r seq f Hp Hl s'. subst s'. cbn [step]. unfold step_neg_step, neg_fail, neg_fail_with. rewrite Hp, Hl.
  destruct (spv_ok f); repeat split; try reflexivity; discriminate.
Qed.

Theorem gsv_reply_decides : forall cfg s c r seq f,
  phase s = PNegotiating NGsv (Some c) -> lookup c (callers s) = Some (Done r (ROk seq f)) ->
  let s' := step cfg s NegStep in
  ready s' = ready s /\
  (forall cur mx, gsv_outcome f = Some (cur, mx) ->
     let v := if mx <? version s then mx else version s in
     version s' = v /\ closed s' = closed s /\
     phase s' = PNegotiating (if cur =? v then NDone else NSpv) None) /\
  (gsv_outcome f = None -> phase s' = PReturned CErrNeg /\ closed s' = true).
Proof.
  intros cfg s c r seq f Hp Hl s'. subst s'. cbn [step]. unfold step_neg_step, neg_fail, neg_fail_with. rewrite Hp, Hl.
  destruct (gsv_outcome f) as [[cur1 mx1]|].
  - split; [destruct (cur1 =? _); reflexivity|]. split.
    + intros cur0 mx0 HH. inversion HH; subst. cbv zeta. destruct (cur0 =? _); repeat split; reflexivity.
    + intro HH. discriminate.
  - split; [reflexivity|]. split.
    + intros cur0 mx0 HH. discriminate.
    + intros _. split; reflexivity.
Qed.

(* every other way a negotiation send can end (its context ended, the client was closed, a zero Message) fails setup too *)
Theorem neg_send_without_reply_fails : forall cfg s st c r res,
  phase s = PNegotiating st (Some c) -> st <> NDone -> lookup c (callers s) = Some (Done r res) ->
  (forall seq f, res <> ROk seq f) ->
  let s' := step cfg s NegStep in
  ready s' = ready s /\ closed s' = true /\ exists e, phase s' = PReturned e.
Proof.
  intros cfg s st c r res Hp Hst Hl Hres s'. subst s'. cbn [step]. unfold step_neg_step, neg_fail, neg_fail_with. rewrite Hp, Hl.
  destruct st; [| |contradiction]; destruct res; try (repeat split; try reflexivity; eexists; reflexivity);
    exfalso; eapply Hres; reflexivity.
Qed.

