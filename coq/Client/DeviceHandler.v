(* Client/DeviceHandler.v — the device service's message handlers and the client's read loop
   (internal/driver/device.go newROHandler / newReaderEventHandler / sendEdgeXEvent; pkg/llrp/reader.go
   passToHandler: "A handler blocks reads from making progress").

   The client LTS (Client/Model.v) runs a handler to completion inside the RFrame event: that a
   registered handler RETURNS is a premise there. For the library's own ackHandler it holds by
   construction (non-blocking select). The device service registers two handlers of its own; they
   publish to EdgeX through the driver's asynchronous-values channel, whose consumer is outside the
   service's control. This file models just that corner: the read loop, the handler, the channel
   (capacity [cap], 0 = unbuffered) and its consumer, in the two shapes the forwarding can take —
   [inline = false]: the handler decodes and hands the value to a goroutine of its own, which does
   the channel send (device.go: `go func() { ... l.sendEdgeXEvent(...) }()`), and
   [inline = true]: the handler does the send itself, on the read loop.
   No proofs here (DeviceHandlerProofs.v). *)
From Coq Require Import NArith List Bool Arith.
Import ListNotations.

Inductive item :=
| IReport                 (* ROAccessReport or ReaderEventNotification: handled by the device service *)
| IKeepAlive (id : N).    (* handled by the client's ackHandler: the id goes to the ack queue *)

Inductive rl := RLHead | RLSending.   (* read loop at its head / inside the handler, blocked in the channel send *)

Record dstate := mkD {
  inbound : list item;    (* frames the reader has sent and the client has not yet read *)
  rloop : rl;
  chan : nat;             (* values sitting in the channel *)
  forwarders : nat;       (* goroutines started by the handler that have not completed their send yet *)
  acks : list N           (* keep-alive ids handed to the acknowledgement queue, in order *)
}.

Inductive dev_event :=
| DRead       (* the read loop reads the next frame and dispatches it *)
| DForward    (* a pending channel send (of the handler itself / of one forwarding goroutine) completes *)
| DConsume.   (* the consumer of the channel (EdgeX) takes one value *)

Definition dinit (items : list item) : dstate := mkD items RLHead 0 0 [].

Definition dstep (inline : bool) (cap : nat) (s : dstate) (e : dev_event) : dstate :=
  match e with
  | DRead =>
      match rloop s, inbound s with
      | RLHead, IKeepAlive i :: r => mkD r RLHead (chan s) (forwarders s) (acks s ++ [i])
      | RLHead, IReport :: r =>
          if inline then
            if chan s <? cap then mkD r RLHead (S (chan s)) (forwarders s) (acks s)
            else mkD r RLSending (chan s) (forwarders s) (acks s)
          else mkD r RLHead (chan s) (S (forwarders s)) (acks s)
      | _, _ => s
      end
  | DForward =>
      if chan s <? cap then
        if inline then
          match rloop s with
          | RLSending => mkD (inbound s) RLHead (S (chan s)) (forwarders s) (acks s)
          | RLHead => s
          end
        else match forwarders s with
             | S n => mkD (inbound s) (rloop s) (S (chan s)) n (acks s)
             | O => s
             end
      else s
  | DConsume =>
      match chan s with
      | S n => mkD (inbound s) (rloop s) n (forwarders s) (acks s)
      | O =>
          (* nothing buffered: a blocked sender hands its value over directly *)
          if inline then
            match rloop s with
            | RLSending => mkD (inbound s) RLHead 0 (forwarders s) (acks s)
            | RLHead => s
            end
          else match forwarders s with
               | S n => mkD (inbound s) (rloop s) 0 n (acks s)
               | O => s
               end
      end
  end.

Definition drun (inline : bool) (cap : nat) (evs : list dev_event) (s : dstate) : dstate :=
  fold_left (dstep inline cap) evs s.

Definition ka_ids (items : list item) : list N :=
  flat_map (fun it => match it with IKeepAlive i => [i] | IReport => [] end) items.
Definition is_read (e : dev_event) : bool := match e with DRead => true | _ => false end.
Definition is_consume (e : dev_event) : bool := match e with DConsume => true | _ => false end.
