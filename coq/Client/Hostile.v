(* C10 — the whole inbound side of a connection against an arbitrary peer: Connect
   (reader.go 388-441) = checkInitialMessage (1035-1086), then the read loop of Stream.v
   running while negotiate / getSupportedVersion (1095-1206) and user calls (SendMessage
   576-611, Shutdown 463-490) consume the replies it hands over; Message.data
   (messages.go 346-367).

   Explicit [OPanic]/[OHang] outcomes, and an allocation counter: every make([]byte, n) the
   client performs for a message is counted with n as the code computes it.

   The generated decoders that the client itself calls outside handleGuarded are a parameter
   ([decoders]) with outcome classes ok / err / panic / hang; "they neither panic nor hang" is
   property C11's business and appears as hypothesis [good] in the theorems.

   Code behaviours that exist in two variants are flags, so that the `_refuted` witnesses are
   proved for the behaviour of the tree as found and the full theorems for the repaired
   behaviour; the check determines by probing which variant the code under test has.

   No proofs here (HostileProofs.v). *)
From Coq Require Import NArith List Bool.
From LLRP Require Import Client.Stream.
Import ListNotations.
Open Scope N_scope.

Inductive dec_out (A : Type) := DOk (v : A) | DErr | DPanic | DHang.
Arguments DOk {A} v. Arguments DErr {A}. Arguments DPanic {A}. Arguments DHang {A}.

Inductive outcome (A : Type) := OOk (v : A) | OErr | OPanic | OHang.
Arguments OOk {A} v. Arguments OErr {A}. Arguments OPanic {A}. Arguments OHang {A}.

Record flags := mkFlags {
  (* Message.data checks payloadLen > MaxBufferedPayloadSz BEFORE the `payload == nil`
     shortcut (F3 repaired); false = the shortcut comes first: (nil, nil) for an oversize reply *)
  data_checks_size_first : bool;
  (* getSupportedVersion reads its reply through Message.data (F4 repaired); false =
     make([]byte, resp.payloadLen) + io.ReadFull(resp.payload, ..) on a possibly nil reader *)
  gsv_uses_checked_read : bool;
  (* a loop that ends while Connect is still negotiating makes negotiate return; false =
     negotiate waits on {done, its own context, the reply} only *)
  neg_aborts_on_loop_end : bool;
  (* EOF after a CloseConnectionResponse parks the read loop only if this client sent
     CloseConnection; false = after any CloseConnectionResponse *)
  close_wait_only_if_sent : bool;
  (* checkInitialMessage offers the first message to the default handler when no handler is
     registered for its type (as passToHandler does for every later message); false = only
     c.handlers[hdr.typ] is consulted: a client with just a default handler never sees it *)
  first_offers_default : bool }.

Definition flags_as_found : flags := mkFlags false false false false false.
Definition flags_repaired : flags := mkFlags true true true true true.

Record decoders := mkDec {
  dec_ren : list byte -> dec_out (option N);        (* ReaderEventNotification: ConnectionAttemptEvent if present *)
  dec_errmsg : list byte -> dec_out N;               (* ErrorMessage: status code *)
  dec_gsvresp : list byte -> dec_out (N * N * N);    (* current, max supported version, status code *)
  dec_spvresp : list byte -> dec_out N;              (* SetProtocolVersionResponse: status code *)
  dec_ccr : list byte -> dec_out N;                  (* CloseConnectionResponse: status code *)
  dec_llrpstatus : list byte -> dec_out N }.         (* LLRPStatus.UnmarshalBinary on an ErrorMessage payload (Shutdown) *)

Definition MsgReaderEventNotification : N := 63.
Definition MsgErrorMessage : N := 100.
Definition MsgGetSupportedVersionResponse : N := 56.
Definition MsgSetProtocolVersionResponse : N := 57.
Definition StatusMsgVerUnsupported : N := 110.

Definition lift_dec {A B} (d : dec_out A) (k : A -> outcome B) : outcome B :=
  match d with DOk v => k v | DErr => OErr | DPanic => OPanic | DHang => OHang end.

Definition status_out (s : N) : outcome unit := if s =? 0 then OOk tt else OErr.

Inductive consumer := CGsv | CSpv | CUser | CShutdown.

Inductive cons_out :=
| CoNone
| CoGsv (o : outcome (N * N))              (* current, max supported *)
| CoSpv (o : outcome unit)
| CoUser (o : outcome (N * list byte))     (* what SendMessage returns: type, data *)
| CoShutdown (o : outcome unit).           (* OOk: status Success, Shutdown goes on to Close *)

Inductive ci_result := CiOk (rest : list byte) | CiErr | CiPanic | CiHang.
Record ci_out := mkCi { ci_res : ci_result; ci_alloc : N; ci_handler_called : bool }.

Inductive nstate := NWill (k : consumer) | NAwait (k : consumer) (id : N) | NDone.

Record sstate := mkSS {
  ss_st : state;                    (* awaiting ids, receivedClosed *)
  ss_neg : nstate;                  (* where the Connect goroutine is *)
  ss_next : N;                      (* nextMsgID of the write loop *)
  ss_cons : list (N * consumer);    (* who is blocked in send() for which id *)
  ss_ver : N;                       (* c.version *)
  ss_sent_close : bool }.           (* CloseConnection has been written *)

(* the environment of one loop iteration *)
Record senv := mkSenv {
  se_neg_sent : bool;       (* the pending negotiation request got registered before this lookup *)
  se_users : list bool;     (* user requests registered before this lookup (only once `ready`
                               is closed): false = SendMessage, true = Shutdown *)
  se_beh : hbeh }.

Record srecord := mkRec { sr_d : dispatch; sr_cons : cons_out; sr_alloc : N }.

Inductive send :=
| SeErr            (* Connect returns a non-nil error *)
| SeClosed         (* Shutdown succeeded: Connect returns ErrClientClosed *)
| SePanic          (* a client goroutine panics: the process dies *)
| SeHang           (* a client goroutine spins in a decoder *)
| SeWaitClose      (* stream ended; Connect does not return until the user calls Close *)
| SeNegBlocked     (* stream ended; Connect is stuck inside negotiate *)
| SeOutOfFuel.

Record sresult := mkSRes { s_init : ci_out; s_log : list srecord; s_end : send }.

Definition u32 (x : N) : N := x mod 2 ^ 32.

Section Hostile.
Variable maxbuf : N.
Variable cfg : config.
Variable fl : flags.
Variable D : decoders.
Variable neg_timeout : bool.   (* WithTimeout: negotiation requests carry a deadline *)

(* ---------------------------------------------------------------- checkInitialMessage *)
Definition check_initial (bs : list byte) : ci_out :=
  match read_header bs with
  | RhOk h rest =>
      if maxbuf <? h_len h then mkCi CiErr HeaderSz false
      else
        let (pl, rest') := split_at (h_len h) rest in
        let alloc := HeaderSz + h_len h in                 (* make([]byte, hdr.payloadLen) *)
        if negb (len pl =? h_len h) then mkCi CiErr alloc false
        else
          (* via handleGuarded, BEFORE the type / decoding / status checks *)
          let called := has_handler cfg (h_typ h) || (first_offers_default fl && has_default cfg) in
          if negb (h_typ h =? MsgReaderEventNotification) then mkCi CiErr alloc called
          else match dec_ren D pl with
               | DPanic => mkCi CiPanic alloc called
               | DHang => mkCi CiHang alloc called
               | DErr => mkCi CiErr alloc called
               | DOk None => mkCi CiErr alloc called
               | DOk (Some s) => mkCi (if s =? 0 then CiOk rest' else CiErr) alloc called
               end
  | _ => mkCi CiErr HeaderSz false
  end.

(* ---------------------------------------------------------------- Message.data *)
Definition msg_data (h : header) (r : reply_delivery) : outcome (list byte) :=
  match r with
  | RBuffered pl => OOk pl                                       (* byteProvider *)
  | RHeaderOnly =>                                               (* payload == nil *)
      if data_checks_size_first fl && (maxbuf <? h_len h) then OErr else OOk []
  | RTruncated => OErr                                           (* nothing is delivered *)
  end.

(* ---------------------------------------------------------------- getSupportedVersion *)
Definition gsv_decode (h : header) (data : list byte) : outcome (N * N) :=
  if h_typ h =? MsgErrorMessage then
    lift_dec (dec_errmsg D data)
             (fun s => if (s =? StatusMsgVerUnsupported) || (s =? 0) then OOk (1, 1) else OErr)
  else if h_typ h =? MsgGetSupportedVersionResponse then
    lift_dec (dec_gsvresp D data)
             (fun cms => let '(cur, mx, s) := cms in if s =? 0 then OOk (cur, mx) else OErr)
  else OErr.

Definition consume_gsv (h : header) (r : reply_delivery) : outcome (N * N) * N :=
  if gsv_uses_checked_read fl then
    (match msg_data h r with
     | OOk data => gsv_decode h data
     | OErr => OErr | OPanic => OPanic | OHang => OHang
     end, 0)
  else
    (* data := make([]byte, resp.payloadLen); io.ReadFull(resp.payload, data) *)
    match r with
    | RBuffered pl => (gsv_decode h pl, h_len h)
    | RHeaderOnly => (OPanic, h_len h)         (* nil io.Reader dereferenced after the allocation *)
    | RTruncated => (OErr, 0)
    end.

(* negotiate, second half: isResponseTo(SetProtocolVersion), UnmarshalTo, status *)
Definition consume_spv (h : header) (r : reply_delivery) : outcome unit :=
  if h_typ h =? MsgSetProtocolVersionResponse then
    match msg_data h r with
    | OOk data => lift_dec (dec_spvresp D data) status_out
    | OErr => OErr | OPanic => OPanic | OHang => OHang
    end
  else OErr.

(* SendMessage *)
Definition consume_user (h : header) (r : reply_delivery) : outcome (N * list byte) :=
  match msg_data h r with
  | OOk data => OOk (h_typ h, data)
  | OErr => OErr | OPanic => OPanic | OHang => OHang
  end.

(* Shutdown after SendMessage(CloseConnection) *)
Definition consume_shutdown (h : header) (r : reply_delivery) : outcome unit :=
  match consume_user h r with
  | OOk (t, data) =>
      if t =? MsgCloseConnectionResponse then lift_dec (dec_ccr D data) status_out
      else if t =? MsgErrorMessage then lift_dec (dec_llrpstatus D data) status_out
      else OErr
  | OErr => OErr | OPanic => OPanic | OHang => OHang
  end.

Definition consume (k : consumer) (h : header) (r : reply_delivery) : cons_out * N :=
  match k with
  | CGsv => let (o, a) := consume_gsv h r in (CoGsv o, a)
  | CSpv => (CoSpv (consume_spv h r), 0)
  | CUser => (CoUser (consume_user h r), 0)
  | CShutdown => (CoShutdown (consume_shutdown h r), 0)
  end.

(* ---------------------------------------------------------------- registrations *)
Fixpoint reg_users (us : list bool) (next : N) (cons : list (N * consumer)) (sent_close : bool)
  : N * list (N * consumer) * bool * list N :=
  match us with
  | [] => (next, cons, sent_close, [])
  | u :: r =>
      let '(n', c', s', ids) :=
        reg_users r (u32 (next + 1)) ((next, if u then CShutdown else CUser) :: cons) (sent_close || u) in
      (n', c', s', next :: ids)
  end.

Definition do_register (ss : sstate) (e : senv) : sstate * list N :=
  match ss_neg ss with
  | NWill k =>
      if se_neg_sent e then
        (mkSS (ss_st ss) (NAwait k (ss_next ss)) (u32 (ss_next ss + 1))
              ((ss_next ss, k) :: ss_cons ss) (ss_ver ss) (ss_sent_close ss), [ss_next ss])
      else (ss, [])
  | NAwait _ _ => (ss, [])
  | NDone =>
      let '(n', c', s', ids) := reg_users (se_users e) (ss_next ss) (ss_cons ss) (ss_sent_close ss) in
      (mkSS (ss_st ss) NDone n' c' (ss_ver ss) s', ids)
  end.

Fixpoint lookup_cons (id : N) (l : list (N * consumer)) : consumer :=
  match l with
  | [] => CUser
  | (i, k) :: r => if i =? id then k else lookup_cons id r
  end.

Definition remove_cons (id : N) (l : list (N * consumer)) : list (N * consumer) :=
  filter (fun p => negb (fst p =? id)) l.

(* ---------------------------------------------------------------- how Connect ends when the read loop ends *)
Definition end_of (ss : sstate) (e : ending) : send :=
  match e with
  | EndOutOfFuel => SeOutOfFuel
  | _ =>
      let parked := match e with
                    | EndWaitClose => negb (close_wait_only_if_sent fl) || ss_sent_close ss
                    | _ => false end in
      match ss_neg ss with
      | NDone => if parked then SeWaitClose else SeErr
      | _ => if neg_timeout || (neg_aborts_on_loop_end fl && negb parked) then SeErr else SeNegBlocked
      end
  end.

(* ---------------------------------------------------------------- one iteration *)
Inductive step_result :=
| SsNext (r : srecord) (ss' : sstate) (rest : list byte)
| SsStop (l : list srecord) (e : send).

Definition with_st (ss : sstate) (st : state) : sstate :=
  mkSS st (ss_neg ss) (ss_next ss) (ss_cons ss) (ss_ver ss) (ss_sent_close ss).

Definition after_consumer (ss : sstate) (rec : srecord) (rest : list byte) : step_result :=
  match sr_cons rec with
  | CoNone => SsNext rec ss rest
  | CoGsv (OOk (cur, mx)) =>
      let v := N.min (ss_ver ss) mx in
      SsNext rec (mkSS (ss_st ss) (if cur =? v then NDone else NWill CSpv) (ss_next ss) (ss_cons ss) v
                       (ss_sent_close ss)) rest
  | CoSpv (OOk _) =>
      SsNext rec (mkSS (ss_st ss) NDone (ss_next ss) (ss_cons ss) (ss_ver ss) (ss_sent_close ss)) rest
  | CoGsv OErr | CoSpv OErr => SsStop [rec] SeErr           (* negotiate fails: Connect returns it *)
  | CoUser (OOk _) | CoUser OErr | CoShutdown OErr => SsNext rec ss rest
  | CoShutdown (OOk _) => SsStop [rec] SeClosed              (* Shutdown calls Close *)
  | CoGsv OPanic | CoSpv OPanic | CoUser OPanic | CoShutdown OPanic => SsStop [rec] SePanic
  | CoGsv OHang | CoSpv OHang | CoUser OHang | CoShutdown OHang => SsStop [rec] SeHang
  end.

Definition session_step (ss : sstate) (e : senv) (bs : list byte) : step_result :=
  let (ss1, ids) := do_register ss e in
  match read_iter maxbuf cfg (ss_st ss1)
                  (mkEnv ids (se_beh e) (negb (close_wait_only_if_sent fl) || ss_sent_close ss1)) bs with
  | ItEnd en _ => SsStop [] (end_of ss1 en)
  | ItLast d => SsStop [mkRec d CoNone (d_alloc d)] (end_of ss1 EndShortDiscard)
  | ItNext d st' rest =>
      let ss2 := with_st ss1 st' in
      match d_reply d with
      | Some RTruncated | None => SsNext (mkRec d CoNone (d_alloc d)) ss2 rest
      | Some r =>
          let id := h_id (d_hdr d) in
          let k := lookup_cons id (ss_cons ss2) in
          let ss3 := mkSS (ss_st ss2) (ss_neg ss2) (ss_next ss2) (remove_cons id (ss_cons ss2))
                          (ss_ver ss2) (ss_sent_close ss2) in
          let (co, a) := consume k (d_hdr d) r in
          after_consumer ss3 (mkRec d co (d_alloc d + a)) rest
      end
  end.

Fixpoint session_loop (fuel : nat) (ss : sstate) (env : nat -> senv) (i : nat) (bs : list byte)
  : list srecord * send :=
  match fuel with
  | O => ([], SeOutOfFuel)
  | S fuel' =>
      match session_step ss (env i) bs with
      | SsStop l e => (l, e)
      | SsNext r ss' rest =>
          let (l, e) := session_loop fuel' ss' env (S i) rest in (r :: l, e)
      end
  end.

Definition init_ss (negotiate : bool) (ver : N) : sstate :=
  mkSS st0 (if negotiate then NWill CGsv else NDone) 0 [] ver false.

(* Connect *)
Definition session (negotiate : bool) (ver : N) (env : nat -> senv) (bs : list byte) : sresult :=
  let ci := check_initial bs in
  match ci_res ci with
  | CiOk rest =>
      let (l, e) := session_loop (S (length rest)) (init_ss negotiate ver) env O rest in
      mkSRes ci l e
  | CiErr => mkSRes ci [] SeErr
  | CiPanic => mkSRes ci [] SePanic
  | CiHang => mkSRes ci [] SeHang
  end.

End Hostile.

(* decoders that return a value or an error on every input *)
Definition total_dec {A} (d : list byte -> dec_out A) : Prop :=
  forall bs, (exists v, d bs = DOk v) \/ d bs = DErr.

Record good (D : decoders) : Prop := mkGood {
  g_ren : total_dec (dec_ren D);
  g_errmsg : total_dec (dec_errmsg D);
  g_gsvresp : total_dec (dec_gsvresp D);
  g_spvresp : total_dec (dec_spvresp D);
  g_ccr : total_dec (dec_ccr D);
  g_llrpstatus : total_dec (dec_llrpstatus D) }.
