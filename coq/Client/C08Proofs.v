(* Client/C08Proofs.v — the C08 statements derived from pre_inv (InvC08.v) and gate_inv (InvC08Gate.v). *)
From Coq Require Import NArith Arith List Bool Lia.
From LLRP Require Import Client.Types Client.Model Client.MapLemmas Client.StepFacts
     Client.InvCore Client.InvAck Client.InvOut Client.InvC08 Client.InvC08Gate.
Import ListNotations.
Open Scope N_scope.

Definition passed (p : conn_phase) : bool := negb (not_passed p).

(* ---------------- the initial check, one step ---------------- *)
Lemma check_initial_decides : forall cfg s f h, phase s = PCheckInitial ->
  let s' := step cfg s (ConnFirst f h) in
  (first_ok f = true -> (exists st, phase s' = PNegotiating st None) /\ closed s' = closed s /\ ready s' = ready s) /\
  (first_ok f = false -> phase s' = PReturned CErrInit /\ closed s' = true /\ ready s' = true).
Proof.
  intros cfg s f h Hp. cbn [step]. unfold step_conn_first. rewrite Hp. cbv zeta. unfold first_ok.
  destruct (max_buffered <? f_len f) eqn:Hbig.
  - apply N.ltb_lt in Hbig. apply N.leb_gt in Hbig. rewrite Hbig. cbn [andb]. split; [discriminate|]. intros _. repeat split.
  - apply N.ltb_ge in Hbig. apply N.leb_le in Hbig. rewrite Hbig. cbn [andb].
    match goal with |- context [init_fail ?x] => remember x as s2 eqn:Hs2 end.
    assert (Hc : same_ctl (set_peer_sent (peer_sent s ++ [f]) s) s2).
    { subst s2. destruct (first_handler cfg (f_typ f)) as [k|]; [|apply same_ctl_refl].
      destruct k; try (same_ctl_tac; fail).
      eapply same_ctl_trans; [|apply ack_enqueue_same_ctl]. same_ctl_tac. }
    clear Hs2. destruct Hc as (_ & E2 & _ & _ & _ & _ & _ & _ & _ & E10). st_simpl.
    destruct ((f_typ f =? T_ReaderEventNotification) && is_conn_success (f_info f)).
    + split; [|discriminate]. intros _. st_simpl_goal. repeat split; eauto.
    + split; [discriminate|]. intros _. repeat split.
Qed.

Lemma no_first_message_fails : forall cfg s, phase s = PCheckInitial ->
  let s' := step cfg s ConnFirstFail in phase s' = PReturned CErrInit /\ closed s' = true.
Proof. intros cfg s Hp. cbn [step]. unfold step_conn_first_fail. rewrite Hp. split; reflexivity. Qed.

(* ---------------- over all runs ---------------- *)
Theorem connect_ok_iff_conn_success : forall cfg evs,
  let s := run cfg evs in
  (passed (phase s) = true <-> exists f, nth_error (peer_sent s) 0 = Some f /\ first_ok f = true) /\
  (phase s = PReturned CErrInit -> peer_sent s = [] \/ exists f, peer_sent s = [f] /\ first_ok f = false).
Proof.
  intros cfg evs s. destruct (pre_inv_run cfg evs) as [A B C D]. fold s in A, B, C, D. unfold passed. split.
  - split.
    + intro H. apply negb_true_iff in H. destruct (D H) as (f & rest & E & F). exists f. rewrite E. auto.
    + intros (f & E & F). apply negb_true_iff. destruct (not_passed (phase s)) eqn:Hn; [|reflexivity].
      destruct (C eq_refl) as [X|(g & X & Y)]; rewrite X in E; cbn in E; [discriminate|].
      inversion E; subst. congruence.
  - intro Hp. apply C. rewrite Hp. reflexivity.
Qed.

Theorem nothing_written_before_ok : forall cfg evs,
  let s := run cfg evs in
  passed (phase s) = false -> out s = [] /\ wire s = [] /\ writer s = WNone /\ reader s = RNone.
Proof.
  intros cfg evs s H. apply negb_false_iff in H. destruct (pre_inv_run cfg evs) as [A _ _ _].
  destruct (A H) as (X1 & X2 & X3 & X4). auto.
Qed.

Lemma run_app : forall cfg evs evs', run cfg (evs ++ evs') = run_from cfg (run cfg evs) evs'.
Proof. intros. unfold run, run_from. apply fold_left_app. Qed.

Theorem nothing_written_after_failed_check : forall cfg evs evs',
  phase (run cfg evs) = PReturned CErrInit ->
  let s' := run cfg (evs ++ evs') in
  phase s' = PReturned CErrInit /\ out s' = [] /\ wire s' = [] /\ closed s' = true.
Proof.
  intros cfg evs evs' Hp s'. assert (Hp' : phase s' = PReturned CErrInit).
  { unfold s'. rewrite run_app. apply returned_stable_run. assumption. }
  pose proof (nothing_written_before_ok cfg (evs ++ evs')) as H. cbv zeta in H. fold s' in H.
  destruct H as (X1 & X2 & _); [unfold passed; rewrite Hp'; reflexivity|].
  repeat split; auto. apply over_closed_run. fold s'. rewrite Hp'. reflexivity.
Qed.

(* ---------------- the gate ---------------- *)
Lemma gate_inv_init : forall cfg, gate_inv (init cfg).
Proof.
  intros. unfold gate_inv. cbn. constructor; cbn.
  - intros _ c p H. discriminate.
  - intros c p H. discriminate.
  - discriminate.
  - intros o H. discriminate.
  - intros c [].
  - exists [], []. repeat split; auto; intros x [].
Qed.

Lemma gate_inv_run_from : forall cfg evs s, exported_only evs -> pre_inv s -> gate_inv s ->
  gate_inv (run_from cfg s evs).
Proof.
  intros cfg evs. induction evs as [|e evs IH]; intros s Hex P G; cbn; [assumption|].
  inversion Hex; subst. apply IH; [assumption|now apply pre_inv_step|now apply gate_inv_step].
Qed.

Theorem gate_inv_run : forall cfg evs, exported_only evs -> gate_inv (run cfg evs).
Proof. intros. apply gate_inv_run_from; [assumption|apply pre_inv_init|apply gate_inv_init]. Qed.

Lemma out_in_psrcs : forall s o, In o (out s) -> In (o_src o) (psrcs s).
Proof. intros. unfold psrcs. apply in_or_app. left. now apply in_map. Qed.

(* while the gate is shut: a request that came through the exported API has not been handed to the
   write loop (it waits at the gate or has given up with an error) and none of its bytes are written *)
Theorem held_back_until_ready : forall cfg evs, exported_only evs ->
  let s := run cfg evs in
  ready s = false ->
  forall c p, lookup c (callers s) = Some p -> q_gate (req_of p) = true ->
    at_gate p /\ (forall o, In o (out s) -> o_src o <> Some c) /\ (forall o, writer s = WHolding o \/ writer s = WPayload o -> o_src o <> Some c).
Proof.
  intros cfg evs Hex s Hrd c p L Hg. destruct (gate_inv_run cfg evs Hex) as [H N R D F O]. fold s in H, N, R, D, F, O.
  split; [eauto|].
  destruct O as (A & B & E & HA & HB & HE). rewrite (HE Hrd), app_nil_r in E.
  assert (Hno : ~ In (Some c) (psrcs s)).
  { intro Hin. rewrite E in Hin. apply (HA _ Hin). cbn. unfold gate_of. rewrite L, Hg. reflexivity. }
  split.
  - intros o Hin Hs. apply Hno. rewrite <- Hs. now apply out_in_psrcs.
  - intros o Hw Hs. apply Hno. unfold psrcs. apply in_or_app. right. destruct Hw as [Hw|Hw]; rewrite Hw; cbn; auto.
Qed.

(* the gate opens only when setup is over *)
Theorem ready_means_setup_over : forall cfg evs, exported_only evs ->
  ready (run cfg evs) = true -> setup_over (phase (run cfg evs)).
Proof. intros cfg evs Hex. destruct (gate_inv_run cfg evs Hex). assumption. Qed.

Lemma nth_split_order : forall (A B : list (option N)) l i j x y,
  l = A ++ B -> nth_error l i = Some x -> nth_error l j = Some y -> ~ In x A -> ~ In y B -> (j < i)%nat.
Proof.
  intros A B l i j x y -> Hi Hj Hx Hy.
  destruct (Nat.lt_ge_cases i (length A)) as [Hlt|Hge].
  - rewrite nth_error_app1 in Hi by assumption. apply nth_error_In in Hi. contradiction.
  - destruct (Nat.lt_ge_cases j (length A)) as [Hlt'|Hge']; [lia|].
    rewrite nth_error_app2 in Hj by assumption. apply nth_error_In in Hj. contradiction.
Qed.

(* in the stream of written frames, every negotiation frame (frame of an internal, ungated send)
   comes before every frame of a request that came through the exported API *)
Theorem negotiation_frames_first : forall cfg evs, exported_only evs ->
  let s := run cfg evs in
  forall i j oi oj ci cj pi pj,
    nth_error (out s) i = Some oi -> nth_error (out s) j = Some oj ->
    o_src oi = Some ci -> lookup ci (callers s) = Some pi -> q_gate (req_of pi) = false ->
    o_src oj = Some cj -> lookup cj (callers s) = Some pj -> q_gate (req_of pj) = true ->
    (i < j)%nat.
Proof.
  intros cfg evs Hex s i j oi oj ci cj pi pj Hi Hj Si Li Gi Sj Lj Gj.
  destruct (gate_inv_run cfg evs Hex) as [_ _ _ _ _ O]. fold s in O.
  destruct O as (A & B & E & HA & HB & _).
  assert (Hi' : nth_error (psrcs s) i = Some (Some ci)).
  { unfold psrcs. rewrite nth_error_app1 by (rewrite map_length; apply nth_error_Some; congruence).
    rewrite nth_error_map, Hi. cbn. now rewrite Si. }
  assert (Hj' : nth_error (psrcs s) j = Some (Some cj)).
  { unfold psrcs. rewrite nth_error_app1 by (rewrite map_length; apply nth_error_Some; congruence).
    rewrite nth_error_map, Hj. cbn. now rewrite Sj. }
  eapply (nth_split_order A B (psrcs s) j i (Some cj) (Some ci) E Hj' Hi').
  - intro Hin. apply (HA _ Hin). cbn. unfold gate_of. rewrite Lj, Gj. reflexivity.
  - intro Hin. apply (HB _ Hin). cbn. unfold gate_of. rewrite Li, Gi. reflexivity.
Qed.

(* if setup fails after the initial check (negotiation), the gate never opens: whatever happens
   later, every request that came through the exported API is still at the gate or has returned an
   error, none of it is ever written, and the client is closed (so the waiting select has its
   done case enabled: C09) *)
Lemma ready_stable_after_return : forall cfg evs s r, phase s = PReturned r -> ready (run_from cfg s evs) = ready s.
Proof.
  intros cfg evs. unfold run_from. induction evs as [|e evs IH]; intros s r Hp; cbn [fold_left]; [reflexivity|].
  rewrite (IH (step cfg s e) r) by (now apply returned_stable). eapply returned_ready_stable; eauto.
Qed.

Theorem setup_failure_fails_callers : forall cfg evs evs' r, exported_only (evs ++ evs') ->
  phase (run cfg evs) = PReturned r -> ready (run cfg evs) = false ->
  let s' := run cfg (evs ++ evs') in
  closed s' = true /\ ready s' = false /\
  forall c p, lookup c (callers s') = Some p -> q_gate (req_of p) = true ->
    at_gate p /\ (forall o, In o (out s') -> o_src o <> Some c).
Proof.
  intros cfg evs evs' r Hex Hp Hrd s'.
  assert (Hp' : phase s' = PReturned r) by (unfold s'; rewrite run_app; now apply returned_stable_run).
  assert (Hrd' : ready s' = false) by (unfold s'; rewrite run_app, (ready_stable_after_return cfg evs' _ r Hp); exact Hrd).
  split; [apply over_closed_run; fold s'; rewrite Hp'; reflexivity|]. split; [assumption|].
  intros c p L G. destruct (held_back_until_ready cfg (evs ++ evs') Hex Hrd' c p L G) as (X & Y & _). auto.
Qed.
