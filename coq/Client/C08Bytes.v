(* Client/C08Bytes.v — the first message, read off the BYTES the reader delivers (C08, first clause).

   The client LTS (Client/Model.v) takes the first message as a frame with the content a correct decoder sees
   ([f_info]); a stream that ends before the frame is complete is its event [ConnFirstFail]. Which of the two a
   given byte stream is, is decided here, on the byte-level model of checkInitialMessage that C04 / C10 tie to the
   code ([Hostile.check_initial]: readHeader, size limit, io.ReadFull of exactly the announced payload, type,
   decoding, connection status): for EVERY byte stream, Connect gets past the initial check exactly when the
   stream holds a complete header, the announced payload length is within the limit, ALL the announced payload
   bytes are there, the type is ReaderEventNotification, and those bytes — not a prefix of them — decode to a
   ConnectionAttemptEvent with status Success. In particular a first message cut short by the end of the stream
   is rejected whatever the delivered part looks like by itself (even if it is a complete, well-formed success
   event: the header announced more). *)
From Coq Require Import NArith List Bool Lia.
From LLRP Require Import Client.Stream Client.StreamProofs Client.Hostile.
Import ListNotations.
Open Scope N_scope.

Theorem first_message_accepted_iff : forall maxbuf cfg fl D bs rest',
  ci_res (check_initial maxbuf cfg fl D bs) = CiOk rest' <->
  exists h rest pl,
    read_header bs = RhOk h rest /\ h_len h <= maxbuf /\
    split_at (h_len h) rest = (pl, rest') /\ len pl = h_len h /\
    h_typ h = MsgReaderEventNotification /\ dec_ren D pl = DOk (Some 0).
Proof.
  intros maxbuf cfg fl D bs rest'. unfold check_initial. split.
  - destruct (read_header bs) as [h rest| | |r]; try (cbn; discriminate).
    destruct (N.ltb_spec maxbuf (h_len h)) as [Hgt|Hle]; [cbn; discriminate|].
    destruct (split_at (h_len h) rest) as [pl r'] eqn:Es.
    destruct (N.eqb_spec (len pl) (h_len h)) as [El|Nl]; cbn [negb]; [|cbn; discriminate].
    destruct (N.eqb_spec (h_typ h) MsgReaderEventNotification) as [Et|Nt]; cbn [negb]; [|cbn; discriminate].
    destruct (dec_ren D pl) as [[st|]| | |] eqn:Ed; try (cbn; discriminate).
    cbn [ci_res]. destruct (N.eqb_spec st 0) as [E0|N0]; [|discriminate].
    intro H. inversion H; subst. exists h, rest, pl. repeat split; auto.
  - intros (h & rest & pl & Hh & Hle & Es & El & Et & Ed). rewrite Hh.
    replace (maxbuf <? h_len h) with false by (symmetry; apply N.ltb_ge; assumption).
    rewrite Es, El, N.eqb_refl, Et, N.eqb_refl. cbn [negb]. rewrite Ed. reflexivity.
Qed.

(* the header announces more payload than the stream holds: rejected, whatever the bytes that did arrive decode to *)
Theorem first_message_cut_short_fails : forall maxbuf cfg fl D bs h rest,
  read_header bs = RhOk h rest -> len rest < h_len h ->
  ci_res (check_initial maxbuf cfg fl D bs) = CiErr.
Proof.
  intros maxbuf cfg fl D bs h rest Hh Hlt. unfold check_initial. rewrite Hh.
  destruct (maxbuf <? h_len h); [reflexivity|].
  destruct (split_at (h_len h) rest) as [pl r'] eqn:Es.
  pose proof (split_at_len_fst _ (h_len h) rest) as Hl. rewrite Es in Hl. cbn [fst] in Hl.
  replace (len pl =? h_len h) with false; [reflexivity|].
  symmetry. apply N.eqb_neq. lia.
Qed.

(* ... and so is a stream that ends inside the header, or before it *)
Theorem first_message_without_header_fails : forall maxbuf cfg fl D bs,
  (forall h rest, read_header bs <> RhOk h rest) ->
  ci_res (check_initial maxbuf cfg fl D bs) = CiErr.
Proof.
  intros maxbuf cfg fl D bs H. unfold check_initial.
  destruct (read_header bs) as [h rest| | |r]; try reflexivity. exfalso. exact (H h rest eq_refl).
Qed.
