(* Client/Types.v — data types of the LLRP Client model (pkg/llrp/reader.go, messages.go).
   GENERATED FILE: edit types_preamble.v.in / the FIELDS table in gen_types.py and run
     python3 gen_types.py > Types.v
   Executable definitions only; no proofs. *)
From Coq Require Import NArith List Bool.
Import ListNotations.
Open Scope N_scope.

(* ---- numbers the Go code uses ------------------------------------------------------- *)
Definition two32 : N := 4294967296.
Definition u32 (x : N) : N := x mod two32.            (* uint32 wrap-around *)
Definition header_sz : N := 10.                        (* HeaderSz, messages.go:25 *)
Definition max_payload : N := 4294967285.              (* maxPayloadSz = 1<<32 - 1 - 10, messages.go:26 *)
Definition max_buffered : N := 655360.                 (* MaxBufferedPayloadSz = 640 KiB, reader.go:122 *)
Definition ack_cap : nat := 5.                         (* ackQueueSz, reader.go:134 *)

(* message types the client itself distinguishes (generated_structs.go:462-507) *)
Definition T_GetSupportedVersion : N := 46.
Definition T_GetSupportedVersionResponse : N := 56.
Definition T_SetProtocolVersion : N := 47.
Definition T_SetProtocolVersionResponse : N := 57.
Definition T_CloseConnection : N := 14.
Definition T_CloseConnectionResponse : N := 4.
Definition T_ROAccessReport : N := 61.
Definition T_KeepAlive : N := 62.
Definition T_ReaderEventNotification : N := 63.
Definition T_KeepAliveAck : N := 72.
Definition T_ErrorMessage : N := 100.
Definition Status_Success : N := 0.
Definition Status_VerUnsupported : N := 110.          (* StatusMsgVerUnsupported *)

(* the three message types a reader sends on its own initiative *)
Definition is_unsolicited (typ : N) : bool :=
  (typ =? T_KeepAlive) || (typ =? T_ROAccessReport) || (typ =? T_ReaderEventNotification).

(* ---- frames ---------------------------------------------------------------------------
   Payloads are abstract: a length and a tag standing for the content (same (len,tag) <-> same
   bytes; len = 0 goes with tag 0), plus [info]: what the client sees in the few payloads it
   looks inside (first message, negotiation replies, reply to CloseConnection). *)
Inductive info :=
| IOpaque                       (* not looked at, or not decodable as what was expected *)
| IConn (status : N)            (* ReaderEventNotification that decodes and carries ConnectionAttemptEvent = status *)
| INoConn                       (* ReaderEventNotification that decodes but has no ConnectionAttemptEvent *)
| IVer (cur mx status : N)      (* GetSupportedVersionResponse that decodes *)
| IStatus (code : N).           (* payload that is exactly one LLRPStatus: ErrorMessage, SetProtocolVersionResponse, CloseConnectionResponse *)

Record frame := mkFrame {
  f_ver : N;    (* 3 version bits; on outbound frames 0 = "not set" until the write loop stamps it *)
  f_typ : N;    (* 10-bit message type *)
  f_id  : N;    (* message id, uint32 *)
  f_len : N;    (* payload length (the wire length field minus 10) *)
  f_tag : N;    (* payload content tag *)
  f_info : info
}.

(* literal payload tags: the one-byte payload [b] (SetProtocolVersion) has tag two32 + b *)
Definition lit_tag (b : N) : N := two32 + b.

(* an outbound frame together with the caller it belongs to (None: written by the write loop
   itself, i.e. a KeepAliveAck). The source is ghost state; the wire does not carry it. *)
Record oframe := mkOFrame { o_frame : frame; o_src : option N }.

(* one conn.Write by the write loop *)
Inductive chunk :=
| CHdr (o : oframe)                          (* writeHeader succeeded: 10 header bytes, reader.go:646-655 *)
| CPay (o : oframe)                          (* io.Copy succeeded: f_len payload bytes, reader.go:847 *)
| CPartial (o : oframe) (in_payload : bool) (k : N).  (* a Write failed after k bytes of the header / payload *)

(* ---- callers --------------------------------------------------------------------------- *)
Record req := mkReq {
  q_typ : N; q_len : N; q_tag : N;
  q_id : N;        (* 0 = let the write loop choose (always 0 through the exported API) *)
  q_ver : N;       (* version pre-stamped in the Message: newMessage stamps VersionMin = 1 (messages.go:318); 0 = unset *)
  q_wait : bool;   (* true: SendMessage/send (token + reply); false: SendNoWait *)
  q_gate : bool    (* true: waits for c.ready first (SendMessage, SendNoWait); false: internal send *)
}.

Inductive result :=
| ROk (seq : nat) (f : frame)   (* a reply: frame number seq of the inbound stream *)
| RZero          (* reply channel closed by another request's cancel func: zero Message, nil error (id collision only) *)
| RSent          (* SendNoWait accepted *)
| RErrClosed     (* error wrapping ErrClientClosed *)
| RErrCtx        (* ctx.Err() *)
| RErrOther.     (* NewByteMessage refused the payload length *)

Inductive cphase :=
| Gate (r : req)                 (* SendMessage 577-583: select on ready / done / ctx *)
| Queued (r : req)               (* send 1004-1014: select on done / ctx / sendQueue <- req *)
| HasToken (r : req) (id : N)    (* send 1016-1027: holds the token, select on done / ctx / replyChan *)
| Done (r : req) (res : result).

Definition req_of (p : cphase) : req :=
  match p with Gate r | Queued r | HasToken r _ | Done r _ => r end.

(* what SendMessage returns for a reply frame: (type, length, tag); a frame longer than
   max_buffered is handed over header-only and Message.data() turns that into (typ, nil, nil)
   (reader.go:912-914, messages.go:346-349) *)
Definition reply_view (f : frame) : N * N * N :=
  if f_len f <=? max_buffered then (f_typ f, f_len f, f_tag f) else (f_typ f, 0, 0).

(* ---- loops ------------------------------------------------------------------------------ *)
Inductive wstate :=
| WNone              (* write loop not started *)
| WTop               (* at the first select, reader.go:759-764 *)
| WInner             (* blocked in the second select, 765-811 *)
| WHolding (o : oframe)   (* has a message, before/in writeHeader, 813-829 *)
| WPayload (o : oframe)   (* header written, before/in io.Copy of the payload, 838-849 *)
| WParked            (* wrote CloseConnection, waits for done, 831-836 *)
| WDead              (* returned a write error *)
| WExit.             (* returned ErrClientClosed *)

Inductive rstate :=
| RNone              (* read loop not started *)
| RTop               (* loop head: non-blocking check of done, reader.go:703-707 *)
| RRead              (* blocked in readHeader, 709 *)
| RWaitDone          (* EOF/timeout after CloseConnectionResponse: waits for done, 719-721 *)
| RDead              (* returned a read/processing error *)
| RExit.             (* returned ErrClientClosed *)

Inductive lerr := EWrite | ERead | EClosedW | EClosedR.

(* behaviour of a user handler; only recorded (frames are atomic in this model, C04 is about
   what happens inside one frame) *)
Inductive hb := HBNone | HBAll | HBPart (k : N) | HBPanic.

Inductive hkind :=
| HAck       (* the built-in ackHandler (handlers[MsgKeepAlive]) *)
| HUser      (* a handler registered with WithMessageHandler *)
| HDefault   (* the default handler *)
| HDiscard.  (* nobody: payload discarded, MsgUnhandled logged *)

Record hrec := mkHrec {
  h_seq : nat; h_frame : frame; h_kind : hkind; h_hb : hb;
  h_reply : bool   (* the same frame was also handed to a caller as its reply *)
}.

(* where the inbound stream ends *)
Inductive eofpos :=
| EofBoundary                (* between two frames *)
| EofMidHeader               (* after 1..9 bytes of a header *)
| EofMidPayload (f : frame). (* header of f read, payload cut short *)

(* ---- Connect ------------------------------------------------------------------------------ *)
Inductive nstage := NGsv | NSpv | NDone.
Inductive cres :=
| CErrInit           (* checkInitialMessage failed *)
| CErrNeg            (* negotiate failed: unacceptable reply *)
| CErrCtx            (* negotiate failed: its send returned ctx.Err() (only with WithTimeout) *)
| CErrLoop (e : lerr)(* first value received from errs *)
| CErrClosed.        (* done was closed: ErrClientClosed (also: negotiate's send returned an error wrapping it) *)

Inductive conn_phase :=
| PInit                          (* Connect not called yet *)
| PCheckInitial                  (* in checkInitialMessage, reader.go:399 *)
| PNegotiating (st : nstage) (c : option N)
     (* loops started (404-413). st = stage of negotiate (1155-1206): about to / waiting for
        GetSupportedVersion (NGsv), SetProtocolVersion (NSpv), finished or skipped (NDone);
        c = the caller id under which the internal send runs, once submitted *)
| PReady                         (* ready closed; Connect in its final select, 430-436 *)
| PDraining (r : cres)           (* result chosen, wg.Wait(), 438 *)
| PReturned (r : cres).

(* ---- configuration of a Client (NewClient options) ------------------------------------- *)
Record config := mkConfig {
  filter_unsolicited : bool;  (* false = today's passToHandler: awaiting[hdr.id] is consulted whatever hdr.typ is;
                                 true  = the await map is not consulted for KeepAlive/ROAccessReport/ReaderEventNotification *)
  stamp_always : bool;        (* false = the write loop keeps a version the Message already carries (newMessage pre-stamps 1: F5);
                                 true  = every frame except the two negotiation messages gets c.version (reader.go:813-819 after the fix) *)
  cfg_version : N;            (* WithVersion: 1 = 1.0.1 (no negotiation), 2 = 1.1 *)
  ack_handler : bool;         (* handlers[MsgKeepAlive] is the built-in ackHandler (default) *)
  user_handlers : list N;     (* message types with a WithMessageHandler handler *)
  default_handler : bool      (* WithDefaultHandler given *)
}.

(* c.handlers[typ], else the default handler, else nobody (reader.go:889, 931-935) *)
Definition typed_handler (cfg : config) (typ : N) : option hkind :=
  if ack_handler cfg && (typ =? T_KeepAlive) then Some HAck
  else if existsb (N.eqb typ) (user_handlers cfg) then Some HUser
  else None.
(* the FIRST message of a connection (checkInitialMessage): the handler of its type, else the default
   handler, else nobody — there is no discard record for it (reader.go: checkInitialMessage) *)
Definition first_handler (cfg : config) (typ : N) : option hkind :=
  match typed_handler cfg typ with
  | Some k => Some k
  | None => if default_handler cfg then Some HDefault else None
  end.
Definition handler_for (cfg : config) (typ : N) : hkind :=
  match typed_handler cfg typ with
  | Some k => k
  | None => if default_handler cfg then HDefault else HDiscard
  end.

(* ---- small association lists (id -> caller, caller -> phase) ------------------------- *)
Fixpoint lookup {A} (k : N) (m : list (N * A)) : option A :=
  match m with
  | [] => None
  | (k', v) :: r => if k =? k' then Some v else lookup k r
  end.
Fixpoint remove {A} (k : N) (m : list (N * A)) : list (N * A) :=
  match m with
  | [] => []
  | (k', v) :: r => if k =? k' then remove k r else (k', v) :: remove k r
  end.
(* map insert with overwrite, as Go's m[k] = v *)
Definition insert {A} (k : N) (v : A) (m : list (N * A)) : list (N * A) := (k, v) :: remove k m.
(* replace the value of an existing key in place (keeps the order of first submission) *)
Fixpoint update {A} (k : N) (v : A) (m : list (N * A)) : list (N * A) :=
  match m with
  | [] => []
  | (k', v') :: r => if k =? k' then (k', v) :: r else (k', v') :: update k v r
  end.


(* ---- GENERATED by gen_types.py from the FIELDS table: state record and setters ---- *)
Record state := mkState {
  phase : conn_phase;  (* where Connect is (reader.go 388-441) *)
  ready : bool;  (* c.ready closed (426-428); also closed when the initial check fails (400) *)
  closed : bool;  (* c.done closed / isClosed = 1 (496-503) *)
  version : N;  (* c.version: configured maximum, then the negotiated version (99, 1169-1171) *)
  next_id : N;  (* nextMsgID, local to handleOutgoing (753); uint32 *)
  awaiting : list (N * N);  (* c.awaiting: message id -> caller whose reply channel is registered (90-91) *)
  ackq : list N;  (* c.ackQueue, capacity ack_cap (89, 135-142); head = next to be taken *)
  writer : wstate;  (* handleOutgoing's control point *)
  reader : rstate;  (* handleIncoming's control point *)
  saw_close : bool;  (* receivedClosed, local to handleIncoming (701, 727) *)
  callers : list (N * cphase);  (* one entry per call of SendMessage/SendNoWait/send, keyed by caller id *)
  assigned : list (N * N);  (* HISTORY (caller, message id) in the order the write loop accepted requests *)
  out : list oframe;  (* HISTORY frames completely written to the connection, in order *)
  wire : list chunk;  (* HISTORY every conn.Write that happened (header / payload / failed partial write) *)
  peer_sent : list frame;  (* HISTORY frames read from the connection; the index is the frame's sequence number *)
  delivered : list (N * nat * frame);  (* HISTORY (caller, sequence number, frame) handed to a caller as its reply *)
  handled : list hrec;  (* HISTORY handler invocations / discards by the read loop and by checkInitialMessage *)
  ka_log : list (N * nat);  (* HISTORY (keep-alive id, |ackq| found) for every run of the ackHandler *)
  errs : list lerr;  (* HISTORY values sent on Connect's errs channel by the two loops, in order *)
  close_calls : list bool;  (* HISTORY result of each API call of Close: true = nil, false = already closed *)
  shut_done : list N  (* HISTORY callers (Shutdown calls) that went on to call Close *)
}.

Definition set_phase (x : conn_phase) (s : state) : state :=
  {| phase := x; ready := ready s; closed := closed s; version := version s; next_id := next_id s; awaiting := awaiting s; ackq := ackq s; writer := writer s; reader := reader s; saw_close := saw_close s; callers := callers s; assigned := assigned s; out := out s; wire := wire s; peer_sent := peer_sent s; delivered := delivered s; handled := handled s; ka_log := ka_log s; errs := errs s; close_calls := close_calls s; shut_done := shut_done s |}.
Definition set_ready (x : bool) (s : state) : state :=
  {| phase := phase s; ready := x; closed := closed s; version := version s; next_id := next_id s; awaiting := awaiting s; ackq := ackq s; writer := writer s; reader := reader s; saw_close := saw_close s; callers := callers s; assigned := assigned s; out := out s; wire := wire s; peer_sent := peer_sent s; delivered := delivered s; handled := handled s; ka_log := ka_log s; errs := errs s; close_calls := close_calls s; shut_done := shut_done s |}.
Definition set_closed (x : bool) (s : state) : state :=
  {| phase := phase s; ready := ready s; closed := x; version := version s; next_id := next_id s; awaiting := awaiting s; ackq := ackq s; writer := writer s; reader := reader s; saw_close := saw_close s; callers := callers s; assigned := assigned s; out := out s; wire := wire s; peer_sent := peer_sent s; delivered := delivered s; handled := handled s; ka_log := ka_log s; errs := errs s; close_calls := close_calls s; shut_done := shut_done s |}.
Definition set_version (x : N) (s : state) : state :=
  {| phase := phase s; ready := ready s; closed := closed s; version := x; next_id := next_id s; awaiting := awaiting s; ackq := ackq s; writer := writer s; reader := reader s; saw_close := saw_close s; callers := callers s; assigned := assigned s; out := out s; wire := wire s; peer_sent := peer_sent s; delivered := delivered s; handled := handled s; ka_log := ka_log s; errs := errs s; close_calls := close_calls s; shut_done := shut_done s |}.
Definition set_next_id (x : N) (s : state) : state :=
  {| phase := phase s; ready := ready s; closed := closed s; version := version s; next_id := x; awaiting := awaiting s; ackq := ackq s; writer := writer s; reader := reader s; saw_close := saw_close s; callers := callers s; assigned := assigned s; out := out s; wire := wire s; peer_sent := peer_sent s; delivered := delivered s; handled := handled s; ka_log := ka_log s; errs := errs s; close_calls := close_calls s; shut_done := shut_done s |}.
Definition set_awaiting (x : list (N * N)) (s : state) : state :=
  {| phase := phase s; ready := ready s; closed := closed s; version := version s; next_id := next_id s; awaiting := x; ackq := ackq s; writer := writer s; reader := reader s; saw_close := saw_close s; callers := callers s; assigned := assigned s; out := out s; wire := wire s; peer_sent := peer_sent s; delivered := delivered s; handled := handled s; ka_log := ka_log s; errs := errs s; close_calls := close_calls s; shut_done := shut_done s |}.
Definition set_ackq (x : list N) (s : state) : state :=
  {| phase := phase s; ready := ready s; closed := closed s; version := version s; next_id := next_id s; awaiting := awaiting s; ackq := x; writer := writer s; reader := reader s; saw_close := saw_close s; callers := callers s; assigned := assigned s; out := out s; wire := wire s; peer_sent := peer_sent s; delivered := delivered s; handled := handled s; ka_log := ka_log s; errs := errs s; close_calls := close_calls s; shut_done := shut_done s |}.
Definition set_writer (x : wstate) (s : state) : state :=
  {| phase := phase s; ready := ready s; closed := closed s; version := version s; next_id := next_id s; awaiting := awaiting s; ackq := ackq s; writer := x; reader := reader s; saw_close := saw_close s; callers := callers s; assigned := assigned s; out := out s; wire := wire s; peer_sent := peer_sent s; delivered := delivered s; handled := handled s; ka_log := ka_log s; errs := errs s; close_calls := close_calls s; shut_done := shut_done s |}.
Definition set_reader (x : rstate) (s : state) : state :=
  {| phase := phase s; ready := ready s; closed := closed s; version := version s; next_id := next_id s; awaiting := awaiting s; ackq := ackq s; writer := writer s; reader := x; saw_close := saw_close s; callers := callers s; assigned := assigned s; out := out s; wire := wire s; peer_sent := peer_sent s; delivered := delivered s; handled := handled s; ka_log := ka_log s; errs := errs s; close_calls := close_calls s; shut_done := shut_done s |}.
Definition set_saw_close (x : bool) (s : state) : state :=
  {| phase := phase s; ready := ready s; closed := closed s; version := version s; next_id := next_id s; awaiting := awaiting s; ackq := ackq s; writer := writer s; reader := reader s; saw_close := x; callers := callers s; assigned := assigned s; out := out s; wire := wire s; peer_sent := peer_sent s; delivered := delivered s; handled := handled s; ka_log := ka_log s; errs := errs s; close_calls := close_calls s; shut_done := shut_done s |}.
Definition set_callers (x : list (N * cphase)) (s : state) : state :=
  {| phase := phase s; ready := ready s; closed := closed s; version := version s; next_id := next_id s; awaiting := awaiting s; ackq := ackq s; writer := writer s; reader := reader s; saw_close := saw_close s; callers := x; assigned := assigned s; out := out s; wire := wire s; peer_sent := peer_sent s; delivered := delivered s; handled := handled s; ka_log := ka_log s; errs := errs s; close_calls := close_calls s; shut_done := shut_done s |}.
Definition set_assigned (x : list (N * N)) (s : state) : state :=
  {| phase := phase s; ready := ready s; closed := closed s; version := version s; next_id := next_id s; awaiting := awaiting s; ackq := ackq s; writer := writer s; reader := reader s; saw_close := saw_close s; callers := callers s; assigned := x; out := out s; wire := wire s; peer_sent := peer_sent s; delivered := delivered s; handled := handled s; ka_log := ka_log s; errs := errs s; close_calls := close_calls s; shut_done := shut_done s |}.
Definition set_out (x : list oframe) (s : state) : state :=
  {| phase := phase s; ready := ready s; closed := closed s; version := version s; next_id := next_id s; awaiting := awaiting s; ackq := ackq s; writer := writer s; reader := reader s; saw_close := saw_close s; callers := callers s; assigned := assigned s; out := x; wire := wire s; peer_sent := peer_sent s; delivered := delivered s; handled := handled s; ka_log := ka_log s; errs := errs s; close_calls := close_calls s; shut_done := shut_done s |}.
Definition set_wire (x : list chunk) (s : state) : state :=
  {| phase := phase s; ready := ready s; closed := closed s; version := version s; next_id := next_id s; awaiting := awaiting s; ackq := ackq s; writer := writer s; reader := reader s; saw_close := saw_close s; callers := callers s; assigned := assigned s; out := out s; wire := x; peer_sent := peer_sent s; delivered := delivered s; handled := handled s; ka_log := ka_log s; errs := errs s; close_calls := close_calls s; shut_done := shut_done s |}.
Definition set_peer_sent (x : list frame) (s : state) : state :=
  {| phase := phase s; ready := ready s; closed := closed s; version := version s; next_id := next_id s; awaiting := awaiting s; ackq := ackq s; writer := writer s; reader := reader s; saw_close := saw_close s; callers := callers s; assigned := assigned s; out := out s; wire := wire s; peer_sent := x; delivered := delivered s; handled := handled s; ka_log := ka_log s; errs := errs s; close_calls := close_calls s; shut_done := shut_done s |}.
Definition set_delivered (x : list (N * nat * frame)) (s : state) : state :=
  {| phase := phase s; ready := ready s; closed := closed s; version := version s; next_id := next_id s; awaiting := awaiting s; ackq := ackq s; writer := writer s; reader := reader s; saw_close := saw_close s; callers := callers s; assigned := assigned s; out := out s; wire := wire s; peer_sent := peer_sent s; delivered := x; handled := handled s; ka_log := ka_log s; errs := errs s; close_calls := close_calls s; shut_done := shut_done s |}.
Definition set_handled (x : list hrec) (s : state) : state :=
  {| phase := phase s; ready := ready s; closed := closed s; version := version s; next_id := next_id s; awaiting := awaiting s; ackq := ackq s; writer := writer s; reader := reader s; saw_close := saw_close s; callers := callers s; assigned := assigned s; out := out s; wire := wire s; peer_sent := peer_sent s; delivered := delivered s; handled := x; ka_log := ka_log s; errs := errs s; close_calls := close_calls s; shut_done := shut_done s |}.
Definition set_ka_log (x : list (N * nat)) (s : state) : state :=
  {| phase := phase s; ready := ready s; closed := closed s; version := version s; next_id := next_id s; awaiting := awaiting s; ackq := ackq s; writer := writer s; reader := reader s; saw_close := saw_close s; callers := callers s; assigned := assigned s; out := out s; wire := wire s; peer_sent := peer_sent s; delivered := delivered s; handled := handled s; ka_log := x; errs := errs s; close_calls := close_calls s; shut_done := shut_done s |}.
Definition set_errs (x : list lerr) (s : state) : state :=
  {| phase := phase s; ready := ready s; closed := closed s; version := version s; next_id := next_id s; awaiting := awaiting s; ackq := ackq s; writer := writer s; reader := reader s; saw_close := saw_close s; callers := callers s; assigned := assigned s; out := out s; wire := wire s; peer_sent := peer_sent s; delivered := delivered s; handled := handled s; ka_log := ka_log s; errs := x; close_calls := close_calls s; shut_done := shut_done s |}.
Definition set_close_calls (x : list bool) (s : state) : state :=
  {| phase := phase s; ready := ready s; closed := closed s; version := version s; next_id := next_id s; awaiting := awaiting s; ackq := ackq s; writer := writer s; reader := reader s; saw_close := saw_close s; callers := callers s; assigned := assigned s; out := out s; wire := wire s; peer_sent := peer_sent s; delivered := delivered s; handled := handled s; ka_log := ka_log s; errs := errs s; close_calls := x; shut_done := shut_done s |}.
Definition set_shut_done (x : list N) (s : state) : state :=
  {| phase := phase s; ready := ready s; closed := closed s; version := version s; next_id := next_id s; awaiting := awaiting s; ackq := ackq s; writer := writer s; reader := reader s; saw_close := saw_close s; callers := callers s; assigned := assigned s; out := out s; wire := wire s; peer_sent := peer_sent s; delivered := delivered s; handled := handled s; ka_log := ka_log s; errs := errs s; close_calls := close_calls s; shut_done := x |}.

(* simplifies projections applied to setters, and nothing else *)
Ltac st_simpl := cbn [phase ready closed version next_id awaiting ackq writer reader saw_close callers assigned out wire peer_sent delivered handled ka_log errs close_calls shut_done set_phase set_ready set_closed set_version set_next_id set_awaiting set_ackq set_writer set_reader set_saw_close set_callers set_assigned set_out set_wire set_peer_sent set_delivered set_handled set_ka_log set_errs set_close_calls set_shut_done] in *.
Ltac st_simpl_goal := cbn [phase ready closed version next_id awaiting ackq writer reader saw_close callers assigned out wire peer_sent delivered handled ka_log errs close_calls shut_done set_phase set_ready set_closed set_version set_next_id set_awaiting set_ackq set_writer set_reader set_saw_close set_callers set_assigned set_out set_wire set_peer_sent set_delivered set_handled set_ka_log set_errs set_close_calls set_shut_done].
