(* Client/Model.v — labelled transition system of the LLRP Client (pkg/llrp/reader.go).

   [step cfg s e] is total: an event whose guard does not hold leaves the state unchanged.
   A run is [fold_left (step cfg) evs (init cfg)]; the event list IS the schedule, so a theorem
   over all event lists is a theorem over all interleavings of callers / write loop / read loop /
   Connect, all reply orders, all placements of unsolicited frames, faults and cancellations.

   Atomicity is that of the Go code's synchronisation points: one event = one channel
   operation (with what the goroutine does next up to its following blocking point) or one
   awaitMu critical section. The line numbers are those of reader.go.

   Executable definitions only; proofs are in Inv*.v, property statements in Props/C0x.v. *)
From Coq Require Import NArith List Bool.
From LLRP Require Import Client.Types.
Import ListNotations.
Open Scope N_scope.

Inductive event :=
(* --- a caller (one call of SendMessage / SendNoWait / send), identified by a fresh number c --- *)
| Submit (c : N) (r : req)   (* the call starts (576/619/997) *)
| PassGate (c : N)           (* select 577-583 takes <-c.ready; the Message is built (589-599) *)
| SeeClosed (c : N)          (* a select of the caller takes <-c.done: 579, 1005-1007, 1019-1021 (+ token.cancel()) *)
| Cancel (c : N)             (* a select of the caller takes <-ctx.Done(): 581, 1008-1010, 1022-1024 (+ token.cancel()) *)
(* --- write loop, handleOutgoing 752-852 --- *)
| WDefault                   (* first select (759-764) finds neither done nor an ack: falls into the second select *)
| WAccept (c : N)            (* second select receives c's request from sendQueue: 770-810 *)
| WTakeAck                   (* either select receives from ackQueue: 762 / 768 *)
| WWriteHdr                  (* version stamp 813-818, writeHeader 827; a header-only CloseConnection parks *)
| WWritePay                  (* io.Copy of the payload 847; then a CloseConnection parks *)
| WriteFail (k : N)          (* the pending Write fails after k bytes: 828 / 848 *)
| WSeeDone                   (* a select of the write loop (or the parked loop) takes <-c.done: 760, 766, 834 *)
(* --- read loop, handleIncoming 700-739 + passToHandler 888-938 --- *)
| RCheck                     (* 703-707: done not closed, go on to readHeader *)
| RSeeDone                   (* 704 or 720: done closed, return ErrClientClosed *)
| RFrame (f : frame) (h : hb)(* readHeader returns f's header; passToHandler runs to completion *)
| PeerEOF (p : eofpos)       (* the inbound stream ends / a read times out / the header is malformed *)
(* --- life cycle --- *)
| Close                      (* API call Close() 496-503 *)
| ConnStart                  (* Connect is called 388 *)
| ConnFirst (f : frame) (h : hb)  (* checkInitialMessage reads the first frame 1035-1086 *)
| ConnFirstFail              (* checkInitialMessage cannot read a first frame *)
| NegSubmit (c : N)          (* negotiate calls the internal send under the (fresh) caller id c: 1096 / 1190 *)
| NegStep                    (* negotiate looks at the reply of its pending send: 1101-1147, 1163-1177 / 1194-1205 *)
| ConnReady                  (* close(c.ready) 428 *)
| ConnSelect (pick_err : bool)  (* final select of Connect 430-436: true = <-errs, false = <-c.done *)
| ConnReturn                 (* wg.Wait() is over, Connect returns 438-440 *)
| ShutdownClose (c : N).     (* Shutdown (463-490), having got an acceptable reply as caller c, calls Close *)

Definition init (cfg : config) : state :=
  mkState PInit false false (cfg_version cfg) 0 [] [] WNone RNone false []
          [] [] [] [] [] [] [] [] [] [].

(* ------------------------------------------------------------------------ helpers ----- *)
Definition is_fresh (c : N) (s : state) : bool :=
  match lookup c (callers s) with None => true | Some _ => false end.
Definition set_caller (c : N) (p : cphase) (s : state) : state :=
  set_callers (update c p (callers s)) s.

(* token.cancel() of the request with id i, called by caller c (795-805): if awaiting[i] exists
   its channel is closed and the entry deleted. The entry is c's own unless the id was assigned
   twice; then the channel closed is another caller's, who receives the zero Message. *)
Definition do_cancel (c i : N) (s : state) : state :=
  match lookup i (awaiting s) with
  | None => s
  | Some c' =>
      let s1 := set_awaiting (remove i (awaiting s)) s in
      if c' =? c then s1
      else match lookup c' (callers s1) with
           | Some (HasToken r' _) => set_caller c' (Done r' RZero) s1
           | _ => s1
           end
  end.

(* the caller gives up with [res] from whichever select it is in *)
Definition leave (res : result) (c : N) (s : state) : state :=
  match lookup c (callers s) with
  | Some (Gate r) | Some (Queued r) => set_caller c (Done r res) s
  | Some (HasToken r i) => set_caller c (Done r res) (do_cancel c i s)
  | _ => s
  end.

(* ackHandler.HandleMessage (862-868): enqueue unless ack_cap are pending (then it panics,
   recovered by handleGuarded: the keep-alive stays unacknowledged) *)
Definition ack_enqueue (i : N) (s : state) : state :=
  let n := length (ackq s) in
  let s1 := set_ka_log (ka_log s ++ [(i, n)]) s in
  if Nat.ltb n ack_cap then set_ackq (ackq s ++ [i]) s1 else s1.

(* 813-819: the two negotiation messages always go out as 1.1. Otherwise, in the original code,
   the Message's own version if it has one, else the client's current version — and newMessage
   (messages.go:302) pre-stamps VersionMin = 1 into every Message built by SendMessage /
   NewByteMessage / NewHdrOnlyMsg, so only the write loop's own KeepAliveAck frames (version 0) got
   c.version (F5). With [stamp_always] (the code after the fix) every other frame gets c.version. *)
Definition stamp (cfg : config) (ver : N) (f : frame) : frame :=
  let v := if (f_typ f =? T_GetSupportedVersion) || (f_typ f =? T_SetProtocolVersion) then 2
           else if stamp_always cfg then ver
           else if f_ver f =? 0 then ver else f_ver f in
  mkFrame v (f_typ f) (f_id f) (f_len f) (f_tag f) (f_info f).
Definition stamp_o (cfg : config) (ver : N) (o : oframe) : oframe := mkOFrame (stamp cfg ver (o_frame o)) (o_src o).

(* does passToHandler consult the await map for this message type? today: always (892) *)
Definition consults (cfg : config) (typ : N) : bool :=
  negb (filter_unsolicited cfg && is_unsolicited typ).

(* 891-894 + 911-929: look the id up, delete it, hand the frame to the waiting caller.
   [whole] = the payload can be read in full (false only for a truncated stream); a frame longer
   than max_buffered is handed over header-only without reading. Returns the new state and
   whether somebody was waiting (needsReply). *)
Definition take_waiter (cfg : config) (whole : bool) (seq : nat) (f : frame) (s : state) : state * bool :=
  if consults cfg (f_typ f) then
    match lookup (f_id f) (awaiting s) with
    | None => (s, false)
    | Some c =>
        let s1 := set_awaiting (remove (f_id f) (awaiting s)) s in
        if whole || (max_buffered <? f_len f) then
          match lookup c (callers s1) with
          | Some (HasToken r _) =>
              (set_delivered (delivered s1 ++ [(c, seq, f)]) (set_caller c (Done r (ROk seq f)) s1), true)
          | _ => (s1, true)
          end
        else (s1, true)
    end
  else (s, false).

(* 896-903 / 931-935: the typed handler, else the default handler, else discard *)
Definition run_handler (cfg : config) (seq : nat) (f : frame) (h : hb) (rep : bool) (s : state) : state :=
  let k := handler_for cfg (f_typ f) in
  let s1 := set_handled (handled s ++ [mkHrec seq f k h rep]) s in
  match k with HAck => ack_enqueue (f_id f) s1 | _ => s1 end.

(* c.sentClose (reader.go after ea578f8): stored by the write loop as soon as it has a CloseConnection
   message in its hand, just before writeHeader — i.e. the write loop holds such a frame, or a header
   Write of one was attempted (it is in [wire], whole or partial) *)
Definition is_close_chunk (ch : chunk) : bool :=
  match ch with
  | CHdr o | CPay o | CPartial o _ _ => f_typ (o_frame o) =? T_CloseConnection
  end.
Definition close_sent (s : state) : bool :=
  match writer s with
  | WHolding o => f_typ (o_frame o) =? T_CloseConnection
  | _ => false
  end || existsb is_close_chunk (wire s).

(* receivedClosed (736-738): a CloseConnectionResponse counts only after this client has sent
   CloseConnection (ea578f8; before that fix every CloseConnectionResponse counted) *)
Definition note_close_resp (f : frame) (s : state) : state :=
  if (f_typ f =? T_CloseConnectionResponse) && close_sent s then set_saw_close true s else s.

Definition is_conn_success (i : info) : bool :=
  match i with IConn st => st =? 0 | _ => false end.

(* getSupportedVersion 1095-1147 on the reply frame: Some (current, max) or failure.
   NOTE a reply longer than max_buffered makes today's code crash here (make + nil reader);
   that belongs to C10 and is modelled as a failure. *)
Definition gsv_outcome (f : frame) : option (N * N) :=
  if max_buffered <? f_len f then None
  else if f_typ f =? T_ErrorMessage then
    match f_info f with
    | IStatus code => if code =? Status_VerUnsupported then Some (1, 1) else None   (* /repo 6e714d1: Success is no longer read as 110 *)
    | _ => None
    end
  else if f_typ f =? T_GetSupportedVersionResponse then
    match f_info f with
    | IVer cur mx st => if st =? Status_Success then Some (cur, mx) else None
    | _ => None
    end
  else None.

Definition spv_ok (f : frame) : bool :=
  (f_len f <=? max_buffered) && (f_typ f =? T_SetProtocolVersionResponse) &&
  match f_info f with IStatus code => code =? Status_Success | _ => false end.

(* Shutdown 474-506: only a CloseConnectionResponse with status Success makes Shutdown call Close. An ErrorMessage —
   whatever its status: since 771981f one that claims Success is an error of its own — any other type and any
   status other than Success make Shutdown return an error and leave the connection open. *)
Definition shutdown_ok (f : frame) : bool :=
  (f_len f <=? max_buffered) &&
  (f_typ f =? T_CloseConnectionResponse) &&
  match f_info f with IStatus code => code =? Status_Success | _ => false end.

(* the Messages negotiate builds: NewHdrOnlyMsg(MsgGetSupportedVersion) 1096,
   NewByteMessage(MsgSetProtocolVersion, []byte{uint8(c.version)}) 1180 *)
Definition neg_req (st : nstage) (ver : N) : req :=
  match st with
  | NSpv => mkReq T_SetProtocolVersion 1 (lit_tag ver) 0 1 true false
  | _ => mkReq T_GetSupportedVersion 0 0 0 1 true false
  end.

Definition init_fail (s : state) : state :=       (* 399-402 + deferred Close *)
  set_phase (PReturned CErrInit) (set_ready true (set_closed true s)).
Definition neg_fail_with (r : cres) (s : state) : state :=   (* 416-418 + deferred Close; ready stays open *)
  set_phase (PReturned r) (set_closed true s).
Definition neg_fail (s : state) : state := neg_fail_with CErrNeg s.

(* ------------------------------------------------------------------------ callers ----- *)
(* A call through the internal send (q_gate = false) presents a Message that already exists;
   newMessage/NewByteMessage only build Messages whose payload length is at most max_payload
   (messages.go:187-199, 328-330), so longer ones cannot be submitted that way. *)
Definition step_submit (c : N) (r : req) (s : state) : state :=
  if is_fresh c s && (q_gate r || (q_len r <=? max_payload))
  then set_callers (callers s ++ [(c, if q_gate r then Gate r else Queued r)]) s else s.

Definition step_pass_gate (c : N) (s : state) : state :=
  match lookup c (callers s) with
  | Some (Gate r) =>
      if ready s then
        set_caller c (if max_payload <? q_len r then Done r RErrOther else Queued r) s   (* messages.go:328-330 *)
      else s
  | _ => s
  end.

Definition step_see_closed (c : N) (s : state) : state := if closed s then leave RErrClosed c s else s.
Definition step_cancel (c : N) (s : state) : state := leave RErrCtx c s.

(* ------------------------------------------------------------------------ write loop -- *)
Definition step_wdefault (s : state) : state :=
  match writer s, ackq s with
  | WTop, [] => if closed s then s else set_writer WInner s
  | _, _ => s
  end.

(* The version a frame carries is decided when the write loop has taken the message — right after the select, before
   it blocks in Write (reader.go 829-835: msg.version = ... c.curVersion()) — not when the peer finally reads it: an
   acknowledgement (or an internal request) taken while negotiation was still running keeps the version of that
   moment even if the negotiated version has changed by the time the bytes go out. *)
Definition step_waccept (cfg : config) (c : N) (s : state) : state :=
  match writer s, lookup c (callers s) with
  | WInner, Some (Queued r) =>
      let fresh := q_id r =? 0 in
      let id := if fresh then next_id s else q_id r in                          (* 775-778 *)
      let s1 := if fresh then set_next_id (u32 (next_id s + 1)) s else s in
      let o := stamp_o cfg (version s) (mkOFrame (mkFrame (q_ver r) (q_typ r) id (q_len r) (q_tag r) IOpaque) (Some c)) in
      let s2 := set_assigned (assigned s1 ++ [(c, id)]) (set_writer (WHolding o) s1) in
      if q_wait r then                                                         (* 781-809 *)
        set_caller c (HasToken r id) (set_awaiting (insert id c (awaiting s2)) s2)
      else set_caller c (Done r RSent) s2
  | _, _ => s
  end.

Definition step_wtakeack (cfg : config) (s : state) : state :=
  match writer s, ackq s with
  | WTop, i :: q | WInner, i :: q =>
      set_ackq q (set_writer (WHolding (stamp_o cfg (version s) (mkOFrame (mkFrame 0 T_KeepAliveAck i 0 0 IOpaque) None))) s)
  | _, _ => s
  end.

(* The write loop parks after a CloseConnection message has been written completely (header and,
   if there is one, payload): reader.go after commit 1713ba3. (Before it, the loop parked right
   after the header and a CloseConnection with a payload left a truncated frame on the wire —
   found by C05, see notes/C05.md.) *)
Definition after_frame (o : oframe) : wstate :=
  if f_typ (o_frame o) =? T_CloseConnection then WParked else WTop.

Definition step_wwritehdr (cfg : config) (s : state) : state :=
  match writer s with
  | WHolding o =>
      let o' := o in          (* stamped when it was taken *)
      let s1 := set_wire (wire s ++ [CHdr o']) s in
      if f_len (o_frame o') =? 0 then set_writer (after_frame o') (set_out (out s1 ++ [o']) s1)
      else set_writer (WPayload o') s1
  | _ => s
  end.

Definition step_wwritepay (s : state) : state :=
  match writer s with
  | WPayload o => set_writer (after_frame o) (set_out (out s ++ [o]) (set_wire (wire s ++ [CPay o]) s))
  | _ => s
  end.

Definition step_writefail (cfg : config) (k : N) (s : state) : state :=
  match writer s with
  | WHolding o =>
      if k <? header_sz then
        set_writer WDead (set_errs (errs s ++ [EWrite])
          (set_wire (wire s ++ [CPartial o false k]) s))
      else s
  | WPayload o =>
      if k <? f_len (o_frame o) then
        set_writer WDead (set_errs (errs s ++ [EWrite]) (set_wire (wire s ++ [CPartial o true k]) s))
      else s
  | _ => s
  end.

Definition step_wseedone (s : state) : state :=
  match writer s with
  | WTop | WInner | WParked =>
      if closed s then set_writer WExit (set_errs (errs s ++ [EClosedW]) s) else s
  | _ => s
  end.

(* ------------------------------------------------------------------------ read loop --- *)
Definition step_rcheck (s : state) : state :=
  match reader s with RTop => if closed s then s else set_reader RRead s | _ => s end.

Definition step_rseedone (s : state) : state :=
  match reader s with
  | RTop | RWaitDone => if closed s then set_reader RExit (set_errs (errs s ++ [EClosedR]) s) else s
  | _ => s
  end.

Definition step_rframe (cfg : config) (f : frame) (h : hb) (s : state) : state :=
  match reader s with
  | RRead =>
      let seq := length (peer_sent s) in
      let s1 := note_close_resp f (set_peer_sent (peer_sent s ++ [f]) s) in
      let '(s2, rep) := take_waiter cfg true seq f s1 in
      set_reader RTop (run_handler cfg seq f h rep s2)
  | _ => s
  end.

Definition reader_dies (s : state) : state := set_reader RDead (set_errs (errs s ++ [ERead]) s).

(* the inbound stream ended inside f's payload and passToHandler went past the reply hand-over:
   - nobody is interested (no waiter, no handler): CopyN(Discard) fails, the loop ends with that error;
   - otherwise the handler (if any) saw a short payload, the deferred drain of the LimitReader ends
     cleanly at EOF, passToHandler returns nil and the NEXT readHeader meets the EOF: tolerated after a
     CloseConnectionResponse (the loop waits for done, 719-721), an error otherwise *)
Definition eof_after_dispatch (cfg : config) (f : frame) (rep : bool) (s : state) : state :=
  match handler_for cfg (f_typ f), rep with
  | HDiscard, false => reader_dies s
  | _, _ => if saw_close s then set_reader RWaitDone s else reader_dies s
  end.

Definition step_peer_eof (cfg : config) (p : eofpos) (s : state) : state :=
  match reader s with
  | RRead =>
      match p with
      | EofBoundary => if saw_close s then set_reader RWaitDone s else reader_dies s   (* 710-722 *)
      | EofMidHeader => reader_dies s   (* io.ErrUnexpectedEOF or a bad header: never the tolerated case *)
      | EofMidPayload f =>
          let seq := length (peer_sent s) in
          let s1 := note_close_resp f (set_peer_sent (peer_sent s ++ [f]) s) in
          let '(s2, rep) := take_waiter cfg false seq f s1 in
          (* a waiter whose reply cannot be read in full: ReadFull fails and that error is kept
             (reader.go after 85a4e5b): the loop ends. Otherwise see eof_after_dispatch *)
          if rep && (f_len f <=? max_buffered) then reader_dies s2
          else eof_after_dispatch cfg f rep (run_handler cfg seq f HBAll rep s2)
      end
  | _ => s
  end.

(* ------------------------------------------------------------------------ life cycle -- *)
Definition step_close (s : state) : state :=
  if closed s then set_close_calls (close_calls s ++ [false]) s
  else set_closed true (set_close_calls (close_calls s ++ [true]) s).

Definition step_conn_start (s : state) : state :=
  match phase s with PInit => set_phase PCheckInitial s | _ => s end.

Definition step_conn_first (cfg : config) (f : frame) (h : hb) (s : state) : state :=
  match phase s with
  | PCheckInitial =>
      let seq := length (peer_sent s) in
      let s1 := set_peer_sent (peer_sent s ++ [f]) s in
      if max_buffered <? f_len f then init_fail s1                              (* 1043-1048 *)
      else
        let s2 := match first_handler cfg (f_typ f) with                        (* typed handler, else the default handler *)
                  | Some k =>
                      let s' := set_handled (handled s1 ++ [mkHrec seq f k h false]) s1 in
                      match k with HAck => ack_enqueue (f_id f) s' | _ => s' end
                  | None => s1
                  end in
        if (f_typ f =? T_ReaderEventNotification) && is_conn_success (f_info f) then
          (* 404-413: both loops start; 415: negotiate only above 1.0.1 *)
          set_phase (PNegotiating (if 1 <? version s2 then NGsv else NDone) None)
                    (set_writer WTop (set_reader RTop s2))
        else init_fail s2
  | _ => s
  end.

Definition step_conn_first_fail (s : state) : state :=
  match phase s with PCheckInitial => init_fail s | _ => s end.

Definition step_neg_submit (c : N) (s : state) : state :=
  match phase s with
  | PNegotiating NGsv None | PNegotiating NSpv None =>
      if is_fresh c s then
        let st := match phase s with PNegotiating st _ => st | _ => NGsv end in
        set_phase (PNegotiating st (Some c))
                  (set_callers (callers s ++ [(c, Queued (neg_req st (version s)))]) s)
      else s
  | _ => s
  end.

Definition step_neg_step (s : state) : state :=
  match phase s with
  | PNegotiating st (Some c) =>
      match lookup c (callers s) with
      | Some (Done _ res) =>
          match st, res with
          | NGsv, ROk _ f =>
              match gsv_outcome f with
              | Some (cur, mx) =>
                  let v := if mx <? version s then mx else version s in        (* 1169-1171 *)
                  let s1 := set_version v s in
                  if cur =? v then set_phase (PNegotiating NDone None) s1     (* 1174-1176 *)
                  else set_phase (PNegotiating NSpv None) s1
              | None => neg_fail s
              end
          | NSpv, ROk _ f => if spv_ok f then set_phase (PNegotiating NDone None) s else neg_fail s
          | _, RErrClosed => neg_fail_with CErrClosed s
          | _, RErrCtx => neg_fail_with CErrCtx s
          | _, _ => neg_fail s
          end
      | _ => s
      end
  | _ => s
  end.

Definition step_conn_ready (s : state) : state :=
  match phase s with
  | PNegotiating NDone _ => set_phase PReady (set_ready true s)
  | _ => s
  end.

Definition step_conn_select (pick_err : bool) (s : state) : state :=
  match phase s with
  | PReady =>
      if pick_err then
        match errs s with
        | e :: _ => set_phase (PDraining (CErrLoop e)) (set_closed true s)     (* 431-433 *)
        | [] => s
        end
      else if closed s then set_phase (PDraining CErrClosed) s else s          (* 434-435 *)
  | _ => s
  end.

Definition writer_over (w : wstate) : bool := match w with WDead | WExit => true | _ => false end.
Definition reader_over (r : rstate) : bool := match r with RDead | RExit => true | _ => false end.

Definition step_conn_return (s : state) : state :=
  match phase s with
  | PDraining r => if writer_over (writer s) && reader_over (reader s) then set_phase (PReturned r) s else s
  | _ => s
  end.

Definition step_shutdown_close (c : N) (s : state) : state :=
  match lookup c (callers s) with
  | Some (Done r (ROk _ f)) =>
      if (q_typ r =? T_CloseConnection) && shutdown_ok f && negb (existsb (N.eqb c) (shut_done s))
      then step_close (set_shut_done (shut_done s ++ [c]) s)
      else s
  | _ => s
  end.

(* ------------------------------------------------------------------------ the LTS ----- *)
Definition step (cfg : config) (s : state) (e : event) : state :=
  match e with
  | Submit c r => step_submit c r s
  | PassGate c => step_pass_gate c s
  | SeeClosed c => step_see_closed c s
  | Cancel c => step_cancel c s
  | WDefault => step_wdefault s
  | WAccept c => step_waccept cfg c s
  | WTakeAck => step_wtakeack cfg s
  | WWriteHdr => step_wwritehdr cfg s
  | WWritePay => step_wwritepay s
  | WriteFail k => step_writefail cfg k s
  | WSeeDone => step_wseedone s
  | RCheck => step_rcheck s
  | RSeeDone => step_rseedone s
  | RFrame f h => step_rframe cfg f h s
  | PeerEOF p => step_peer_eof cfg p s
  | Close => step_close s
  | ConnStart => step_conn_start s
  | ConnFirst f h => step_conn_first cfg f h s
  | ConnFirstFail => step_conn_first_fail s
  | NegSubmit c => step_neg_submit c s
  | NegStep => step_neg_step s
  | ConnReady => step_conn_ready s
  | ConnSelect b => step_conn_select b s
  | ConnReturn => step_conn_return s
  | ShutdownClose c => step_shutdown_close c s
  end.

Definition run_from (cfg : config) (s : state) (evs : list event) : state := fold_left (step cfg) evs s.
Definition run (cfg : config) (evs : list event) : state := run_from cfg (init cfg) evs.

(* --------------------------------------------------------------- observables ---------- *)
(* frames written by the write loop on its own behalf (KeepAliveAck) *)
Definition is_own (o : oframe) : bool := match o_src o with None => true | Some _ => false end.
Definition acked (s : state) : list N := map (fun o => f_id (o_frame o)) (filter is_own (out s)).
(* ids of the keep-alives the ackHandler put into the queue / dropped because it was full *)
Definition ka_enqueued (s : state) : list N :=
  map fst (filter (fun p => Nat.ltb (snd p) ack_cap) (ka_log s)).
Definition ka_dropped (s : state) : list N :=
  map fst (filter (fun p => negb (Nat.ltb (snd p) ack_cap)) (ka_log s)).
(* the acknowledgement the write loop holds at the moment, if any *)
Definition ack_in_hand (s : state) : list N :=
  match writer s with
  | WHolding o => if is_own o then [f_id (o_frame o)] else []
  | _ => []
  end.

Definition caller_phase (s : state) (c : N) : option cphase := lookup c (callers s).
Definition caller_result (s : state) (c : N) : option result :=
  match lookup c (callers s) with Some (Done _ res) => Some res | _ => None end.
(* frames of caller c in out *)
Definition frames_of (c : N) (l : list oframe) : list oframe :=
  filter (fun o => match o_src o with Some c' => c' =? c | None => false end) l.
Definition ids_assigned (s : state) : list N := map snd (assigned s).

(* ---- wire format of a header, as writeHeader computes it (646-655) ---- *)
Definition be16 (x : N) : list N := [x / 256 mod 256; x mod 256].
Definition be32 (x : N) : list N := [x / 16777216 mod 256; x / 65536 mod 256; x / 256 mod 256; x mod 256].
Definition u16 (x : N) : N := x mod 65536.
(* uint16(h.version)<<10 | uint16(h.typ) ; h.payloadLen + HeaderSz in uint32 ; uint32(h.id) *)
Definition wire_len_field (f : frame) : N := u32 (f_len f + header_sz).
Definition hdr_bytes (f : frame) : list N :=
  be16 (u16 (N.lor (N.shiftl (f_ver f) 10) (f_typ f))) ++ be32 (wire_len_field f) ++ be32 (u32 (f_id f)).
(* the Write calls a completely written frame consists of *)
Definition chunks_of (o : oframe) : list chunk :=
  if f_len (o_frame o) =? 0 then [CHdr o] else [CHdr o; CPay o].
