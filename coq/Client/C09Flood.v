(* Client/C09Flood.v — the read loop never parks in a handler: a flood of keep-alives (of ANY length) into a
   client whose write loop is stuck leaves the read loop reading, the ack queue within its bound, and the client
   able to notice the end of the connection.

   In reader.go the ackHandler does a NON-blocking send on ackQueue (select/default, 864-869): when ackQueueSz
   acknowledgements are pending it gives up on this one (the panic is recovered by handleGuarded). In the model that
   is [ack_enqueue]: total, bounded by [ack_cap]. Were the handler to wait for room, the event RFrame of the
   (ack_cap+2)-th keep-alive would have no successor state with the reader back at its loop — here it always has one. *)
From Coq Require Import NArith Arith List Bool Lia.
From LLRP Require Import Client.Types Client.Model Client.MapLemmas Client.InvC08.
Import ListNotations.
Open Scope N_scope.

(* dispatching ANY frame returns the read loop to the top of its loop: no handler, no queue state, no caller can park it *)
Theorem rframe_returns_to_loop : forall cfg s f h,
  reader s = RRead -> reader (step cfg s (RFrame f h)) = RTop.
Proof. intros cfg s f h H. cbn [step]. unfold step_rframe. rewrite H. destruct (take_waiter _ _ _ _ _). reflexivity. Qed.

(* ---- the ack queue under a dispatch ---- *)
Lemma take_waiter_ackq : forall cfg whole seq f s, ackq (fst (take_waiter cfg whole seq f s)) = ackq s.
Proof.
  intros. unfold take_waiter.
  destruct (consults cfg (f_typ f)); [|reflexivity].
  destruct (lookup (f_id f) (awaiting s)); [|reflexivity].
  destruct (whole || (max_buffered <? f_len f)); cbn [fst]; [|reflexivity].
  st_simpl_goal. destruct (lookup n (callers s)) as [[]|]; reflexivity.
Qed.

Lemma ack_enqueue_bound : forall i s b, (ack_cap <= b)%nat -> (length (ackq s) <= b)%nat -> (length (ackq (ack_enqueue i s)) <= b)%nat.
Proof.
  intros i s b Hb H. unfold ack_enqueue. destruct (Nat.ltb (length (ackq s)) ack_cap) eqn:E; st_simpl_goal; [|assumption].
  apply Nat.ltb_lt in E. rewrite app_length. cbn. lia.
Qed.

Lemma run_handler_bound : forall cfg seq f h rep s b, (ack_cap <= b)%nat -> (length (ackq s) <= b)%nat ->
  (length (ackq (run_handler cfg seq f h rep s)) <= b)%nat.
Proof.
  intros. unfold run_handler. destruct (handler_for cfg (f_typ f)); try assumption.
  apply ack_enqueue_bound; assumption.
Qed.

(* one frame read while the client is open: back to reading, Connect / write loop / closed flag untouched, queue within max(old, cap) *)
Lemma read_one : forall cfg s f h b,
  reader s = RRead -> closed s = false -> (ack_cap <= b)%nat -> (length (ackq s) <= b)%nat ->
  let s' := step cfg (step cfg s (RFrame f h)) RCheck in
  reader s' = RRead /\ closed s' = false /\ writer s' = writer s /\ phase s' = phase s /\ errs s' = errs s /\
  (length (ackq s') <= b)%nat.
Proof.
  intros cfg s f h b Hr Hc Hb Hq s'. unfold s'. cbn [step]. unfold step_rframe. rewrite Hr.
  pose proof (receive_same_ctl cfg true f h s) as H. cbv zeta in H.
  pose proof (take_waiter_ackq cfg true (length (peer_sent s)) f (note_close_resp f (set_peer_sent (peer_sent s ++ [f]) s))) as Hq2.
  destruct (take_waiter cfg true (length (peer_sent s)) f _) as [s2 rep]. cbn [fst] in Hq2. destruct H as (_ & H).
  pose proof (note_close_resp_same_ctl f (set_peer_sent (peer_sent s ++ [f]) s)) as H0.
  destruct (same_ctl_trans _ _ _ H0 H) as (Ep & _ & Ew & _ & _ & _ & _ & Ee & _ & Ecl). st_simpl.
  assert (Hq3 : (length (ackq s2) <= b)%nat).
  { rewrite Hq2. unfold note_close_resp.
    repeat match goal with |- context [if ?c then _ else _] => destruct c end; exact Hq. }
  pose proof (run_handler_bound cfg (length (peer_sent s)) f h rep s2 b Hb Hq3) as Hq4.
  unfold step_rcheck. st_simpl_goal. rewrite Ecl, Hc. st_simpl_goal. repeat split; auto; congruence.
Qed.

(* a flood: any list of frames (keep-alives, reports, anything), each followed by the loop's check of done *)
Fixpoint flood (cfg : config) (fs : list (frame * hb)) (s : state) : state :=
  match fs with
  | [] => s
  | (f, h) :: r => flood cfg r (step cfg (step cfg s (RFrame f h)) RCheck)
  end.

Theorem flood_keeps_reading : forall cfg fs s b,
  reader s = RRead -> closed s = false -> (ack_cap <= b)%nat -> (length (ackq s) <= b)%nat ->
  let s' := flood cfg fs s in
  reader s' = RRead /\ closed s' = false /\ writer s' = writer s /\ phase s' = phase s /\ errs s' = errs s /\
  (length (ackq s') <= b)%nat.
Proof.
  intros cfg fs. induction fs as [|[f h] r IH]; intros s b Hr Hc Hb Hq; cbn [flood].
  - repeat split; auto.
  - destruct (read_one cfg s f h b Hr Hc Hb Hq) as (A1 & A2 & A3 & A4 & A5 & A6).
    destruct (IH _ b A1 A2 Hb A6) as (B1 & B2 & B3 & B4 & B5 & B6).
    repeat split; auto; congruence.
Qed.

(* ... and then the connection ends: the read loop reports it (unless the orderly end after CloseConnectionResponse, where it
   waits for done), so Connect's select has its errs case (C09_loop_error_first / C09_connect_watching_returns) *)
Theorem flood_then_eof : forall cfg fs s,
  reader s = RRead -> closed s = false ->
  let s' := step cfg (flood cfg fs s) (PeerEOF EofBoundary) in
  (saw_close (flood cfg fs s) = false -> reader s' = RDead /\ errs s' = errs s ++ [ERead]) /\
  (saw_close (flood cfg fs s) = true -> reader s' = RWaitDone).
Proof.
  intros cfg fs s Hr Hc s'.
  destruct (flood_keeps_reading cfg fs s (max ack_cap (length (ackq s))) Hr Hc) as (A1 & _ & _ & _ & A5 & _); [lia|lia|].
  unfold s'. cbn [step]. unfold step_peer_eof. rewrite A1. split; intro H; rewrite H.
  - unfold reader_dies. st_simpl_goal. rewrite A5. split; reflexivity.
  - reflexivity.
Qed.

(* ... or the client is closed: the read loop's next check of done returns *)
Theorem flood_then_close : forall cfg fs s f h,
  reader s = RRead -> closed s = false ->
  let s1 := step cfg (flood cfg fs s) Close in
  let s2 := step cfg (step cfg (step cfg s1 (RFrame f h)) RCheck) RSeeDone in
  closed s1 = true /\ reader s2 = RExit.
Proof.
  intros cfg fs s f h Hr Hc s1 s2.
  destruct (flood_keeps_reading cfg fs s (max ack_cap (length (ackq s))) Hr Hc) as (A1 & A2 & _); [lia|lia|].
  assert (C1 : closed s1 = true) by (unfold s1; cbn [step]; unfold step_close; rewrite A2; reflexivity).
  assert (R1 : reader s1 = RRead) by (unfold s1; cbn [step]; unfold step_close; rewrite A2; exact A1).
  split; [exact C1|].
  pose proof (rframe_returns_to_loop cfg s1 f h R1) as R2.
  pose proof (step_closed_mono cfg s1 (RFrame f h) C1) as C2.
  unfold s2. cbn [step] in *. unfold step_rcheck. rewrite R2, C2. unfold step_rseedone. rewrite R2, C2. reflexivity.
Qed.
