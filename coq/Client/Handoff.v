(* Client/Handoff.v — the hand-off of a reply from the read loop to the waiting caller, on its own.

   In Client/Model.v the event [RFrame f] is atomic: look up awaiting[id], delete the entry, read the payload,
   hand the Message over. In reader.go these are separate moments (passToHandler 898-901: lookup + delete under
   awaitMu; 924-927: io.ReadFull of the payload, which can take arbitrarily long; 933: replyChan <- msg; 936: close),
   and the caller may leave in between (ctx cancelled or client closed: send() 1026-1035; its token.cancel() then
   finds no entry and does nothing). The atomic event is faithful ONLY because the hand-off itself cannot block:
   replyChan is made with capacity 1 (reader.go 787) and exactly one value is ever sent on it. This file makes that
   assumption explicit: a four-event LTS of the window with the channel's capacity as a flag.
     buffered = true  (today's code): whenever the read loop is at its send, the send is enabled, whatever the caller did;
     buffered = false (make(chan Message)): refuted — after the caller leaves, the read loop is stuck at its send for ever.
   Executable definitions and their (small) proofs; statements repeated in Props/C09.v. *)
From Coq Require Import List Bool.
Import ListNotations.

Inductive hcaller := HWaiting | HGotReply | HLeft.         (* in the select on replyChan / done / ctx; returned the reply; returned ctx/closed error *)
Inductive hreader := HReading | HAtSend | HDelivered.      (* entry deleted, reading the payload; at replyChan <- msg; past it, back in the loop *)
Record hstate := mkH { h_caller : hcaller; h_reader : hreader; h_chan : bool (* a value sits in the channel's buffer *) }.

Inductive hevent :=
| HPayloadArrives      (* io.ReadFull returns *)
| HReaderSend          (* replyChan <- msg completes *)
| HCallerLeaves        (* the caller's select takes <-ctx.Done() or <-c.done *)
| HCallerReceives.     (* the caller's select takes <-replyChan from the buffer *)

Definition hinit : hstate := mkH HWaiting HReading false.

Definition hstep (buffered : bool) (s : hstate) (e : hevent) : hstate :=
  match e with
  | HPayloadArrives => match h_reader s with HReading => mkH (h_caller s) HAtSend (h_chan s) | _ => s end
  | HReaderSend =>
      match h_reader s with
      | HAtSend =>
          if buffered then mkH (h_caller s) HDelivered true           (* capacity 1, empty: never blocks *)
          else match h_caller s with
               | HWaiting => mkH HGotReply HDelivered false            (* rendezvous with the waiting caller *)
               | _ => s                                                (* nobody receives: not enabled *)
               end
      | _ => s
      end
  | HCallerLeaves => match h_caller s with HWaiting => mkH HLeft (h_reader s) (h_chan s) | _ => s end
  | HCallerReceives =>
      match h_caller s, h_chan s with HWaiting, true => mkH HGotReply (h_reader s) false | _, _ => s end
  end.

Definition hrun (buffered : bool) (evs : list hevent) : hstate := fold_left (hstep buffered) evs hinit.

Lemma chan_empty_until_sent : forall evs, h_reader (hrun true evs) <> HDelivered -> h_chan (hrun true evs) = false.
Proof.
  intro evs. unfold hrun.
  assert (G : forall evs s, (h_reader s <> HDelivered -> h_chan s = false) ->
              h_reader (fold_left (hstep true) evs s) <> HDelivered -> h_chan (fold_left (hstep true) evs s) = false).
  { clear evs. induction evs as [|e evs IH]; intros s H; cbn [fold_left]; [exact H|].
    apply IH. destruct s as [c r ch]; destruct e, c, r, ch; cbn in *; intros X; try reflexivity; try (exfalso; apply X; reflexivity);
      try (apply H; discriminate). }
  apply G. reflexivity.
Qed.

(* today's code: at its send the read loop always gets through, and then it is back in its loop *)
Theorem handoff_never_blocks : forall evs,
  h_reader (hrun true evs) = HAtSend -> h_reader (hstep true (hrun true evs) HReaderSend) = HDelivered.
Proof. intros evs H. unfold hstep. rewrite H. reflexivity. Qed.

(* unbuffered: the caller leaves while the payload is still arriving; the read loop reaches its send and no event moves anything any more *)
Theorem handoff_unbuffered_refuted :
  exists evs, let s := hrun false evs in
    h_reader s = HAtSend /\ h_caller s = HLeft /\ forall e, hstep false s e = s.
Proof. exists [HCallerLeaves; HPayloadArrives]. cbn. repeat split. intro e. destruct e; reflexivity. Qed.

(* the same schedule today: the read loop delivers into the buffer and goes on; the caller has its ctx/closed error *)
Example handoff_buffered_same_schedule :
  let s := hrun true [HCallerLeaves; HPayloadArrives; HReaderSend] in h_reader s = HDelivered /\ h_caller s = HLeft.
Proof. cbn. split; reflexivity. Qed.
