(* Client/C07Liveness.v — C07, strengthening after the round-3 seeded changes.

   Two things the earlier theorems did not say in so many words:

   (a) NO BOUND ON OUTSTANDING REQUESTS.  The write loop accepts a queued request whatever the
       size of the awaiting map is, and (C07_ack_not_blocked) acknowledging is enabled whatever
       the awaiting map is; [ack_round] packages "take the acknowledgement, write it" as a
       two-step run from ANY state, [accept_any_outstanding] says accepting never depends on how
       many requests are outstanding.

   (b) LIVENESS AFTER AN OVERFLOW.  Whatever happened before — in particular however many
       keep-alives were dropped because the backlog was full ([ka_log] arbitrary) — once the
       peer reads again the queued acknowledgements are written in order ([drain_acks]), and a
       keep-alive that arrives afterwards is enqueued and acknowledged ([ack_after_drain]).

   What stays abstract: the handler table is part of [config], i.e. constant during a run — a
   handler is never unregistered by a panic.  That is the Go code's behaviour (handleGuarded only
   logs); it is tied to the implementation by the overflow-then-drain scripts of checks/c07.py,
   not proved here.  Fairness of the scheduler (that the write loop does take its steps) is not
   modelled either: the theorems give enabledness and effect. *)
From Coq Require Import NArith List Bool Lia.
From LLRP Require Import Client.Types Client.Model Client.InvAck Client.C07Proofs.
Import ListNotations.
Open Scope N_scope.

(* take the head of the queue and write it: from any state with the write loop at its select *)
Lemma ack_round : forall cfg s i q,
  writer s = WTop \/ writer s = WInner -> ackq s = i :: q ->
  let s' := run_from cfg s [WTakeAck; WWriteHdr] in
  writer s' = WTop /\ ackq s' = q /\ acked s' = acked s ++ [i] /\
  reader s' = reader s /\ awaiting s' = awaiting s /\ callers s' = callers s /\
  ka_log s' = ka_log s /\ closed s' = closed s /\ saw_close s' = saw_close s /\
  peer_sent s' = peer_sent s /\ version s' = version s.
Proof.
  intros cfg s i q Hw Hq. unfold run_from. cbn [fold_left step].
  unfold step_wtakeack. destruct Hw as [Hw|Hw]; rewrite Hw, Hq;
    unfold step_wwritehdr; st_simpl_goal; cbn [stamp_o o_frame f_len stamp N.eqb];
    unfold after_frame; cbn [o_frame f_typ stamp];
    st_simpl_goal; repeat split; try reflexivity;
    unfold acked; st_simpl_goal; rewrite filter_app, map_app; reflexivity.
Qed.

(* (a) accepting a request does not look at the number of outstanding requests *)
Theorem accept_any_outstanding : forall cfg s c r,
  writer s = WInner -> lookup c (callers s) = Some (Queued r) -> q_wait r = true ->
  let s' := step cfg s (WAccept c) in
  let id := if q_id r =? 0 then next_id s else q_id r in
  (exists o, writer s' = WHolding o /\ o_src o = Some c /\ f_id (o_frame o) = id) /\
  lookup id (awaiting s') = Some c /\ ackq s' = ackq s /\ ka_log s' = ka_log s.
Proof.
  intros cfg s c r Hw Hc Hwait. cbn [step]. unfold step_waccept. rewrite Hw, Hc, Hwait.
  unfold set_caller, insert.
  destruct (q_id r =? 0); st_simpl_goal; cbn [lookup]; rewrite N.eqb_refl;
    (split; [eexists; repeat split; reflexivity|]); repeat split; reflexivity.
Qed.

(* a frame going through the read loop leaves the write side alone *)
Lemma take_waiter_write_side : forall cfg whole seq f s,
  writer (fst (take_waiter cfg whole seq f s)) = writer s /\ out (fst (take_waiter cfg whole seq f s)) = out s.
Proof.
  intros. unfold take_waiter.
  destruct (consults cfg (f_typ f)); [|split; reflexivity].
  destruct (lookup (f_id f) (awaiting s)); [|split; reflexivity].
  destruct (whole || (max_buffered <? f_len f)); [|split; reflexivity].
  st_simpl_goal. destruct (lookup n (callers s)) as [[]|]; split; reflexivity.
Qed.

Lemma rframe_write_side : forall cfg s f h,
  writer (step cfg s (RFrame f h)) = writer s /\ out (step cfg s (RFrame f h)) = out s.
Proof.
  intros cfg s f h. cbn [step]. unfold step_rframe. destruct (reader s); try (split; reflexivity).
  pose proof (take_waiter_write_side cfg true (length (peer_sent s)) f
                (note_close_resp f (set_peer_sent (peer_sent s ++ [f]) s))) as [T1 T2].
  destruct (take_waiter cfg true (length (peer_sent s)) f
              (note_close_resp f (set_peer_sent (peer_sent s ++ [f]) s))) as [sx rep].
  cbn [fst] in T1, T2. st_simpl_goal.
  assert (N1 : writer (note_close_resp f (set_peer_sent (peer_sent s ++ [f]) s)) = writer s)
    by (unfold note_close_resp; destruct (_ && _); reflexivity).
  assert (N2 : out (note_close_resp f (set_peer_sent (peer_sent s ++ [f]) s)) = out s)
    by (unfold note_close_resp; destruct (_ && _); reflexivity).
  unfold run_handler, ack_enqueue.
  destruct (handler_for cfg (f_typ f)); st_simpl_goal;
    try (destruct (Nat.ltb _ _)); st_simpl_goal; split; congruence.
Qed.

(* (b) draining: one round per queued acknowledgement *)
Fixpoint drain_events (n : nat) : list event :=
  match n with O => [] | S k => WTakeAck :: WWriteHdr :: drain_events k end.

Theorem drain_acks : forall cfg q s,
  writer s = WTop -> ackq s = q ->
  let s' := run_from cfg s (drain_events (length q)) in
  writer s' = WTop /\ ackq s' = [] /\ acked s' = acked s ++ q /\
  reader s' = reader s /\ ka_log s' = ka_log s /\ awaiting s' = awaiting s /\ closed s' = closed s.
Proof.
  intros cfg q. induction q as [|i q IH]; intros s Hw Hq.
  - cbn. rewrite app_nil_r. repeat split; auto.
  - cbn [length drain_events]. unfold run_from.
    change (fold_left (step cfg) (WTakeAck :: WWriteHdr :: drain_events (length q)) s)
      with (fold_left (step cfg) (drain_events (length q)) (run_from cfg s [WTakeAck; WWriteHdr])).
    destruct (ack_round cfg s i q (or_introl Hw) Hq) as [W [Q [A [R [AW [_ [K [C _]]]]]]]].
    set (s1 := run_from cfg s [WTakeAck; WWriteHdr]) in *.
    destruct (IH s1 W Q) as [W' [Q' [A' [R' [K' [AW' C']]]]]]. unfold run_from in *.
    repeat split; try congruence.
    rewrite A', A, <- app_assoc. reflexivity.
Qed.

(* ... and a keep-alive that arrives after the drain is enqueued and acknowledged, whatever
   the history (ka_log: how many were dropped before) and the awaiting map are *)
Theorem ack_after_drain : forall cfg s f h,
  ack_handler cfg = true -> f_typ f = T_KeepAlive ->
  writer s = WTop -> reader s = RRead ->
  let s1 := run_from cfg s (drain_events (length (ackq s))) in
  let s2 := run_from cfg s1 [RFrame f h; WTakeAck; WWriteHdr] in
  acked s1 = acked s ++ ackq s /\ ackq s1 = [] /\
  ka_log s2 = ka_log s ++ [(f_id f, O)] /\
  acked s2 = acked s ++ ackq s ++ [f_id f] /\ ackq s2 = [] /\ writer s2 = WTop.
Proof.
  intros cfg s f h Hack Hka Hw Hr s1 s2.
  destruct (drain_acks cfg (ackq s) s Hw eq_refl) as [W1 [Q1 [A1 [R1 [K1 _]]]]]. fold s1 in W1, Q1, A1, R1, K1.
  assert (Hr1 : reader s1 = RRead) by congruence.
  destruct (keepalive_dispatch cfg s1 f h Hack Hka Hr1) as [KL [ENQ _]].
  rewrite Q1 in KL, ENQ. cbn [length app] in KL, ENQ.
  specialize (ENQ ltac:(unfold ack_cap; lia)).
  set (sa := step cfg s1 (RFrame f h)) in *.
  destruct (rframe_write_side cfg s1 f h) as [Wa0 Oa]. fold sa in Wa0, Oa.
  assert (Wa : writer sa = WTop) by congruence.
  assert (Aa : acked sa = acked s1) by (apply acked_same; assumption).
  destruct (ack_round cfg sa (f_id f) [] (or_introl Wa) ENQ) as [W2 [Q2 [A2 [_ [_ [_ [K2 _]]]]]]].
  change (run_from cfg sa [WTakeAck; WWriteHdr]) with s2 in W2, Q2, A2, K2.
  repeat split; try assumption.
  - rewrite K2, KL, K1. reflexivity.
  - rewrite A2, Aa, A1, <- app_assoc. reflexivity.
Qed.
