(* Client/InvC08Gate.v — the gate invariant behind C08's second half.
   Requests that come through the exported API (q_gate = true: SendMessage, SendNoWait, Shutdown)
   wait for c.ready; the internal sends of negotiate (q_gate = false) do not. For every run in
   which external callers use the exported API only:
     - while [ready] is false no gated request has been handed to the write loop;
     - in the stream of frames the write loop has taken on, no ungated (negotiation) frame comes
       after a gated one;
     - [ready] is true only when negotiation is over (or the initial check failed).
   The invariant reads four things only: phase, ready, the caller table and the sources of the
   frames in the write loop's pipeline; it is stated over those ([GI]) and lifted to states. *)
From Coq Require Import NArith Arith List Bool Lia.
From LLRP Require Import Client.Types Client.Model Client.MapLemmas Client.StepFacts
     Client.InvCore Client.InvAck Client.InvOut Client.InvC08.
Import ListNotations.
Open Scope N_scope.

Definition exported (e : event) : Prop := match e with Submit _ r => q_gate r = true | _ => True end.
Definition exported_only (evs : list event) : Prop := Forall exported evs.

Definition gate_of (cs : list (N * cphase)) (c : N) : option bool :=
  match lookup c cs with Some p => Some (q_gate (req_of p)) | None => None end.
Definition scls (cs : list (N * cphase)) (x : option N) : option bool :=
  match x with Some c => gate_of cs c | None => None end.
Definition psrcs (s : state) : list (option N) := map o_src (out s) ++ map o_src (held (writer s)).

Definition at_gate (p : cphase) : Prop :=
  match p with Gate _ => True | Done _ res => res = RErrClosed \/ res = RErrCtx | _ => False end.
Definition is_done (p : cphase) : Prop := match p with Done _ _ => True | _ => False end.
Definition neg_caller_of (p : conn_phase) : option N :=
  match p with PNegotiating _ (Some c) => Some c | _ => None end.
Definition setup_over (p : conn_phase) : Prop :=
  match p with PInit | PCheckInitial | PNegotiating _ _ => False | _ => True end.

Record GI (ph : conn_phase) (rd : bool) (cs : list (N * cphase)) (ps : list (option N)) : Prop := mkGI {
  gi_held : rd = false -> forall c p, lookup c cs = Some p -> q_gate (req_of p) = true -> at_gate p;
  gi_neg : forall c p, lookup c cs = Some p -> q_gate (req_of p) = false -> is_done p \/ neg_caller_of ph = Some c;
  gi_ready : rd = true -> setup_over ph;
  gi_ndone : forall o, ph = PNegotiating NDone o -> o = None;
  gi_defined : forall c, In (Some c) ps -> lookup c cs <> None;
  gi_order : exists A B, ps = A ++ B /\ (forall x, In x A -> scls cs x <> Some true) /\
                         (forall x, In x B -> scls cs x <> Some false) /\ (rd = false -> B = [])
}.

Definition gate_inv (s : state) : Prop := GI (phase s) (ready s) (callers s) (psrcs s).

(* ---------------- the caller table ---------------- *)
Lemma gate_of_update : forall cs c p p', lookup c cs = Some p -> req_of p' = req_of p ->
  forall k, gate_of (update c p' cs) k = gate_of cs k.
Proof.
  intros cs c p p' Hl Hr k. unfold gate_of. rewrite lookup_update.
  destruct (k =? c) eqn:E; [|reflexivity]. apply N.eqb_eq in E. subst. rewrite Hl, Hr. reflexivity.
Qed.

Lemma scls_ext : forall cs cs' x, (forall k, gate_of cs' k = gate_of cs k) -> scls cs' x = scls cs x.
Proof. intros. destruct x; cbn; auto. Qed.

Lemma GI_upd : forall ph rd cs ps c p p',
  GI ph rd cs ps -> lookup c cs = Some p -> req_of p' = req_of p ->
  (is_done p -> is_done p') ->
  (rd = false -> q_gate (req_of p) = true -> at_gate p -> at_gate p') ->
  GI ph rd (update c p' cs) ps.
Proof.
  intros ph rd cs ps c p p' [H N R D F O] Hl Hr Hd Hg.
  pose proof (gate_of_update cs c p p' Hl Hr) as Hgo.
  constructor; try assumption.
  - intros Hrd k q Hk Hq. rewrite lookup_update in Hk. destruct (k =? c) eqn:E.
    + apply N.eqb_eq in E. subst. rewrite Hl in Hk. inversion Hk; subst. rewrite Hr in Hq. eauto.
    + eauto.
  - intros k q Hk Hq. rewrite lookup_update in Hk. destruct (k =? c) eqn:E.
    + apply N.eqb_eq in E. subst. rewrite Hl in Hk. inversion Hk; subst. rewrite Hr in Hq.
      destruct (N c p Hl Hq); auto.
    + eauto.
  - intros k Hin. rewrite lookup_update. destruct (k =? c) eqn:E.
    + rewrite Hl. discriminate.
    + auto.
  - destruct O as (A & B & E & HA & HB & HE). exists A, B. repeat split; try assumption.
    + intros x Hx. rewrite (scls_ext cs _ x Hgo). auto.
    + intros x Hx. rewrite (scls_ext cs _ x Hgo). auto.
Qed.

Lemma gate_of_app : forall cs c p k, lookup c cs = None ->
  lookup k cs <> None -> gate_of (cs ++ [(c, p)]) k = gate_of cs k.
Proof.
  intros cs c p k Hn Hk. unfold gate_of. rewrite lookup_app. destruct (lookup k cs); [reflexivity|congruence].
Qed.

Lemma GI_new : forall ph ph' rd cs ps c p,
  GI ph rd cs ps -> lookup c cs = None ->
  (q_gate (req_of p) = true -> at_gate p) ->
  (q_gate (req_of p) = false -> neg_caller_of ph = None /\ neg_caller_of ph' = Some c) ->
  (q_gate (req_of p) = true -> ph' = ph) ->
  (rd = true -> setup_over ph') -> (forall o, ph' = PNegotiating NDone o -> o = None) ->
  GI ph' rd (cs ++ [(c, p)]) ps.
Proof.
  intros ph ph' rd cs ps c p [H N R D F O] Hn Hg Hu Hsame Hr' Hd'.
  assert (Hcls : forall x, In x ps -> scls (cs ++ [(c, p)]) x = scls cs x).
  { intros [k|] Hx; cbn; [|reflexivity]. apply gate_of_app; auto. }
  constructor; try assumption.
  - intros Hrd k q Hk Hq. rewrite lookup_app in Hk. destruct (lookup k cs) eqn:E.
    + inversion Hk; subst. eauto.
    + destruct (k =? c); [|discriminate]. inversion Hk; subst. auto.
  - intros k q Hk Hq. rewrite lookup_app in Hk. destruct (lookup k cs) eqn:E.
    + inversion Hk; subst. destruct (N k q E Hq) as [X|X]; [now left|].
      destruct (q_gate (req_of p)) eqn:Gp.
      * rewrite (Hsame eq_refl). now right.
      * destruct (Hu eq_refl) as (Y & _). congruence.
    + destruct (k =? c) eqn:Ekc; [|discriminate]. inversion Hk; subst. apply N.eqb_eq in Ekc. subst.
      right. apply Hu. assumption.
  - intros k Hin. rewrite lookup_app. specialize (F k Hin). destruct (lookup k cs); [discriminate|congruence].
  - destruct O as (A & B & E & HA & HB & HE). exists A, B. repeat split; try assumption.
    + intros x Hx. rewrite Hcls; [auto|]. rewrite E. apply in_or_app. now left.
    + intros x Hx. rewrite Hcls; [auto|]. rewrite E. apply in_or_app. now right.
Qed.

(* ---------------- the pipeline ---------------- *)
Lemma GI_push : forall ph rd cs ps x,
  GI ph rd cs ps ->
  (forall c, x = Some c -> lookup c cs <> None) ->
  (rd = false -> scls cs x <> Some true) -> (rd = true -> scls cs x <> Some false) ->
  GI ph rd cs (ps ++ [x]).
Proof.
  intros ph rd cs ps x [H N R D F O] Hx Hf Ht. constructor; try assumption.
  - intros c Hin. apply in_app_or in Hin. destruct Hin as [Hin|[Hin|[]]]; auto.
  - destruct O as (A & B & E & HA & HB & HE). destruct rd.
    + exists A, (B ++ [x]). repeat split.
      * rewrite E. apply app_assoc_reverse.
      * assumption.
      * intros y Hy. apply in_app_or in Hy. destruct Hy as [Hy|[Hy|[]]]; subst; auto.
      * discriminate.
    + rewrite (HE eq_refl) in *. exists (A ++ [x]), []. repeat split.
      * rewrite E, !app_nil_r. reflexivity.
      * intros y Hy. apply in_app_or in Hy. destruct Hy as [Hy|[Hy|[]]]; subst; auto.
      * intros y [].
Qed.

Lemma GI_pop : forall ph rd cs ps x, GI ph rd cs (ps ++ [x]) -> GI ph rd cs ps.
Proof.
  intros ph rd cs ps x [H N R D F O]. constructor; try assumption.
  - intros c Hin. apply F. apply in_or_app. now left.
  - destruct O as (A & B & E & HA & HB & HE).
    assert (HB' : B = [] \/ exists B' y, B = B' ++ [y]).
    { clear. induction B using rev_ind; [now left|right; eauto]. }
    destruct HB' as [EB|(B' & y & EB)].
    + subst B. rewrite app_nil_r in E. subst A. exists ps, []. repeat split.
      * now rewrite app_nil_r.
      * intros z Hz. apply HA. apply in_or_app. now left.
      * intros z [].
    + subst B. rewrite app_assoc in E. apply app_inj_tail in E. destruct E as (E & _). subst ps.
      exists A, B'. repeat split; try assumption.
      * intros z Hz. apply HB. apply in_or_app. now left.
      * intros Hrd. specialize (HE Hrd). destruct B'; discriminate.
Qed.

(* ---------------- Connect moves on ---------------- *)
Lemma GI_phase : forall ph ph' rd rd' cs ps,
  GI ph rd cs ps ->
  (forall c, neg_caller_of ph = Some c -> neg_caller_of ph' = Some c \/ forall p, lookup c cs = Some p -> is_done p) ->
  (rd' = true -> setup_over ph') -> (forall o, ph' = PNegotiating NDone o -> o = None) ->
  (rd' = false -> rd = false) ->
  GI ph' rd' cs ps.
Proof.
  intros ph ph' rd rd' cs ps [H N R D F O] Hn Hr Hd Hrd. constructor; try assumption.
  - intros E. apply H. auto.
  - intros c p Hl Hq. destruct (N c p Hl Hq) as [X|X]; [now left|].
    destruct (Hn c X) as [Y|Y]; [now right|left; eauto].
  - destruct O as (A & B & E & HA & HB & HE). exists A, B. repeat split; auto.
Qed.

(* ---------------- lifting to states ---------------- *)
Lemma gate_same : forall s s',
  phase s' = phase s -> ready s' = ready s -> callers s' = callers s -> psrcs s' = psrcs s ->
  gate_inv s -> gate_inv s'.
Proof. unfold gate_inv. intros s s' -> -> -> ->. auto. Qed.

Lemma psrcs_same : forall s s', out s' = out s -> writer s' = writer s -> psrcs s' = psrcs s.
Proof. unfold psrcs. intros s s' -> ->. reflexivity. Qed.

Lemma gate_same_ctl : forall s s', same_ctl s s' -> callers s' = callers s -> gate_inv s -> gate_inv s'.
Proof.
  intros s s' (Hp & Hr & Hw & _ & Ho & _) Hc. apply gate_same; auto. now apply psrcs_same.
Qed.

Lemma psrcs_set_callers : forall x s, psrcs (set_callers x s) = psrcs s.
Proof. reflexivity. Qed.

Lemma held_after_frame : forall o, held (after_frame o) = [].
Proof. intros. unfold after_frame. destruct (f_typ _ =? _); reflexivity. Qed.

Lemma do_cancel_shape : forall c i s,
  same_ctl s (do_cancel c i s) /\
  (callers (do_cancel c i s) = callers s \/
   exists c' r' i', c' <> c /\ lookup c' (callers s) = Some (HasToken r' i') /\
                    callers (do_cancel c i s) = update c' (Done r' RZero) (callers s)).
Proof.
  intros. unfold do_cancel.
  destruct (lookup i (awaiting s)) as [c'|]; [|split; [apply same_ctl_refl|now left]].
  destruct (c' =? c) eqn:E; [split; [same_ctl_tac|now left]|]. apply N.eqb_neq in E. st_simpl_goal.
  destruct (lookup c' (callers s)) as [[r0|r0|r0 i0|r0 res]|] eqn:L; try (split; [same_ctl_tac|now left]).
  split; [unfold set_caller; same_ctl_tac|]. right. exists c', r0, i0. repeat split; auto.
Qed.

Lemma leave_gate : forall res c s, res = RErrClosed \/ res = RErrCtx -> gate_inv s -> gate_inv (leave res c s).
Proof.
  intros res c s Hres G. unfold leave.
  destruct (lookup c (callers s)) as [[r|r|r i|r res0]|] eqn:L; try assumption.
  - unfold gate_inv, set_caller. st_simpl_goal. eapply GI_upd; eauto; cbn; auto.
  - unfold gate_inv, set_caller. st_simpl_goal. eapply GI_upd; eauto; cbn; auto.
  - destruct (do_cancel_shape c i s) as (Hctl & Hc).
    pose proof Hctl as (Hp & Hr & Hw & _ & Ho & _).
    unfold gate_inv, set_caller. st_simpl_goal. rewrite psrcs_set_callers, Hp, Hr, (psrcs_same _ _ Ho Hw).
    destruct Hc as [Hc|(c' & r' & i' & Hne & L' & Hc)]; rewrite Hc.
    + eapply GI_upd; eauto; cbn; auto.
    + eapply GI_upd; [eapply GI_upd; [exact G|exact L'|reflexivity|cbn; auto|cbn; tauto]
                     |rewrite lookup_update_other by congruence; exact L|reflexivity|cbn; auto|cbn; auto].
Qed.

Lemma take_waiter_gate : forall cfg whole seq f s, gate_inv s -> gate_inv (fst (take_waiter cfg whole seq f s)).
Proof.
  intros cfg whole seq f s G. unfold take_waiter.
  destruct (consults cfg (f_typ f)); [|assumption].
  destruct (lookup (f_id f) (awaiting s)) as [c|]; [|assumption].
  destruct (whole || (max_buffered <? f_len f)); cbn [fst].
  - st_simpl_goal. destruct (lookup c (callers s)) as [[r|r|r i|r res0]|] eqn:L; cbn [fst];
      try (apply (gate_same s); auto; reflexivity).
    unfold gate_inv, set_caller. st_simpl_goal. fold (psrcs s). 
    change (psrcs (set_delivered _ _)) with (psrcs s).
    eapply GI_upd; eauto; cbn; tauto.
  - apply (gate_same s); auto; reflexivity.
Qed.

Lemma receive_gate : forall cfg whole f h s, gate_inv s ->
  let s1 := note_close_resp f (set_peer_sent (peer_sent s ++ [f]) s) in
  let '(s2, rep) := take_waiter cfg whole (length (peer_sent s)) f s1 in
  gate_inv s2 /\ gate_inv (run_handler cfg (length (peer_sent s)) f h rep s2).
Proof.
  intros cfg whole f h s G s1.
  assert (G1 : gate_inv s1).
  { subst s1. unfold note_close_resp. destruct (_ && _); apply (gate_same s); auto; reflexivity. }
  pose proof (take_waiter_gate cfg whole (length (peer_sent s)) f s1 G1) as G2.
  destruct (take_waiter cfg whole (length (peer_sent s)) f s1) as [s2 rep]. cbn [fst] in G2.
  split; [assumption|].
  apply (gate_same_ctl s2); [apply run_handler_same_ctl| |assumption].
  destruct (run_handler_callers cfg (length (peer_sent s)) f h rep s2) as (E & _). exact E.
Qed.

Lemma neg_req_ungated : forall st v, q_gate (neg_req st v) = false.
Proof. intros. destruct st; reflexivity. Qed.

Lemma init_fail_gate : forall s, phase s = PCheckInitial -> gate_inv s -> gate_inv (init_fail s).
Proof.
  intros s Hp G. unfold gate_inv, init_fail. st_simpl_goal.
  change (psrcs (set_phase _ _)) with (psrcs s). unfold gate_inv in G. rewrite Hp in G.
  eapply GI_phase; [exact G| | | |]; cbn; auto; try discriminate.
Qed.

Theorem gate_inv_step : forall cfg s e, exported e -> pre_inv s -> gate_inv s -> gate_inv (step cfg s e).
Proof.
  intros cfg s e Hex Hpre G. destruct e; cbn [step]; cbn [exported] in Hex.
  - (* Submit *) unfold step_submit, is_fresh. destruct (lookup c (callers s)) eqn:L; cbn [andb]; [assumption|].
    destruct (q_gate r || (q_len r <=? max_payload)); [|assumption]. rewrite Hex.
    unfold gate_inv. st_simpl_goal. change (psrcs (set_callers _ s)) with (psrcs s).
    pose proof G as [H N R D F O].
    eapply GI_new; eauto; cbn; try rewrite Hex; auto; discriminate.
  - (* PassGate *) unfold step_pass_gate. destruct (lookup c (callers s)) as [[r|r|r i|r res0]|] eqn:L; try assumption.
    destruct (ready s) eqn:Er; [|assumption].
    unfold gate_inv, set_caller. st_simpl_goal. change (psrcs (set_callers _ s)) with (psrcs s). rewrite Er.
    unfold gate_inv in G. rewrite Er in G.
    destruct (max_payload <? q_len r); (eapply GI_upd; eauto; cbn; auto; discriminate).
  - (* SeeClosed *) unfold step_see_closed. destruct (closed s); [apply leave_gate; auto|assumption].
  - (* Cancel *) apply leave_gate; auto.
  - (* WDefault *) unfold step_wdefault. destruct (writer s) eqn:Hw; try assumption.
    destruct (ackq s); try assumption. destruct (closed s); try assumption.
    apply (gate_same s); auto. unfold psrcs. st_simpl_goal. rewrite Hw. reflexivity.
  - (* WAccept *) unfold step_waccept. destruct (writer s) eqn:Hw; try assumption.
    destruct (lookup c (callers s)) as [[r|r|r i|r res0]|] eqn:L; try assumption.
    cbn zeta. pose proof G as [H N R D F O].
    assert (Hpush : forall p', req_of p' = r -> (p' = HasToken r (if q_id r =? 0 then next_id s else q_id r) \/ p' = Done r RSent) ->
              GI (phase s) (ready s) (update c p' (callers s)) (psrcs s ++ [Some c])).
    { intros p' Hr Hp'. apply GI_push.
      - eapply GI_upd; eauto; cbn; tauto.
      - intros k Ek. inversion Ek; subst. rewrite lookup_update, N.eqb_refl, L. discriminate.
      - intros Erd. cbn. rewrite (gate_of_update _ c (Queued r) p' L Hr). unfold gate_of. rewrite L. cbn.
        intro X. inversion X as [X']. specialize (H Erd c (Queued r) L X'). exact H.
      - intros Erd. cbn. rewrite (gate_of_update _ c (Queued r) p' L Hr). unfold gate_of. rewrite L. cbn.
        intro X. inversion X as [X']. destruct (N c (Queued r) L X') as [Y|Y]; [exact Y|].
        specialize (R Erd). destruct (phase s) as [| |st [k|]| | |]; cbn in *; try discriminate; contradiction. }
    assert (Hps : forall o s', out s' = out s -> writer s' = WHolding o -> o_src o = Some c -> psrcs s' = psrcs s ++ [Some c]).
    { intros o s' Eo Ew Es. unfold psrcs. rewrite Eo, Ew, Hw. cbn. rewrite Es, app_nil_r. reflexivity. }
    unfold gate_inv, set_caller.
    destruct (q_wait r), (q_id r =? 0) eqn:Eid; st_simpl_goal;
      (erewrite Hps; [|st_simpl_goal; reflexivity|st_simpl_goal; reflexivity|reflexivity]);
      apply Hpush; auto; rewrite ?Eid; auto.
  - (* WTakeAck *) unfold step_wtakeack.
    assert (Hgo : forall i q, ackq s = i :: q -> (writer s = WTop \/ writer s = WInner) ->
              gate_inv (set_ackq q (set_writer (WHolding (stamp_o cfg (version s) (mkOFrame (mkFrame 0 T_KeepAliveAck i 0 0 IOpaque) None))) s))).
    { intros i q Ea Hw. unfold gate_inv. st_simpl_goal.
      replace (psrcs (set_ackq q (set_writer _ s))) with (psrcs s ++ [None]).
      - apply GI_push; [exact G|discriminate|cbn; discriminate|cbn; discriminate].
      - unfold psrcs. st_simpl_goal. destruct Hw as [Hw|Hw]; rewrite Hw; cbn; rewrite app_nil_r; reflexivity. }
    destruct (writer s) eqn:Hw; try assumption; destruct (ackq s) eqn:Ea; try assumption; apply Hgo; auto.
  - (* WWriteHdr *) unfold step_wwritehdr. destruct (writer s) eqn:Hw; try assumption. cbn zeta.
    destruct (f_len (o_frame o) =? 0);
      (apply (gate_same s); auto; unfold psrcs; st_simpl_goal; rewrite Hw, ?held_after_frame, ?map_app; cbn; rewrite ?app_nil_r; reflexivity).
  - (* WWritePay *) unfold step_wwritepay. destruct (writer s) eqn:Hw; try assumption.
    apply (gate_same s); auto. unfold psrcs. st_simpl_goal. rewrite Hw, held_after_frame, map_app. cbn. rewrite app_nil_r. reflexivity.
  - (* WriteFail *) unfold step_writefail. destruct (writer s) eqn:Hw; try assumption;
      match goal with |- context [if ?b then _ else _] => destruct b end; try assumption;
      unfold gate_inv; st_simpl_goal;
      match goal with |- GI _ _ _ (psrcs ?x) => replace (psrcs x) with (map o_src (out s)) by (unfold psrcs; st_simpl_goal; cbn; rewrite app_nil_r; reflexivity) end;
      unfold gate_inv, psrcs in G; rewrite Hw in G; cbn in G; eapply GI_pop; exact G.
  - (* WSeeDone *) unfold step_wseedone. destruct (writer s) eqn:Hw; try assumption; destruct (closed s); try assumption;
      (apply (gate_same s); auto; unfold psrcs; st_simpl_goal; rewrite Hw; reflexivity).
  - (* RCheck *) unfold step_rcheck. destruct (reader s); try assumption. destruct (closed s); assumption.
  - (* RSeeDone *) unfold step_rseedone. destruct (reader s); try assumption; destruct (closed s); try assumption;
      (apply (gate_same s); auto; reflexivity).
  - (* RFrame *) unfold step_rframe. destruct (reader s); try assumption.
    pose proof (receive_gate cfg true f h s G) as H. cbv zeta in H.
    destruct (take_waiter cfg true (length (peer_sent s)) f _) as [s2 rep]. destruct H as (_ & H).
    apply (gate_same (run_handler cfg (length (peer_sent s)) f h rep s2)); auto; reflexivity.
  - (* PeerEOF *) unfold step_peer_eof. destruct (reader s); try assumption. destruct p.
    + destruct (saw_close s); unfold reader_dies; (apply (gate_same s); auto; reflexivity).
    + unfold reader_dies; (apply (gate_same s); auto; reflexivity).
    + pose proof (receive_gate cfg false f HBAll s G) as H. cbv zeta in H.
      destruct (take_waiter cfg false (length (peer_sent s)) f _) as [s2 rep]. destruct H as (H2 & H).
      destruct (rep && _); [|eof_cases]; unfold reader_dies.
      * apply (gate_same s2); auto; reflexivity.
      * apply (gate_same (run_handler cfg (length (peer_sent s)) f HBAll rep s2)); auto; reflexivity.
      * apply (gate_same (run_handler cfg (length (peer_sent s)) f HBAll rep s2)); auto; reflexivity.
  - (* Close *) unfold step_close. destruct (closed s); (apply (gate_same s); auto; reflexivity).
  - (* ConnStart *) unfold step_conn_start. destruct (phase s) eqn:Hp; try assumption.
    unfold gate_inv in *. st_simpl_goal. change (psrcs (set_phase _ s)) with (psrcs s). rewrite Hp in G.
    pose proof G as [H N R D F O].
    eapply GI_phase; [exact G| | | |]; cbn; auto; try discriminate.
  - (* ConnFirst *) unfold step_conn_first. destruct (phase s) eqn:Hp; try assumption. cbv zeta.
    assert (G1 : gate_inv (set_peer_sent (peer_sent s ++ [f]) s)) by (apply (gate_same s); auto; reflexivity).
    destruct (max_buffered <? f_len f); [apply init_fail_gate; auto|].
    match goal with |- gate_inv (if _ then _ else init_fail ?x) => remember x as s2 eqn:Hs2 end.
    assert (Hc : same_ctl (set_peer_sent (peer_sent s ++ [f]) s) s2 /\ callers s2 = callers s).
    { subst s2. destruct (first_handler cfg (f_typ f)) as [k|]; [|split; [apply same_ctl_refl|reflexivity]].
      destruct k; try (split; [same_ctl_tac|reflexivity]).
      split; [eapply same_ctl_trans; [|apply ack_enqueue_same_ctl]; same_ctl_tac|].
      match goal with |- callers (ack_enqueue ?i ?x) = _ => destruct (ack_enqueue_callers i x) as (E & _); rewrite E end. reflexivity. }
    clear Hs2. destruct Hc as (Hctl & Hcs).
    assert (G2 : gate_inv s2) by (apply (gate_same_ctl _ _ Hctl); auto).
    assert (Hp2 : phase s2 = PCheckInitial) by (destruct Hctl as (E & _); rewrite E; exact Hp).
    destruct (_ && _); [|apply init_fail_gate; auto].
    destruct Hpre as [A _ _ _]. rewrite Hp in A. destruct (A eq_refl) as (Hw & _).
    assert (Hw2 : writer s2 = WNone) by (destruct Hctl as (_ & _ & E & _); rewrite E; exact Hw).
    unfold gate_inv in *. st_simpl_goal. rewrite Hp2 in G2.
    replace (psrcs (set_phase _ (set_writer WTop (set_reader RTop s2)))) with (psrcs s2)
      by (unfold psrcs; st_simpl_goal; rewrite Hw2; reflexivity).
    pose proof G2 as [H N R D F O].
    eapply GI_phase; [exact G2| | | |]; cbn; auto; try discriminate.
    intros o Eo. inversion Eo. reflexivity.
  - (* ConnFirstFail *) unfold step_conn_first_fail. destruct (phase s) eqn:Hp; try assumption. apply init_fail_gate; auto.
  - (* NegSubmit *) unfold step_neg_submit.
    destruct (phase s) as [| |st o| | |] eqn:Hp; try assumption.
    assert (Hgo : (st = NGsv \/ st = NSpv) -> o = None -> is_fresh c s = true ->
                  gate_inv (set_phase (PNegotiating st (Some c)) (set_callers (callers s ++ [(c, Queued (neg_req st (version s)))]) s))).
    { intros Hst -> Hfr. unfold is_fresh in Hfr. destruct (lookup c (callers s)) eqn:L; [discriminate|].
      unfold gate_inv in *. st_simpl_goal. change (psrcs (set_phase _ (set_callers _ s))) with (psrcs s). rewrite Hp in G.
      pose proof G as [H N R D F O].
      eapply GI_new; [exact G|exact L| | | | |]; cbn [req_of]; rewrite ?neg_req_ungated; try discriminate; cbn; auto.
      intros o Eo. inversion Eo; subst. destruct Hst; discriminate. }
    destruct st, o; try assumption; destruct (is_fresh c s) eqn:Hfr; try assumption; apply Hgo; auto.
  - (* NegStep *) unfold step_neg_step, neg_fail, neg_fail_with.
    destruct (phase s) as [| |st o| | |] eqn:Hp; try assumption.
    destruct o as [c0|]; [|assumption].
    destruct (lookup c0 (callers s)) as [[r|r|r i|r res0]|] eqn:L; try assumption.
    unfold gate_inv in G. rewrite Hp in G. pose proof G as [H N R D F O].
    assert (Hrd : ready s = false) by (destruct (ready s); [exfalso; apply (R eq_refl)|reflexivity]).
    assert (Hgen : forall s' ph', phase s' = ph' -> ready s' = ready s -> callers s' = callers s -> psrcs s' = psrcs s ->
               (forall st' o', ph' = PNegotiating st' o' -> o' = None) -> gate_inv s').
    { intros s' ph' E1 E2 E3 E4 Hn. unfold gate_inv. rewrite E1, E2, E3, E4.
      eapply GI_phase; [exact G| | | |auto].
      - intros k Ek. cbn in Ek. inversion Ek; subst. right. intros p Lp. rewrite L in Lp. inversion Lp. exact I.
      - rewrite Hrd. discriminate.
      - intros o' Eo. eapply Hn; eauto. }
    destruct st, res0; try assumption;
      try (eapply Hgen; [reflexivity|reflexivity|reflexivity|reflexivity|]; st_simpl_goal; intros; discriminate).
    + destruct (gsv_outcome f) as [[cur mx]|]; [destruct (cur =? _)|];
        (eapply Hgen; [reflexivity|reflexivity|reflexivity|reflexivity|]; st_simpl_goal; intros st' o' Eo; inversion Eo; reflexivity).
    + destruct (spv_ok f);
        (eapply Hgen; [reflexivity|reflexivity|reflexivity|reflexivity|]; st_simpl_goal; intros st' o' Eo; inversion Eo; reflexivity).
  - (* ConnReady *) unfold step_conn_ready. destruct (phase s) as [| |st o| | |] eqn:Hp; try assumption.
    destruct st; try assumption.
    unfold gate_inv in *. st_simpl_goal. change (psrcs (set_phase _ (set_ready _ s))) with (psrcs s). rewrite Hp in G.
    pose proof G as [H N R D F O]. rewrite (D o eq_refl) in G.
    eapply GI_phase; [exact G| | | |]; cbn; auto; discriminate.
  - (* ConnSelect *) unfold step_conn_select. destruct (phase s) eqn:Hp; try assumption.
    unfold gate_inv in G. rewrite Hp in G.
    destruct pick_err; [destruct (errs s)|destruct (closed s)]; try (unfold gate_inv; rewrite Hp; assumption);
      (unfold gate_inv; st_simpl_goal;
       match goal with |- GI _ _ _ (psrcs ?x) => change (psrcs x) with (psrcs s) end;
       eapply GI_phase; [exact G| | | |]; cbn; auto; discriminate).
  - (* ConnReturn *) unfold step_conn_return. destruct (phase s) as [| |st o| |r|r] eqn:Hp; try assumption.
    destruct (_ && _); try assumption.
    unfold gate_inv in *. st_simpl_goal. change (psrcs (set_phase _ s)) with (psrcs s). rewrite Hp in G.
    eapply GI_phase; [exact G| | | |]; cbn; auto; discriminate.
  - (* ShutdownClose *) unfold step_shutdown_close, step_close.
    destruct (lookup c (callers s)) as [[r|r|r i|r res0]|]; try assumption.
    destruct res0; try assumption. destruct (_ && _); try assumption.
    destruct (closed _); (apply (gate_same s); auto; reflexivity).
Qed.
