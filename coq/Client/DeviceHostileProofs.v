(* Proofs about the device-level model (Client/DeviceHostile.v). *)
From Coq Require Import ZArith List Bool Lia.
From LLRP Require Import Client.DeviceHostile.
Import ListNotations.
Open Scope Z_scope.

Lemma process_tag_guarded : forall rs t, process_tag true rs t <> None.
Proof.
  intros rs t. unfold process_tag.
  destruct (t_first_uptime t); destruct (t_first_utc t); cbn;
    destruct (t_last_uptime t); destruct (t_last_utc t); cbn; discriminate.
Qed.

Lemma process_tags_guarded : forall rs ts, process_tags true rs ts <> None.
Proof.
  induction ts as [|t r IH]; cbn [process_tags]; [discriminate|].
  destruct (process_tag true rs t) eqn:E; [|exfalso; eapply process_tag_guarded; eassumption].
  destruct (process_tags true rs r); [discriminate|congruence].
Qed.

Definition safe_flags (fl : dflags) : Prop :=
  stores_reader_start fl = false \/ process_guards_nil fl = true.

(* invariant: not panicked; and if nothing is ever stored, readerStart stays the zero Time *)
Definition dinv (fl : dflags) (st : dstate) : Prop :=
  ds_panicked st = false /\ (stores_reader_start fl = false -> ds_reader_start st = None).

Lemma dev_step_inv : forall fl st nm, safe_flags fl -> dinv fl st -> dinv fl (dev_step fl st nm).
Proof.
  intros fl st [now m] Hs [Hp Hr]. unfold dev_step, dinv. rewrite Hp.
  destruct m as [utc up|tags|].
  - cbn [ds_panicked ds_reader_start]. split; [reflexivity|intro Hst; rewrite Hst; exact (Hr Hst)].
  - destruct (ds_reader_start st) as [rs|] eqn:Ers.
    + destruct Hs as [Hs|Hs]; [discriminate (Hr Hs)|].
      rewrite Hs. destruct (process_tags true rs tags) eqn:E.
      * cbn [ds_panicked ds_reader_start]. split; [reflexivity|]. intro H. specialize (Hr H). congruence.
      * exfalso. eapply process_tags_guarded; eassumption.
    + cbn [ds_panicked ds_reader_start]. split; reflexivity.
  - split; assumption.
Qed.

Lemma dev_run_from_inv : forall fl ms st, safe_flags fl -> dinv fl st -> dinv fl (fold_left (dev_step fl) ms st).
Proof.
  induction ms as [|m r IH]; intros st Hs Hi; cbn [fold_left]; [assumption|].
  apply IH; [assumption|]. apply dev_step_inv; assumption.
Qed.

Lemma dev_never_panics : forall fl ms, safe_flags fl -> ds_panicked (dev_run fl ms) = false.
Proof.
  intros fl ms Hs. unfold dev_run.
  apply (dev_run_from_inv fl ms ds0 Hs). split; [reflexivity|reflexivity].
Qed.

(* while nothing panics, every decodable message is published exactly once, in order, and
   nothing else is *)
Lemma dev_step_published : forall fl st nm,
  ds_panicked (dev_step fl st nm) = false ->
  length (ds_published (dev_step fl st nm))
  = (length (ds_published st) + if decodable (snd nm) then 1 else 0)%nat.
Proof.
  intros fl st [now m]. unfold dev_step. destruct (ds_panicked st) eqn:Hp.
  - intro H. congruence.
  - destruct m as [utc up|tags|]; cbn [snd decodable ds_published length].
    + intros _. lia.
    + destruct (ds_reader_start st) as [rs|].
      * destruct (process_tags _ rs tags); cbn [ds_published ds_panicked length]; [intros _; lia|discriminate].
      * cbn [ds_published length]. intros _. lia.
    + intros _. lia.
Qed.

Lemma dev_panicked_sticky : forall fl ms st, ds_panicked st = true -> ds_panicked (fold_left (dev_step fl) ms st) = true.
Proof.
  induction ms as [|m r IH]; intros st H; cbn [fold_left]; [assumption|].
  apply IH. unfold dev_step. rewrite H. assumption.
Qed.

Lemma dev_run_published_from : forall fl ms st,
  ds_panicked (fold_left (dev_step fl) ms st) = false ->
  length (ds_published (fold_left (dev_step fl) ms st))
  = (length (ds_published st) + length (filter (fun nm => decodable (snd nm)) ms))%nat.
Proof.
  induction ms as [|m r IH]; intros st H; cbn [fold_left filter length] in *; [lia|].
  assert (Hm : ds_panicked (dev_step fl st m) = false).
  { destruct (ds_panicked (dev_step fl st m)) eqn:E; [|reflexivity].
    rewrite (dev_panicked_sticky fl r _ E) in H. discriminate. }
  rewrite (IH _ H). rewrite (dev_step_published fl st m Hm).
  destruct (decodable (snd m)); cbn [length]; lia.
Qed.

Lemma dev_run_published : forall fl ms, safe_flags fl ->
  length (ds_published (dev_run fl ms)) = length (filter (fun nm => decodable (snd nm)) ms).
Proof.
  intros fl ms Hs. unfold dev_run. rewrite dev_run_published_from; [reflexivity|].
  apply (dev_never_panics fl ms Hs).
Qed.

(* the witness: readerStart stored, nil not guarded.  A Reader without UTC clock: its
   connection event carries Uptime 5 s (UTCTimestamp absent); then a report whose only tag
   carries FirstSeenUptime and no FirstSeenUTC. *)
Definition wit_dev_msgs : list (Z * dmsg) :=
  [(1000000, MEvent 0 5000000); (1000100, MReport [mkTag None (Some 6000000) None None])].

Lemma wit_dev_panics : ds_panicked (dev_run (mkDFlags true false) wit_dev_msgs) = true.
Proof. vm_compute. reflexivity. Qed.

Lemma wit_dev_as_found_survives :
  ds_panicked (dev_run dflags_as_found wit_dev_msgs) = false /\
  length (ds_published (dev_run dflags_as_found wit_dev_msgs)) = 2%nat.
Proof. vm_compute. split; reflexivity. Qed.

(* ------------------------------------------------------------------ probe() *)
Definition safe_pflags (fl : pflags) : Prop :=
  by_pointer fl = false \/ (config_nil_checked fl = true /\ caps_nil_checked fl = true).

Lemma probe_never_panics : forall fl se config caps,
  safe_pflags fl -> probe_after fl se config caps <> PoPanic.
Proof.
  intros fl se config caps Hs. unfold probe_after. destruct se; [|discriminate].
  destruct Hs as [Hp|[Hc Hk]].
  - rewrite Hp. cbn [andb]. destruct caps as [b|]; destruct config as [[|]|]; discriminate.
  - rewrite Hc, Hk. cbn [negb]. rewrite !andb_false_r.
    destruct caps as [b|]; destruct config as [[|]|]; discriminate.
Qed.

(* a device is discovered only from an Identification that was received *)
Lemma probe_info_needs_config : forall fl se config caps k,
  probe_after fl se config caps = PoInfo k -> se = SeClosedByUs /\ config = Some true.
Proof.
  intros fl se config caps k. unfold probe_after. destruct se; [|discriminate].
  destruct caps as [b|]; [|destruct (by_pointer fl && negb (caps_nil_checked fl))]; try discriminate;
    destruct config as [[|]|]; try discriminate; try (intros _; split; reflexivity);
    destruct (by_pointer fl && negb (config_nil_checked fl)); discriminate.
Qed.

(* witness: replies by pointer, the capabilities pointer tested, the configuration pointer not:
   GetReaderConfig fails, the session still ends in an orderly close *)
Lemma wit_probe_panics :
  probe_after (mkPFlags true false true) SeClosedByUs None None = PoPanic /\
  probe_after pflags_as_found SeClosedByUs None None = PoErr.
Proof. split; reflexivity. Qed.
