(* C12 — lemmas about Client/StatusExchange.v *)
From Coq Require Import NArith List Bool Lia.
From LLRP Require Import Client.Status Client.StatusProofs Client.StatusExchange.
Import ListNotations.
Open Scope N_scope.

(* ---- association list ---------------------------------------------------------------------- *)

Lemma alookup_aremove_same : forall id l, alookup id (aremove id l) = None.
Proof.
  intros id l. induction l as [|[k e] r IH]; [reflexivity|]. cbn [aremove].
  destruct (N.eqb_spec k id) as [E|E]; [exact IH|].
  cbn [alookup]. destruct (N.eqb_spec k id) as [E'|E']; [contradiction|exact IH].
Qed.

Lemma alookup_aremove_other : forall i id l, i <> id -> alookup id (aremove i l) = alookup id l.
Proof.
  intros i id l H. induction l as [|[k e] r IH]; [reflexivity|]. cbn [aremove alookup].
  destruct (N.eqb_spec k i) as [E|E].
  - subst k. destruct (N.eqb_spec i id) as [E'|E']; [contradiction|exact IH].
  - cbn [alookup]. destruct (N.eqb_spec k id); [reflexivity|exact IH].
Qed.

(* ---- runs ---------------------------------------------------------------------------------- *)

Lemma xrun_app : forall st a b, xrun st (a ++ b) = xrun (xrun st a) b.
Proof. intros st a b. unfold xrun. apply fold_left_app. Qed.

Lemma xrun_snoc : forall st a ev, xrun st (a ++ [ev]) = xstep (xrun st a) ev.
Proof. intros st a ev. rewrite xrun_app. reflexivity. Qed.

Lemma xstep_done_mono : forall st ev x, In x (x_done st) -> In x (x_done (xstep st ev)).
Proof.
  intros st ev x H. destruct ev as [id e|id|v|f]; cbn [xstep].
  - exact H.
  - destruct (alookup id (x_await st)); [right; exact H|exact H].
  - exact H.
  - destruct (reader_initiated (fr_type f)); [exact H|].
    destruct (alookup (fr_id f) (x_await st)); [right; exact H|exact H].
Qed.

Lemma xrun_done_mono : forall evs st x, In x (x_done st) -> In x (x_done (xrun st evs)).
Proof.
  induction evs as [|ev r IH]; intros st x H; [exact H|].
  cbn [xrun fold_left]. apply (IH (xstep st ev)). apply xstep_done_mono. exact H.
Qed.

Lemma quiet_keeps_waiting : forall id st ev, quiet id ev ->
  alookup id (x_await (xstep st ev)) = alookup id (x_await st).
Proof.
  intros id st ev Q. destruct ev as [i e|i|v|f]; cbn [xstep quiet] in *.
  - cbn [x_await alookup]. destruct (N.eqb_spec i id) as [E|E]; [contradiction|].
    apply alookup_aremove_other. exact E.
  - destruct (alookup i (x_await st)); [|reflexivity]. cbn [x_await].
    apply alookup_aremove_other. exact Q.
  - reflexivity.
  - destruct (reader_initiated (fr_type f)) eqn:R; [reflexivity|].
    destruct Q as [Q|Q]; [discriminate|].
    destruct (alookup (fr_id f) (x_await st)); [|reflexivity]. cbn [x_await].
    apply alookup_aremove_other. exact Q.
Qed.

Lemma quiet_run_keeps_waiting : forall id mid st, Forall (quiet id) mid ->
  alookup id (x_await (xrun st mid)) = alookup id (x_await st).
Proof.
  intros id mid. induction mid as [|ev r IH]; intros st H; [reflexivity|].
  inversion H as [|? ? Q QR]; subst. cbn [xrun fold_left].
  change (fold_left xstep r (xstep st ev)) with (xrun (xstep st ev) r).
  rewrite (IH (xstep st ev) QR). apply quiet_keeps_waiting. exact Q.
Qed.

(* ---- completeness: a request gets the outcome of its own reply ---------------------------- *)

Lemma own_reply_delivered : forall st pre id e mid f post,
  Forall (quiet id) mid -> fr_id f = id -> reader_initiated (fr_type f) = false ->
  In (id, XOutcome (send_for_outcome e (fr_type f) (fr_dec f)))
     (x_done (xrun st (pre ++ XSend id e :: mid ++ XRecv f :: post))).
Proof.
  intros st pre id e mid f post Q I R.
  rewrite xrun_app. set (s1 := xrun st pre).
  change (XSend id e :: mid ++ XRecv f :: post) with ([XSend id e] ++ (mid ++ XRecv f :: post)).
  rewrite xrun_app. rewrite xrun_app.
  set (s2 := xrun s1 [XSend id e]).
  assert (W2 : alookup id (x_await s2) = Some e).
  { unfold s2. cbn [xrun fold_left xstep x_await alookup]. rewrite N.eqb_refl. reflexivity. }
  set (s3 := xrun s2 mid).
  assert (W3 : alookup id (x_await s3) = Some e).
  { unfold s3. rewrite (quiet_run_keeps_waiting id mid s2 Q). exact W2. }
  change (XRecv f :: post) with ([XRecv f] ++ post). rewrite xrun_app.
  apply xrun_done_mono. cbn [xrun fold_left xstep]. rewrite R. rewrite I. rewrite W3.
  cbn [x_done]. left. reflexivity.
Qed.

(* ---- soundness: every outcome handed to a caller comes from a frame carrying its id ------- *)

Definition await_inv (evs : list xevent) (st : xstate) : Prop :=
  forall id e, alookup id (x_await st) = Some e ->
    exists pre mid, evs = pre ++ XSend id e :: mid /\ Forall (quiet id) mid.

Definition done_inv (evs : list xevent) (st : xstate) : Prop :=
  forall id o, In (id, XOutcome o) (x_done st) ->
    exists pre e mid f post,
      evs = pre ++ XSend id e :: mid ++ XRecv f :: post /\ Forall (quiet id) mid /\
      fr_id f = id /\ reader_initiated (fr_type f) = false /\
      o = send_for_outcome e (fr_type f) (fr_dec f).

Lemma snoc_send_mid : forall (evs pre : list xevent) x mid ev,
  evs = pre ++ x :: mid -> evs ++ [ev] = pre ++ x :: (mid ++ [ev]).
Proof. intros evs pre x mid ev H. subst evs. rewrite <- app_assoc. reflexivity. Qed.

Lemma await_inv_step : forall evs st ev, await_inv evs st -> await_inv (evs ++ [ev]) (xstep st ev).
Proof.
  intros evs st ev A id e H.
  assert (Keep : quiet id ev -> alookup id (x_await st) = Some e ->
                 exists pre mid, evs ++ [ev] = pre ++ XSend id e :: mid /\ Forall (quiet id) mid).
  { intros Q L. destruct (A id e L) as [pre [mid [E F]]]. exists pre, (mid ++ [ev]). split.
    - apply snoc_send_mid. exact E.
    - apply Forall_app. split; [exact F|]. constructor; [exact Q|constructor]. }
  destruct ev as [i e'|i|v|f]; cbn [xstep] in H.
  - cbn [x_await alookup] in H. destruct (N.eqb_spec i id) as [E|E].
    + injection H as H. subst i e'. exists evs, []. split; [reflexivity|constructor].
    + rewrite (alookup_aremove_other i id _ E) in H. apply Keep; [exact E|exact H].
  - destruct (alookup i (x_await st)) eqn:L.
    + cbn [x_await] in H. destruct (N.eq_dec i id) as [E|E].
      * subst i. rewrite alookup_aremove_same in H. discriminate.
      * rewrite (alookup_aremove_other i id _ E) in H. apply Keep; [exact E|exact H].
    + destruct (N.eq_dec i id) as [E|E]; [subst i; congruence|]. apply Keep; [exact E|exact H].
  - cbn [x_await] in H. apply Keep; [exact I|exact H].
  - destruct (reader_initiated (fr_type f)) eqn:R.
    + apply Keep; [left; exact R|exact H].
    + destruct (alookup (fr_id f) (x_await st)) eqn:L.
      * cbn [x_await] in H. destruct (N.eq_dec (fr_id f) id) as [E|E].
        -- rewrite E in H. rewrite alookup_aremove_same in H. discriminate.
        -- rewrite (alookup_aremove_other _ id _ E) in H. apply Keep; [right; exact E|exact H].
      * destruct (N.eq_dec (fr_id f) id) as [E|E]; [rewrite E in L; congruence|].
        apply Keep; [right; exact E|exact H].
Qed.

Lemma done_inv_step : forall evs st ev, await_inv evs st -> done_inv evs st ->
  done_inv (evs ++ [ev]) (xstep st ev).
Proof.
  intros evs st ev A D id o H.
  assert (Old : In (id, XOutcome o) (x_done st) ->
    exists pre e mid f post,
      evs ++ [ev] = pre ++ XSend id e :: mid ++ XRecv f :: post /\ Forall (quiet id) mid /\
      fr_id f = id /\ reader_initiated (fr_type f) = false /\
      o = send_for_outcome e (fr_type f) (fr_dec f)).
  { intros O. destruct (D id o O) as [pre [e [mid [f [post [E R]]]]]].
    exists pre, e, mid, f, (post ++ [ev]). split; [|exact R].
    subst evs. rewrite <- app_assoc. cbn [app]. rewrite <- app_assoc. reflexivity. }
  destruct ev as [i e'|i|v|f]; cbn [xstep] in H.
  - apply Old. exact H.
  - destruct (alookup i (x_await st)); [|apply Old; exact H].
    cbn [x_done] in H. destruct H as [H|H]; [discriminate|apply Old; exact H].
  - apply Old. exact H.
  - destruct (reader_initiated (fr_type f)) eqn:R; [apply Old; exact H|].
    destruct (alookup (fr_id f) (x_await st)) as [e|] eqn:L; [|apply Old; exact H].
    cbn [x_done] in H. destruct H as [H|H]; [|apply Old; exact H].
    injection H as Hid Ho. destruct (A (fr_id f) e L) as [pre [mid [E Q]]].
    exists pre, e, mid, f, []. rewrite <- Hid. split; [|split; [exact Q|split; [reflexivity|split; [exact R|symmetry; exact Ho]]]].
    subst evs. rewrite <- app_assoc. reflexivity.
Qed.

Lemma invs_hold : forall v evs, await_inv evs (xrun (x_init v) evs) /\ done_inv evs (xrun (x_init v) evs).
Proof.
  intros v evs. induction evs as [|ev evs IH] using rev_ind.
  - split; intros id x H; cbn in H; [discriminate|contradiction].
  - destruct IH as [A D]. rewrite xrun_snoc. split.
    + apply await_inv_step. exact A.
    + apply done_inv_step; assumption.
Qed.

Lemma outcome_from_own_reply : forall v evs id o,
  In (id, XOutcome o) (xresults v evs) ->
  exists pre e mid f post,
    evs = pre ++ XSend id e :: mid ++ XRecv f :: post /\ Forall (quiet id) mid /\
    fr_id f = id /\ reader_initiated (fr_type f) = false /\
    o = send_for_outcome e (fr_type f) (fr_dec f).
Proof.
  intros v evs id o H. unfold xresults in H. apply in_rev in H.
  exact (proj2 (invs_hold v evs) id o H).
Qed.

Lemma own_reply_outcome : forall v pre id e mid f post,
  Forall (quiet id) mid -> fr_id f = id -> reader_initiated (fr_type f) = false ->
  In (id, XOutcome (send_for_outcome e (fr_type f) (fr_dec f)))
     (xresults v (pre ++ XSend id e :: mid ++ XRecv f :: post)).
Proof.
  intros v pre id e mid f post Q I R. unfold xresults. rewrite <- in_rev.
  apply own_reply_delivered; assumption.
Qed.

(* success exactly when the request's own reply has the expected type and carries Success *)
Lemma exchange_success_iff : forall v pre id e mid f post s,
  Forall (quiet id) mid -> fr_id f = id -> reader_initiated (fr_type f) = false ->
  fr_dec f e = DecStatus s ->
  exists o, In (id, XOutcome o) (xresults v (pre ++ XSend id e :: mid ++ XRecv f :: post)) /\
            (out_err o = None <-> fr_type f = e /\ st_code s = 0).
Proof.
  intros v pre id e mid f post s Q I R Dc.
  exists (send_for_outcome e (fr_type f) (fr_dec f)). split.
  - apply own_reply_outcome; assumption.
  - apply success_iff_expected_and_status0. exact Dc.
Qed.

(* ---- version numbers play no part ---------------------------------------------------------- *)

Lemma version_irrelevant_gen : forall evs evs', Forall2 same_but_version evs evs' ->
  forall st st', x_await st = x_await st' -> x_done st = x_done st' ->
  x_await (xrun st evs) = x_await (xrun st' evs') /\ x_done (xrun st evs) = x_done (xrun st' evs').
Proof.
  intros evs evs' F. induction F as [|a b ra rb S F IH]; intros st st' HA HD; [split; assumption|].
  cbn [xrun fold_left]. apply IH.
  - destruct a as [i e|i|v|f]; destruct b as [i' e'|i'|v'|g]; cbn [same_but_version] in S; try contradiction.
    + destruct S as [-> ->]. cbn [xstep x_await]. rewrite HA. reflexivity.
    + subst i'. cbn [xstep]. rewrite HA. destruct (alookup i (x_await st')); [cbn [x_await]; reflexivity|exact HA].
    + cbn [xstep x_await]. exact HA.
    + destruct S as [T [I Dc]]. cbn [xstep]. rewrite T, I, HA.
      destruct (reader_initiated (fr_type g)); [exact HA|].
      destruct (alookup (fr_id g) (x_await st')); [cbn [x_await]; reflexivity|exact HA].
  - destruct a as [i e|i|v|f]; destruct b as [i' e'|i'|v'|g]; cbn [same_but_version] in S; try contradiction.
    + cbn [xstep x_done]. exact HD.
    + subst i'. cbn [xstep]. rewrite HA. destruct (alookup i (x_await st')); [cbn [x_done]; rewrite HD; reflexivity|exact HD].
    + cbn [xstep x_done]. exact HD.
    + destruct S as [T [I Dc]]. cbn [xstep]. rewrite T, I, Dc, HA.
      destruct (reader_initiated (fr_type g)); [exact HD|].
      destruct (alookup (fr_id g) (x_await st')); [cbn [x_done]; rewrite HD; reflexivity|exact HD].
Qed.

Lemma version_irrelevant : forall v v' evs evs', Forall2 same_but_version evs evs' ->
  xresults v evs = xresults v' evs'.
Proof.
  intros v v' evs evs' F. unfold xresults.
  destruct (version_irrelevant_gen evs evs' F (x_init v) (x_init v') eq_refl eq_refl) as [_ H].
  rewrite H. reflexivity.
Qed.

(* ---- a request never gets two results ------------------------------------------------------ *)
(* (not needed by the property; used by the check to read results off by request id) *)
Lemma abandoned_only_after_send : forall v evs id,
  In (id, XAbandoned) (xresults v evs) -> exists e, In (XSend id e) evs.
Proof.
  intros v evs id H. unfold xresults in H. apply in_rev in H. revert H.
  induction evs as [|ev evs IH] using rev_ind; [cbn; contradiction|].
  rewrite xrun_snoc. intros H.
  assert (Old : In (id, XAbandoned) (x_done (xrun (x_init v) evs)) -> exists e, In (XSend id e) (evs ++ [ev])).
  { intros O. destruct (IH O) as [e He]. exists e. apply in_or_app. left. exact He. }
  destruct ev as [i e'|i|w|f]; cbn [xstep] in H.
  - apply Old. exact H.
  - destruct (alookup i (x_await (xrun (x_init v) evs))) as [e|] eqn:L; [|apply Old; exact H].
    cbn [x_done] in H. destruct H as [H|H]; [|apply Old; exact H].
    injection H as Hi. subst i.
    destruct (proj1 (invs_hold v evs) id e L) as [pre [mid [E _]]].
    exists e. apply in_or_app. left. rewrite E. apply in_or_app. right. left. reflexivity.
  - apply Old. exact H.
  - destruct (reader_initiated (fr_type f)); [apply Old; exact H|].
    destruct (alookup (fr_id f) (x_await (xrun (x_init v) evs))); [|apply Old; exact H].
    cbn [x_done] in H. destruct H as [H|H]; [discriminate|apply Old; exact H].
Qed.
