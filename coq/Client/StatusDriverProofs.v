(* C12 — lemmas about Client/StatusDriver.v *)
From Coq Require Import NArith List Bool Lia.
From LLRP Require Import Client.Status Client.StatusProofs Client.StatusDriver.
Import ListNotations.
Open Scope N_scope.

(* TrySend's result is the SendFor outcome of the first attempt that is not retried, if that attempt is
   within the allowed number; otherwise it gave up *)
Lemma try_send_decides : forall fuel atts o,
  try_send fuel atts = TSOutcome o <->
  exists pre post, atts = pre ++ AOutcome o :: post /\ forallb retried pre = true /\ (length pre < fuel)%nat.
Proof.
  induction fuel as [|k IH]; intros atts o.
  - split; [destruct atts; cbn; discriminate|intros [pre [post [_ [_ H]]]]; lia].
  - destruct atts as [|a r].
    + split; [cbn; discriminate|]. intros [pre [post [E _]]]. destruct pre; discriminate.
    + destruct a as [| |o'].
      * cbn [try_send]. rewrite IH. split.
        -- intros [pre [post [E [F L]]]]. exists (ANoClient :: pre), post. subst r. cbn. repeat split; [exact F|lia].
        -- intros [pre [post [E [F L]]]]. destruct pre as [|x pre]; [discriminate|]. injection E as Ex Er. subst x.
           exists pre, post. cbn in F, L. repeat split; [exact Er|exact F|lia].
      * cbn [try_send]. rewrite IH. split.
        -- intros [pre [post [E [F L]]]]. exists (AClosed :: pre), post. subst r. cbn. repeat split; [exact F|lia].
        -- intros [pre [post [E [F L]]]]. destruct pre as [|x pre]; [discriminate|]. injection E as Ex Er. subst x.
           exists pre, post. cbn in F, L. repeat split; [exact Er|exact F|lia].
      * cbn [try_send]. split.
        -- intros H. injection H as H. subst o'. exists [], r. cbn. repeat split. lia.
        -- intros [pre [post [E [F L]]]]. destruct pre as [|x pre].
           ++ injection E as E1 E2. subst o'. reflexivity.
           ++ injection E as Ex Er. subst x. cbn in F. discriminate.
Qed.

(* the device service's exchange succeeds exactly when the deciding attempt's reply has the expected type and
   carries status Success *)
Lemma device_exchange_success_iff : forall fuel pre post e r d s,
  forallb retried pre = true -> (length pre < fuel)%nat -> d e = DecStatus s ->
  (ts_err (try_send fuel (pre ++ AOutcome (send_for_outcome e r d) :: post)) = None <-> r = e /\ st_code s = 0).
Proof.
  intros fuel pre post e r d s F L Dc.
  assert (H : try_send fuel (pre ++ AOutcome (send_for_outcome e r d) :: post) = TSOutcome (send_for_outcome e r d)).
  { apply try_send_decides. exists pre, post. repeat split; assumption. }
  rewrite H. cbn [ts_err]. apply success_iff_expected_and_status0. exact Dc.
Qed.

(* ... and otherwise exposes the reply's status, description and nested details *)
Lemma device_exchange_exposes_status : forall fuel pre post e r d s,
  forallb retried pre = true -> (length pre < fuel)%nat ->
  r = e \/ r = MsgErrorMessage -> d r = DecStatus s -> st_code s <> 0 ->
  ts_err (try_send fuel (pre ++ AOutcome (send_for_outcome e r d) :: post)) =
    Some (EStatus (st_code s) (st_desc s) (st_field s) (st_param s)).
Proof.
  intros fuel pre post e r d s F L R Dc Nz.
  assert (H : try_send fuel (pre ++ AOutcome (send_for_outcome e r d) :: post) = TSOutcome (send_for_outcome e r d)).
  { apply try_send_decides. exists pre, post. repeat split; assumption. }
  rewrite H. cbn [ts_err]. apply error_exposes_status; assumption.
Qed.

(* never success without a completed exchange *)
Lemma device_exchange_gave_up_is_error : forall fuel atts,
  try_send fuel atts = TSGaveUp -> ts_err (try_send fuel atts) <> None.
Proof. intros fuel atts H. rewrite H. cbn. discriminate. Qed.
