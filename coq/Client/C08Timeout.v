(* Client/C08Timeout.v — the read deadline as an environment event.

   A client built WithTimeout arms the connection's read deadline before every header read (readHeader, reader.go 665-671) — in
   the read loop AND in checkInitialMessage, which reads the first message before any loop exists. In the LTS a read that times
   out is the environment's event that ends that read: [ConnFirstFail] while Connect is in checkInitialMessage ("cannot read a
   first frame": nothing, part of a header, part of the payload), [PeerEOF EofBoundary / EofMidHeader / EofMidPayload] in the read
   loop. These events are enabled in EVERY state in which the client is reading, the initial one included, and each ends the
   read with an error: a reader that accepts the connection and then says nothing (or half a message) cannot hold a client that has
   a timeout. (Whether a deadline is armed at all is the code's business: checks/c08.py, timed scenarios with stalling readers.) *)
From Coq Require Import NArith List Bool.
From LLRP Require Import Client.Types Client.Model Client.InvC08.
Import ListNotations.
Open Scope N_scope.

Theorem read_timeout_ends_every_read : forall cfg s,
  (phase s = PCheckInitial ->
     let s' := step cfg s ConnFirstFail in
     phase s' = PReturned CErrInit /\ closed s' = true /\ ready s' = true /\ out s' = out s /\ wire s' = wire s) /\
  (reader s = RRead -> saw_close s = false ->
     forall p, p = EofBoundary \/ p = EofMidHeader ->
     let s' := step cfg s (PeerEOF p) in reader s' = RDead /\ errs s' = errs s ++ [ERead]).
Proof.
  intros cfg s. split.
  - intros Hp. cbn [step]. unfold step_conn_first_fail. rewrite Hp. unfold init_fail. st_simpl_goal. repeat split.
  - intros Hr Hs p [-> | ->]; cbn [step]; unfold step_peer_eof; rewrite Hr, ?Hs; unfold reader_dies; st_simpl_goal; split; reflexivity.
Qed.

(* over every run: while Connect is still in the initial check the timeout leaves a closed client that has written nothing,
   and every caller waiting at the gate can leave (the gate is opened onto the closed client) *)
Theorem first_read_timeout_over_runs : forall cfg evs,
  let s := run cfg evs in
  phase s = PCheckInitial ->
  let s' := step cfg s ConnFirstFail in
  phase s' = PReturned CErrInit /\ closed s' = true /\ out s' = [] /\ wire s' = [].
Proof.
  intros cfg evs s Hp s'.
  destruct (pre_inv_run cfg evs) as [A _ _ _]. fold s in A. rewrite Hp in A. destruct (A eq_refl) as (_ & _ & Ho & Hw).
  destruct (read_timeout_ends_every_read cfg s) as (H & _). destruct (H Hp) as (X1 & X2 & _ & X4 & X5).
  unfold s'. repeat split; congruence.
Qed.
