(* Byte-stream model of the read side of llrp.Client (pkg/llrp/reader.go):
     readHeader (665-683) + Header.UnmarshalBinary (messages.go 131-151),
     handleIncoming (709-738), passToHandler (888-938), handleGuarded (941-956).

   The inbound connection is a finite list of bytes (what the peer wrote before closing its
   side).  TCP segmentation does not appear: the code reads through io.ReadFull / io.CopyN /
   io.Copy over an io.LimitReader, whose contracts are

     io.ReadFull(r, buf[n]) : n = 0 -> nothing read, nil;  n bytes available -> exactly those
                              n bytes;  0 available -> io.EOF;  fewer -> everything there is,
                              io.ErrUnexpectedEOF
     io.CopyN(Discard,r,n)  : consumes min(n, available); error (io.EOF) iff fewer than n
     io.Copy(Discard,r)     : consumes r to its end; io.EOF from r is NOT an error
     io.LimitReader(r,n)    : passes on at most n bytes of r, then io.EOF

   (trusted Go library behaviour, exercised by the correspondence runs with 1-byte, random and
   whole-stream segmentation).  All of them are instances of [split_at].

   No proofs in this file (see StreamProofs.v); everything is computable and extracted for the
   oracle (oracle/c04, oracle/c10). *)
From Coq Require Import NArith List Bool.
Import ListNotations.
Open Scope N_scope.

Definition byte := N.

(* ------------------------------------------------------------------ reading n bytes *)

(* the first [n] elements and the rest; structural in the list so that a hostile 32-bit
   length never turns into a unary number *)
Fixpoint split_at {A} (n : N) (l : list A) : list A * list A :=
  match l with
  | [] => ([], [])
  | x :: r => if n =? 0 then ([], l)
              else let (a, b) := split_at (N.pred n) r in (x :: a, b)
  end.

Definition len {A} (l : list A) : N := N.of_nat (length l).

(* ------------------------------------------------------------------ header *)

Record header := mkHeader { h_ver : N; h_typ : N; h_len : N (* payload length *); h_id : N }.

Definition HeaderSz : N := 10.

Definition be16 (a b : N) : N := N.lor (N.shiftl a 8) b.
Definition be32 (a b c d : N) : N :=
  N.lor (N.shiftl a 24) (N.lor (N.shiftl b 16) (N.lor (N.shiftl c 8) d)).

(* Header.UnmarshalBinary on exactly 10 bytes: None = "message length is smaller than the
   minimum".  The three reserved bits and the validity of the type are not looked at. *)
Definition hdr_decode (b : list byte) : option header :=
  match b with
  | [b0; b1; b2; b3; b4; b5; b6; b7; b8; b9] =>
      let ver := N.land (N.shiftr b0 2) 7 in
      let typ := N.land (be16 b0 b1) 1023 in
      let mlen := be32 b2 b3 b4 b5 in
      let id := be32 b6 b7 b8 b9 in
      if mlen <? HeaderSz then None else Some (mkHeader ver typ (mlen - HeaderSz) id)
  | _ => None
  end.

(* readHeader *)
Inductive rh_result :=
| RhOk (h : header) (rest : list byte)
| RhEOF                                   (* io.EOF: nothing left at a frame boundary *)
| RhShort                                 (* io.ErrUnexpectedEOF: 1..9 bytes left *)
| RhBad (rest : list byte).               (* 10 bytes read, declared length < 10 *)

Definition read_header (bs : list byte) : rh_result :=
  let (hb, rest) := split_at HeaderSz bs in
  if len hb =? 0 then RhEOF
  else if len hb <? HeaderSz then RhShort
  else match hdr_decode hb with
       | Some h => RhOk h rest
       | None => RhBad rest
       end.

(* ------------------------------------------------------------------ what a peer writes *)

Record frame := mkFrame {
  f_rsv : N;               (* the three reserved bits, < 8 *)
  f_ver : N;               (* < 8 *)
  f_typ : N;               (* < 1024 *)
  f_id : N;                (* < 2^32 *)
  f_payload : list byte }.

Definition be32_bytes (x : N) : list byte :=
  [x / 2 ^ 24; (x / 2 ^ 16) mod 256; (x / 2 ^ 8) mod 256; x mod 256].

Definition header_bytes (f : frame) : list byte :=
  [f_rsv f * 32 + f_ver f * 4 + f_typ f / 256; f_typ f mod 256]
  ++ be32_bytes (len (f_payload f) + HeaderSz) ++ be32_bytes (f_id f).

Definition frame_bytes (f : frame) : list byte := header_bytes f ++ f_payload f.

Definition frame_header (f : frame) : header :=
  mkHeader (f_ver f) (f_typ f) (len (f_payload f)) (f_id f).

(* ------------------------------------------------------------------ dispatch *)

Definition MsgCloseConnectionResponse : N := 4.

(* what is configured: a MessageHandler for this type?  a default handler?
   [never_reply t]: messages of type t are never looked up in c.awaiting (since the fix for
   C03/F2 the code exempts the reader-initiated KeepAlive, ROAccessReport and
   ReaderEventNotification; before it, no type was exempt).  The theorems hold for every
   such predicate; the check determines by probing which one the code implements. *)
Record config := mkConfig { has_handler : N -> bool; has_default : bool; never_reply : N -> bool }.

(* the message types a Reader sends on its own — KeepAlive, ROAccessReport,
   ReaderEventNotification: never the reply to a request, whatever message id they carry *)
Definition reader_initiated (t : N) : bool := (t =? 61) || (t =? 62) || (t =? 63).

(* a MessageHandler as far as the connection can tell: it reads k bytes of what it is offered
   (fewer if fewer are there) and then returns or panics *)
(* the value a handler panics with: handleGuarded's recover() treats them all alike (it only
   chooses how to log); the kinds are spelled out so that "for every handler behaviour" visibly
   includes panics raised by the Go runtime and the correspondence exercises each *)
Inductive pval :=
| PvString          (* panic("...") *)
| PvError           (* panic(errors.New(..)) *)
| PvRuntimeError    (* index out of range, nil map write, nil dereference, ...: a runtime.Error *)
| PvOther.          (* any other value, e.g. panic(42) *)

Inductive hbeh := HRead (k : N) | HPanic (k : N) (v : pval).
Definition hb_k (b : hbeh) : N := match b with HRead k | HPanic k _ => k end.
Definition hb_panics (b : hbeh) : bool := match b with HRead _ => false | HPanic _ _ => true end.

(* the environment of one loop iteration: the ids that handleOutgoing registered in
   c.awaiting since the previous lookup, and what the handler (if one is called) does.
   [e_close_sent]: this client has written a CloseConnection before this header is read (only then
   does a CloseConnectionResponse announce the orderly end of the stream, since the fix ea578f8;
   before it every CloseConnectionResponse did: that is e_close_sent = true throughout) *)
Record env_step := mkEnv { e_register : list N; e_beh : hbeh; e_close_sent : bool }.

Inductive reply_delivery :=
| RBuffered (payload : list byte)   (* Message{hdr, bytes.Buffer} sent on the reply channel *)
| RHeaderOnly                       (* Message{hdr}: payloadLen > MaxBufferedPayloadSz *)
| RTruncated.                       (* stream ended inside the payload: entry removed, nothing sent *)

Inductive who := TypeHandler | DefaultHandler.

Record handler_call := mkCall {
  hc_who : who;
  hc_buffered : bool;               (* payload is the reply buffer, not the LimitReader *)
  hc_offered : list byte;           (* the bytes readable through msg.payload *)
  hc_consumed : N;
  hc_panicked : bool }.

Record dispatch := mkDispatch {
  d_hdr : header;
  d_reply : option reply_delivery;  (* Some: an awaiting entry for h_id existed (and was removed) *)
  d_handler : option handler_call;
  d_discarded : bool;               (* the "unhandled" path: CopyN(Discard) *)
  d_alloc : N }.                    (* bytes the client allocated with make([]byte, n) *)

Record state := mkState { s_aw : list N; s_closed_seen : bool }.

Definition st0 : state := mkState [] false.

Definition mem (x : N) (l : list N) : bool := existsb (N.eqb x) l.
Definition remove (x : N) (l : list N) : list N := filter (fun y => negb (y =? x)) l.
Definition register (ids aw : list N) : list N :=
  fold_left (fun a i => if mem i a then a else i :: a) ids aw.

Definition pick_handler (cfg : config) (typ : N) : option who :=
  if has_handler cfg typ then Some TypeHandler
  else if has_default cfg then Some DefaultHandler else None.

Definition call_handler (w : who) (buffered : bool) (offered : list byte) (b : hbeh) : handler_call :=
  mkCall w buffered offered (N.min (hb_k b) (len offered)) (hb_panics b).

(* passToHandler's verdict for the read loop *)
Inductive pth_result :=
| PthOk (d : dispatch) (rest : list byte)     (* returned nil: the loop goes on at [rest] *)
| PthErr (d : dispatch).                      (* returned an error: handleIncoming returns *)

Section WithLimit.
Variable maxbuf : N.     (* MaxBufferedPayloadSz; the theorems hold for every value *)
Variable cfg : config.

Definition pass_to_handler (aw : list N) (h : header) (e : env_step) (bs : list byte)
  : pth_result * list N :=
  let aw1 := register (e_register e) aw in
  let consult := negb (never_reply cfg (h_typ h)) in
  let needs := consult && mem (h_id h) aw1 in
  let aw2 := if consult then remove (h_id h) aw1 else aw1 in
  let hk := pick_handler cfg (h_typ h) in
  let n := h_len h in
  let (pl, rest) := split_at n bs in
  let complete := len pl =? n in
  match needs, hk with
  | false, None =>
      (* io.CopyN(io.Discard, c.conn, payloadLen) *)
      let d := mkDispatch h None None true HeaderSz in
      (if complete then PthOk d rest else PthErr d, aw2)
  | false, Some w =>
      (* handler reads through LimitReader(conn, n); deferred Copy drains the remainder;
         io.Copy does not report EOF: a stream that ends inside the payload is not an error here *)
      (PthOk (mkDispatch h None (Some (call_handler w false pl (e_beh e))) false HeaderSz) rest, aw2)
  | true, _ =>
      if maxbuf <? n then
        (* replyChan <- Message{Header: hdr}; the handler, if any, still gets the LimitReader *)
        (PthOk (mkDispatch h (Some RHeaderOnly)
                  (option_map (fun w => call_handler w false pl (e_beh e)) hk) false HeaderSz) rest, aw2)
      else if complete then
        (* make([]byte, n); ReadFull; reply and handler share the buffer *)
        (PthOk (mkDispatch h (Some (RBuffered pl))
                  (option_map (fun w => call_handler w true pl (e_beh e)) hk) false (HeaderSz + n)) rest, aw2)
      else
        (* ReadFull failed: `return err`; the deferred drain no longer overwrites an earlier
           error (since the fix 85a4e5b; before it the loop went on to the next header read and
           ended there) *)
        (PthErr (mkDispatch h (Some RTruncated) None false (HeaderSz + n)), aw2)
  end.

(* What the caller awaiting the reply is handed: Message.data (messages.go 348-369) run by
   SendMessage / SendFor / UnmarshalTo on the Message that passToHandler sent on the reply
   channel.  None = an error is returned to the caller; Some bytes = success with these bytes.
   [size_first]: the `payloadLen > MaxBufferedPayloadSz` check comes before the `payload == nil`
   and byteProvider shortcuts (the tree since the fix of F3); false = the shortcuts come first
   and the limit is only applied before data() allocates a buffer itself — then the header-only
   Message of an over-limit reply yields (nil, nil): success with no bytes. *)
Definition caller_data (size_first : bool) (h : header) (r : reply_delivery) : option (list byte) :=
  match r with
  | RBuffered pl => if size_first && (maxbuf <? h_len h) then None else Some pl   (* b.Bytes() *)
  | RHeaderOnly => if size_first && (maxbuf <? h_len h) then None else Some []    (* payload == nil *)
  | RTruncated => None                                   (* nothing is sent: the caller's send fails *)
  end.

(* SendMessage's result for the caller of a dispatched frame: None = nobody awaited it;
   Some None = error; Some (Some (type, data)) = success *)
Definition caller_handed (size_first : bool) (d : dispatch) : option (option (N * list byte)) :=
  match d_reply d with
  | None => None
  | Some r => Some (match caller_data size_first (d_hdr d) r with
                    | Some data => Some (h_typ (d_hdr d), data)
                    | None => None
                    end)
  end.

(* how handleIncoming ends (the client is not closed by the user in this model) *)
Inductive ending :=
| EndEOF             (* clean EOF at a frame boundary: "failed to get next message" *)
| EndShortHeader     (* stream ends inside a header *)
| EndBadHeader       (* declared message length < 10 *)
| EndShortDiscard    (* stream ends inside a payload that was being discarded, or buffered for a caller *)
| EndWaitClose       (* clean EOF after a CloseConnectionResponse was seen: blocks on c.done *)
| EndOutOfFuel.

Record result := mkResult { r_log : list dispatch; r_end : ending; r_rest : list byte }.

Definition cons_log (d : dispatch) (r : result) : result :=
  mkResult (d :: r_log r) (r_end r) (r_rest r).

(* one iteration of the for-loop in handleIncoming *)
Inductive iter_result :=
| ItNext (d : dispatch) (st' : state) (rest : list byte)
| ItLast (d : dispatch)
| ItEnd (e : ending) (rest : list byte).

Definition read_iter (st : state) (e : env_step) (bs : list byte) : iter_result :=
  match read_header bs with
  | RhEOF => ItEnd (if s_closed_seen st then EndWaitClose else EndEOF) []
  | RhShort => ItEnd EndShortHeader []
  | RhBad rest => ItEnd EndBadHeader rest
  | RhOk h rest =>
      let cs := s_closed_seen st || ((h_typ h =? MsgCloseConnectionResponse) && e_close_sent e) in
      match pass_to_handler (s_aw st) h e rest with
      | (PthOk d rest', aw') => ItNext d (mkState aw' cs) rest'
      | (PthErr d, _) => ItLast d
      end
  end.

Fixpoint read_loop (fuel : nat) (st : state) (env : nat -> env_step) (i : nat) (bs : list byte)
  : result :=
  match fuel with
  | O => mkResult [] EndOutOfFuel bs
  | S fuel' =>
      match read_iter st (env i) bs with
      | ItNext d st' rest => cons_log d (read_loop fuel' st' env (S i) rest)
      | ItLast d => mkResult [d] EndShortDiscard []
      | ItEnd e rest => mkResult [] e rest
      end
  end.

Definition serve (st : state) (env : nat -> env_step) (bs : list byte) : result :=
  read_loop (S (length bs)) st env O bs.

(* ------------------------------------------------------------------ a stream that stalls
   The client has a read timeout: readHeader arms a deadline (now + timeout) before it reads the
   header, and nothing re-arms it until the next readHeader.  The reader's stream delivers
   [before], then stalls for longer than the timeout, then delivers [after].  Every read of the
   message in progress that needs bytes beyond [before] therefore fails with a timeout (not
   with io.EOF: io.Copy reports it).  What happens then, per path of passToHandler:
     header incomplete / nothing there   readHeader fails: the loop ends
     nobody entitled                     CopyN fails: the loop ends
     awaited, within the limit           ReadFull fails: `return err`, the loop ends
     a handler was called / awaited      the handler saw what there was; the DEFERRED drain fails;
       beyond the limit                  the tree as found reports that error and the loop ends.
   [ignore_drain_error]: the drain's error is dropped instead — the loop goes on, the next
   readHeader re-arms the deadline and, once the stream resumes, reads [after] from wherever
   it starts.  Result: the dispatch records. *)
Fixpoint read_loop_stall (ignore_drain_error : bool) (fuel : nat) (st : state) (env : nat -> env_step)
         (i : nat) (bs after : list byte) : list dispatch :=
  match fuel with
  | O => []
  | S fuel' =>
      match read_header bs with
      | RhOk h rest =>
          if len rest <? h_len h then
            (* the stall cuts this message's payload *)
            let cs := s_closed_seen st || ((h_typ h =? MsgCloseConnectionResponse) && e_close_sent (env i)) in
            match pass_to_handler (s_aw st) h (env i) rest with
            | (PthOk d _, aw') =>
                if ignore_drain_error
                then d :: r_log (read_loop (S (length after)) (mkState aw' cs) env (S i) after)
                else [d]
            | (PthErr d, _) => [d]
            end
          else
            match read_iter st (env i) bs with
            | ItNext d st' rest' => d :: read_loop_stall ignore_drain_error fuel' st' env (S i) rest' after
            | ItLast d => [d]
            | ItEnd _ _ => []
            end
      | _ => []
      end
  end.

Definition serve_stall (ignore_drain_error : bool) (st : state) (env : nat -> env_step)
           (before after : list byte) : list dispatch :=
  read_loop_stall ignore_drain_error (S (length before)) st env O before after.

End WithLimit.

(* ------------------------------------------------------------------ stages of a session, and a refused close
   (round 10).  A client that negotiates versions is not "ready" while its GetSupportedVersion / SetProtocolVersion
   exchange is going on; the read loop runs all the same.  [neg i]: the client is still negotiating when the i-th header
   is read (an arbitrary placement of the stages over the stream: environment input, like the registrations).
   passToHandler as found does not look at the stage at all: that is [gated = false].  [gated = true] is the variant in
   which user handlers (type-specific or default) are eligible only once the client is ready — while negotiating the
   loop dispatches with [gate_cfg cfg]: nobody is a handler, awaiting callers are still served.

   [stop_at_close = true]: the variant in which the loop stops reading once it has dispatched the
   CloseConnectionResponse that answers a CloseConnection this client sent (and waits for the client to be closed),
   whatever the response's status.  As found ([false]) the loop reads on: a reader that REFUSES the close keeps the
   connection, and what it sends afterwards is dispatched like anything else; only the way a later EOF is reported
   changes (EndWaitClose). *)
Definition gate_cfg (cfg : config) : config := mkConfig (fun _ => false) false (never_reply cfg).

Fixpoint read_loop_staged (gated stop_at_close : bool) (maxbuf : N) (cfg : config) (neg : nat -> bool)
         (fuel : nat) (st : state) (env : nat -> env_step) (i : nat) (bs : list byte) : result :=
  match fuel with
  | O => mkResult [] EndOutOfFuel bs
  | S fuel' =>
      match read_iter maxbuf (if gated && neg i then gate_cfg cfg else cfg) st (env i) bs with
      | ItNext d st' rest =>
          if stop_at_close && (h_typ (d_hdr d) =? MsgCloseConnectionResponse) && e_close_sent (env i)
          then mkResult [d] EndWaitClose rest
          else cons_log d (read_loop_staged gated stop_at_close maxbuf cfg neg fuel' st' env (S i) rest)
      | ItLast d => mkResult [d] EndShortDiscard []
      | ItEnd e rest => mkResult [] e rest
      end
  end.

Definition serve_staged (gated stop_at_close : bool) (maxbuf : N) (cfg : config) (neg : nat -> bool)
           (st : state) (env : nat -> env_step) (bs : list byte) : result :=
  read_loop_staged gated stop_at_close maxbuf cfg neg (S (length bs)) st env O bs.
