(* C06 — lemmas about the negotiation model (Client/Negotiate.v). *)
From Coq Require Import NArith PeanoNat List Bool Lia.
From LLRP Require Import Client.Negotiate.
Import ListNotations.
Open Scope N_scope.

Definition reader_ok (r : reaction) : Prop :=
  exists cb mb, r = Resp cb mb StatusSuccess.

(* what the reader tells the client when the query succeeds *)
Lemma get_supported_resp : forall cb mb,
  get_supported (Resp cb mb StatusSuccess) = Some (reader_ver cb, reader_ver mb).
Proof. reflexivity. Qed.

Lemma get_supported_unsupported :
  get_supported (ErrMsg StatusMsgVerUnsupported) = Some (V1_0_1, V1_0_1).
Proof. reflexivity. Qed.

Lemma chosen_is_min : forall cmax mx, (if mx <? cmax then mx else cmax) = N.min cmax mx.
Proof.
  intros. destruct (N.ltb_spec mx cmax).
  - rewrite N.min_r; lia.
  - rewrite N.min_l; lia.
Qed.

Lemma not_le_1 : forall cmax, V1_0_1 < cmax -> (cmax <=? V1_0_1) = false.
Proof. intros. apply N.leb_gt. assumption. Qed.

(* ---- clause: a client limited to 1.0.1 sends no negotiation messages ---- *)
Lemma v101_no_negotiation_l : forall cfg cmax r1 r2, cmax <= V1_0_1 ->
  negotiate cfg cmax r1 r2 = mkRes [] Proceeds cmax.
Proof.
  intros. unfold negotiate. apply N.leb_le in H. rewrite H. reflexivity.
Qed.

(* ---- clause: first frame is always the query, when cmax > 1.0.1 ---- *)
Lemma first_frame_is_query : forall cfg cmax r1 r2, V1_0_1 < cmax ->
  exists rest, n_frames (negotiate cfg cmax r1 r2)
               = mkMsg V1_1 MsgGetSupportedVersion [] :: rest.
Proof.
  intros. unfold negotiate. rewrite (not_le_1 _ H).
  destruct (get_supported r1) as [[cur mx]|]; [|eexists; reflexivity].
  destruct (cur =? _); [eexists; reflexivity|].
  destruct (set_accepted r2); eexists; reflexivity.
Qed.

(* ---- clause: settles on min ---- *)
Lemma negotiation_settles_min_l : forall cfg cmax cb mb r2, V1_0_1 < cmax ->
  n_version (negotiate cfg cmax (Resp cb mb StatusSuccess) r2) = N.min cmax (reader_ver mb).
Proof.
  intros. unfold negotiate. rewrite (not_le_1 _ H). rewrite get_supported_resp.
  rewrite <- chosen_is_min.
  destruct (_ =? _); [reflexivity|]. destruct (set_accepted r2); reflexivity.
Qed.

Lemma negotiation_unsupported_l : forall cfg cmax r2, V1_0_1 < cmax ->
  negotiate cfg cmax (ErrMsg StatusMsgVerUnsupported) r2
  = mkRes [mkMsg V1_1 MsgGetSupportedVersion []] Proceeds V1_0_1.
Proof.
  intros. unfold negotiate. rewrite (not_le_1 _ H). rewrite get_supported_unsupported.
  assert (E : (V1_0_1 <? cmax) = true) by (apply N.ltb_lt; assumption).
  rewrite E. reflexivity.
Qed.

(* ---- clause: asks the reader to switch only (and exactly) if it is not already there ---- *)
Definition has_set (fs : list frame) : bool :=
  existsb (fun f => m_typ f =? MsgSetProtocolVersion) fs.

Lemma set_only_if_different_l : forall cfg cmax cb mb r2, V1_0_1 < cmax ->
  let r := negotiate cfg cmax (Resp cb mb StatusSuccess) r2 in
  let v := N.min cmax (reader_ver mb) in
  (reader_ver cb = v -> n_frames r = [mkMsg V1_1 MsgGetSupportedVersion []]
                        /\ n_outcome r = Proceeds) /\
  (reader_ver cb <> v -> n_frames r = [mkMsg V1_1 MsgGetSupportedVersion [];
                                       mkMsg V1_1 MsgSetProtocolVersion [v]]).
Proof.
  intros cfg cmax cb mb r2 H. cbv zeta. unfold negotiate. rewrite (not_le_1 _ H).
  rewrite get_supported_resp. rewrite chosen_is_min.
  split; intro E.
  - apply N.eqb_eq in E. rewrite E. split; reflexivity.
  - apply N.eqb_neq in E. rewrite E. destruct (set_accepted r2); reflexivity.
Qed.

(* no SET_PROTOCOL_VERSION at all unless the query succeeded with a different current version *)
Lemma set_implies_different : forall cfg cmax r1 r2,
  has_set (n_frames (negotiate cfg cmax r1 r2)) = true ->
  exists cur mx, get_supported r1 = Some (cur, mx) /\ cur <> N.min cmax mx /\ V1_0_1 < cmax.
Proof.
  intros cfg cmax r1 r2. unfold negotiate.
  destruct (N.leb_spec cmax V1_0_1) as [L|L]; [discriminate|].
  destruct (get_supported r1) as [[cur mx]|]; [|discriminate].
  rewrite chosen_is_min.
  destruct (N.eqb_spec cur (N.min cmax mx)); [discriminate|].
  intros _. exists cur, mx. auto.
Qed.

(* ---- clause: both negotiation messages carry 1.1, and they are GET then SET ---- *)
Lemma neg_headers_1_1_l : forall cfg cmax r1 r2,
  Forall (fun f => m_ver f = V1_1 /\ is_neg_type (m_typ f) = true)
         (n_frames (negotiate cfg cmax r1 r2)).
Proof.
  intros. unfold negotiate. destruct (cmax <=? V1_0_1); [constructor|].
  destruct (get_supported r1) as [[cur mx]|].
  - destruct (cur =? _).
    + repeat constructor.
    + destruct (set_accepted r2); repeat constructor.
  - repeat constructor.
Qed.

(* ---- clause: failures fail the connection attempt ---- *)
Definition first_reply_bad (r : reaction) : Prop :=
  match r with
  | Resp _ _ st => st <> StatusSuccess
  | ErrMsg st => st <> StatusSuccess /\ st <> StatusMsgVerUnsupported
  | WrongType _ | Oversize | Garbage | NoReply => True
  end.

Definition second_reply_bad (r : reaction) : Prop :=
  match r with
  | Resp _ _ st => st <> StatusSuccess
  | ErrMsg _ | WrongType _ | Oversize | Garbage | NoReply => True
  end.

Lemma first_bad_none : forall r, first_reply_bad r -> get_supported r = None.
Proof.
  destruct r; cbn [first_reply_bad get_supported]; intros H; try reflexivity.
  - apply N.eqb_neq in H. rewrite H. reflexivity.
  - destruct H as [H0 H1]. apply N.eqb_neq in H1. rewrite H1.
    apply N.eqb_neq in H0. rewrite H0. reflexivity.
  - destruct (t =? _); [reflexivity|]. destruct (t =? _); reflexivity.
Qed.

Lemma second_bad_refused : forall r, second_reply_bad r -> set_accepted r = false.
Proof.
  destruct r; cbn [second_reply_bad set_accepted]; intros H; try reflexivity.
  apply N.eqb_neq in H. assumption.
Qed.

Lemma first_failure_fails : forall cfg cmax r1 r2, V1_0_1 < cmax -> first_reply_bad r1 ->
  negotiate cfg cmax r1 r2 = mkRes [mkMsg V1_1 MsgGetSupportedVersion []] Fails cmax.
Proof.
  intros. unfold negotiate. rewrite (not_le_1 _ H). rewrite (first_bad_none _ H0). reflexivity.
Qed.

Lemma second_failure_fails : forall cfg cmax cb mb r2, V1_0_1 < cmax ->
  reader_ver cb <> N.min cmax (reader_ver mb) -> second_reply_bad r2 ->
  n_outcome (negotiate cfg cmax (Resp cb mb StatusSuccess) r2) = Fails.
Proof.
  intros. unfold negotiate. rewrite (not_le_1 _ H). rewrite get_supported_resp.
  rewrite chosen_is_min. apply N.eqb_neq in H0. rewrite H0.
  rewrite (second_bad_refused _ H1). reflexivity.
Qed.

(* and an accepted switch lets Connect proceed *)
Lemma accepted_proceeds : forall cfg cmax cb mb a b, V1_0_1 < cmax ->
  n_outcome (negotiate cfg cmax (Resp cb mb StatusSuccess) (Resp a b StatusSuccess)) = Proceeds.
Proof.
  intros. unfold negotiate. rewrite (not_le_1 _ H). rewrite get_supported_resp.
  destruct (_ =? _); reflexivity.
Qed.

(* ---- clause: every message sent afterwards carries the negotiated version ---- *)
Lemma stamp_ordinary : forall cfg v l, conforming cfg = true -> ordinary l = true ->
  m_ver (stamp cfg v (build cfg l)) = v.
Proof.
  intros cfg v l C O. unfold conforming in C. destruct l as [t p|].
  - cbn [ordinary] in O. apply negb_true_iff in O.
    unfold stamp, build, new_message. cbn [m_typ m_ver m_payload]. rewrite O.
    destruct (prestamp cfg), (writer_overrides cfg); try discriminate; reflexivity.
  - unfold stamp, build, ack_message. cbn [m_typ m_ver m_payload].
    replace (is_neg_type MsgKeepAliveAck) with false by reflexivity.
    rewrite orb_true_r. reflexivity.
Qed.

Lemma later_frames_negotiated_l : forall cfg cmax r1 r2 ls, conforming cfg = true ->
  let s := session cfg cmax r1 r2 ls in
  Forall (fun f => m_ver f = n_version (fst s) \/ is_neg_type (m_typ f) = true) (snd s).
Proof.
  intros cfg cmax r1 r2 ls C. unfold session. cbn [fst snd].
  destruct (n_outcome _); [|constructor].
  unfold write_later. apply Forall_forall. intros f Hin. apply in_map_iff in Hin.
  destruct Hin as [l [E _]]. subst f.
  destruct (ordinary l) eqn:O.
  - left. apply stamp_ordinary; assumption.
  - right. destruct l as [t p|]; [|discriminate]. cbn [ordinary] in O.
    apply negb_false_iff in O. unfold stamp, build, new_message. cbn [m_typ]. rewrite O.
    assumption.
Qed.

(* the acknowledgement carries the negotiated version under every configuration *)
Lemma ack_negotiated : forall cfg v, m_ver (stamp cfg v (build cfg Ack)) = v.
Proof.
  intros. unfold stamp, build, ack_message. cbn [m_typ m_ver m_payload].
  replace (is_neg_type MsgKeepAliveAck) with false by reflexivity.
  rewrite orb_true_r. reflexivity.
Qed.

(* today's configuration: a request after negotiating 1.1 goes out as 1.0.1 *)
Definition witness_reader : reaction := Resp 64 64 0.      (* reader: current 1.1, max 1.1 *)
Definition witness_later : list later_msg := [Request 2 []; Ack].   (* GET_READER_CONFIG, ack *)

Lemma later_frames_refuted_today :
  let s := session cfg_today V1_1 witness_reader NoReply witness_later in
  n_outcome (fst s) = Proceeds /\ n_version (fst s) = V1_1 /\
  snd s = [mkMsg V1_0_1 2 []; mkMsg V1_1 MsgKeepAliveAck []].
Proof. vm_compute. repeat split. Qed.

Lemma later_frames_refuted_l : exists cmax r1 r2 ls,
  let s := session cfg_today cmax r1 r2 ls in
  n_outcome (fst s) = Proceeds /\
  ~ Forall (fun f => m_ver f = n_version (fst s) \/ is_neg_type (m_typ f) = true) (snd s).
Proof.
  exists V1_1, witness_reader, NoReply, witness_later.
  destruct later_frames_refuted_today as [P [V S]]. cbv zeta. split; [exact P|].
  rewrite S, V. intro F. inversion F as [|x l H _].
  destruct H as [H|H]; vm_compute in H; discriminate.
Qed.

(* ---- keep-alives during negotiation ---- *)
Lemma stamp_typ : forall cfg v m, m_typ (stamp cfg v m) = m_typ m.
Proof.
  intros. unfold stamp. destruct (is_neg_type (m_typ m)); [reflexivity|].
  destruct (_ || _); reflexivity.
Qed.

Lemma ack_stamped : forall cfg v, stamp cfg v ack_message = mkMsg v MsgKeepAliveAck [].
Proof.
  intros. unfold stamp, ack_message. cbn [m_typ m_ver m_payload].
  replace (is_neg_type MsgKeepAliveAck) with false by reflexivity.
  rewrite orb_true_r. reflexivity.
Qed.

Lemma neg_only_acks : forall cfg v k, neg_frames_only (acks cfg v k) = [].
Proof.
  intros. unfold acks. rewrite ack_stamped. induction k; [reflexivity|].
  cbn [repeat]. unfold neg_frames_only in *. cbn [filter m_typ].
  replace (is_neg_type MsgKeepAliveAck) with false by reflexivity. assumption.
Qed.

Lemma neg_only_stamped_neg : forall cfg v t p rest, is_neg_type t = true ->
  neg_frames_only (stamp cfg v (new_message cfg t p) :: rest)
  = stamp cfg v (new_message cfg t p) :: neg_frames_only rest.
Proof.
  intros. unfold neg_frames_only. cbn [filter]. rewrite stamp_typ.
  unfold new_message. cbn [m_typ]. rewrite H. reflexivity.
Qed.

(* keep-alives change neither the outcome, nor the version, nor the negotiation messages *)
Lemma ka_same_result : forall cfg cmax k1 k2 r1 r2,
  let a := negotiate_ka cfg cmax k1 k2 r1 r2 in
  let b := negotiate cfg cmax r1 r2 in
  n_outcome a = n_outcome b /\ n_version a = n_version b /\
  neg_frames_only (n_frames a) = n_frames b.
Proof.
  intros cfg cmax k1 k2 r1 r2. cbv zeta. unfold negotiate_ka, negotiate.
  destruct (cmax <=? V1_0_1); [repeat split|].
  destruct (get_supported r1) as [[cur mx]|].
  - destruct (cur =? _).
    + cbn [n_outcome n_version n_frames]. repeat split.
      rewrite neg_only_stamped_neg by reflexivity. rewrite neg_only_acks. reflexivity.
    + cbn [n_outcome n_version n_frames].
      assert (F : forall o, n_frames (if set_accepted r2
                   then mkRes [stamp cfg cmax (new_message cfg MsgGetSupportedVersion []);
                               stamp cfg (if mx <? cmax then mx else cmax)
                                 (new_message cfg MsgSetProtocolVersion [if mx <? cmax then mx else cmax])] Proceeds o
                   else mkRes [stamp cfg cmax (new_message cfg MsgGetSupportedVersion []);
                               stamp cfg (if mx <? cmax then mx else cmax)
                                 (new_message cfg MsgSetProtocolVersion [if mx <? cmax then mx else cmax])] Fails o)
                 = [stamp cfg cmax (new_message cfg MsgGetSupportedVersion []);
                    stamp cfg (if mx <? cmax then mx else cmax)
                      (new_message cfg MsgSetProtocolVersion [if mx <? cmax then mx else cmax])])
        by (intro; destruct (set_accepted r2); reflexivity).
      split; [destruct (set_accepted r2); reflexivity|].
      split; [destruct (set_accepted r2); reflexivity|].
      rewrite F. rewrite neg_only_stamped_neg by reflexivity.
      unfold neg_frames_only at 1. rewrite filter_app. fold (neg_frames_only (acks cfg cmax k1)).
      rewrite neg_only_acks. cbn [app].
      fold (neg_frames_only (stamp cfg (if mx <? cmax then mx else cmax)
              (new_message cfg MsgSetProtocolVersion [if mx <? cmax then mx else cmax])
              :: acks cfg (if mx <? cmax then mx else cmax) k2)).
      rewrite neg_only_stamped_neg by reflexivity. rewrite neg_only_acks. reflexivity.
  - cbn [n_outcome n_version n_frames]. repeat split.
    rewrite neg_only_stamped_neg by reflexivity. rewrite neg_only_acks. reflexivity.
Qed.

(* every frame written during negotiation is a negotiation message at 1.1 or an acknowledgement
   carrying the version in use at that moment: the configured maximum or the chosen version *)
Definition neg_phase_frame_ok (cmax v : version) (f : frame) : Prop :=
  (is_neg_type (m_typ f) = true /\ m_ver f = V1_1) \/
  (m_typ f = MsgKeepAliveAck /\ (m_ver f = cmax \/ m_ver f = v)).

Lemma acks_ok : forall cfg cmax v w k, (w = cmax \/ w = v) ->
  Forall (neg_phase_frame_ok cmax v) (acks cfg w k).
Proof.
  intros. unfold acks. rewrite ack_stamped. induction k; constructor; [|assumption].
  right. split; [reflexivity|exact H].
Qed.

Lemma neg_frame_ok : forall cfg cmax v w t p, is_neg_type t = true ->
  neg_phase_frame_ok cmax v (stamp cfg w (new_message cfg t p)).
Proof.
  intros. left. unfold stamp, new_message. cbn [m_typ m_ver]. rewrite H. split; [assumption|reflexivity].
Qed.

Lemma ka_frames_ok : forall cfg cmax k1 k2 r1 r2,
  let r := negotiate_ka cfg cmax k1 k2 r1 r2 in
  Forall (neg_phase_frame_ok cmax (n_version r)) (n_frames r).
Proof.
  intros cfg cmax k1 k2 r1 r2. cbv zeta. unfold negotiate_ka.
  destruct (cmax <=? V1_0_1); [constructor|].
  destruct (get_supported r1) as [[cur mx]|].
  - destruct (cur =? _); cbn [n_frames n_version].
    + constructor; [apply neg_frame_ok; reflexivity|apply acks_ok; left; reflexivity].
    + constructor; [apply neg_frame_ok; reflexivity|].
      apply Forall_app. split; [apply acks_ok; left; reflexivity|].
      constructor; [apply neg_frame_ok; reflexivity|apply acks_ok; right; reflexivity].
  - cbn [n_frames n_version].
    constructor; [apply neg_frame_ok; reflexivity|apply acks_ok; left; reflexivity].
Qed.

Lemma write_later_ok : forall cfg v ls, conforming cfg = true ->
  Forall (fun f => m_ver f = v \/ is_neg_type (m_typ f) = true) (write_later cfg v ls).
Proof.
  intros cfg v ls C. unfold write_later. apply Forall_forall. intros f Hin.
  apply in_map_iff in Hin. destruct Hin as [l [E _]]. subst f.
  destruct (ordinary l) eqn:O.
  - left. apply stamp_ordinary; assumption.
  - right. destruct l as [t p|]; [|discriminate]. cbn [ordinary] in O.
    apply negb_false_iff in O. unfold stamp, build, new_message. cbn [m_typ]. rewrite O.
    assumption.
Qed.

Lemma later_frames_negotiated_ka_l : forall cfg cmax k1 k2 r1 r2 ls, conforming cfg = true ->
  let s := session_ka cfg cmax k1 k2 r1 r2 ls in
  Forall (fun f => m_ver f = n_version (fst s) \/ is_neg_type (m_typ f) = true) (snd s).
Proof.
  intros cfg cmax k1 k2 r1 r2 ls C. unfold session_ka. cbn [fst snd].
  destruct (n_outcome _); [|constructor]. apply write_later_ok. assumption.
Qed.

(* at whatever position of the later traffic an acknowledgement falls — first frame after
   negotiation, between requests, last — it carries the negotiated version; every configuration *)
Lemma later_acks_everywhere : forall cfg v ls i, nth_error ls i = Some Ack ->
  nth_error (write_later cfg v ls) i = Some (mkMsg v MsgKeepAliveAck []).
Proof.
  intros. unfold write_later. erewrite map_nth_error by eassumption.
  cbn [build]. rewrite ack_stamped. reflexivity.
Qed.

(* ---- all subsequent traffic ---- *)
Lemma post_version_invariant : forall cfg evs s,
  p_ver (fold_left (post_step cfg) evs s) = p_ver s.
Proof.
  intros cfg evs. induction evs as [|e evs IH]; intro s; [reflexivity|].
  cbn [fold_left]. rewrite IH. destruct e; reflexivity.
Qed.

Lemma post_out_ok : forall cfg evs s v, conforming cfg = true -> p_ver s = v ->
  Forall (fun f => m_ver f = v \/ is_neg_type (m_typ f) = true) (p_out s) ->
  Forall (fun f => m_ver f = v \/ is_neg_type (m_typ f) = true) (p_out (fold_left (post_step cfg) evs s)).
Proof.
  intros cfg evs. induction evs as [|e evs IH]; intros s v C V F; [exact F|].
  cbn [fold_left]. apply IH; try assumption.
  - destruct e; cbn [post_step p_ver]; assumption.
  - destruct e as [t p| |]; cbn [post_step p_out]; try assumption.
    + apply Forall_app. split; [assumption|]. constructor; [|constructor].
      rewrite V. destruct (is_neg_type t) eqn:T.
      * right. unfold stamp, new_message. cbn [m_typ]. rewrite T. exact T.
      * left. apply (stamp_ordinary cfg v (Request t p) C). cbn [ordinary]. rewrite T. reflexivity.
    + apply Forall_app. split; [assumption|]. constructor; [|constructor].
      left. rewrite V. apply (ack_negotiated cfg v).
Qed.

Lemma post_traffic_negotiated_l : forall cfg cmax k1 k2 r1 r2 evs, conforming cfg = true ->
  let s := session_post cfg cmax k1 k2 r1 r2 evs in
  p_ver (snd s) = n_version (fst s) /\
  Forall (fun f => m_ver f = n_version (fst s) \/ is_neg_type (m_typ f) = true) (p_out (snd s)).
Proof.
  intros cfg cmax k1 k2 r1 r2 evs C. unfold session_post. cbn [fst snd].
  destruct (n_outcome _).
  - unfold post_run. split.
    + apply post_version_invariant.
    + apply post_out_ok with (v := n_version (negotiate_ka cfg cmax k1 k2 r1 r2)); try assumption; try reflexivity.
      constructor.
  - split; [reflexivity|constructor].
Qed.

(* answers are invisible on the wire and leave the version alone, whatever they are *)
Lemma post_answer_neutral : forall cfg s a, post_step cfg s (PAnswer a) = s.
Proof. reflexivity. Qed.

(* acknowledgements carry the current version at every position, under every configuration *)
Lemma post_acks_ok : forall cfg evs s v, p_ver s = v ->
  Forall (fun f => m_typ f = MsgKeepAliveAck -> m_ver f = v) (p_out s) ->
  (forall t p, In (PRequest t p) evs -> t <> MsgKeepAliveAck) ->
  Forall (fun f => m_typ f = MsgKeepAliveAck -> m_ver f = v) (p_out (fold_left (post_step cfg) evs s)).
Proof.
  intros cfg evs. induction evs as [|e evs IH]; intros s v V F N; [exact F|].
  cbn [fold_left]. apply IH.
  - destruct e; cbn [post_step p_ver]; assumption.
  - destruct e as [t p| |]; cbn [post_step p_out]; try assumption.
    + apply Forall_app. split; [assumption|]. constructor; [|constructor].
      intro T. rewrite stamp_typ in T. cbn [new_message m_typ] in T.
      exfalso. apply (N t p); [left; reflexivity|exact T].
    + apply Forall_app. split; [assumption|]. constructor; [|constructor].
      intros _. rewrite V. apply ack_negotiated.
  - intros t p H. apply (N t p). right. exact H.
Qed.

(* ---- the version of a frame is decided when it is written: acknowledgements held back -------- *)
Lemma send_frame_carries : forall cfg v tp, conforming cfg = true -> carries v (send_frame cfg v tp).
Proof.
  intros cfg v [t p] C. unfold carries, send_frame. cbn [fst snd].
  destruct (is_neg_type t) eqn:T.
  - right. rewrite stamp_typ. exact T.
  - left. apply (stamp_ordinary cfg v (Request t p) C). cbn [ordinary]. rewrite T. reflexivity.
Qed.

Lemma ack_carries : forall cfg v, carries v (stamp cfg v ack_message).
Proof. intros. left. rewrite ack_stamped. reflexivity. Qed.

Lemma wr_take_ver : forall cfg s, w_ver (wr_take cfg s) = w_ver s.
Proof.
  intros. unfold wr_take. destruct (w_busy s); [reflexivity|].
  destruct (w_ackq s); [|reflexivity]. destruct (w_sendq s); reflexivity.
Qed.

Lemma wr_take_wire : forall cfg s, w_wire (wr_take cfg s) = w_wire s.
Proof.
  intros. unfold wr_take. destruct (w_busy s); [reflexivity|].
  destruct (w_ackq s); [|reflexivity]. destruct (w_sendq s); reflexivity.
Qed.

Lemma wr_take_busy : forall cfg s f, conforming cfg = true ->
  (forall g, w_busy s = Some g -> carries (w_ver s) g) ->
  w_busy (wr_take cfg s) = Some f -> carries (w_ver s) f.
Proof.
  intros cfg s f C B. unfold wr_take. destruct (w_busy s) eqn:E.
  - intro H. apply B. rewrite E in H. exact H.
  - destruct (w_ackq s).
    + destruct (w_sendq s); cbn [w_busy].
      * rewrite E. discriminate.
      * intro H. injection H as <-. apply send_frame_carries. exact C.
    + cbn [w_busy]. intro H. injection H as <-. apply ack_carries.
Qed.

Lemma wr_take_held : forall cfg s f, w_busy s = Some f -> wr_take cfg s = s.
Proof. intros cfg s f H. unfold wr_take. rewrite H. reflexivity. Qed.

(* once the version has settled (no later assignment changes it) and the frame under way, if any,
   carries it, every frame the reader reads from then on carries it *)
Lemma wr_settled : forall cfg evs s, conforming cfg = true ->
  (forall v, In (WAssign v) evs -> v = w_ver s) ->
  (forall g, w_busy s = Some g -> carries (w_ver s) g) ->
  exists rest, w_wire (wr_run cfg evs s) = w_wire s ++ rest /\ Forall (carries (w_ver s)) rest /\
               w_ver (wr_run cfg evs s) = w_ver s.
Proof.
  intros cfg evs. induction evs as [|e evs IH]; intros s C A B.
  - exists []. rewrite app_nil_r. repeat split. constructor.
  - unfold wr_run in *. cbn [fold_left].
    assert (A' : forall v, In (WAssign v) evs -> v = w_ver s) by (intros v H; apply A; right; exact H).
    destruct e as [|t p|v|].
    + (* keep-alive *)
      set (s1 := mkWr (w_ver s) (w_busy s) (S (w_ackq s)) (w_sendq s) (w_wire s)).
      destruct (IH (wr_step cfg s WKeepAlive) C) as [rest [W [F V]]].
      * unfold wr_step. rewrite wr_take_ver. exact A'.
      * unfold wr_step. rewrite wr_take_ver. cbn [w_ver]. intros g. apply (wr_take_busy cfg s1 g C). exact B.
      * unfold wr_step in *. rewrite wr_take_ver, wr_take_wire in *. cbn [w_ver w_wire] in *.
        exists rest. repeat split; assumption.
    + set (s1 := mkWr (w_ver s) (w_busy s) (w_ackq s) (w_sendq s ++ [(t, p)]) (w_wire s)).
      destruct (IH (wr_step cfg s (WSubmit t p)) C) as [rest [W [F V]]].
      * unfold wr_step. rewrite wr_take_ver. exact A'.
      * unfold wr_step. rewrite wr_take_ver. cbn [w_ver]. intros g. apply (wr_take_busy cfg s1 g C). exact B.
      * unfold wr_step in *. rewrite wr_take_ver, wr_take_wire in *. cbn [w_ver w_wire] in *.
        exists rest. repeat split; assumption.
    + assert (v = w_ver s) by (apply A; left; reflexivity). subst v.
      set (s1 := mkWr (w_ver s) (w_busy s) (w_ackq s) (w_sendq s) (w_wire s)).
      destruct (IH (wr_step cfg s (WAssign (w_ver s))) C) as [rest [W [F V]]].
      * unfold wr_step. rewrite wr_take_ver. exact A'.
      * unfold wr_step. rewrite wr_take_ver. cbn [w_ver]. intros g. apply (wr_take_busy cfg s1 g C). exact B.
      * unfold wr_step in *. rewrite wr_take_ver, wr_take_wire in *. cbn [w_ver w_wire] in *.
        exists rest. repeat split; assumption.
    + destruct (w_busy s) as [f|] eqn:E.
      * set (s1 := mkWr (w_ver s) None (w_ackq s) (w_sendq s) (w_wire s ++ [f])).
        destruct (IH (wr_step cfg s WPeerReads) C) as [rest [W [F V]]].
        -- unfold wr_step. rewrite wr_take_ver, E. exact A'.
        -- unfold wr_step. rewrite wr_take_ver, E. cbn [w_ver]. intros g. apply (wr_take_busy cfg s1 g C).
           cbn [w_busy]. discriminate.
        -- unfold wr_step in *. rewrite E in *. rewrite wr_take_ver, wr_take_wire in *. cbn [w_ver w_wire] in *.
           exists (f :: rest). rewrite W, <- app_assoc. repeat split; try assumption.
           constructor; [apply B; reflexivity|assumption].
      * destruct (IH (wr_step cfg s WPeerReads) C) as [rest [W [F V]]].
        -- unfold wr_step. rewrite wr_take_ver, E. exact A'.
        -- unfold wr_step. rewrite wr_take_ver, E. intros g. apply (wr_take_busy cfg s g C).
           intros g0 H0. rewrite E in H0. discriminate.
        -- unfold wr_step in *. rewrite E in *. rewrite wr_take_ver, wr_take_wire in *.
           exists rest. repeat split; assumption.
Qed.

Lemma wr_step_reads : forall cfg s f, w_busy s = Some f ->
  wr_step cfg s WPeerReads = wr_take cfg (mkWr (w_ver s) None (w_ackq s) (w_sendq s) (w_wire s ++ [f])).
Proof. intros cfg s f B. unfold wr_step. rewrite B. reflexivity. Qed.

(* … and if a write was under way when the version settled, THAT frame (stamped when its write
   began) is the only one that may carry another version: whatever happens next, the reader reads
   nothing, or that frame followed by frames that all carry the settled version *)
Lemma wr_only_write_under_way_older : forall cfg evs s f, conforming cfg = true ->
  (forall v, In (WAssign v) evs -> v = w_ver s) -> w_busy s = Some f ->
  exists rest, w_wire (wr_run cfg evs s) = w_wire s ++ rest /\
               (rest = [] \/ exists rest', rest = f :: rest' /\ Forall (carries (w_ver s)) rest').
Proof.
  intros cfg evs. induction evs as [|e evs IH]; intros s f C A B.
  - exists []. rewrite app_nil_r. split; [reflexivity|left; reflexivity].
  - unfold wr_run in *. cbn [fold_left].
    assert (A' : forall v, In (WAssign v) evs -> v = w_ver s) by (intros v H; apply A; right; exact H).
    destruct e as [|t p|v|].
    + unfold wr_step. rewrite (wr_take_held cfg _ f) by exact B.
      destruct (IH (mkWr (w_ver s) (w_busy s) (S (w_ackq s)) (w_sendq s) (w_wire s)) f C A' B) as [rest [W R]].
      exists rest. split; assumption.
    + unfold wr_step. rewrite (wr_take_held cfg _ f) by exact B.
      destruct (IH (mkWr (w_ver s) (w_busy s) (w_ackq s) (w_sendq s ++ [(t, p)]) (w_wire s)) f C A' B) as [rest [W R]].
      exists rest. split; assumption.
    + assert (v = w_ver s) by (apply A; left; reflexivity). subst v.
      unfold wr_step. rewrite (wr_take_held cfg _ f) by exact B.
      destruct (IH (mkWr (w_ver s) (w_busy s) (w_ackq s) (w_sendq s) (w_wire s)) f C A' B) as [rest [W R]].
      exists rest. split; assumption.
    + rewrite (wr_step_reads cfg s f B).
      set (s1 := mkWr (w_ver s) None (w_ackq s) (w_sendq s) (w_wire s ++ [f])).
      destruct (wr_settled cfg evs (wr_take cfg s1) C) as [rest [W [F _]]].
      * rewrite wr_take_ver. exact A'.
      * rewrite wr_take_ver. intro g. apply (wr_take_busy cfg s1 g C). cbn [w_busy]. discriminate.
      * unfold wr_run in W. rewrite wr_take_wire, wr_take_ver in *. subst s1. cbn [w_wire w_ver] in *.
        exists (f :: rest). rewrite W, <- app_assoc. split; [reflexivity|].
        right. exists rest. split; [reflexivity|assumption].
Qed.

(* -- the closed forms of Negotiate.v are what this write loop does -- *)
Lemma wr_run_app : forall cfg a b s, wr_run cfg (a ++ b) s = wr_run cfg b (wr_run cfg a s).
Proof. intros. unfold wr_run. apply fold_left_app. Qed.

Lemma wr_run_cons : forall cfg e evs s, wr_run cfg (e :: evs) s = wr_run cfg evs (wr_step cfg s e).
Proof. reflexivity. Qed.

Lemma step_ka_busy : forall cfg v f n q w,
  wr_step cfg (mkWr v (Some f) n q w) WKeepAlive = mkWr v (Some f) (S n) q w.
Proof. reflexivity. Qed.
Lemma step_ka_idle : forall cfg v w,
  wr_step cfg (wr_idle v w) WKeepAlive = mkWr v (Some (stamp cfg v ack_message)) 0 [] w.
Proof. reflexivity. Qed.
Lemma step_assign_busy : forall cfg v v' f n q w,
  wr_step cfg (mkWr v (Some f) n q w) (WAssign v') = mkWr v' (Some f) n q w.
Proof. reflexivity. Qed.
Lemma step_assign_idle : forall cfg v v' w, wr_step cfg (wr_idle v w) (WAssign v') = wr_idle v' w.
Proof. reflexivity. Qed.
Lemma step_submit_busy : forall cfg v f n q w t p,
  wr_step cfg (mkWr v (Some f) n q w) (WSubmit t p) = mkWr v (Some f) n (q ++ [(t, p)]) w.
Proof. reflexivity. Qed.
Lemma step_submit_idle : forall cfg v w t p,
  wr_step cfg (wr_idle v w) (WSubmit t p) = mkWr v (Some (stamp cfg v (new_message cfg t p))) 0 [] w.
Proof. reflexivity. Qed.
Lemma step_read_acks : forall cfg v f n q w,
  wr_step cfg (mkWr v (Some f) (S n) q w) WPeerReads = mkWr v (Some (stamp cfg v ack_message)) n q (w ++ [f]).
Proof. reflexivity. Qed.
Lemma step_read_send : forall cfg v f tp q w,
  wr_step cfg (mkWr v (Some f) 0 (tp :: q) w) WPeerReads = mkWr v (Some (send_frame cfg v tp)) 0 q (w ++ [f]).
Proof. reflexivity. Qed.
Lemma step_read_last : forall cfg v f w,
  wr_step cfg (mkWr v (Some f) 0 [] w) WPeerReads = wr_idle v (w ++ [f]).
Proof. reflexivity. Qed.

Lemma ka_while_busy : forall cfg k v f n q w,
  wr_run cfg (repeat WKeepAlive k) (mkWr v (Some f) n q w) = mkWr v (Some f) (k + n) q w.
Proof.
  intros cfg k. induction k as [|k IH]; intros; [reflexivity|].
  cbn [repeat]. rewrite wr_run_cons, step_ka_busy, IH. f_equal. apply Nat.add_succ_r.
Qed.

(* the reader reads everything the loop has: the frame under way, n acknowledgements, then the
   messages waiting on the send queue — all but the first stamped with the version of now *)
Lemma reads_drain : forall cfg v n f q w,
  wr_run cfg (repeat WPeerReads (S n + length q)) (mkWr v (Some f) n q w)
  = wr_idle v (w ++ f :: acks cfg v n ++ map (send_frame cfg v) q).
Proof.
  intros cfg v n. induction n as [|n IH].
  - intros f q. revert f. induction q as [|tp q IHq]; intros f w.
    + cbn [length Nat.add repeat]. rewrite wr_run_cons, step_read_last. reflexivity.
    + cbn [length]. rewrite <- plus_n_Sm. cbn [repeat]. rewrite wr_run_cons, step_read_send.
      rewrite IHq. unfold wr_idle. f_equal. rewrite <- app_assoc. reflexivity.
  - intros f q w. change (S (S n) + length q)%nat with (S (S n + length q)). cbn [repeat].
    rewrite wr_run_cons, step_read_acks, IH. unfold wr_idle. f_equal. rewrite <- app_assoc. reflexivity.
Qed.

Lemma ka_acked_run : forall cfg k v w,
  wr_run cfg (ka_acked k) (wr_idle v w) = wr_idle v (w ++ acks cfg v k).
Proof.
  intros cfg k. induction k as [|k IH]; intros v w.
  - cbn. unfold wr_idle. rewrite app_nil_r. reflexivity.
  - unfold ka_acked in *. cbn [repeat concat app]. rewrite !wr_run_cons, step_ka_idle, step_read_last, IH.
    unfold wr_idle. f_equal. rewrite <- app_assoc. reflexivity.
Qed.

(* d keep-alives to an idle loop while the reader does not read: the first acknowledgement is
   stamped now and its write blocks, d-1 IDs wait *)
Lemma ka_unread : forall cfg d v w,
  wr_run cfg (repeat WKeepAlive (S d)) (wr_idle v w) = mkWr v (Some (stamp cfg v ack_message)) d [] w.
Proof.
  intros. cbn [repeat]. rewrite wr_run_cons, step_ka_idle, ka_while_busy, Nat.add_0_r. reflexivity.
Qed.

Lemma held_is_writer_run : forall cfg v_then v_now d w,
  wr_run cfg (repeat WKeepAlive d ++ WAssign v_now :: repeat WPeerReads d) (wr_idle v_then w)
  = wr_idle v_now (w ++ held cfg v_then v_now d).
Proof.
  intros. destruct d as [|d].
  - cbn. unfold wr_idle. rewrite app_nil_r. reflexivity.
  - rewrite wr_run_app, ka_unread, wr_run_cons, step_assign_busy.
    replace (S d) with (S d + length (@nil (N * list N)))%nat at 1 by apply Nat.add_0_r.
    rewrite reads_drain. cbn [map held]. rewrite app_nil_r. reflexivity.
Qed.

(* the same with SET_PROTOCOL_VERSION handed over while the reader still does not read: it is
   written after the held acknowledgements (the loop prefers ackQueue) *)
Lemma held_then_request : forall cfg v_then v_now d t p w,
  wr_run cfg (repeat WKeepAlive d ++ WAssign v_now :: WSubmit t p :: repeat WPeerReads (S d)) (wr_idle v_then w)
  = wr_idle v_now (w ++ held cfg v_then v_now d ++ [stamp cfg v_now (new_message cfg t p)]).
Proof.
  intros. destruct d as [|d].
  - reflexivity.
  - rewrite wr_run_app, ka_unread, !wr_run_cons, step_assign_busy, step_submit_busy. cbn [app].
    replace (S (S d)) with (S d + length [(t, p)])%nat by (cbn [length]; rewrite Nat.add_1_r; reflexivity).
    rewrite reads_drain. cbn [map held app]. reflexivity.
Qed.

Lemma ka_never_read : forall cfg d s, w_wire (wr_run cfg (repeat WKeepAlive d) s) = w_wire s /\
                                      w_ver (wr_run cfg (repeat WKeepAlive d) s) = w_ver s.
Proof.
  intros cfg d. induction d as [|d IH]; intro s; [split; reflexivity|].
  cbn [repeat]. rewrite wr_run_cons. destruct (IH (wr_step cfg s WKeepAlive)) as [W V].
  rewrite W, V. unfold wr_step. rewrite wr_take_wire, wr_take_ver. split; reflexivity.
Qed.

Lemma held_same_version : forall cfg v d w,
  wr_run cfg (repeat WKeepAlive d ++ repeat WPeerReads d) (wr_idle v w) = wr_idle v (w ++ held cfg v v d).
Proof.
  intros. destruct d as [|d].
  - cbn. unfold wr_idle. rewrite app_nil_r. reflexivity.
  - rewrite wr_run_app, ka_unread.
    replace (S d) with (S d + length (@nil (N * list N)))%nat at 1 by apply Nat.add_0_r.
    rewrite reads_drain. cbn [map held]. rewrite app_nil_r. reflexivity.
Qed.

(* negotiate_kd's frames — those of the negotiation and those left over from it, in this order —
   are what the write loop puts on the wire on the schedule of such a negotiation, and the loop's
   version at the end is the version settled on: every client maximum, every pair of reactions,
   any numbers of keep-alives acknowledged at once / held back at either point *)
Lemma negotiate_kd_is_writer_run_l : forall cfg cmax k1 d1 k2 d2 r1 r2,
  let s := wr_run cfg (kd_schedule cmax k1 d1 k2 d2 r1 r2) (wr_idle cmax []) in
  let m := negotiate_kd cfg cmax k1 d1 k2 d2 r1 r2 in
  w_wire s = n_frames (fst m) ++ snd m /\ w_ver s = n_version (fst m).
Proof.
  intros cfg cmax k1 d1 k2 d2 r1 r2. cbv zeta. unfold kd_schedule, negotiate_kd.
  destruct (cmax <=? V1_0_1); [split; reflexivity|].
  cbn [app]. rewrite !wr_run_cons, step_submit_idle, step_read_last, wr_run_app, ka_acked_run.
  cbn [app]. set (f1 := stamp cfg cmax (new_message cfg MsgGetSupportedVersion [])).
  destruct (get_supported r1) as [[cur mx]|].
  - set (v := if mx <? cmax then mx else cmax). destruct (cur =? v).
    + rewrite held_is_writer_run. cbn [fst snd n_frames n_version w_wire w_ver wr_idle].
      split; reflexivity.
    + replace (repeat WKeepAlive d1 ++ WAssign v :: WSubmit MsgSetProtocolVersion [v]
                 :: repeat WPeerReads (S d1) ++ ka_acked k2 ++ repeat WKeepAlive d2
                    ++ (if set_accepted r2 then repeat WPeerReads d2 else []))
        with ((repeat WKeepAlive d1 ++ WAssign v :: WSubmit MsgSetProtocolVersion [v] :: repeat WPeerReads (S d1))
                ++ ka_acked k2 ++ repeat WKeepAlive d2 ++ (if set_accepted r2 then repeat WPeerReads d2 else []))
        by (rewrite <- app_assoc; reflexivity).
      rewrite wr_run_app, held_then_request, wr_run_app, ka_acked_run.
      destruct (set_accepted r2).
      * rewrite held_same_version. cbn [fst snd n_frames n_version w_wire w_ver wr_idle].
        split; [|reflexivity]. repeat (rewrite <- app_assoc || rewrite <- app_comm_cons). cbn [app]. reflexivity.
      * rewrite app_nil_r. destruct (ka_never_read cfg d2 (wr_idle v (((f1 :: acks cfg cmax k1) ++
                 held cfg cmax v d1 ++ [stamp cfg v (new_message cfg MsgSetProtocolVersion [v])]) ++ acks cfg v k2))) as [W V].
        rewrite W, V. cbn [fst snd n_frames n_version w_wire w_ver wr_idle].
        split; [|reflexivity]. rewrite app_nil_r. repeat (rewrite <- app_assoc || rewrite <- app_comm_cons). cbn [app]. reflexivity.
  - rewrite app_nil_r. destruct (ka_never_read cfg d1 (wr_idle cmax (f1 :: acks cfg cmax k1))) as [W V].
    rewrite W, V. cbn [fst snd n_frames n_version w_wire w_ver wr_idle]. rewrite app_nil_r. split; reflexivity.
Qed.

(* -- consequences for the closed form -- *)
Lemma kd_no_delay : forall cfg cmax k1 k2 r1 r2,
  negotiate_kd cfg cmax k1 0 k2 0 r1 r2 = (negotiate_ka cfg cmax k1 k2 r1 r2, []).
Proof.
  intros. unfold negotiate_kd, negotiate_ka. destruct (cmax <=? V1_0_1); [reflexivity|].
  destruct (get_supported r1) as [[cur mx]|]; [|reflexivity].
  destruct (cur =? _); [reflexivity|]. cbn [held app]. destruct (set_accepted r2); reflexivity.
Qed.

Lemma session_kd_no_delay : forall cfg cmax k1 k2 r1 r2 evs,
  session_kd cfg cmax k1 0 k2 0 r1 r2 evs = session_post cfg cmax k1 k2 r1 r2 evs.
Proof. intros. unfold session_kd, session_post. rewrite kd_no_delay. reflexivity. Qed.

Lemma neg_only_held : forall cfg a b d, neg_frames_only (held cfg a b d) = [].
Proof.
  intros. destruct d as [|d]; [reflexivity|]. cbn [held]. unfold neg_frames_only. cbn [filter].
  rewrite stamp_typ. cbn [ack_message m_typ is_neg_type]. apply (neg_only_acks cfg b d).
Qed.

Lemma neg_only_app : forall a b, neg_frames_only (a ++ b) = neg_frames_only a ++ neg_frames_only b.
Proof. intros. apply filter_app. Qed.

(* held-back acknowledgements change neither the outcome, nor the version, nor the negotiation messages *)
Lemma kd_same_result : forall cfg cmax k1 d1 k2 d2 r1 r2,
  let a := fst (negotiate_kd cfg cmax k1 d1 k2 d2 r1 r2) in
  let b := negotiate cfg cmax r1 r2 in
  n_outcome a = n_outcome b /\ n_version a = n_version b /\ neg_frames_only (n_frames a) = n_frames b.
Proof.
  intros cfg cmax k1 d1 k2 d2 r1 r2. cbv zeta. unfold negotiate_kd, negotiate.
  destruct (cmax <=? V1_0_1); [repeat split|].
  destruct (get_supported r1) as [[cur mx]|].
  - destruct (cur =? _).
    + cbn [fst n_outcome n_version n_frames]. repeat split.
      rewrite neg_only_stamped_neg by reflexivity. rewrite neg_only_acks. reflexivity.
    + destruct (set_accepted r2); cbn [fst n_outcome n_version n_frames]; repeat split;
        rewrite neg_only_stamped_neg by reflexivity;
        rewrite !neg_only_app, neg_only_acks, neg_only_held; cbn [app];
        rewrite neg_only_stamped_neg by reflexivity; rewrite neg_only_acks; reflexivity.
  - cbn [fst n_outcome n_version n_frames]. repeat split.
    rewrite neg_only_stamped_neg by reflexivity. rewrite neg_only_acks. reflexivity.
Qed.

Lemma acks_all : forall cfg v k, Forall (fun f => f = mkMsg v MsgKeepAliveAck []) (acks cfg v k).
Proof. intros. unfold acks. rewrite ack_stamped. induction k; constructor; [reflexivity|assumption]. Qed.

(* what is left over from negotiation: nothing, or one acknowledgement stamped before the last
   answer took effect (the configured maximum if it was held at the query, the settled version if
   at the switch) followed by acknowledgements that all carry the settled version — every cfg *)
Lemma kd_left_over : forall cfg cmax k1 d1 k2 d2 r1 r2,
  let m := negotiate_kd cfg cmax k1 d1 k2 d2 r1 r2 in
  snd m = [] \/
  exists w rest, snd m = mkMsg w MsgKeepAliveAck [] :: rest /\ ((w = cmax /\ d1 <> O) \/ w = n_version (fst m)) /\
                 Forall (fun f => f = mkMsg (n_version (fst m)) MsgKeepAliveAck []) rest.
Proof.
  intros cfg cmax k1 d1 k2 d2 r1 r2. cbv zeta. unfold negotiate_kd.
  destruct (cmax <=? V1_0_1); [left; reflexivity|].
  destruct (get_supported r1) as [[cur mx]|]; [|left; reflexivity].
  set (v := if mx <? cmax then mx else cmax).
  destruct (cur =? v).
  - cbn [fst snd n_version]. destruct d1 as [|d1]; [left; reflexivity|]. right.
    exists cmax, (acks cfg v d1). cbn [held]. rewrite ack_stamped.
    split; [reflexivity|]. split; [left; split; [reflexivity|discriminate]|apply acks_all].
  - destruct (set_accepted r2); [|left; reflexivity].
    cbn [fst snd n_version]. destruct d2 as [|d2]; [left; reflexivity|]. right.
    exists v, (acks cfg v d2). cbn [held]. rewrite ack_stamped.
    split; [reflexivity|]. split; [right; reflexivity|apply acks_all].
Qed.

Lemma post_out_appends : forall cfg evs s, conforming cfg = true ->
  exists more, p_out (fold_left (post_step cfg) evs s) = p_out s ++ more /\ Forall (carries (p_ver s)) more.
Proof.
  intros cfg evs. induction evs as [|e evs IH]; intros s C.
  - exists []. rewrite app_nil_r. split; [reflexivity|constructor].
  - cbn [fold_left]. destruct (IH (post_step cfg s e) C) as [more [E F]].
    destruct e as [t p| |]; cbn [post_step p_out p_ver] in *.
    + exists (stamp cfg (p_ver s) (new_message cfg t p) :: more). rewrite E, <- app_assoc. split; [reflexivity|].
      constructor; [|assumption]. apply (send_frame_carries cfg (p_ver s) (t, p) C).
    + exists more. split; assumption.
    + exists (stamp cfg (p_ver s) ack_message :: more). rewrite E, <- app_assoc. split; [reflexivity|].
      constructor; [apply ack_carries|assumption].
Qed.

(* "every message sent afterwards carries the negotiated version", a reader that stops reading for
   a while included: the version is the negotiated one at the end; the frames read after
   negotiation are what was left over from it followed by traffic that all carries the negotiated
   version *)
Lemma session_kd_traffic : forall cfg cmax k1 d1 k2 d2 r1 r2 evs, conforming cfg = true ->
  let s := session_kd cfg cmax k1 d1 k2 d2 r1 r2 evs in
  p_ver (snd s) = n_version (fst s) /\
  (n_outcome (fst s) = Proceeds ->
   exists traffic, p_out (snd s) = snd (negotiate_kd cfg cmax k1 d1 k2 d2 r1 r2) ++ traffic /\
                   Forall (carries (n_version (fst s))) traffic).
Proof.
  intros cfg cmax k1 d1 k2 d2 r1 r2 evs C. unfold session_kd. cbn [fst snd].
  destruct (n_outcome _).
  - split; [apply post_version_invariant|]. intros _.
    destruct (post_out_appends cfg evs (mkPost (n_version (fst (negotiate_kd cfg cmax k1 d1 k2 d2 r1 r2)))
                 (snd (negotiate_kd cfg cmax k1 d1 k2 d2 r1 r2))) C) as [more [E F]].
    exists more. split; assumption.
  - split; [reflexivity|discriminate].
Qed.

(* so: after negotiation every frame carries the negotiated version, except — at most — the FIRST
   one, and only if that is an acknowledgement whose write was under way when negotiation ended *)
Lemma session_kd_negotiated : forall cfg cmax k1 d1 k2 d2 r1 r2 evs, conforming cfg = true ->
  let s := session_kd cfg cmax k1 d1 k2 d2 r1 r2 evs in
  let v := n_version (fst s) in
  Forall (carries v) (tl (p_out (snd s))) /\
  (forall f, hd_error (p_out (snd s)) = Some f ->
             carries v f \/ (f = mkMsg cmax MsgKeepAliveAck [] /\ d1 <> O)) /\
  (d1 = O -> Forall (carries v) (p_out (snd s))).
Proof.
  intros cfg cmax k1 d1 k2 d2 r1 r2 evs C. cbv zeta.
  destruct (session_kd_traffic cfg cmax k1 d1 k2 d2 r1 r2 evs C) as [_ T].
  assert (Hacks : forall v l, Forall (fun f => f = mkMsg v MsgKeepAliveAck []) l -> Forall (carries v) l).
  { intros v l H. eapply Forall_impl; [|exact H]. intros f ->. left. reflexivity. }
  destruct (n_outcome (fst (session_kd cfg cmax k1 d1 k2 d2 r1 r2 evs))) eqn:O.
  - destruct (T eq_refl) as [traffic [E F]]. rewrite E.
    assert (R : fst (session_kd cfg cmax k1 d1 k2 d2 r1 r2 evs) = fst (negotiate_kd cfg cmax k1 d1 k2 d2 r1 r2)) by reflexivity.
    rewrite R in *.
    pose proof (kd_left_over cfg cmax k1 d1 k2 d2 r1 r2) as L. cbv zeta in L.
    destruct L as [L|[w [rest [L [W Fr]]]]]; rewrite L.
    + cbn [app]. split; [|split].
      * destruct traffic; [constructor|]. cbn [tl]. inversion F; assumption.
      * intros f H. left. destruct traffic; [discriminate|]. cbn in H. injection H as <-. inversion F; assumption.
      * intros _. exact F.
    + cbn [app tl hd_error]. split; [|split].
      * apply Forall_app. split; [apply Hacks; exact Fr|exact F].
      * intros f H. injection H as <-. destruct W as [[-> D]| ->]; [|left; left; reflexivity].
        right. split; [reflexivity|exact D].
      * intros D. constructor; [|apply Forall_app; split; [apply Hacks; exact Fr|exact F]].
        destruct W as [[_ D']| ->]; [contradiction|]. left. reflexivity.
  - unfold session_kd. cbn [snd]. unfold session_kd in O. cbn [fst] in O. rewrite O. cbn [p_out tl hd_error].
    split; [constructor|]. split; [discriminate|]. intros _. constructor.
Qed.

(* ---- an unanswered negotiation message never yields a successful Connect ---------------------- *)
Lemma experienced_unanswered : forall to t, unanswered to t ->
  experienced to t = (if to then Some NoReply else None).
Proof.
  intros to [a r] [H|[H T]]; cbn [fst] in H; subst a; unfold experienced; cbn [fst snd].
  - reflexivity.
  - rewrite T. reflexivity.
Qed.

Lemma switch_not_needed_noreply : forall cmax, switch_needed cmax NoReply = false.
Proof. intro. unfold switch_needed. cbn [get_supported]. apply andb_false_r. Qed.

(* the query: Connect does not succeed — it fails when the client has a timeout and is still
   waiting when it has none —, the version is still the configured maximum (nothing was settled),
   the only negotiation message written is the query, and nothing is written afterwards *)
Lemma unanswered_query : forall cfg to cmax k1 d1 k2 d2 t1 t2 evs, V1_0_1 < cmax -> unanswered to t1 ->
  let s := session_t cfg to cmax k1 d1 k2 d2 t1 t2 evs in
  ~ connect_succeeds s /\ fst s = negb to /\ n_outcome (fst (snd s)) = Fails /\
  n_version (fst (snd s)) = cmax /\
  neg_frames_only (n_frames (fst (snd s))) = [mkMsg V1_1 MsgGetSupportedVersion []] /\
  p_out (snd (snd s)) = [].
Proof.
  intros cfg to cmax k1 d1 k2 d2 t1 t2 evs H U. cbv zeta. unfold session_t.
  rewrite (not_le_1 cmax H), (experienced_unanswered to t1 U).
  assert (N : negotiate_kd cfg cmax k1 d1 k2 d2 NoReply NoReply
              = (mkRes (stamp cfg cmax (new_message cfg MsgGetSupportedVersion []) :: acks cfg cmax k1) Fails cmax, [])).
  { unfold negotiate_kd. rewrite (not_le_1 cmax H). reflexivity. }
  assert (F : neg_frames_only (stamp cfg cmax (new_message cfg MsgGetSupportedVersion []) :: acks cfg cmax k1)
              = [mkMsg V1_1 MsgGetSupportedVersion []]).
  { rewrite neg_only_stamped_neg by reflexivity. rewrite neg_only_acks. reflexivity. }
  destruct to.
  - rewrite switch_not_needed_noreply. unfold session_kd.
    assert (N2 : negotiate_kd cfg cmax k1 d1 k2 d2 NoReply (snd t2)
              = (mkRes (stamp cfg cmax (new_message cfg MsgGetSupportedVersion []) :: acks cfg cmax k1) Fails cmax, [])).
    { unfold negotiate_kd. rewrite (not_le_1 cmax H). reflexivity. }
    rewrite N2. cbn [fst snd n_outcome n_version n_frames p_out negb]. unfold connect_succeeds. cbn [fst snd n_outcome].
    repeat split; try assumption; try reflexivity. intros [_ A]. discriminate.
  - rewrite N. cbn [fst snd n_outcome n_version n_frames p_out negb]. unfold connect_succeeds. cbn [fst snd n_outcome].
    repeat split; try assumption; try reflexivity. intros [A _]. discriminate.
Qed.

(* the switch: the query was answered in time and calls for SET_PROTOCOL_VERSION, which then gets no
   answer: Connect does not succeed either, and nothing is written after the negotiation frames *)
Lemma unanswered_switch : forall cfg to cmax k1 d1 k2 d2 r1 t2 evs, switch_needed cmax r1 = true ->
  unanswered to t2 ->
  let s := session_t cfg to cmax k1 d1 k2 d2 (InTime, r1) t2 evs in
  ~ connect_succeeds s /\ fst s = negb to /\ n_outcome (fst (snd s)) = Fails /\ p_out (snd (snd s)) = [].
Proof.
  intros cfg to cmax k1 d1 k2 d2 r1 t2 evs S U. cbv zeta. unfold session_t.
  assert (C : (cmax <=? V1_0_1) = false).
  { unfold switch_needed in S. destruct (cmax <=? V1_0_1); [discriminate|reflexivity]. }
  rewrite C. cbn [experienced fst snd]. rewrite S, (experienced_unanswered to t2 U).
  assert (N : n_outcome (fst (negotiate_kd cfg cmax k1 d1 k2 d2 r1 NoReply)) = Fails).
  { unfold switch_needed in S. rewrite C in S. cbn [negb andb] in S. unfold negotiate_kd. rewrite C.
    destruct (get_supported r1) as [[cur mx]|]; [|discriminate].
    apply negb_true_iff in S. cbv zeta.
    destruct (cur =? _) eqn:E; [discriminate S|reflexivity]. }
  destruct to; unfold connect_succeeds.
  - unfold session_kd. cbn [fst snd]. rewrite N. cbn [p_out negb].
    repeat split; try reflexivity; try assumption. intros [_ A]. first [discriminate A | rewrite N in A; discriminate A].
  - cbn [fst snd p_out negb]. repeat split; try reflexivity; try assumption. intros [A _]. discriminate.
Qed.

(* for a client without a timeout a slow reply is a reply; replies in time: session_kd *)
Lemma slow_reply_no_timeout : forall cfg cmax k1 d1 k2 d2 r1 r2 a1 a2 evs, a1 <> Never -> a2 <> Never ->
  session_t cfg false cmax k1 d1 k2 d2 (a1, r1) (a2, r2) evs
  = (false, session_kd cfg cmax k1 d1 k2 d2 r1 r2 evs).
Proof.
  intros. unfold session_t. destruct (cmax <=? V1_0_1); [reflexivity|].
  assert (E1 : experienced false (a1, r1) = Some r1) by (destruct a1; [reflexivity|contradiction|reflexivity]).
  assert (E2 : experienced false (a2, r2) = Some r2) by (destruct a2; [reflexivity|contradiction|reflexivity]).
  rewrite E1, E2. cbn [snd]. destruct (switch_needed cmax r1); reflexivity.
Qed.

Lemma in_time_is_session_kd : forall cfg to cmax k1 d1 k2 d2 r1 r2 evs,
  session_t cfg to cmax k1 d1 k2 d2 (InTime, r1) (InTime, r2) evs
  = (false, session_kd cfg cmax k1 d1 k2 d2 r1 r2 evs).
Proof.
  intros. unfold session_t. destruct (cmax <=? V1_0_1); [reflexivity|].
  cbn [experienced fst snd]. destruct (switch_needed cmax r1); reflexivity.
Qed.

(* conversely: whenever Connect succeeds, every negotiation message that was sent got an answer
   the client could use *)
Lemma success_means_answered : forall cfg to cmax k1 d1 k2 d2 t1 t2 evs, V1_0_1 < cmax ->
  connect_succeeds (session_t cfg to cmax k1 d1 k2 d2 t1 t2 evs) ->
  exists r1, experienced to t1 = Some r1 /\ r1 <> NoReply /\
             (switch_needed cmax r1 = true -> exists r2, experienced to t2 = Some r2 /\ r2 <> NoReply).
Proof.
  intros cfg to cmax k1 d1 k2 d2 t1 t2 evs H [W P]. unfold session_t in *.
  rewrite (not_le_1 cmax H) in *.
  destruct (experienced to t1) as [r1|] eqn:E1; [|discriminate].
  exists r1. split; [reflexivity|].
  destruct (switch_needed cmax r1) eqn:S.
  - destruct (experienced to t2) as [r2|] eqn:E2; [|discriminate].
    split.
    + intros ->. rewrite switch_not_needed_noreply in S. discriminate.
    + intros _. exists r2. split; [reflexivity|]. intros ->.
      cbn [fst snd] in P. unfold session_kd in P. cbn [fst] in P.
      unfold switch_needed in S. rewrite (not_le_1 cmax H) in S. cbn [negb andb] in S.
      unfold negotiate_kd in P. rewrite (not_le_1 cmax H) in P.
      destruct (get_supported r1) as [[cur mx]|]; [|discriminate].
      apply negb_true_iff in S. cbv zeta in P.
      destruct (cur =? _) eqn:E; [discriminate S|].
      cbn [set_accepted fst n_outcome] in P. discriminate.
  - split; [|discriminate]. intros ->.
    cbn [fst snd] in P. unfold session_kd in P. cbn [fst] in P.
    unfold negotiate_kd in P. rewrite (not_le_1 cmax H) in P. cbn [get_supported fst n_outcome] in P. discriminate.
Qed.

(* ---- Connect succeeds only after an expected-type Success (one exception) ---------------------- *)
(* the switch is confirmed by a SET_PROTOCOL_VERSION_RESPONSE carrying Success and by nothing else:
   not by an ERROR_MESSAGE whatever its status (Success included), not by another type *)
Lemma switch_confirmed_iff : forall r, set_accepted r = true <-> expected_success r.
Proof.
  intro r. split.
  - destruct r as [cb mb st|st|t| | |]; cbn [set_accepted]; try discriminate.
    intro H. apply N.eqb_eq in H. subst st. exists cb, mb. reflexivity.
  - intros [cb [mb ->]]. reflexivity.
Qed.

(* the query, as the code is: answered by the expected response with Success, by
   ERROR_MESSAGE/M_UnsupportedVersion — or by ERROR_MESSAGE/Success *)
Lemma query_answered_today : forall r p, get_supported r = Some p ->
  (exists cb mb, r = Resp cb mb StatusSuccess /\ p = (reader_ver cb, reader_ver mb)) \/
  (r = ErrMsg StatusMsgVerUnsupported /\ p = (V1_0_1, V1_0_1)) \/
  (r = ErrMsg StatusSuccess /\ p = (V1_0_1, V1_0_1)).
Proof.
  intros r p. destruct r as [cb mb st|st|t| | |]; cbn [get_supported]; try discriminate.
  - destruct (st =? StatusSuccess) eqn:E; [|discriminate]. apply N.eqb_eq in E. subst st.
    intro H. injection H as <-. left. exists cb, mb. split; reflexivity.
  - destruct (st =? StatusMsgVerUnsupported) eqn:E.
    + apply N.eqb_eq in E. subst st. cbn. intro H. injection H as <-. right. left. split; reflexivity.
    + destruct (st =? StatusSuccess) eqn:E2; [|discriminate]. apply N.eqb_eq in E2. subst st.
      intro H. injection H as <-. right. right. split; reflexivity.
  - destruct (t =? MsgErrorMessage); [discriminate|]. destruct (t =? MsgGetSupportedVersionResponse); discriminate.
Qed.

(* "Connect succeeds only after an expected-type Success, except ERROR_MESSAGE/M_UnsupportedVersion
   answering the query" is FALSE of the code as it is: ERROR_MESSAGE/Success answering the query
   makes Connect proceed at 1.0.1 with the query as the only frame *)
Lemma errmsg_success_query_today : forall cfg cmax r2, V1_0_1 < cmax ->
  negotiate cfg cmax (ErrMsg StatusSuccess) r2
  = mkRes [mkMsg V1_1 MsgGetSupportedVersion []] Proceeds V1_0_1.
Proof.
  intros cfg cmax r2 H. unfold negotiate. rewrite (not_le_1 cmax H). cbn [get_supported].
  change (StatusSuccess =? StatusMsgVerUnsupported) with false. cbn iota.
  change (StatusSuccess =? StatusSuccess) with true. cbn iota.
  assert (L : (V1_0_1 <? cmax) = true) by (apply N.ltb_lt; exact H). rewrite L.
  change (V1_0_1 =? V1_0_1) with true. cbn iota.
  unfold stamp, new_message. cbn [m_typ m_payload]. reflexivity.
Qed.

Lemma errmsg_success_refuted_l : exists cfg cmax r1 r2, V1_0_1 < cmax /\
  n_outcome (negotiate cfg cmax r1 r2) = Proceeds /\
  ~ (expected_success r1 \/ r1 = ErrMsg StatusMsgVerUnsupported).
Proof.
  exists cfg_today, V1_1, (ErrMsg StatusSuccess), NoReply. split; [reflexivity|]. split; [reflexivity|].
  intros [[cb [mb H]]|H]; discriminate.
Qed.

(* the repaired function *)
Lemma strict_query_id : forall r, r <> ErrMsg StatusSuccess -> strict_query r = r.
Proof.
  intros r H. destruct r as [cb mb st|st|t| | |]; try reflexivity. cbn [strict_query].
  destruct (st =? StatusSuccess) eqn:E; [|reflexivity]. apply N.eqb_eq in E. subst st. contradiction.
Qed.

Lemma query_answered_strict : forall r p, get_supported_strict r = Some p ->
  (exists cb mb, r = Resp cb mb StatusSuccess /\ p = (reader_ver cb, reader_ver mb)) \/
  (r = ErrMsg StatusMsgVerUnsupported /\ p = (V1_0_1, V1_0_1)).
Proof.
  intros r p H. unfold get_supported_strict in H.
  destruct r as [cb mb st|st|t| | |]; try (cbn [strict_query] in H; destruct (query_answered_today _ _ H) as [A|[[A B]|[A B]]];
    [left; exact A|right; split; assumption|discriminate A]).
  cbn [strict_query] in H. destruct (st =? StatusSuccess) eqn:E.
  - cbn in H. discriminate.
  - destruct (query_answered_today _ _ H) as [[cb [mb [A _]]]|[[A B]|[A B]]].
    + discriminate.
    + right. split; assumption.
    + injection A as ->. discriminate.
Qed.

(* the whole clause for the repaired function: for every configuration, client maximum above 1.0.1
   and pair of reactions, Connect proceeds only if the query was rejected as an unsupported version
   (then the query is the only frame and the version is 1.0.1), or was answered by the expected
   response with Success and — if that called for the switch — the switch was answered by the
   expected response with Success *)
Lemma strict_success_only_after_expected : forall cfg cmax r1 r2, V1_0_1 < cmax ->
  n_outcome (negotiate_strict cfg cmax r1 r2) = Proceeds ->
  (r1 = ErrMsg StatusMsgVerUnsupported /\
   negotiate_strict cfg cmax r1 r2 = mkRes [mkMsg V1_1 MsgGetSupportedVersion []] Proceeds V1_0_1) \/
  (expected_success r1 /\ (switch_needed cmax r1 = true -> expected_success r2)).
Proof.
  intros cfg cmax r1 r2 H P. unfold negotiate_strict in *.
  destruct (get_supported (strict_query r1)) as [p|] eqn:G.
  - destruct (query_answered_strict r1 p G) as [[cb [mb [-> ->]]]|[-> ->]].
    + right. split; [exists cb, mb; reflexivity|]. intro S.
      unfold switch_needed in S. rewrite (not_le_1 cmax H) in S. cbn [negb andb get_supported] in S.
      change (StatusSuccess =? StatusSuccess) with true in S. cbn iota in S. apply negb_true_iff in S.
      cbn [strict_query] in P. unfold negotiate in P. rewrite (not_le_1 cmax H) in P.
      cbn [get_supported] in P. change (StatusSuccess =? StatusSuccess) with true in P. cbn iota in P.
      destruct (reader_ver cb =? _) eqn:E; [discriminate S|].
      apply switch_confirmed_iff. destruct (set_accepted r2); [reflexivity|discriminate P].
    + left. split; [reflexivity|]. cbn [strict_query].
      change (StatusMsgVerUnsupported =? StatusSuccess) with false. cbn iota.
      apply negotiation_unsupported_l. exact H.
  - exfalso. unfold negotiate in P. rewrite (not_le_1 cmax H), G in P. discriminate.
Qed.

(* and the repair changes nothing else: for every other reaction negotiate_strict is negotiate *)
Lemma strict_same_elsewhere : forall cfg cmax r1 r2, r1 <> ErrMsg StatusSuccess ->
  negotiate_strict cfg cmax r1 r2 = negotiate cfg cmax r1 r2.
Proof. intros. unfold negotiate_strict. rewrite strict_query_id by assumption. reflexivity. Qed.
