(* C06 — lemmas about the negotiation model (Client/Negotiate.v). *)
From Coq Require Import NArith List Bool Lia.
From LLRP Require Import Client.Negotiate.
Import ListNotations.
Open Scope N_scope.

Definition reader_ok (r : reaction) : Prop :=
  exists cb mb, r = Resp cb mb StatusSuccess.

(* what the reader tells the client when the query succeeds *)
Lemma get_supported_resp : forall cb mb,
  get_supported (Resp cb mb StatusSuccess) = Some (reader_ver cb, reader_ver mb).
Proof. reflexivity. Qed.

Lemma get_supported_unsupported :
  get_supported (ErrMsg StatusMsgVerUnsupported) = Some (V1_0_1, V1_0_1).
Proof. reflexivity. Qed.

Lemma chosen_is_min : forall cmax mx, (if mx <? cmax then mx else cmax) = N.min cmax mx.
Proof.
  intros. destruct (N.ltb_spec mx cmax).
  - rewrite N.min_r; lia.
  - rewrite N.min_l; lia.
Qed.

Lemma not_le_1 : forall cmax, V1_0_1 < cmax -> (cmax <=? V1_0_1) = false.
Proof. intros. apply N.leb_gt. assumption. Qed.

(* ---- clause: a client limited to 1.0.1 sends no negotiation messages ---- *)
Lemma v101_no_negotiation_l : forall cfg cmax r1 r2, cmax <= V1_0_1 ->
  negotiate cfg cmax r1 r2 = mkRes [] Proceeds cmax.
Proof.
  intros. unfold negotiate. apply N.leb_le in H. rewrite H. reflexivity.
Qed.

(* ---- clause: first frame is always the query, when cmax > 1.0.1 ---- *)
Lemma first_frame_is_query : forall cfg cmax r1 r2, V1_0_1 < cmax ->
  exists rest, n_frames (negotiate cfg cmax r1 r2)
               = mkMsg V1_1 MsgGetSupportedVersion [] :: rest.
Proof.
  intros. unfold negotiate. rewrite (not_le_1 _ H).
  destruct (get_supported r1) as [[cur mx]|]; [|eexists; reflexivity].
  destruct (cur =? _); [eexists; reflexivity|].
  destruct (set_accepted r2); eexists; reflexivity.
Qed.

(* ---- clause: settles on min ---- *)
Lemma negotiation_settles_min_l : forall cfg cmax cb mb r2, V1_0_1 < cmax ->
  n_version (negotiate cfg cmax (Resp cb mb StatusSuccess) r2) = N.min cmax (reader_ver mb).
Proof.
  intros. unfold negotiate. rewrite (not_le_1 _ H). rewrite get_supported_resp.
  rewrite <- chosen_is_min.
  destruct (_ =? _); [reflexivity|]. destruct (set_accepted r2); reflexivity.
Qed.

Lemma negotiation_unsupported_l : forall cfg cmax r2, V1_0_1 < cmax ->
  negotiate cfg cmax (ErrMsg StatusMsgVerUnsupported) r2
  = mkRes [mkMsg V1_1 MsgGetSupportedVersion []] Proceeds V1_0_1.
Proof.
  intros. unfold negotiate. rewrite (not_le_1 _ H). rewrite get_supported_unsupported.
  assert (E : (V1_0_1 <? cmax) = true) by (apply N.ltb_lt; assumption).
  rewrite E. reflexivity.
Qed.

(* ---- clause: asks the reader to switch only (and exactly) if it is not already there ---- *)
Definition has_set (fs : list frame) : bool :=
  existsb (fun f => m_typ f =? MsgSetProtocolVersion) fs.

Lemma set_only_if_different_l : forall cfg cmax cb mb r2, V1_0_1 < cmax ->
  let r := negotiate cfg cmax (Resp cb mb StatusSuccess) r2 in
  let v := N.min cmax (reader_ver mb) in
  (reader_ver cb = v -> n_frames r = [mkMsg V1_1 MsgGetSupportedVersion []]
                        /\ n_outcome r = Proceeds) /\
  (reader_ver cb <> v -> n_frames r = [mkMsg V1_1 MsgGetSupportedVersion [];
                                       mkMsg V1_1 MsgSetProtocolVersion [v]]).
Proof.
  intros cfg cmax cb mb r2 H. cbv zeta. unfold negotiate. rewrite (not_le_1 _ H).
  rewrite get_supported_resp. rewrite chosen_is_min.
  split; intro E.
  - apply N.eqb_eq in E. rewrite E. split; reflexivity.
  - apply N.eqb_neq in E. rewrite E. destruct (set_accepted r2); reflexivity.
Qed.

(* no SET_PROTOCOL_VERSION at all unless the query succeeded with a different current version *)
Lemma set_implies_different : forall cfg cmax r1 r2,
  has_set (n_frames (negotiate cfg cmax r1 r2)) = true ->
  exists cur mx, get_supported r1 = Some (cur, mx) /\ cur <> N.min cmax mx /\ V1_0_1 < cmax.
Proof.
  intros cfg cmax r1 r2. unfold negotiate.
  destruct (N.leb_spec cmax V1_0_1) as [L|L]; [discriminate|].
  destruct (get_supported r1) as [[cur mx]|]; [|discriminate].
  rewrite chosen_is_min.
  destruct (N.eqb_spec cur (N.min cmax mx)); [discriminate|].
  intros _. exists cur, mx. auto.
Qed.

(* ---- clause: both negotiation messages carry 1.1, and they are GET then SET ---- *)
Lemma neg_headers_1_1_l : forall cfg cmax r1 r2,
  Forall (fun f => m_ver f = V1_1 /\ is_neg_type (m_typ f) = true)
         (n_frames (negotiate cfg cmax r1 r2)).
Proof.
  intros. unfold negotiate. destruct (cmax <=? V1_0_1); [constructor|].
  destruct (get_supported r1) as [[cur mx]|].
  - destruct (cur =? _).
    + repeat constructor.
    + destruct (set_accepted r2); repeat constructor.
  - repeat constructor.
Qed.

(* ---- clause: failures fail the connection attempt ---- *)
Definition first_reply_bad (r : reaction) : Prop :=
  match r with
  | Resp _ _ st => st <> StatusSuccess
  | ErrMsg st => st <> StatusSuccess /\ st <> StatusMsgVerUnsupported
  | WrongType _ | Oversize | Garbage | NoReply => True
  end.

Definition second_reply_bad (r : reaction) : Prop :=
  match r with
  | Resp _ _ st => st <> StatusSuccess
  | ErrMsg _ | WrongType _ | Oversize | Garbage | NoReply => True
  end.

Lemma first_bad_none : forall r, first_reply_bad r -> get_supported r = None.
Proof.
  destruct r; cbn [first_reply_bad get_supported]; intros H; try reflexivity.
  - apply N.eqb_neq in H. rewrite H. reflexivity.
  - destruct H as [H0 H1]. apply N.eqb_neq in H1. rewrite H1.
    apply N.eqb_neq in H0. rewrite H0. reflexivity.
  - destruct (t =? _); [reflexivity|]. destruct (t =? _); reflexivity.
Qed.

Lemma second_bad_refused : forall r, second_reply_bad r -> set_accepted r = false.
Proof.
  destruct r; cbn [second_reply_bad set_accepted]; intros H; try reflexivity.
  apply N.eqb_neq in H. assumption.
Qed.

Lemma first_failure_fails : forall cfg cmax r1 r2, V1_0_1 < cmax -> first_reply_bad r1 ->
  negotiate cfg cmax r1 r2 = mkRes [mkMsg V1_1 MsgGetSupportedVersion []] Fails cmax.
Proof.
  intros. unfold negotiate. rewrite (not_le_1 _ H). rewrite (first_bad_none _ H0). reflexivity.
Qed.

Lemma second_failure_fails : forall cfg cmax cb mb r2, V1_0_1 < cmax ->
  reader_ver cb <> N.min cmax (reader_ver mb) -> second_reply_bad r2 ->
  n_outcome (negotiate cfg cmax (Resp cb mb StatusSuccess) r2) = Fails.
Proof.
  intros. unfold negotiate. rewrite (not_le_1 _ H). rewrite get_supported_resp.
  rewrite chosen_is_min. apply N.eqb_neq in H0. rewrite H0.
  rewrite (second_bad_refused _ H1). reflexivity.
Qed.

(* and an accepted switch lets Connect proceed *)
Lemma accepted_proceeds : forall cfg cmax cb mb a b, V1_0_1 < cmax ->
  n_outcome (negotiate cfg cmax (Resp cb mb StatusSuccess) (Resp a b StatusSuccess)) = Proceeds.
Proof.
  intros. unfold negotiate. rewrite (not_le_1 _ H). rewrite get_supported_resp.
  destruct (_ =? _); reflexivity.
Qed.

(* ---- clause: every message sent afterwards carries the negotiated version ---- *)
Lemma stamp_ordinary : forall cfg v l, conforming cfg = true -> ordinary l = true ->
  m_ver (stamp cfg v (build cfg l)) = v.
Proof.
  intros cfg v l C O. unfold conforming in C. destruct l as [t p|].
  - cbn [ordinary] in O. apply negb_true_iff in O.
    unfold stamp, build, new_message. cbn [m_typ m_ver m_payload]. rewrite O.
    destruct (prestamp cfg), (writer_overrides cfg); try discriminate; reflexivity.
  - unfold stamp, build, ack_message. cbn [m_typ m_ver m_payload].
    replace (is_neg_type MsgKeepAliveAck) with false by reflexivity.
    rewrite orb_true_r. reflexivity.
Qed.

Lemma later_frames_negotiated_l : forall cfg cmax r1 r2 ls, conforming cfg = true ->
  let s := session cfg cmax r1 r2 ls in
  Forall (fun f => m_ver f = n_version (fst s) \/ is_neg_type (m_typ f) = true) (snd s).
Proof.
  intros cfg cmax r1 r2 ls C. unfold session. cbn [fst snd].
  destruct (n_outcome _); [|constructor].
  unfold write_later. apply Forall_forall. intros f Hin. apply in_map_iff in Hin.
  destruct Hin as [l [E _]]. subst f.
  destruct (ordinary l) eqn:O.
  - left. apply stamp_ordinary; assumption.
  - right. destruct l as [t p|]; [|discriminate]. cbn [ordinary] in O.
    apply negb_false_iff in O. unfold stamp, build, new_message. cbn [m_typ]. rewrite O.
    assumption.
Qed.

(* the acknowledgement carries the negotiated version under every configuration *)
Lemma ack_negotiated : forall cfg v, m_ver (stamp cfg v (build cfg Ack)) = v.
Proof.
  intros. unfold stamp, build, ack_message. cbn [m_typ m_ver m_payload].
  replace (is_neg_type MsgKeepAliveAck) with false by reflexivity.
  rewrite orb_true_r. reflexivity.
Qed.

(* today's configuration: a request after negotiating 1.1 goes out as 1.0.1 *)
Definition witness_reader : reaction := Resp 64 64 0.      (* reader: current 1.1, max 1.1 *)
Definition witness_later : list later_msg := [Request 2 []; Ack].   (* GET_READER_CONFIG, ack *)

Lemma later_frames_refuted_today :
  let s := session cfg_today V1_1 witness_reader NoReply witness_later in
  n_outcome (fst s) = Proceeds /\ n_version (fst s) = V1_1 /\
  snd s = [mkMsg V1_0_1 2 []; mkMsg V1_1 MsgKeepAliveAck []].
Proof. vm_compute. repeat split. Qed.

Lemma later_frames_refuted_l : exists cmax r1 r2 ls,
  let s := session cfg_today cmax r1 r2 ls in
  n_outcome (fst s) = Proceeds /\
  ~ Forall (fun f => m_ver f = n_version (fst s) \/ is_neg_type (m_typ f) = true) (snd s).
Proof.
  exists V1_1, witness_reader, NoReply, witness_later.
  destruct later_frames_refuted_today as [P [V S]]. cbv zeta. split; [exact P|].
  rewrite S, V. intro F. inversion F as [|x l H _].
  destruct H as [H|H]; vm_compute in H; discriminate.
Qed.

(* ---- keep-alives during negotiation ---- *)
Lemma stamp_typ : forall cfg v m, m_typ (stamp cfg v m) = m_typ m.
Proof.
  intros. unfold stamp. destruct (is_neg_type (m_typ m)); [reflexivity|].
  destruct (_ || _); reflexivity.
Qed.

Lemma ack_stamped : forall cfg v, stamp cfg v ack_message = mkMsg v MsgKeepAliveAck [].
Proof.
  intros. unfold stamp, ack_message. cbn [m_typ m_ver m_payload].
  replace (is_neg_type MsgKeepAliveAck) with false by reflexivity.
  rewrite orb_true_r. reflexivity.
Qed.

Lemma neg_only_acks : forall cfg v k, neg_frames_only (acks cfg v k) = [].
Proof.
  intros. unfold acks. rewrite ack_stamped. induction k; [reflexivity|].
  cbn [repeat]. unfold neg_frames_only in *. cbn [filter m_typ].
  replace (is_neg_type MsgKeepAliveAck) with false by reflexivity. assumption.
Qed.

Lemma neg_only_stamped_neg : forall cfg v t p rest, is_neg_type t = true ->
  neg_frames_only (stamp cfg v (new_message cfg t p) :: rest)
  = stamp cfg v (new_message cfg t p) :: neg_frames_only rest.
Proof.
  intros. unfold neg_frames_only. cbn [filter]. rewrite stamp_typ.
  unfold new_message. cbn [m_typ]. rewrite H. reflexivity.
Qed.

(* keep-alives change neither the outcome, nor the version, nor the negotiation messages *)
Lemma ka_same_result : forall cfg cmax k1 k2 r1 r2,
  let a := negotiate_ka cfg cmax k1 k2 r1 r2 in
  let b := negotiate cfg cmax r1 r2 in
  n_outcome a = n_outcome b /\ n_version a = n_version b /\
  neg_frames_only (n_frames a) = n_frames b.
Proof.
  intros cfg cmax k1 k2 r1 r2. cbv zeta. unfold negotiate_ka, negotiate.
  destruct (cmax <=? V1_0_1); [repeat split|].
  destruct (get_supported r1) as [[cur mx]|].
  - destruct (cur =? _).
    + cbn [n_outcome n_version n_frames]. repeat split.
      rewrite neg_only_stamped_neg by reflexivity. rewrite neg_only_acks. reflexivity.
    + cbn [n_outcome n_version n_frames].
      assert (F : forall o, n_frames (if set_accepted r2
                   then mkRes [stamp cfg cmax (new_message cfg MsgGetSupportedVersion []);
                               stamp cfg (if mx <? cmax then mx else cmax)
                                 (new_message cfg MsgSetProtocolVersion [if mx <? cmax then mx else cmax])] Proceeds o
                   else mkRes [stamp cfg cmax (new_message cfg MsgGetSupportedVersion []);
                               stamp cfg (if mx <? cmax then mx else cmax)
                                 (new_message cfg MsgSetProtocolVersion [if mx <? cmax then mx else cmax])] Fails o)
                 = [stamp cfg cmax (new_message cfg MsgGetSupportedVersion []);
                    stamp cfg (if mx <? cmax then mx else cmax)
                      (new_message cfg MsgSetProtocolVersion [if mx <? cmax then mx else cmax])])
        by (intro; destruct (set_accepted r2); reflexivity).
      split; [destruct (set_accepted r2); reflexivity|].
      split; [destruct (set_accepted r2); reflexivity|].
      rewrite F. rewrite neg_only_stamped_neg by reflexivity.
      unfold neg_frames_only at 1. rewrite filter_app. fold (neg_frames_only (acks cfg cmax k1)).
      rewrite neg_only_acks. cbn [app].
      fold (neg_frames_only (stamp cfg (if mx <? cmax then mx else cmax)
              (new_message cfg MsgSetProtocolVersion [if mx <? cmax then mx else cmax])
              :: acks cfg (if mx <? cmax then mx else cmax) k2)).
      rewrite neg_only_stamped_neg by reflexivity. rewrite neg_only_acks. reflexivity.
  - cbn [n_outcome n_version n_frames]. repeat split.
    rewrite neg_only_stamped_neg by reflexivity. rewrite neg_only_acks. reflexivity.
Qed.

(* every frame written during negotiation is a negotiation message at 1.1 or an acknowledgement
   carrying the version in use at that moment: the configured maximum or the chosen version *)
Definition neg_phase_frame_ok (cmax v : version) (f : frame) : Prop :=
  (is_neg_type (m_typ f) = true /\ m_ver f = V1_1) \/
  (m_typ f = MsgKeepAliveAck /\ (m_ver f = cmax \/ m_ver f = v)).

Lemma acks_ok : forall cfg cmax v w k, (w = cmax \/ w = v) ->
  Forall (neg_phase_frame_ok cmax v) (acks cfg w k).
Proof.
  intros. unfold acks. rewrite ack_stamped. induction k; constructor; [|assumption].
  right. split; [reflexivity|exact H].
Qed.

Lemma neg_frame_ok : forall cfg cmax v w t p, is_neg_type t = true ->
  neg_phase_frame_ok cmax v (stamp cfg w (new_message cfg t p)).
Proof.
  intros. left. unfold stamp, new_message. cbn [m_typ m_ver]. rewrite H. split; [assumption|reflexivity].
Qed.

Lemma ka_frames_ok : forall cfg cmax k1 k2 r1 r2,
  let r := negotiate_ka cfg cmax k1 k2 r1 r2 in
  Forall (neg_phase_frame_ok cmax (n_version r)) (n_frames r).
Proof.
  intros cfg cmax k1 k2 r1 r2. cbv zeta. unfold negotiate_ka.
  destruct (cmax <=? V1_0_1); [constructor|].
  destruct (get_supported r1) as [[cur mx]|].
  - destruct (cur =? _); cbn [n_frames n_version].
    + constructor; [apply neg_frame_ok; reflexivity|apply acks_ok; left; reflexivity].
    + constructor; [apply neg_frame_ok; reflexivity|].
      apply Forall_app. split; [apply acks_ok; left; reflexivity|].
      constructor; [apply neg_frame_ok; reflexivity|apply acks_ok; right; reflexivity].
  - cbn [n_frames n_version].
    constructor; [apply neg_frame_ok; reflexivity|apply acks_ok; left; reflexivity].
Qed.

Lemma write_later_ok : forall cfg v ls, conforming cfg = true ->
  Forall (fun f => m_ver f = v \/ is_neg_type (m_typ f) = true) (write_later cfg v ls).
Proof.
  intros cfg v ls C. unfold write_later. apply Forall_forall. intros f Hin.
  apply in_map_iff in Hin. destruct Hin as [l [E _]]. subst f.
  destruct (ordinary l) eqn:O.
  - left. apply stamp_ordinary; assumption.
  - right. destruct l as [t p|]; [|discriminate]. cbn [ordinary] in O.
    apply negb_false_iff in O. unfold stamp, build, new_message. cbn [m_typ]. rewrite O.
    assumption.
Qed.

Lemma later_frames_negotiated_ka_l : forall cfg cmax k1 k2 r1 r2 ls, conforming cfg = true ->
  let s := session_ka cfg cmax k1 k2 r1 r2 ls in
  Forall (fun f => m_ver f = n_version (fst s) \/ is_neg_type (m_typ f) = true) (snd s).
Proof.
  intros cfg cmax k1 k2 r1 r2 ls C. unfold session_ka. cbn [fst snd].
  destruct (n_outcome _); [|constructor]. apply write_later_ok. assumption.
Qed.

(* at whatever position of the later traffic an acknowledgement falls — first frame after
   negotiation, between requests, last — it carries the negotiated version; every configuration *)
Lemma later_acks_everywhere : forall cfg v ls i, nth_error ls i = Some Ack ->
  nth_error (write_later cfg v ls) i = Some (mkMsg v MsgKeepAliveAck []).
Proof.
  intros. unfold write_later. erewrite map_nth_error by eassumption.
  cbn [build]. rewrite ack_stamped. reflexivity.
Qed.

(* ---- all subsequent traffic ---- *)
Lemma post_version_invariant : forall cfg evs s,
  p_ver (fold_left (post_step cfg) evs s) = p_ver s.
Proof.
  intros cfg evs. induction evs as [|e evs IH]; intro s; [reflexivity|].
  cbn [fold_left]. rewrite IH. destruct e; reflexivity.
Qed.

Lemma post_out_ok : forall cfg evs s v, conforming cfg = true -> p_ver s = v ->
  Forall (fun f => m_ver f = v \/ is_neg_type (m_typ f) = true) (p_out s) ->
  Forall (fun f => m_ver f = v \/ is_neg_type (m_typ f) = true) (p_out (fold_left (post_step cfg) evs s)).
Proof.
  intros cfg evs. induction evs as [|e evs IH]; intros s v C V F; [exact F|].
  cbn [fold_left]. apply IH; try assumption.
  - destruct e; cbn [post_step p_ver]; assumption.
  - destruct e as [t p| |]; cbn [post_step p_out]; try assumption.
    + apply Forall_app. split; [assumption|]. constructor; [|constructor].
      rewrite V. destruct (is_neg_type t) eqn:T.
      * right. unfold stamp, new_message. cbn [m_typ]. rewrite T. exact T.
      * left. apply (stamp_ordinary cfg v (Request t p) C). cbn [ordinary]. rewrite T. reflexivity.
    + apply Forall_app. split; [assumption|]. constructor; [|constructor].
      left. rewrite V. apply (ack_negotiated cfg v).
Qed.

Lemma post_traffic_negotiated_l : forall cfg cmax k1 k2 r1 r2 evs, conforming cfg = true ->
  let s := session_post cfg cmax k1 k2 r1 r2 evs in
  p_ver (snd s) = n_version (fst s) /\
  Forall (fun f => m_ver f = n_version (fst s) \/ is_neg_type (m_typ f) = true) (p_out (snd s)).
Proof.
  intros cfg cmax k1 k2 r1 r2 evs C. unfold session_post. cbn [fst snd].
  destruct (n_outcome _).
  - unfold post_run. split.
    + apply post_version_invariant.
    + apply post_out_ok with (v := n_version (negotiate_ka cfg cmax k1 k2 r1 r2)); try assumption; try reflexivity.
      constructor.
  - split; [reflexivity|constructor].
Qed.

(* answers are invisible on the wire and leave the version alone, whatever they are *)
Lemma post_answer_neutral : forall cfg s a, post_step cfg s (PAnswer a) = s.
Proof. reflexivity. Qed.

(* acknowledgements carry the current version at every position, under every configuration *)
Lemma post_acks_ok : forall cfg evs s v, p_ver s = v ->
  Forall (fun f => m_typ f = MsgKeepAliveAck -> m_ver f = v) (p_out s) ->
  (forall t p, In (PRequest t p) evs -> t <> MsgKeepAliveAck) ->
  Forall (fun f => m_typ f = MsgKeepAliveAck -> m_ver f = v) (p_out (fold_left (post_step cfg) evs s)).
Proof.
  intros cfg evs. induction evs as [|e evs IH]; intros s v V F N; [exact F|].
  cbn [fold_left]. apply IH.
  - destruct e; cbn [post_step p_ver]; assumption.
  - destruct e as [t p| |]; cbn [post_step p_out]; try assumption.
    + apply Forall_app. split; [assumption|]. constructor; [|constructor].
      intro T. rewrite stamp_typ in T. cbn [new_message m_typ] in T.
      exfalso. apply (N t p); [left; reflexivity|exact T].
    + apply Forall_app. split; [assumption|]. constructor; [|constructor].
      intros _. rewrite V. apply ack_negotiated.
  - intros t p H. apply (N t p). right. exact H.
Qed.
