(* C12 — lemmas about Client/Status.v *)
From Coq Require Import NArith List Bool Lia.
From LLRP Require Import Client.Status.
Import ListNotations.
Open Scope N_scope.

(* ---- status_err --------------------------------------------------------------------------- *)

Lemma status_err_none_iff : forall s, status_err s = None <-> st_code s = 0.
Proof.
  intros s. unfold status_err, StatusSuccess.
  destruct (N.eqb_spec (st_code s) 0) as [E|E]; split; intros H; try reflexivity; try assumption;
    try discriminate; contradiction.
Qed.

Lemma status_err_some : forall s, st_code s <> 0 ->
  status_err s = Some (EStatus (st_code s) (st_desc s) (st_field s) (st_param s)).
Proof.
  intros s H. unfold status_err, StatusSuccess.
  destruct (N.eqb_spec (st_code s) 0) as [E|E]; [contradiction|reflexivity].
Qed.

Lemma wrap_errmsg_status : forall s, st_code s <> 0 ->
  wrap_errmsg (status_err s) = EStatus (st_code s) (st_desc s) (st_field s) (st_param s).
Proof. intros s H. rewrite (status_err_some s H). reflexivity. Qed.

(* ---- the three branches ------------------------------------------------------------------- *)

Lemma sfo_expected : forall e d,
  send_for_outcome e e d =
  match d e with
  | DecFail => mkOutcome (Some (EOther KUnmarshal)) RespPartial
  | DecPlain => mkOutcome None (RespDecoded None)
  | DecStatus s => mkOutcome (status_err s) (RespDecoded (Some s))
  end.
Proof. intros e d. unfold send_for_outcome. rewrite N.eqb_refl. reflexivity. Qed.

Lemma sfo_errmsg : forall e d, e <> MsgErrorMessage ->
  send_for_outcome e MsgErrorMessage d =
  match d MsgErrorMessage with
  | DecFail => mkOutcome (Some (EOther KErrMsgUnmarshal)) RespUntouched
  | DecPlain => mkOutcome (Some (EOther KErrMsgNoStatus)) RespUntouched
  | DecStatus s => mkOutcome (Some (wrap_errmsg (status_err s))) RespUntouched
  end.
Proof.
  intros e d H. unfold send_for_outcome.
  destruct (N.eqb_spec MsgErrorMessage e) as [E|E]; [congruence|].
  rewrite N.eqb_refl. reflexivity.
Qed.

Lemma sfo_other : forall e r d, r <> e -> r <> MsgErrorMessage ->
  send_for_outcome e r d = mkOutcome (Some (EOther KMismatch)) RespUntouched.
Proof.
  intros e r d H1 H2. unfold send_for_outcome.
  destruct (N.eqb_spec r e) as [E|E]; [contradiction|].
  destruct (N.eqb_spec r MsgErrorMessage) as [E'|E']; [contradiction|reflexivity].
Qed.

(* ---- success characterisation ------------------------------------------------------------- *)

(* complete characterisation, for arbitrary decode behaviour *)
Lemma success_iff_general : forall e r d,
  out_err (send_for_outcome e r d) = None <->
  r = e /\ (d e = DecPlain \/ exists s, d e = DecStatus s /\ st_code s = 0).
Proof.
  intros e r d. split.
  - intros H. destruct (N.eq_dec r e) as [E|E].
    + subst r. split; [reflexivity|]. rewrite sfo_expected in H.
      destruct (d e) as [| |s]; cbn in H.
      * discriminate.
      * left; reflexivity.
      * right. exists s. split; [reflexivity|]. apply status_err_none_iff. exact H.
    + exfalso. unfold send_for_outcome in H.
      destruct (N.eqb_spec r e) as [E1|E1]; [contradiction|].
      destruct (r =? MsgErrorMessage).
      * destruct (d MsgErrorMessage); cbn in H; discriminate.
      * cbn in H. discriminate.
  - intros [E H]. subst r. rewrite sfo_expected. destruct H as [H|[s [H1 H2]]].
    + rewrite H. reflexivity.
    + rewrite H1. cbn. apply status_err_none_iff. exact H2.
Qed.

(* the reply decodes and the expected type carries a status (the property's setting) *)
Lemma success_iff_expected_and_status0 : forall e r d s,
  d e = DecStatus s ->
  (out_err (send_for_outcome e r d) = None <-> r = e /\ st_code s = 0).
Proof.
  intros e r d s Hd. rewrite success_iff_general. split.
  - intros [E [H|[s' [H1 H2]]]]; [congruence|]. split; [exact E|]. congruence.
  - intros [E H]. split; [exact E|]. right. exists s. split; assumption.
Qed.

(* ---- non-success status is exposed -------------------------------------------------------- *)

Lemma error_exposes_status_expected : forall e d s,
  d e = DecStatus s -> st_code s <> 0 ->
  out_err (send_for_outcome e e d) =
    Some (EStatus (st_code s) (st_desc s) (st_field s) (st_param s)).
Proof. intros e d s Hd Hc. rewrite sfo_expected, Hd. cbn. apply status_err_some. exact Hc. Qed.

Lemma error_exposes_status_errmsg : forall e d s,
  e <> MsgErrorMessage -> d MsgErrorMessage = DecStatus s -> st_code s <> 0 ->
  out_err (send_for_outcome e MsgErrorMessage d) =
    Some (EStatus (st_code s) (st_desc s) (st_field s) (st_param s)).
Proof.
  intros e d s He Hd Hc. rewrite (sfo_errmsg e d He), Hd. cbn.
  rewrite (wrap_errmsg_status s Hc). reflexivity.
Qed.

(* both cases in one statement: r is the expected type or ErrorMessage, and [d r] is what the
   branch taken decodes *)
Lemma error_exposes_status : forall e r d s,
  r = e \/ r = MsgErrorMessage ->
  d r = DecStatus s -> st_code s <> 0 ->
  out_err (send_for_outcome e r d) =
    Some (EStatus (st_code s) (st_desc s) (st_field s) (st_param s)).
Proof.
  intros e r d s Hr Hd Hc. destruct (N.eq_dec r e) as [E|E].
  - subst r. apply error_exposes_status_expected; assumption.
  - destruct Hr as [Hr|Hr]; [contradiction|]. subst r.
    apply error_exposes_status_errmsg; try assumption. congruence.
Qed.

(* ---- ErrorMessage replies ----------------------------------------------------------------- *)

Lemma error_message_is_error : forall e d, e <> MsgErrorMessage ->
  out_err (send_for_outcome e MsgErrorMessage d) <> None /\
  out_resp (send_for_outcome e MsgErrorMessage d) = RespUntouched.
Proof.
  intros e d He. rewrite (sfo_errmsg e d He).
  destruct (d MsgErrorMessage); cbn; split; try reflexivity; discriminate.
Qed.

(* when the caller itself expects an ErrorMessage, the first branch wins: non-zero status is
   still an error *)
Lemma error_message_expected_nonzero : forall d s,
  d MsgErrorMessage = DecStatus s -> st_code s <> 0 ->
  out_err (send_for_outcome MsgErrorMessage MsgErrorMessage d) <> None.
Proof.
  intros d s Hd Hc. rewrite (error_exposes_status_expected _ d s Hd Hc). discriminate.
Qed.

(* ---- other reply types -------------------------------------------------------------------- *)

Lemma other_type_not_decoded : forall e r d d',
  r <> e -> r <> MsgErrorMessage ->
  send_for_outcome e r d = send_for_outcome e r d' /\
  out_resp (send_for_outcome e r d) = RespUntouched /\
  out_err (send_for_outcome e r d) <> None.
Proof.
  intros e r d d' H1 H2. rewrite (sfo_other e r d H1 H2), (sfo_other e r d' H1 H2).
  cbn. repeat split. discriminate.
Qed.

(* ---- nested detail: the flat view loses nothing ------------------------------------------- *)

Fixpoint param_error_ind' (P : param_error -> Prop)
  (Hleaf : forall t c fe, P (ParamErr t c None fe))
  (Hnode : forall t c q fe, P q -> P (ParamErr t c (Some q) fe))
  (p : param_error) : P p :=
  match p with
  | ParamErr t c None fe => Hleaf t c fe
  | ParamErr t c (Some q) fe => Hnode t c q fe (param_error_ind' P Hleaf Hnode q)
  end.

Lemma flatten_pe_nonnil : forall p, flatten_pe p <> [].
Proof. intros [t c pe fe]. cbn. discriminate. Qed.

Lemma unflatten_flatten : forall p, unflatten_pe (flatten_pe p) = Some p.
Proof.
  induction p using param_error_ind'.
  - reflexivity.
  - cbn [flatten_pe unflatten_pe]. rewrite IHp. reflexivity.
Qed.

Lemma unflatten_flatten_opt : forall o, unflatten_pe (flatten_ope o) = o.
Proof. intros [p|]; [apply unflatten_flatten|reflexivity]. Qed.

Lemma flatten_ope_inj : forall a b, flatten_ope a = flatten_ope b -> a = b.
Proof.
  intros a b H. rewrite <- (unflatten_flatten_opt a), <- (unflatten_flatten_opt b), H. reflexivity.
Qed.

Lemma flatten_length_depth : forall p, length (flatten_pe p) = pe_depth p.
Proof.
  induction p using param_error_ind'.
  - reflexivity.
  - cbn [flatten_pe pe_depth length]. rewrite IHp. reflexivity.
Qed.

(* every level of the nested chain, at every depth k, is the level the reader sent *)
Lemma error_exposes_every_level : forall e r d s k,
  r = e \/ r = MsgErrorMessage ->
  d r = DecStatus s -> st_code s <> 0 ->
  exists c ds fe pe,
    out_err (send_for_outcome e r d) = Some (EStatus c ds fe pe) /\
    c = st_code s /\ ds = st_desc s /\ fe = st_field s /\
    nth_error (flatten_ope pe) k = nth_error (flatten_ope (st_param s)) k.
Proof.
  intros e r d s k Hr Hd Hc.
  exists (st_code s), (st_desc s), (st_field s), (st_param s).
  rewrite (error_exposes_status e r d s Hr Hd Hc). repeat split.
Qed.

(* well-formed replies: decoded_wf on the status-bearing types *)
Lemma decoded_wf_status : forall s t, is_status_type t = true -> decoded_wf s t = DecStatus s.
Proof. intros s t H. unfold decoded_wf. rewrite H. reflexivity. Qed.

Lemma errmsg_is_status_type : is_status_type MsgErrorMessage = true.
Proof. vm_compute. reflexivity. Qed.

(* ---- rendering ---------------------------------------------------------------------------- *)

Lemma default_text_total : forall c, ref_in_table (default_text_ref c) = true.
Proof.
  intros c. unfold default_text_ref, in_range, StatusSuccess.
  destruct (c =? 0); [reflexivity|].
  destruct ((100 <=? c) && (c <=? 112)) eqn:E1.
  { apply andb_prop in E1. destruct E1 as [A B]. apply N.leb_le in A, B. cbn. apply N.ltb_lt. lia. }
  destruct ((200 <=? c) && (c <=? 209)) eqn:E2.
  { apply andb_prop in E2. destruct E2 as [A B]. apply N.leb_le in A, B. cbn. apply N.ltb_lt. lia. }
  destruct ((300 <=? c) && (c <=? 301)) eqn:E3.
  { apply andb_prop in E3. destruct E3 as [A B]. apply N.leb_le in A, B. cbn. apply N.ltb_lt. lia. }
  destruct ((401 <=? c) && (c <=? 401)) eqn:E4.
  { apply andb_prop in E4. destruct E4 as [A B]. apply N.leb_le in A, B. cbn. apply N.ltb_lt. lia. }
  reflexivity.
Qed.

(* the piece of text chosen identifies the code: different codes never share a table entry *)
Definition code_of_ref (r : text_ref) : N :=
  match r with
  | TSuccess => 0 | TMsg i => 100 + i | TParam i => 200 + i | TField i => 300 + i
  | TDevice i => 401 + i | TUnknown c => c
  end.

Lemma code_of_default_text_ref : forall c, code_of_ref (default_text_ref c) = c.
Proof.
  intros c. unfold default_text_ref, in_range, StatusSuccess.
  destruct (N.eqb_spec c 0) as [E|E]; [subst; reflexivity|].
  destruct ((100 <=? c) && (c <=? 112)) eqn:E1.
  { apply andb_prop in E1. destruct E1 as [A B]. apply N.leb_le in A. cbn [code_of_ref]. lia. }
  destruct ((200 <=? c) && (c <=? 209)) eqn:E2.
  { apply andb_prop in E2. destruct E2 as [A B]. apply N.leb_le in A. cbn [code_of_ref]. lia. }
  destruct ((300 <=? c) && (c <=? 301)) eqn:E3.
  { apply andb_prop in E3. destruct E3 as [A B]. apply N.leb_le in A. cbn [code_of_ref]. lia. }
  destruct ((401 <=? c) && (c <=? 401)) eqn:E4.
  { apply andb_prop in E4. destruct E4 as [A B]. apply N.leb_le in A. cbn [code_of_ref]. lia. }
  reflexivity.
Qed.

Lemma default_text_ref_inj : forall c c', default_text_ref c = default_text_ref c' -> c = c'.
Proof.
  intros c c' H. rewrite <- (code_of_default_text_ref c), <- (code_of_default_text_ref c'), H. reflexivity.
Qed.
