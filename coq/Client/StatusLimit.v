(* C12 — how a reply's payload gets from the connection to SendFor (pkg/llrp/reader.go passToHandler,
   pkg/llrp/messages.go Message.data), with the two size checks on the way:

     passToHandler:  if hdr.payloadLen > MaxBufferedPayloadSz { replyChan <- Message{Header: hdr} }          (no payload)
                     else { buf := make([]byte, hdr.payloadLen); io.ReadFull(conn, buf); replyChan <- Message{hdr, buf} }
     Message.data:   if m.payloadLen > MaxBufferedPayloadSz { return nil, error }
                     if m.payload == nil { return nil, nil }            (a header-only message: empty payload)
                     return m.payload.Bytes(), nil

   Both checks use the same constant; the model keeps the two thresholds apart so that their agreement is a
   stated fact rather than an accident.  Model only; proofs in StatusLimitProofs.v. *)
From Coq Require Import NArith List Bool.
Import ListNotations.
Open Scope N_scope.

(* what the read loop hands to the waiting sender: the buffered payload, or nothing *)
(* [declared] = hdr.payloadLen, the payload length announced by the frame's header *)
Definition hand_over (lim_loop : N) (declared : N) (payload : list N) : option (list N) :=
  if declared <=? lim_loop then Some payload else None.

Inductive data_result :=
| DBytes (b : list N)     (* SendMessage returns (type, b, nil) *)
| DTooLarge.              (* SendMessage returns an error *)

Definition message_data (lim_data : N) (declared : N) (handed : option (list N)) : data_result :=
  if lim_data <? declared then DTooLarge
  else match handed with None => DBytes [] | Some b => DBytes b end.

(* a reply that arrived completely: what SendFor gets to decode *)
Definition reply_bytes (lim_loop lim_data : N) (declared : N) (payload : list N) : data_result :=
  message_data lim_data declared (hand_over lim_loop declared payload).

Definition MaxBufferedPayloadSz : N := 655360.
