(* C12 — which message ids go on the wire (pkg/llrp/reader.go, handleOutgoing):

       if msg.id == 0 { msg.id = nextMsgID; nextMsgID++ }

   One counter, owned by the write loop, numbers every message the Client originates — requests that
   await a reply (SendFor / SendMessage / the Client's own negotiation exchanges) and fire-and-forget
   messages (SendNoWait) alike; KeepAliveAcks echo the reader's id and do not consume a number.
   The reader answers a message by echoing its id.  StatusExchange.v takes the ids as given; this file
   derives them from the order of writes, so that "the reader's answer to the j-th message it received"
   can be stated without mentioning ids.  Model only; proofs in StatusWireProofs.v. *)
From Coq Require Import NArith List Bool.
From LLRP Require Import Client.Status Client.StatusExchange.
Import ListNotations.
Open Scope N_scope.

Inductive wevent :=
| WRequest (e : N)        (* a request awaiting a reply of type e is numbered and written *)
| WNoWait                 (* a SendNoWait message is numbered and written; nobody waits for an answer *)
| WAbandon (id : N)       (* the caller of the request that went out with this id stops waiting *)
| WNegotiated (v : N)
| WFrame (f : frame).     (* the reader sends a frame (an answer echoes the id of the message it answers) *)

(* [number n evs]: the events of StatusExchange.v when the next message gets id n *)
Fixpoint number (n : N) (evs : list wevent) : list xevent :=
  match evs with
  | [] => []
  | WRequest e :: r => XSend n e :: number (n + 1) r
  | WNoWait :: r => number (n + 1) r
  | WAbandon id :: r => XAbandon id :: number n r
  | WNegotiated v :: r => XNegotiated v :: number n r
  | WFrame f :: r => XRecv f :: number n r
  end.

(* how many messages the events write *)
Fixpoint written (evs : list wevent) : N :=
  match evs with
  | [] => 0
  | WRequest _ :: r | WNoWait :: r => 1 + written r
  | _ :: r => written r
  end.

(* [wquiet id ev]: ev neither abandons request id nor is a reply candidate for it *)
Definition wquiet (id : N) (ev : wevent) : Prop :=
  match ev with
  | WAbandon i => i <> id
  | WFrame g => reader_initiated (fr_type g) = true \/ fr_id g <> id
  | _ => True
  end.

Definition wresults (v n0 : N) (evs : list wevent) : list (N * xresult) := xresults v (number n0 evs).
