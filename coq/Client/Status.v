(* C12 — model of how Client.SendFor (pkg/llrp/reader.go) turns the reply to a request into
   (error, effect on the caller's response value), and of LLRPStatus.Err (pkg/llrp/params.go).
   Model only; proofs are in StatusProofs.v. *)
From Coq Require Import NArith List Bool.
Import ListNotations.
Open Scope N_scope.

(* ---- generated_structs.go: LLRPStatus / FieldError / ParameterError ---------------------- *)

(* type FieldError struct { FieldIndex uint16; ErrorCode StatusCode } *)
Inductive field_error := FieldErr (idx code : N).

(* type ParameterError struct { ParameterType ParamType; ErrorCode StatusCode;
                                ParameterError *ParameterError; FieldError *FieldError }
   — recursive through the (nil-able) pointer, like the Go struct *)
Inductive param_error := ParamErr (ptype code : N) (pe : option param_error) (fe : option field_error).

(* type LLRPStatus struct { Status StatusCode; ErrorDescription string;
                            FieldError *FieldError; ParameterError *ParameterError }
   the description is a Go string, i.e. an arbitrary byte sequence *)
Record status := mkStatus {
  st_code : N;
  st_desc : list N;
  st_field : option field_error;
  st_param : option param_error }.

Definition StatusSuccess : N := 0.
Definition MsgErrorMessage : N := 100.

(* ---- what a caller can observe about the returned error ----------------------------------- *)

Inductive other_kind :=
| KUnmarshal         (* "failed to unmarshal <type> ..." *)
| KErrMsgUnmarshal   (* ErrorMessage reply that itself fails to unmarshal *)
| KErrMsgNoStatus    (* fmt.Errorf("...: %w", nil): ErrorMessage whose status is Success *)
| KMismatch.         (* "expected message response X, but got Y" *)

(* EStatus: errors.As(err, **StatusError) succeeds and the *StatusError has these fields.
   EOther: a non-nil error from which no *StatusError can be extracted. *)
Inductive error_view :=
| EStatus (code : N) (desc : list N) (fe : option field_error) (pe : option param_error)
| EOther (k : other_kind).

(* func (ls *LLRPStatus) Err() error {
     if ls.Status == StatusSuccess { return nil }
     se := StatusError( *ls); return &se }            — a copy of all four fields *)
Definition status_err (s : status) : option error_view :=
  if st_code s =? StatusSuccess then None
  else Some (EStatus (st_code s) (st_desc s) (st_field s) (st_param s)).

(* fmt.Errorf("expected message response %v, but got an error message: %w", expT, e):
   always non-nil; errors.As reaches a wrapped *StatusError iff e is one *)
Definition wrap_errmsg (e : option error_view) : error_view :=
  match e with
  | Some (EStatus c d f p) => EStatus c d f p
  | _ => EOther KErrMsgNoStatus
  end.

(* ---- the decision SendFor makes once SendMessage has returned (respT, respV) -------------- *)

(* result of <T>.UnmarshalBinary(respV) for a message type T *)
Inductive decode_result :=
| DecFail                  (* UnmarshalBinary returned an error *)
| DecPlain                 (* decoded; T is not Statusable *)
| DecStatus (s : status).  (* decoded; T is Statusable and Status() returns s *)

(* what happened to the value the caller passed as `in` *)
Inductive resp_effect :=
| RespUntouched                     (* in.UnmarshalBinary never called *)
| RespDecoded (s : option status)   (* fully decoded; its status if it has one *)
| RespPartial.                      (* UnmarshalBinary called and failed *)

Record outcome := mkOutcome { out_err : option error_view; out_resp : resp_effect }.

(* [decoded t] = the result of decoding the reply payload as message type t.
   Branch order is that of the Go switch: `case expT` first, then `case MsgErrorMessage`,
   then `default`. *)
Definition send_for_outcome (expT respT : N) (decoded : N -> decode_result) : outcome :=
  if respT =? expT then
    match decoded expT with
    | DecFail => mkOutcome (Some (EOther KUnmarshal)) RespPartial
    | DecPlain => mkOutcome None (RespDecoded None)
    | DecStatus s => mkOutcome (status_err s) (RespDecoded (Some s))
    end
  else if respT =? MsgErrorMessage then
    match decoded MsgErrorMessage with
    | DecFail => mkOutcome (Some (EOther KErrMsgUnmarshal)) RespUntouched
    | DecPlain => mkOutcome (Some (EOther KErrMsgNoStatus)) RespUntouched
    | DecStatus s => mkOutcome (Some (wrap_errmsg (status_err s))) RespUntouched
    end
  else mkOutcome (Some (EOther KMismatch)) RespUntouched.

(* ---- message types whose struct has a Status() method (generated_structs.go) -------------- *)
Definition status_types : list N :=
  [4; 11; 12; 13; 30; 31; 32; 33; 34; 35; 36; 50; 51; 52; 53; 54; 56; 57; 100].

Definition is_status_type (t : N) : bool := existsb (N.eqb t) status_types.

(* the decode function of a well-formed reply whose LLRPStatus parameter is s *)
Definition decoded_wf (s : status) (t : N) : decode_result :=
  if is_status_type t then DecStatus s else DecPlain.

(* ---- flat view of the nested detail, used to compare with Go ------------------------------ *)
(* one entry per ParameterError level, outermost first *)
Fixpoint flatten_pe (p : param_error) : list (N * N * option field_error) :=
  match p with
  | ParamErr t c pe fe => (t, c, fe) :: match pe with Some q => flatten_pe q | None => [] end
  end.

Definition flatten_ope (p : option param_error) : list (N * N * option field_error) :=
  match p with Some q => flatten_pe q | None => [] end.

Fixpoint pe_depth (p : param_error) : nat :=
  match p with
  | ParamErr _ _ pe _ => S (match pe with Some q => pe_depth q | None => O end)
  end.

(* builds the chain back from a flat list (innermost last) *)
Fixpoint unflatten_pe (l : list (N * N * option field_error)) : option param_error :=
  match l with
  | [] => None
  | (t, c, fe) :: r => Some (ParamErr t c (unflatten_pe r) fe)
  end.

(* ---- rendering of a status code (params.go: StatusCode.defaultText, used by StatusError.Error,
        FieldError.Error, ParameterError.Error) -------------------------------------------------
   defaultText picks a text table by the class helpers isMsgStatus .. isDeviceStatus and indexes
   it with (code - first code of the class). An index outside the table is a Go run-time panic;
   the model makes the index explicit so that "rendering is total" can be stated. What fmt and
   string concatenation do with the pieces is not modelled (see notes/C12.md). *)
Inductive text_ref :=
| TSuccess                 (* "success" *)
| TMsg (i : N)             (* statusMsgErrs[i],    13 entries: codes 100..112 *)
| TParam (i : N)           (* statusParamErrs[i],  10 entries: codes 200..209 *)
| TField (i : N)           (* statusFieldErrs[i],   2 entries: codes 300..301 *)
| TDevice (i : N)          (* statusDeviceErrs[i],  1 entry:   code  401      *)
| TUnknown (c : N).        (* "unknown LLRP status code " + decimal c *)

Definition in_range (lo hi c : N) : bool := (lo <=? c) && (c <=? hi).

Definition default_text_ref (c : N) : text_ref :=
  if c =? StatusSuccess then TSuccess
  else if in_range 100 112 c then TMsg (c - 100)
  else if in_range 200 209 c then TParam (c - 200)
  else if in_range 300 301 c then TField (c - 300)
  else if in_range 401 401 c then TDevice (c - 401)
  else TUnknown c.

(* the table access does not go out of range (= no index panic) *)
Definition ref_in_table (r : text_ref) : bool :=
  match r with
  | TMsg i => i <? 13
  | TParam i => i <? 10
  | TField i => i <? 2
  | TDevice i => i <? 1
  | TSuccess | TUnknown _ => true
  end.
