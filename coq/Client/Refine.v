(* Client/Refine.v — the LTS's atomic [RFrame] (Client/Model.v) is a sound abstraction of the
   byte-level read loop (Client/Stream.v).

   Two models of the client's read side exist, each tied to the Go code by its own checks:
     Stream.v  read_loop over a byte list: header decode, dispatch, buffering, what a handler
               consumes, drain (C04, C10);
     Model.v   event [RFrame f h] consumes one abstract frame (type, id, length, payload tag):
               lookup+delete in [awaiting], delivery to the caller, handler record, ackHandler
               enqueueing; [PeerEOF pos] (C03, C05, C07, C08, C09).
   This file relates them:
     abs          byte-level frame (header fields + payload bytes) -> abstract frame
     cfg_of       LTS configuration -> byte-level configuration (handler table, default handler,
                  never-reply types = filter_unsolicited)
     rel          awaiting ids of the byte model = keys of the LTS's awaiting map;
                  receivedClosed = saw_close
     view_*       dispatch record -> the entries the LTS appends to delivered / handled
   Results: [refine_frame] (one frame: read_iter vs one RFrame step), [refine_frames]
   (any number of frames, by induction, RFrame;RCheck per frame), [read_loop_refines_lts] (the
   records the byte loop produces for concat(map frame_bytes fs) ++ rest, read off its result,
   are exactly what the LTS appends), [refine_eof_*] (how each way of ending the stream
   corresponds to PeerEOF, including every way a frame can be cut short).

   The byte model is instantiated with maxbuf = max_buffered (the LTS has the constant built
   in), e_register = [] (registrations are LTS events WAccept between frames; the relation
   [rel] is re-established from the LTS state at each frame) and e_close_sent = close_sent s (the
   LTS's counterpart of c.sentClose; constant along a run of read-side events).
   History: a first version of this file proved two DISAGREEMENTS between the models (a frame cut
   short on a handler path after receivedClosed; an unsolicited CloseConnectionResponse); Model.v
   was then repaired by its owner (close_sent, eof_after_dispatch) and both inputs are now
   agreement examples ([agree_*] at the end). *)
From Coq Require Import NArith Arith List Bool Lia ZifyN ZifyNat ZifyBool.
From LLRP Require Client.Stream Client.StreamProofs.
From LLRP Require Import Client.Types Client.Model Client.InvCore.
Import ListNotations.
Open Scope N_scope.

Module S := LLRP.Client.Stream.
Module SP := LLRP.Client.StreamProofs.

Section Refine.
(* payload bytes -> the LTS's content tag and "what the client sees inside": arbitrary *)
Variable tag : list N -> N.
Variable info_of : N -> list N -> info.
Variable cfg : config.

(* ------------------------------------------------------------------ abstraction *)
Definition abs (f : S.frame) : frame :=
  mkFrame (S.f_ver f) (S.f_typ f) (S.f_id f) (S.len (S.f_payload f)) (tag (S.f_payload f))
          (info_of (S.f_typ f) (S.f_payload f)).

Definition cfg_of : S.config :=
  S.mkConfig (fun t => match typed_handler cfg t with Some _ => true | None => false end)
             (default_handler cfg)
             (fun t => negb (consults cfg t)).

Definition abs_hb (b : S.hbeh) (n : N) : hb :=
  match b with
  | S.HPanic _ _ => HBPanic
  | S.HRead k => if k =? 0 then HBNone else if n <=? k then HBAll else HBPart k
  end.

Definition is_some {A} (o : option A) : bool := match o with Some _ => true | None => false end.

Record rel (st : S.state) (s : state) : Prop := mkRel {
  rel_aw : forall i, S.mem i (S.s_aw st) = is_some (lookup i (awaiting s));
  rel_close : S.s_closed_seen st = saw_close s }.

(* the environment of the byte model that corresponds to a pure read-side LTS step *)
Definition env_of (b : S.hbeh) (cs : bool) : S.env_step := S.mkEnv [] b cs.

(* ------------------------------------------------------------------ views of a dispatch record *)
Definition kind_of (d : S.dispatch) : hkind :=
  match S.d_handler d with
  | Some c => match S.hc_who c with
              | S.TypeHandler =>
                  if ack_handler cfg && (S.h_typ (S.d_hdr d) =? T_KeepAlive) then HAck else HUser
              | S.DefaultHandler => HDefault
              end
  | None => HDiscard
  end.

Definition view_handled (seq : nat) (f : S.frame) (b : S.hbeh) (d : S.dispatch) : hrec :=
  mkHrec seq (abs f) (kind_of d) (abs_hb b (S.len (S.f_payload f))) (is_some (S.d_reply d)).

Definition view_delivered (aw : list (N * N)) (seq : nat) (f : S.frame) (d : S.dispatch)
  : list (N * nat * frame) :=
  match S.d_reply d, lookup (S.f_id f) aw with
  | Some _, Some c => [(c, seq, abs f)]
  | _, _ => []
  end.

Definition aw_after (aw : list (N * N)) (f : S.frame) (d : S.dispatch) : list (N * N) :=
  match S.d_reply d with Some _ => remove (S.f_id f) aw | None => aw end.

(* ------------------------------------------------------------------ small facts *)
Lemma mem_remove_other : forall i j l, i <> j -> S.mem i (S.remove j l) = S.mem i l.
Proof.
  intros i j l Hij. unfold S.mem, S.remove. induction l as [|x l IH]; cbn [filter existsb]; auto.
  destruct (N.eqb_spec x j) as [->|Hx]; cbn [negb existsb].
  - rewrite IH. destruct (N.eqb_spec i j); [contradiction|reflexivity].
  - rewrite IH. reflexivity.
Qed.

Lemma mem_remove_same : forall i l, S.mem i (S.remove i l) = false.
Proof.
  intros i l. unfold S.mem, S.remove. induction l as [|x l IH]; cbn [filter existsb]; auto.
  destruct (N.eqb_spec x i) as [->|Hx]; cbn [negb existsb]; auto.
  rewrite IH. destruct (N.eqb_spec i x); [subst; contradiction|reflexivity].
Qed.

Lemma lookup_remove_other : forall A i j (m : list (N * A)), i <> j -> lookup i (remove j m) = lookup i m.
Proof.
  intros A i j m Hij. induction m as [|[k v] m IH]; cbn [remove lookup]; auto.
  destruct (N.eqb_spec j k) as [->|Hjk].
  - rewrite IH. destruct (N.eqb_spec i k); [contradiction|reflexivity].
  - cbn [lookup]. rewrite IH. reflexivity.
Qed.

Lemma lookup_remove_same : forall A i (m : list (N * A)), lookup i (remove i m) = None.
Proof.
  intros A i m. induction m as [|[k v] m IH]; cbn [remove lookup]; auto.
  destruct (N.eqb_spec i k) as [->|Hik]; auto.
  cbn [lookup]. destruct (N.eqb_spec i k); [contradiction|assumption].
Qed.

Lemma pick_handler_cfg_of : forall t,
  S.pick_handler cfg_of t =
  match handler_for cfg t with
  | HAck | HUser => Some S.TypeHandler
  | HDefault => Some S.DefaultHandler
  | HDiscard => None
  end.
Proof.
  intro t. unfold S.pick_handler, cfg_of, handler_for. cbn [S.has_handler S.has_default].
  destruct (typed_handler cfg t) as [k|] eqn:Ht.
  - unfold typed_handler in Ht. destruct (ack_handler cfg && (t =? T_KeepAlive)).
    + inversion Ht. reflexivity.
    + destruct (existsb (N.eqb t) (user_handlers cfg)); inversion Ht. reflexivity.
  - destruct (default_handler cfg); reflexivity.
Qed.

Lemma typed_handler_ack : forall t k, typed_handler cfg t = Some k ->
  k = if ack_handler cfg && (t =? T_KeepAlive) then HAck else HUser.
Proof.
  intros t k. unfold typed_handler. destruct (ack_handler cfg && (t =? T_KeepAlive)).
  - intro H; inversion H; reflexivity.
  - destruct (existsb (N.eqb t) (user_handlers cfg)); intro H; inversion H; reflexivity.
Qed.

(* the kind the LTS records is the kind read off the byte-level dispatch record *)
Lemma kind_of_expected : forall aw b cs f,
  kind_of (SP.expected_dispatch max_buffered cfg_of aw (env_of b cs) f) = handler_for cfg (S.f_typ f).
Proof.
  intros aw b cs f. unfold kind_of, SP.expected_dispatch. cbn [S.d_handler S.d_hdr S.frame_header S.h_typ].
  rewrite pick_handler_cfg_of. unfold handler_for.
  destruct (typed_handler cfg (S.f_typ f)) as [k|] eqn:Ht.
  - apply typed_handler_ack in Ht. subst k.
    destruct (ack_handler cfg && (S.f_typ f =? T_KeepAlive)); reflexivity.
  - destruct (default_handler cfg); reflexivity.
Qed.

Lemma awaited_expected : forall st s b cs f, rel st s ->
  SP.awaited cfg_of (S.s_aw st) (env_of b cs) f
  = consults cfg (S.f_typ f) && is_some (lookup (S.f_id f) (awaiting s)).
Proof.
  intros st s b cs f R. unfold SP.awaited, cfg_of, env_of. cbn [S.never_reply S.e_register S.register fold_left].
  rewrite negb_involutive. rewrite (rel_aw _ _ R). reflexivity.
Qed.

Lemma reply_expected : forall aw b cs f,
  is_some (S.d_reply (SP.expected_dispatch max_buffered cfg_of aw (env_of b cs) f))
  = SP.awaited cfg_of aw (env_of b cs) f.
Proof.
  intros. unfold SP.expected_dispatch. cbn [S.d_reply].
  destruct (SP.awaited cfg_of aw (env_of b cs) f); reflexivity.
Qed.

Lemma close_sent_same : forall s s', writer s' = writer s -> wire s' = wire s -> close_sent s' = close_sent s.
Proof. intros s s' H1 H2. unfold close_sent. rewrite H1, H2. reflexivity. Qed.

(* ------------------------------------------------------------------ one frame *)
(* the LTS step on the abstraction of f, described through the byte-level dispatch record d *)
Record frame_sim (s s' : state) (st st' : S.state) (f : S.frame) (b : S.hbeh) (d : S.dispatch) : Prop := mkSim {
  sim_peer : peer_sent s' = peer_sent s ++ [abs f];
  sim_deliv : delivered s' = delivered s ++ view_delivered (awaiting s) (length (peer_sent s)) f d;
  sim_handled : handled s' = handled s ++ [view_handled (length (peer_sent s)) f b d];
  sim_aw : awaiting s' = aw_after (awaiting s) f d;
  sim_ack : (kind_of d = HAck ->
               ka_log s' = ka_log s ++ [(S.f_id f, length (ackq s))] /\
               ackq s' = if Nat.ltb (length (ackq s)) ack_cap then ackq s ++ [S.f_id f] else ackq s) /\
            (kind_of d <> HAck -> ka_log s' = ka_log s /\ ackq s' = ackq s);
  sim_rel : rel st' s';
  sim_reader : reader s' = RTop;
  sim_same : closed s' = closed s /\ writer s' = writer s /\ out s' = out s /\ wire s' = wire s /\
             phase s' = phase s /\ errs s' = errs s /\ assigned s' = assigned s /\ next_id s' = next_id s
}.

Lemma note_close_awaiting : forall f s, awaiting (note_close_resp f s) = awaiting s.
Proof. intros. unfold note_close_resp. destruct (_ && _); reflexivity. Qed.
Lemma note_close_callers : forall f s, callers (note_close_resp f s) = callers s.
Proof. intros. unfold note_close_resp. destruct (_ && _); reflexivity. Qed.

(* what one RFrame step does, field by field (no byte model involved) *)
Definition lts_rep (s : state) (f : frame) : bool :=
  consults cfg (f_typ f) && is_some (lookup (f_id f) (awaiting s)).

Lemma step_rframe_spec : forall s f h, reader s = RRead -> core_inv cfg s ->
  let s' := step cfg s (RFrame f h) in
  let seq := length (peer_sent s) in
  let rep := lts_rep s f in
  let k := handler_for cfg (f_typ f) in
  peer_sent s' = peer_sent s ++ [f] /\
  delivered s' = delivered s ++ (if rep then match lookup (f_id f) (awaiting s) with
                                             | Some c => [(c, seq, f)] | None => [] end else []) /\
  handled s' = handled s ++ [mkHrec seq f k h rep] /\
  awaiting s' = (if rep then remove (f_id f) (awaiting s) else awaiting s) /\
  ka_log s' = (match k with HAck => ka_log s ++ [(f_id f, length (ackq s))] | _ => ka_log s end) /\
  ackq s' = (match k with
             | HAck => if Nat.ltb (length (ackq s)) ack_cap then ackq s ++ [f_id f] else ackq s
             | _ => ackq s end) /\
  saw_close s' = (saw_close s || ((f_typ f =? T_CloseConnectionResponse) && close_sent s)) /\
  reader s' = RTop /\
  (closed s' = closed s /\ writer s' = writer s /\ out s' = out s /\ wire s' = wire s /\
   phase s' = phase s /\ errs s' = errs s /\ assigned s' = assigned s /\ next_id s' = next_id s).
Proof.
  intros s f h Hrd CI. cbn [step]. unfold step_rframe, lts_rep. rewrite Hrd.
  unfold take_waiter, note_close_resp, run_handler, ack_enqueue, set_caller.
  replace (close_sent (set_peer_sent (peer_sent s ++ [f]) s)) with (close_sent s) by reflexivity.
  destruct ((f_typ f =? T_CloseConnectionResponse) && close_sent s) eqn:Hcl; st_simpl_goal;
  destruct (consults cfg (f_typ f)) eqn:Hcons; cbn [andb orb];
  try (destruct (lookup (f_id f) (awaiting s)) as [c|] eqn:Hl; cbn [is_some];
       [destruct (ci_await _ _ CI _ _ Hl) as [r Hc]; st_simpl_goal; rewrite Hc|]);
  destruct (handler_for cfg (f_typ f)) eqn:Hk; unfold set_caller; st_simpl_goal;
  try (destruct (Nat.ltb (length (ackq s)) ack_cap)); st_simpl_goal;
  rewrite ?orb_true_r, ?orb_false_r, ?app_nil_r; repeat split; reflexivity.
Qed.

Theorem refine_frame : forall s st f b more,
  SP.frame_wf f -> reader s = RRead -> rel st s -> core_inv cfg s ->
  let e := env_of b (close_sent s) in
  let d := SP.expected_dispatch max_buffered cfg_of (S.s_aw st) e f in
  let st' := SP.state_next cfg_of st e f in
  S.read_iter max_buffered cfg_of st e (S.frame_bytes f ++ more) = S.ItNext d st' more /\
  frame_sim s (step cfg s (RFrame (abs f) (abs_hb b (S.len (S.f_payload f))))) st st' f b d.
Proof.
  intros s st f b more Hwf Hrd R CI e d st'. split; [apply SP.read_iter_frame; assumption|].
  pose proof (kind_of_expected (S.s_aw st) b (close_sent s) f) as Hkind. fold e in Hkind. fold d in Hkind.
  pose proof (awaited_expected st s b (close_sent s) f R) as Haw. fold e in Haw.
  assert (Hrep : is_some (S.d_reply d) = SP.awaited cfg_of (S.s_aw st) e f) by apply reply_expected.
  rewrite Haw in Hrep.
  pose proof (step_rframe_spec s (abs f) (abs_hb b (S.len (S.f_payload f))) Hrd CI) as Spec.
  cbn zeta in Spec. unfold lts_rep in Spec. cbn [abs f_typ f_id] in Spec.
  rewrite <- Hrep, <- Hkind in Spec.
  destruct Spec as [P [D [H [A [K [Q [SC [RD SAME]]]]]]]].
  set (s' := step cfg s (RFrame (abs f) (abs_hb b (S.len (S.f_payload f))))) in *.
  assert (Hst'aw : S.s_aw st' = if consults cfg (S.f_typ f) then S.remove (S.f_id f) (S.s_aw st) else S.s_aw st).
  { unfold st', SP.state_next, SP.aw_next, cfg_of, e, env_of.
    cbn [S.s_aw S.never_reply S.e_register S.register fold_left].
    destruct (consults cfg (S.f_typ f)); reflexivity. }
  constructor.
  - exact P.
  - rewrite D. unfold view_delivered. f_equal.
    destruct (S.d_reply d); cbn [is_some]; [|reflexivity].
    destruct (lookup (S.f_id f) (awaiting s)); reflexivity.
  - rewrite H. reflexivity.
  - rewrite A. unfold aw_after. destruct (S.d_reply d); reflexivity.
  - split; intro Hh.
    + rewrite K, Q, Hh. split; reflexivity.
    + rewrite K, Q. destruct (kind_of d); try congruence; split; reflexivity.
  - constructor.
    + intro i. rewrite A, Hst'aw.
      destruct (consults cfg (S.f_typ f)) eqn:Hc; cbn [andb] in Hrep.
      * destruct (lookup (S.f_id f) (awaiting s)) as [c|] eqn:Hl; cbn [is_some] in Hrep; rewrite Hrep.
        -- destruct (N.eq_dec i (S.f_id f)) as [->|Hne].
           ++ rewrite mem_remove_same, lookup_remove_same. reflexivity.
           ++ rewrite mem_remove_other, lookup_remove_other by assumption. apply (rel_aw _ _ R).
        -- destruct (N.eq_dec i (S.f_id f)) as [->|Hne].
           ++ rewrite mem_remove_same, Hl. reflexivity.
           ++ rewrite mem_remove_other by assumption. apply (rel_aw _ _ R).
      * rewrite Hrep. apply (rel_aw _ _ R).
    + rewrite SC. unfold st', SP.state_next. cbn [S.s_closed_seen]. rewrite (rel_close _ _ R).
      unfold e, env_of. cbn [S.e_close_sent]. reflexivity.
  - exact RD.
  - exact SAME.
Qed.

(* ------------------------------------------------------------------ any number of frames *)
(* the read-side events of the LTS for the frames fs: RFrame, then the loop-head check *)
Fixpoint events_of (env : nat -> S.env_step) (i : nat) (fs : list S.frame) : list event :=
  match fs with
  | [] => []
  | f :: r => RFrame (abs f) (abs_hb (S.e_beh (env i)) (S.len (S.f_payload f))) :: RCheck
              :: events_of env (S i) r
  end.

(* what a list of byte-level dispatch records means for the LTS histories *)
Fixpoint view_log (aw : list (N * N)) (seq : nat) (env : nat -> S.env_step) (i : nat)
                  (fs : list S.frame) (log : list S.dispatch) : list (N * nat * frame) * list hrec :=
  match fs, log with
  | f :: fr, d :: lr =>
      let (dl, hl) := view_log (aw_after aw f d) (S seq) env (S i) fr lr in
      (view_delivered aw seq f d ++ dl, view_handled seq f (S.e_beh (env i)) d :: hl)
  | _, _ => ([], [])
  end.

(* a pure read-side run: no registrations inside it, and the byte model's "CloseConnection has
   been sent" is the LTS's close_sent (which read-side events do not change) *)
Definition read_env (env : nat -> S.env_step) (s : state) : Prop :=
  forall j, S.e_register (env j) = [] /\ S.e_close_sent (env j) = close_sent s.

Lemma read_env_eta : forall env s j, read_env env s -> env j = env_of (S.e_beh (env j)) (close_sent s).
Proof.
  intros env s j H. destruct (H j) as [H1 H2]. unfold env_of. destruct (env j) as [rg b cs].
  cbn in *. subst. reflexivity.
Qed.

Lemma step_rcheck_open : forall s, reader s = RTop -> closed s = false ->
  step cfg s RCheck = set_reader RRead s.
Proof. intros s H1 H2. cbn [step]. unfold step_rcheck. rewrite H1, H2. reflexivity. Qed.

Record frames_sim (s s' : state) (st : S.state) (env : nat -> S.env_step) (i : nat)
                  (fs : list S.frame) (log : list S.dispatch) : Prop := mkFSim {
  fs_peer : peer_sent s' = peer_sent s ++ map abs fs;
  fs_deliv : delivered s' = delivered s ++ fst (view_log (awaiting s) (length (peer_sent s)) env i fs log);
  fs_handled : handled s' = handled s ++ snd (view_log (awaiting s) (length (peer_sent s)) env i fs log);
  fs_rel : rel (SP.state_after cfg_of st env i fs) s';
  fs_reader : reader s' = RRead;
  fs_closed : closed s' = false;
  fs_inv : core_inv cfg s';
  fs_same : writer s' = writer s /\ out s' = out s /\ wire s' = wire s /\ phase s' = phase s /\
            errs s' = errs s /\ assigned s' = assigned s /\ next_id s' = next_id s
}.

Theorem refine_frames : forall fs s st env i,
  Forall SP.frame_wf fs -> reader s = RRead -> closed s = false -> rel st s -> core_inv cfg s ->
  read_env env s ->
  frames_sim s (run_from cfg s (events_of env i fs)) st env i fs
             (SP.expected_log max_buffered cfg_of st env i fs).
Proof.
  induction fs as [|f fs IH]; intros s st env i Hwf Hrd Hcl R CI Henv.
  - cbn [events_of run_from fold_left SP.expected_log SP.state_after view_log map fst snd].
    constructor; rewrite ?app_nil_r; auto. repeat split; reflexivity.
  - inversion Hwf as [|? ? Hf Hfs]; subst.
    unfold run_from. cbn [events_of fold_left SP.expected_log SP.state_after].
    rewrite (read_env_eta env s i Henv).
    destruct (refine_frame s st f (S.e_beh (env i)) [] Hf Hrd R CI) as [_ Sim].
    cbn zeta in Sim. cbn [S.e_beh env_of].
    set (b := S.e_beh (env i)) in *.
    set (cs := close_sent s) in *.
    set (d := SP.expected_dispatch max_buffered cfg_of (S.s_aw st) (env_of b cs) f) in *.
    set (s1 := step cfg s (RFrame (abs f) (abs_hb b (S.len (S.f_payload f))))) in *.
    destruct Sim as [P D H A _ R1 RD [C1 [W1 [O1 [WI1 [PH1 [E1 [AS1 N1]]]]]]]].
    assert (CI1 : core_inv cfg s1) by (apply core_inv_step; assumption).
    rewrite (step_rcheck_open s1 RD ltac:(congruence)).
    set (s2 := set_reader RRead s1).
    assert (R2 : rel (SP.state_next cfg_of st (env_of b cs) f) s2).
    { destruct R1 as [Ra Rc]. constructor; unfold s2; st_simpl_goal; assumption. }
    assert (CI2 : core_inv cfg s2).
    { unfold s2. rewrite <- (step_rcheck_open s1 RD ltac:(congruence)). apply core_inv_step. assumption. }
    assert (Henv2 : read_env env s2).
    { intro j. destruct (Henv j) as [He1 He2]. split; [assumption|]. rewrite He2. symmetry.
      apply close_sent_same; unfold s2; st_simpl_goal; assumption. }
    specialize (IH s2 (SP.state_next cfg_of st (env_of b cs) f) env (S i) Hfs
                   ltac:(reflexivity) ltac:(unfold s2; st_simpl_goal; congruence) R2 CI2 Henv2).
    unfold run_from in IH. fold s2.
    destruct IH as [P' D' H' R' RD' C' CI' [W' [O' [WI' [PH' [E' [AS' N']]]]]]].
    assert (Q : peer_sent s2 = peer_sent s1 /\ delivered s2 = delivered s1 /\ handled s2 = handled s1 /\
                awaiting s2 = awaiting s1 /\ writer s2 = writer s1 /\ out s2 = out s1 /\ wire s2 = wire s1 /\
                phase s2 = phase s1 /\ errs s2 = errs s1 /\ assigned s2 = assigned s1 /\ next_id s2 = next_id s1)
      by (unfold s2; st_simpl_goal; repeat split; reflexivity).
    destruct Q as [Q1 [Q2 [Q3 [Q4 [Q5 [Q6 [Q7 [Q8 [Q9 [Q10 Q11]]]]]]]]]].
    assert (Hlen : length (peer_sent s1) = S (length (peer_sent s))).
    { rewrite P, app_length. cbn. lia. }
    rewrite Q1, Q2, Q4, Hlen, A in D'. rewrite Q1, Q3, Q4, Hlen, A in H'. rewrite Q1 in P'.
    constructor; cbn [view_log map];
      destruct (view_log (aw_after (awaiting s) f d) (S (length (peer_sent s))) env (S i) fs
                  (SP.expected_log max_buffered cfg_of (SP.state_next cfg_of st (env_of b cs) f) env (S i) fs))
        as [dl hl] eqn:Hv; cbn [fst snd] in *.
    + rewrite P', P, <- app_assoc. reflexivity.
    + rewrite D', D, <- app_assoc. reflexivity.
    + rewrite H', H, <- app_assoc. reflexivity.
    + cbn [SP.state_after]. rewrite (read_env_eta env s i Henv). exact R'.
    + assumption.
    + assumption.
    + assumption.
    + repeat split; congruence.
Qed.

(* ------------------------------------------------------------------ headline *)
(* The dispatch records the byte-level loop produces for the stream
   concat (map frame_bytes fs) ++ rest — read off its result — are, through [view_log], exactly
   what the LTS appends to delivered / handled when it steps RFrame (abs f) for each f in order;
   the frames it has read are the abstractions of fs; the two states stay related, so that the
   statement composes with whatever happens to [rest] (see refine_eof_* below). *)
Theorem read_loop_refines_lts : forall fs s st env rest,
  Forall SP.frame_wf fs -> reader s = RRead -> closed s = false -> rel st s -> core_inv cfg s ->
  read_env env s ->
  let r := S.serve max_buffered cfg_of st env (concat (map S.frame_bytes fs) ++ rest) in
  let log := firstn (length fs) (S.r_log r) in
  r = SP.prepend log (SP.serve_from max_buffered cfg_of (SP.state_after cfg_of st env O fs) env (length fs) rest) /\
  length log = length fs /\
  frames_sim s (run_from cfg s (events_of env O fs)) st env O fs log.
Proof.
  intros fs s st env rest Hwf Hrd Hcl R CI Henv r log.
  assert (Hr : r = SP.prepend (SP.expected_log max_buffered cfg_of st env O fs)
                 (SP.serve_from max_buffered cfg_of (SP.state_after cfg_of st env O fs) env (length fs) rest))
    by (apply SP.serve_alignment; assumption).
  assert (Hlog : log = SP.expected_log max_buffered cfg_of st env O fs).
  { unfold log. rewrite Hr. unfold SP.prepend. cbn [S.r_log].
    rewrite <- (SP.expected_log_length max_buffered cfg_of fs st env O) at 1.
    rewrite firstn_app, Nat.sub_diag, firstn_all. cbn [firstn]. apply app_nil_r. }
  rewrite Hlog. split; [assumption|]. split; [apply SP.expected_log_length|].
  apply refine_frames; assumption.
Qed.

(* ------------------------------------------------------------------ how the stream ends *)
Lemma lts_eof_fields : forall s p, 
  let s' := step cfg s (PeerEOF p) in
  match p with EofMidPayload _ => True | _ => delivered s' = delivered s /\ handled s' = handled s /\ awaiting s' = awaiting s end.
Proof.
  intros s p. cbn [step]. unfold step_peer_eof, reader_dies.
  destruct p; [| |exact I]; destruct (reader s); try (repeat split; reflexivity);
    try destruct (saw_close s); st_simpl_goal; repeat split; reflexivity.
Qed.

(* nothing left at a frame boundary: EndEOF <-> the reader dies with a read error,
   EndWaitClose <-> the reader waits for done *)
Theorem refine_eof_boundary : forall s st env i, reader s = RRead -> rel st s ->
  let r := SP.serve_from max_buffered cfg_of st env i [] in
  let s' := step cfg s (PeerEOF EofBoundary) in
  S.r_log r = [] /\
  (S.r_end r = S.EndWaitClose /\ reader s' = RWaitDone /\ errs s' = errs s \/
   S.r_end r = S.EndEOF /\ reader s' = RDead /\ errs s' = errs s ++ [ERead]).
Proof.
  intros s st env i Hrd R r s'. subst r s'. rewrite SP.serve_from_nil. cbn [S.r_log S.r_end step].
  unfold step_peer_eof, reader_dies. rewrite Hrd, <- (rel_close _ _ R).
  destruct (S.s_closed_seen st); st_simpl_goal; split; auto.
Qed.

(* 1..9 bytes left: the byte loop ends with EndShortHeader, the LTS with PeerEOF EofMidHeader *)
Theorem refine_eof_mid_header : forall s st env i rest, reader s = RRead ->
  (0 < length rest < 10)%nat ->
  let r := SP.serve_from max_buffered cfg_of st env i rest in
  let s' := step cfg s (PeerEOF EofMidHeader) in
  S.r_log r = [] /\ S.r_end r = S.EndShortHeader /\
  reader s' = RDead /\ errs s' = errs s ++ [ERead] /\ delivered s' = delivered s /\ handled s' = handled s.
Proof.
  intros s st env i rest Hrd Hlen r s'. subst r s'.
  unfold SP.serve_from. cbn [S.read_loop]. unfold S.read_iter, S.read_header.
  rewrite SP.split_at_spec. change (N.to_nat S.HeaderSz) with 10%nat.
  rewrite firstn_all2 by lia.
  assert (H0 : (S.len rest =? 0) = false) by (apply N.eqb_neq; unfold S.len; lia).
  assert (H1 : (S.len rest <? S.HeaderSz) = true) by (apply N.ltb_lt; unfold S.len, S.HeaderSz; lia).
  rewrite H0, H1. cbn [S.r_log S.r_end step]. unfold step_peer_eof, reader_dies. rewrite Hrd.
  st_simpl_goal. repeat split; reflexivity.
Qed.

(* the header of f and a payload cut short: what the LTS's reader does *)
Lemma lts_mid_payload_reader : forall s f, reader s = RRead ->
  let rep := lts_rep s f in
  let saw' := saw_close s || ((f_typ f =? T_CloseConnectionResponse) && close_sent s) in
  reader (step cfg s (PeerEOF (EofMidPayload f))) =
    if rep && (f_len f <=? max_buffered) then RDead
    else match handler_for cfg (f_typ f), rep with
         | HDiscard, false => RDead
         | _, _ => if saw' then RWaitDone else RDead
         end.
Proof.
  intros s f Hrd. cbn zeta. cbn [step]. unfold step_peer_eof, lts_rep. rewrite Hrd.
  unfold take_waiter, note_close_resp.
  replace (close_sent (set_peer_sent (peer_sent s ++ [f]) s)) with (close_sent s) by reflexivity.
  destruct ((f_typ f =? T_CloseConnectionResponse) && close_sent s); st_simpl_goal;
  destruct (consults cfg (f_typ f)); cbn [andb orb];
  try (destruct (lookup (f_id f) (awaiting s)) as [c|]; cbn [is_some andb]);
  try (destruct (N.ltb_spec max_buffered (f_len f)); destruct (N.leb_spec (f_len f) max_buffered); try lia;
       cbn [andb orb]);
  try (destruct (lookup c (callers s)) as [[? | ? | ? ? | ? ?]|]);
  unfold eof_after_dispatch, run_handler, ack_enqueue, reader_dies, set_caller;
  destruct (handler_for cfg (f_typ f)); st_simpl_goal;
  try (destruct (Nat.ltb (length (ackq s)) ack_cap)); st_simpl_goal;
  rewrite ?orb_true_r, ?orb_false_r; try (destruct (saw_close s)); st_simpl_goal; reflexivity.
Qed.

(* byte level: the frame is handed over without its payload having to be complete — a handler or
   default handler reads through the LimitReader, or an oversize reply goes header-only to its
   caller: the drain meets EOF, which io.Copy does not report, passToHandler returns nil and the
   NEXT header read meets the EOF; if receivedClosed is set by then the loop parks *)
Lemma stream_mid_payload_continues : forall st env i f pl, SP.frame_wf f ->
  S.len pl < S.len (S.f_payload f) ->
  (SP.awaited cfg_of (S.s_aw st) (env i) f = true /\ max_buffered < S.len (S.f_payload f)) \/
  (SP.awaited cfg_of (S.s_aw st) (env i) f = false /\ S.pick_handler cfg_of (S.f_typ f) <> None) ->
  let r := SP.serve_from max_buffered cfg_of st env i (S.header_bytes f ++ pl) in
  length (S.r_log r) = 1%nat /\
  S.r_end r = (if S.s_closed_seen st || ((S.f_typ f =? S.MsgCloseConnectionResponse) && S.e_close_sent (env i))
               then S.EndWaitClose else S.EndEOF).
Proof.
  intros st env i f pl Hwf Hlt Hpath r. subst r.
  unfold SP.serve_from. cbn [S.read_loop]. unfold S.read_iter.
  rewrite SP.read_header_frame by assumption.
  unfold S.pass_to_handler. cbn [S.frame_header S.h_len S.h_typ S.h_id].
  assert (Hs : S.split_at (S.len (S.f_payload f)) pl = (pl, [])).
  { rewrite SP.split_at_spec. unfold S.len in *. rewrite firstn_all2, skipn_all2 by lia. reflexivity. }
  rewrite Hs. unfold SP.awaited in Hpath.
  destruct Hpath as [[Ha Hbig]|[Ha Hh]]; rewrite Ha.
  - replace (max_buffered <? S.len (S.f_payload f)) with true by (symmetry; apply N.ltb_lt; assumption).
    destruct (S.pick_handler cfg_of (S.f_typ f));
    destruct (length pl) eqn:Hl; cbn [S.read_loop S.cons_log S.r_log S.r_end length];
      unfold S.read_iter; cbn [S.read_header S.split_at]; cbn [S.s_closed_seen];
      (split; [reflexivity|]); destruct (_ || _); reflexivity.
  - destruct (S.pick_handler cfg_of (S.f_typ f)) as [w|]; [|congruence].
    destruct (length pl) eqn:Hl; cbn [S.read_loop S.cons_log S.r_log S.r_end length];
      unfold S.read_iter; cbn [S.read_header S.split_at]; cbn [S.s_closed_seen];
      (split; [reflexivity|]); destruct (_ || _); reflexivity.
Qed.

(* byte level, payload being buffered for a caller, or being discarded because nobody is
   entitled: the short read is an error and ends the loop *)
Lemma stream_mid_payload_dies : forall st env i f pl, SP.frame_wf f ->
  S.len pl < S.len (S.f_payload f) ->
  (SP.awaited cfg_of (S.s_aw st) (env i) f = true /\ S.len (S.f_payload f) <= max_buffered) \/
  (SP.awaited cfg_of (S.s_aw st) (env i) f = false /\ S.pick_handler cfg_of (S.f_typ f) = None) ->
  let r := SP.serve_from max_buffered cfg_of st env i (S.header_bytes f ++ pl) in
  length (S.r_log r) = 1%nat /\ S.r_end r = S.EndShortDiscard.
Proof.
  intros st env i f pl Hwf Hlt Hcase r. subst r.
  unfold SP.serve_from. cbn [S.read_loop]. unfold S.read_iter.
  rewrite SP.read_header_frame by assumption.
  unfold S.pass_to_handler. cbn [S.frame_header S.h_len S.h_typ S.h_id].
  assert (Hs : S.split_at (S.len (S.f_payload f)) pl = (pl, [])).
  { rewrite SP.split_at_spec. unfold S.len in *. rewrite firstn_all2, skipn_all2 by lia. reflexivity. }
  rewrite Hs.
  assert (Hne : (S.len pl =? S.len (S.f_payload f)) = false) by (apply N.eqb_neq; lia).
  rewrite Hne. unfold SP.awaited in Hcase.
  destruct Hcase as [[Ha Hle]|[Ha Hn]]; rewrite Ha.
  - replace (max_buffered <? S.len (S.f_payload f)) with false by (symmetry; apply N.ltb_ge; assumption).
    destruct (S.pick_handler cfg_of (S.f_typ f)); cbn [S.r_log S.r_end length]; split; reflexivity.
  - rewrite Hn. cbn [S.r_log S.r_end length]. split; reflexivity.
Qed.

(* A frame cut short inside its payload: in every case the byte loop's ending and the LTS's
   PeerEOF (EofMidPayload (abs f)) agree — EndShortDiscard / EndEOF <-> the reader dies with an
   error, EndWaitClose <-> the reader waits for done. *)
Theorem refine_eof_mid_payload : forall s st b i env f pl, SP.frame_wf f -> reader s = RRead ->
  rel st s -> env i = env_of b (close_sent s) ->
  S.len pl < S.len (S.f_payload f) ->
  let r := SP.serve_from max_buffered cfg_of st env i (S.header_bytes f ++ pl) in
  let s' := step cfg s (PeerEOF (EofMidPayload (abs f))) in
  length (S.r_log r) = 1%nat /\
  ((S.r_end r = S.EndShortDiscard \/ S.r_end r = S.EndEOF) /\ reader s' = RDead \/
   S.r_end r = S.EndWaitClose /\ reader s' = RWaitDone).
Proof.
  intros s st b i env f pl Hwf Hrd R He Hlt r s'.
  pose proof (lts_mid_payload_reader s (abs f) Hrd) as L. cbn zeta in L. fold s' in L.
  unfold lts_rep in L. cbn [abs f_typ f_id f_len] in L.
  pose proof (awaited_expected st s b (close_sent s) f R) as Haw. rewrite <- He in Haw. rewrite <- Haw in L.
  assert (Hpick := pick_handler_cfg_of (S.f_typ f)).
  assert (Hcs : S.s_closed_seen st || ((S.f_typ f =? S.MsgCloseConnectionResponse) && S.e_close_sent (env i))
                = saw_close s || ((S.f_typ f =? T_CloseConnectionResponse) && close_sent s)).
  { rewrite (rel_close _ _ R), He. reflexivity. }
  destruct (SP.awaited cfg_of (S.s_aw st) (env i) f) eqn:Ha; cbn [andb] in L.
  - destruct (N.leb_spec (S.len (S.f_payload f)) max_buffered) as [Hle|Hgt].
    + destruct (stream_mid_payload_dies st env i f pl Hwf Hlt (or_introl (conj Ha Hle))) as [E1 E2].
      fold r in E1, E2. split; [assumption|]. left. split; [left; assumption|assumption].
    + destruct (stream_mid_payload_continues st env i f pl Hwf Hlt (or_introl (conj Ha Hgt))) as [E1 E2].
      fold r in E1, E2. split; [assumption|]. rewrite Hcs in E2.
      assert (L' : reader s' = if saw_close s || ((S.f_typ f =? T_CloseConnectionResponse) && close_sent s)
                               then RWaitDone else RDead).
      { rewrite L. destruct (handler_for cfg (S.f_typ f)); reflexivity. }
      destruct (saw_close s || _); [right|left]; split; auto.
  - destruct (handler_for cfg (S.f_typ f)) eqn:Hk.
    1-3: (assert (Hh : S.pick_handler cfg_of (S.f_typ f) <> None) by (rewrite Hpick; discriminate);
          destruct (stream_mid_payload_continues st env i f pl Hwf Hlt (or_intror (conj Ha Hh))) as [E1 E2];
          fold r in E1, E2; split; [assumption|]; rewrite Hcs in E2;
          destruct (saw_close s || _); [right|left]; split; auto).
    destruct (stream_mid_payload_dies st env i f pl Hwf Hlt (or_intror (conj Ha Hpick))) as [E1 E2].
    fold r in E1, E2. split; [assumption|]. left. split; [left; assumption|assumption].
Qed.

End Refine.

(* ------------------------------------------------------------------ the two former disagreements *)
Definition cfg0 : config := mkConfig true true 1 true [] true.   (* default handler, ackHandler *)
Definition tag0 : list N -> N := fun _ => 0.
Definition info0 : N -> list N -> info := fun _ _ => IOpaque.

(* (1) A frame on a handler path whose payload is cut short, after receivedClosed was set: the
   handler reads what is there, io.Copy(io.Discard, LimitReader) returns nil at EOF, passToHandler
   returns nil, the next readHeader sees EOF with receivedClosed set, the loop parks on c.done.
   Model.v used to let the reader die here; since the repair (eof_after_dispatch) it parks too. *)
Example agree_truncated_handler_after_close :
  let s := set_saw_close true (set_reader RRead (init cfg0)) in
  let st := S.mkState [] true in
  let f := S.mkFrame 0 1 30 7 [1; 2; 3] in
  rel st s /\ reader s = RRead /\
  S.r_end (SP.serve_from max_buffered (cfg_of cfg0) st (fun _ => env_of (S.HRead 0) (close_sent s)) O
             (S.header_bytes f ++ [1])) = S.EndWaitClose /\
  reader (step cfg0 s (PeerEOF (EofMidPayload (abs tag0 info0 f)))) = RWaitDone.
Proof.
  cbn zeta. split; [constructor; [intro i; reflexivity|reflexivity]|].
  split; [reflexivity|]. split; vm_compute; reflexivity.
Qed.

(* (2) An unsolicited CloseConnectionResponse, then EOF: no CloseConnection was written
   (close_sent = false), receivedClosed stays false, the EOF is a read error in both models.
   Model.v used to park the reader here (note_close_resp ignored c.sentClose). *)
Example agree_unsolicited_close :
  let s := set_reader RRead (init cfg0) in
  let f := S.mkFrame 0 1 4 9 [] in
  close_sent s = false /\
  S.r_end (S.serve max_buffered (cfg_of cfg0) S.st0 (fun _ => env_of (S.HRead 0) (close_sent s))
             (S.frame_bytes f)) = S.EndEOF /\
  reader (run_from cfg0 s [RFrame (abs tag0 info0 f) HBNone; RCheck; PeerEOF EofBoundary]) = RDead.
Proof. cbn zeta. split; [reflexivity|]. split; vm_compute; reflexivity. Qed.

(* ... and with a CloseConnection in the write loop's hand the same stream parks both *)
Example agree_solicited_close :
  let o := mkOFrame (mkFrame 1 T_CloseConnection 0 0 0 IOpaque) (Some 0) in
  let s := set_writer (WHolding o) (set_reader RRead (init cfg0)) in
  let f := S.mkFrame 0 1 4 9 [] in
  close_sent s = true /\
  S.r_end (S.serve max_buffered (cfg_of cfg0) S.st0 (fun _ => env_of (S.HRead 0) (close_sent s))
             (S.frame_bytes f)) = S.EndWaitClose /\
  reader (run_from cfg0 s [RFrame (abs tag0 info0 f) HBNone; RCheck; PeerEOF EofBoundary]) = RWaitDone.
Proof. cbn zeta. split; [reflexivity|]. split; vm_compute; reflexivity. Qed.
