(* C12 — model of a whole request/response exchange as seen from the wire (pkg/llrp/reader.go):
   which frame becomes "the reply" of a request and what its caller is told.
   Status.v models the decision SendFor takes once a (type, payload) has been handed to it; this
   file models what hands it over:

     handleOutgoing   awaiting[id] = replyChan, then the request is written        (XSend)
     send / token.cancel   the caller stops waiting: delete(awaiting, id)           (XAbandon)
     negotiate -> setVersion                                                        (XNegotiated)
     handleIncoming -> passToHandler(hdr): KeepAlive / ROAccessReport /
        ReaderEventNotification are never replies; otherwise the frame goes to
        awaiting[hdr.id] if there is one (and the entry is deleted), else it is
        dropped / left to the handlers                                               (XRecv)
     SendMessage -> SendFor: the caller's outcome is send_for_outcome of that frame.

   A frame carries the 3-bit header version (Header.version); the connection has a negotiated
   version (Client.version).  Neither is consulted when a reply is matched or judged: the model
   keeps both so that this can be stated (and compared with the implementation) rather than
   assumed.  Model only; proofs are in StatusExchangeProofs.v. *)
From Coq Require Import NArith List Bool.
From LLRP Require Import Client.Status.
Import ListNotations.
Open Scope N_scope.

(* an inbound frame: header version, message type, message id; [fr_dec t] = the result of decoding
   its payload as a message of type t *)
Record frame := mkFrame {
  fr_ver : N;
  fr_type : N;
  fr_id : N;
  fr_dec : N -> decode_result }.

Inductive xevent :=
| XSend (id expT : N)      (* request [id] registered and written; its caller expects type expT *)
| XAbandon (id : N)        (* the caller of [id] gives up (context done) *)
| XNegotiated (v : N)      (* version negotiation settles on v *)
| XRecv (f : frame).       (* the read loop takes the next frame off the connection *)

(* what a caller ends up with *)
Inductive xresult :=
| XOutcome (o : outcome)   (* SendFor returned this *)
| XAbandoned.              (* SendFor returned the context's error *)

Record xstate := mkX {
  x_ver : N;                       (* Client.version *)
  x_await : list (N * N);          (* awaiting: id -> expected type of the waiting caller *)
  x_done : list (N * xresult) }.   (* results, most recent first (append-only history) *)

Definition x_init (v : N) : xstate := mkX v [] [].

Fixpoint alookup (id : N) (l : list (N * N)) : option N :=
  match l with
  | [] => None
  | (k, e) :: r => if k =? id then Some e else alookup id r
  end.

Fixpoint aremove (id : N) (l : list (N * N)) : list (N * N) :=
  match l with
  | [] => []
  | (k, e) :: r => if k =? id then aremove id r else (k, e) :: aremove id r
  end.

(* passToHandler: `case MsgKeepAlive, MsgROAccessReport, MsgReaderEventNotification:` *)
Definition reader_initiated (t : N) : bool := (t =? 62) || (t =? 61) || (t =? 63).

Definition xstep (st : xstate) (ev : xevent) : xstate :=
  match ev with
  | XSend id e => mkX (x_ver st) ((id, e) :: aremove id (x_await st)) (x_done st)
  | XAbandon id =>
      match alookup id (x_await st) with
      | Some _ => mkX (x_ver st) (aremove id (x_await st)) ((id, XAbandoned) :: x_done st)
      | None => st
      end
  | XNegotiated v => mkX v (x_await st) (x_done st)
  | XRecv f =>
      if reader_initiated (fr_type f) then st
      else match alookup (fr_id f) (x_await st) with
           | Some e => mkX (x_ver st) (aremove (fr_id f) (x_await st))
                           ((fr_id f, XOutcome (send_for_outcome e (fr_type f) (fr_dec f))) :: x_done st)
           | None => st
           end
  end.

Definition xrun (st : xstate) (evs : list xevent) : xstate := fold_left xstep evs st.

(* results in the order they were produced *)
Definition xresults (v : N) (evs : list xevent) : list (N * xresult) := rev (x_done (xrun (x_init v) evs)).

(* [quiet id ev]: ev neither re-issues nor abandons request [id] and is not a reply candidate for it *)
Definition quiet (id : N) (ev : xevent) : Prop :=
  match ev with
  | XSend i _ => i <> id
  | XAbandon i => i <> id
  | XNegotiated _ => True
  | XRecv g => reader_initiated (fr_type g) = true \/ fr_id g <> id
  end.

(* two events that differ at most in version numbers (header version of a frame, negotiated version) *)
Definition same_but_version (a b : xevent) : Prop :=
  match a, b with
  | XSend i e, XSend i' e' => i = i' /\ e = e'
  | XAbandon i, XAbandon i' => i = i'
  | XNegotiated _, XNegotiated _ => True
  | XRecv f, XRecv g => fr_type f = fr_type g /\ fr_id f = fr_id g /\ fr_dec f = fr_dec g
  | _, _ => False
  end.
