(* Client/C08Wire.v — what can be on the wire before setup is over, by message type.

   C08's "requests ... reach the wire only after version negotiation has completed" is proved in
   Client/C08Proofs.v per caller (a gated request is not in [out] while the gate is shut). Here the same
   fact read off the wire: in every run in which external callers use the exported API (SendMessage, SendFor,
   SendNoWait, Shutdown — all wait for c.ready), as long as the gate is shut every frame the write loop has
   taken on (written, or in its hand) is a KeepAliveAck of the loop's own, a GetSupportedVersion or a
   SetProtocolVersion. In particular no CloseConnection: a Shutdown issued before Connect, before the first
   message or while negotiation is outstanding does not get ahead of negotiation. That Shutdown really goes
   through the gate (it is SendMessage(CloseConnection) + Close) is what the `early-shutdown` scripts and the
   timed scenarios of checks/c08.py tie down on the code. *)
From Coq Require Import NArith Arith List Bool Lia.
From LLRP Require Import Client.Types Client.Model Client.MapLemmas Client.StepFacts
     Client.InvCore Client.InvAck Client.InvOut Client.InvC08 Client.InvC08Gate Client.C05Proofs Client.C07Proofs Client.C08Proofs.
Import ListNotations.
Open Scope N_scope.

(* requests that do not wait for the gate are negotiate's own *)
Definition neg_kind (r : req) : Prop :=
  q_gate r = false -> q_typ r = T_GetSupportedVersion \/ q_typ r = T_SetProtocolVersion.

Lemma exported_new_ok : forall e, exported e -> ev_new_ok neg_kind e.
Proof.
  intros e He. destruct e; cbn; auto.
  - cbn in He. intro H. congruence.
  - intros st v _. destruct st; cbn; auto.
Qed.

Lemma neg_kind_run_from : forall cfg evs s, exported_only evs ->
  (forall c p, lookup c (callers s) = Some p -> neg_kind (req_of p)) ->
  forall c p, lookup c (callers (run_from cfg s evs)) = Some p -> neg_kind (req_of p).
Proof.
  intros cfg evs. induction evs as [|e evs IH]; intros s Hex H; cbn; [assumption|].
  inversion Hex; subst. apply IH; [assumption|].
  destruct (step_evolve neg_kind cfg s e (exported_new_ok e H2)) as (Hev & _).
  exact (cevolve_req neg_kind _ _ Hev H).
Qed.

Theorem ungated_requests_are_negotiation : forall cfg evs, exported_only evs ->
  forall c p, lookup c (callers (run cfg evs)) = Some p -> neg_kind (req_of p).
Proof.
  intros cfg evs Hex. apply neg_kind_run_from; [assumption|]. intros c p H. discriminate.
Qed.

Definition neg_or_ack_frame (o : oframe) : Prop :=
  o_src o = None \/ f_typ (o_frame o) = T_GetSupportedVersion \/ f_typ (o_frame o) = T_SetProtocolVersion.

Theorem only_negotiation_frames_before_ready : forall cfg evs, exported_only evs ->
  let s := run cfg evs in
  ready s = false ->
  forall o, In o (out s) \/ writer s = WHolding o \/ writer s = WPayload o -> neg_or_ack_frame o.
Proof.
  intros cfg evs Hex s Hrd o Ho.
  assert (Hp : In o (pipeline s)).
  { unfold pipeline. apply in_or_app. destruct Ho as [H|[H|H]]; [now left|right; rewrite H; cbn; auto|right; rewrite H; cbn; auto]. }
  destruct (oi_frames _ (out_inv_run cfg evs) o Hp) as (_ & Hf). fold s in Hf.
  unfold neg_or_ack_frame. destruct (o_src o) as [c|] eqn:Es; [|now left]. right.
  destruct Hf as (p & L & Ht & _).
  destruct (q_gate (req_of p)) eqn:G.
  - exfalso. destruct (held_back_until_ready cfg evs Hex Hrd c p L G) as (_ & H1 & H2).
    destruct Ho as [H|H]; [exact (H1 o H Es)|exact (H2 o H Es)].
  - rewrite Ht. exact (ungated_requests_are_negotiation cfg evs Hex c p L G).
Qed.

Corollary no_close_connection_before_ready : forall cfg evs, exported_only evs ->
  let s := run cfg evs in
  ready s = false ->
  forall o, In o (out s) \/ writer s = WHolding o \/ writer s = WPayload o ->
  o_src o <> None -> f_typ (o_frame o) <> T_CloseConnection.
Proof.
  intros cfg evs Hex s Hrd o Ho Hs Ht.
  destruct (only_negotiation_frames_before_ready cfg evs Hex Hrd o Ho) as [H|[H|H]];
    [contradiction|rewrite Ht in H; discriminate|rewrite Ht in H; discriminate].
Qed.

(* the same for what is already on the wire, with the loop's own frames pinned down: a frame without a caller is a header-only
   KeepAliveAck whose id was enqueued by the keep-alive handler for a keep-alive the reader sent (C07_log_is_received_keepalives) —
   so an acknowledgement handed in by a CALLER (SendNoWait of a KeepAliveAck, round-6 seed) is a request like any other: it has a
   caller, and is not there before the gate opens *)
Theorem wire_before_ready : forall cfg evs, exported_only evs ->
  let s := run cfg evs in
  ready s = false ->
  forall o, In o (out s) ->
    (o_src o = None /\ f_typ (o_frame o) = T_KeepAliveAck /\ f_len (o_frame o) = 0 /\ In (f_id (o_frame o)) (ka_enqueued s)) \/
    (o_src o <> None /\ (f_typ (o_frame o) = T_GetSupportedVersion \/ f_typ (o_frame o) = T_SetProtocolVersion)).
Proof.
  intros cfg evs Hex s Hrd o Ho.
  destruct (only_negotiation_frames_before_ready cfg evs Hex Hrd o (or_introl Ho)) as [H|H].
  - left. split; [assumption|]. apply (own_frames_are_acks cfg evs o Ho). unfold is_own. rewrite H. reflexivity.
  - destruct (o_src o) as [c|] eqn:Es.
    + right. split; [discriminate|assumption].
    + left. split; [reflexivity|]. apply (own_frames_are_acks cfg evs o Ho). unfold is_own. rewrite Es. reflexivity.
Qed.
