From Coq Require Import NArith ZArith List Bool Lia ZifyN ZifyBool.
From LLRP Require Import Client.StatusText.
Import ListNotations.
Open Scope N_scope.
Ltac Zify.zify_post_hook ::= Z.div_mod_to_equations.

Lemma lookup_in_range : forall first last sc,
  first <= sc -> sc <= last -> lookup first last sc <> TPanic.
Proof.
  intros first last sc H1 H2. unfold lookup.
  destruct (N.leb_spec first sc); [|lia].
  destruct (N.ltb_spec (sc - first) (last - first + 1)); [discriminate|lia].
Qed.

Lemma default_text_by_range_total : forall sc, default_text ByRange sc <> TPanic.
Proof.
  intro sc. unfold default_text, in_class.
  destruct (sc =? 0); [discriminate|].
  repeat match goal with
  | |- context [(?a <=? sc) && (sc <=? ?b)] =>
      destruct (N.leb_spec a sc); destruct (N.leb_spec sc b); cbn [andb];
      try (apply lookup_in_range; assumption)
  end; discriminate.
Qed.

Lemma perr_by_range_total : forall p, perr_panics ByRange p = false.
Proof.
  fix IH 1. intros [code field inner]. cbn [perr_panics].
  assert (H : forall c, is_panic (default_text ByRange c) = false).
  { intro c. pose proof (default_text_by_range_total c). destruct (default_text ByRange c); try reflexivity. congruence. }
  rewrite H. destruct field as [c|]; [rewrite H|]; destruct inner as [q|]; try rewrite IH; reflexivity.
Qed.

Lemma status_error_by_range_total : forall s, status_error_panics ByRange s = false.
Proof.
  intros [code field p]. unfold status_error_panics. cbn [st_code st_field st_param].
  assert (H : forall c, is_panic (default_text ByRange c) = false).
  { intro c. pose proof (default_text_by_range_total c). destruct (default_text ByRange c); try reflexivity. congruence. }
  rewrite H. destruct field as [c|]; [rewrite H|]; destruct p as [q|]; try rewrite perr_by_range_total; reflexivity.
Qed.

(* by blocks of one hundred: exactly the codes inside a class block that the table does not list *)
Definition block_gap (sc : N) : bool :=
  ((113 <=? sc) && (sc <=? 199)) || ((210 <=? sc) && (sc <=? 299)) || ((302 <=? sc) && (sc <=? 400)) || ((402 <=? sc) && (sc <=? 499)).

(* all 16-bit codes 0 .. 65535 (built by recursion over N, no unary numbers) *)
Definition codes16 : list N := N.recursion [] (fun n l => n :: l) 65536.

Lemma default_text_by_block_panics_16bit :
  forallb (fun sc => Bool.eqb (is_panic (default_text ByBlock sc)) (block_gap sc)) codes16 = true.
Proof. vm_compute. reflexivity. Qed.

Lemma below_in : forall n sc, sc < n -> In sc (N.recursion [] (fun n l => n :: l) n).
Proof.
  induction n using N.peano_ind; intros sc H; [lia|].
  rewrite N.recursion_succ; [|reflexivity|intros ? ? -> ? ? ->; reflexivity].
  destruct (N.eq_dec sc n) as [->|Hne]; [left; reflexivity|right; apply IHn; lia].
Qed.

Lemma default_text_by_block_panics_iff : forall sc, sc < 65536 ->
  is_panic (default_text ByBlock sc) = block_gap sc.
Proof.
  intros sc H. pose proof default_text_by_block_panics_16bit as Hall.
  rewrite forallb_forall in Hall. specialize (Hall sc (below_in 65536 sc H)).
  apply Bool.eqb_prop in Hall. exact Hall.
Qed.

Lemma wit_block_panics :
  default_text ByBlock 113 = TPanic /\ default_text ByRange 113 = TUnknown /\
  status_error_panics ByBlock (mkStatus 101 None (Some (PErr 200 (Some 350) None))) = true.
Proof. vm_compute. repeat split; reflexivity. Qed.
