(* Client/Script.v — the script language of harness/llrp/client_script_test.go interpreted over
   the model: every script step is mapped, deterministically, to the model events it stands for.
   After every step the machine is run to quiescence ([settle]) exactly as the Go runner waits
   for process-wide quiescence. All events executed are collected, so the final state is
   [run_from cfg (init cfg) (events m)] (checked by the oracle driver on every script).

   Executable definitions only. This file is glue between the script language and the LTS; it is
   in the trusted base of the correspondence check, not of the theorems. *)
From Coq Require Import NArith List Bool.
From LLRP Require Import Client.Types Client.Model Client.ModelX.
Import ListNotations.
Open Scope N_scope.

(* a frame handed to the peer's writer goroutine; cut = Some k: only the first k bytes are written *)
Record pframe := mkPFrame { pf_frame : frame; pf_cut : option N }.

Inductive sstep :=
| SConnect (first : option frame)      (* connect: Connect starts, the peer queues the first frame (None: no_first) *)
| SPeerSend (p : pframe)               (* peer_send / keepalive *)
| SReply (to : nat) (f : frame)        (* reply: f with the id of the to-th frame the peer has read *)
| SReplyCut (to : nat) (f : frame) (k : N)   (* reply with cut: only the first k bytes of that frame are written *)
| SSend (c : N) (r : req)              (* send *)
| SShutdown (c : N)                    (* shutdown: Shutdown(ctx) runs as caller c *)
| SExpectFrame
| SDrain
| SCancel (c : N)
| SWaitCaller (c : N)
| SClose
| SPeerClose
| SWaitConnect
| SState
| SWriteFail (k : N)
| SNewClient
| SPeerRest.                             (* peer_send with skip: the peer writes the rest of the frame it sent cut before *)

Inductive obs :=
| ObOk | ObBlocked | ObNone | ObBad
| ObFrame (o : oframe)
| ObFrames (l : list oframe)
| ObCaller (p : option cphase)
| ObClose (ok : bool)
| ObConnect (p : conn_phase)
| ObState (nack nawait : nat) (writing closed ready : bool)
| ObPeer (consumed : bool) (id : N).

Record mstate := mkM {
  m_st : state;
  m_events : list event;        (* executed events, newest first *)
  m_peerq : list pframe;        (* frames the peer has queued and the client has not consumed yet *)
  m_peer_closed : bool;
  m_seen : list oframe;         (* frames the peer has read, oldest first *)
  m_fail : option N;            (* write_fail armed *)
  m_failed : bool;              (* the injected failure has happened: the connection stays broken *)
  m_started : bool;             (* connect / new_client happened *)
  m_fuel_out : bool             (* settle ran out of fuel: the observation is not to be trusted *)
}.

Record sconfig := mkSC {
  sc_cfg : config;
  sc_modes : list (N * hb);     (* behaviour of the scripted typed handlers *)
  sc_default : hb;              (* behaviour of the scripted default handler *)
  sc_watch : bool               (* Connect selects on errs while negotiating (ModelX.xstep); false = today's code *)
}.

Definition minit (sc : sconfig) : mstate :=
  mkM (init (sc_cfg sc)) [] [] false [] None false false false.

Definition with_st (m : mstate) (s : state) (e : event) : mstate :=
  mkM s (e :: m_events m) (m_peerq m) (m_peer_closed m) (m_seen m) (m_fail m) (m_failed m) (m_started m) (m_fuel_out m).
Definition fire (sc : sconfig) (m : mstate) (e : event) : mstate := with_st m (xstep (sc_watch sc) (sc_cfg sc) (m_st m) e) e.
Definition set_peerq (q : list pframe) (m : mstate) : mstate :=
  mkM (m_st m) (m_events m) q (m_peer_closed m) (m_seen m) (m_fail m) (m_failed m) (m_started m) (m_fuel_out m).
Definition set_seen (l : list oframe) (m : mstate) : mstate :=
  mkM (m_st m) (m_events m) (m_peerq m) (m_peer_closed m) l (m_fail m) (m_failed m) (m_started m) (m_fuel_out m).
Definition set_fail (f : option N) (failed : bool) (m : mstate) : mstate :=
  mkM (m_st m) (m_events m) (m_peerq m) (m_peer_closed m) (m_seen m) f failed (m_started m) (m_fuel_out m).

Definition hb_for (sc : sconfig) (typ : N) : hb :=
  match handler_for (sc_cfg sc) typ with
  | HUser => match lookup typ (sc_modes sc) with Some h => h | None => HBNone end
  | HDefault => sc_default sc
  | _ => HBNone
  end.

(* a caller id the script does not use: internal sends of negotiate *)
Definition neg_caller (s : state) : N := 1000000 + N.of_nat (length (callers s)).

Fixpoint first_where {A} (p : A -> bool) (l : list A) : option A :=
  match l with [] => None | x :: r => if p x then Some x else first_where p r end.

(* is the whole frame available to the client? *)
Definition whole (p : pframe) : bool := match pf_cut p with None => true | Some _ => false end.

(* the order in which callers reached the send queue (oldest first): blocked senders of a Go channel are served
   first come first served, and a caller gets there when it passes the gate (or at once, for the internal send) —
   not in the order of the calls *)
Definition arrivals (evs : list event) : list N :=
  flat_map (fun e => match e with
                     | PassGate c => [c]
                     | Submit c r => if q_gate r then [] else [c]
                     | NegSubmit c => [c]
                     | _ => []
                     end) (rev_append evs []).      (* (List.rev is quadratic) *)

(* one internal move, if any is possible. Priorities mirror what a quiescence-to-quiescence
   run of the Go program does when only one thing can happen at a time (see notes/client-core.md
   for the rules script generators follow so that this is the case). *)
Definition next_internal (sc : sconfig) (m : mstate) : option (event * mstate) :=
  let s := m_st m in
  let go e := Some (e, m) in
  let consume e := Some (e, set_peerq (tl (m_peerq m)) m) in
  (* --- a goroutine that is running goes on until it blocks: the read loop, back at its loop head after a
         frame, does its non-blocking look at done and calls readHeader BEFORE any goroutine that frame woke up
         (negotiate looking at its reply and failing, ...) gets to run. So a frame that makes Connect give up does
         not stop the read loop from taking the next frame the peer sends. (Shutdown's Close was already ordered
         this way: shutdown_moves runs after the step's settle.) --- *)
  match reader s, closed s with
  | RTop, false => go RCheck
  | _, _ =>
  (* --- Connect --- *)
  let first_move :=        (* checkInitialMessage; while it waits for the first message the callers still move *)
    match phase s with
    | PCheckInitial =>
        match m_peerq m with
        | p :: _ => if whole p then consume (ConnFirst (pf_frame p) (hb_for sc (f_typ (pf_frame p))))
                    else if m_peer_closed m then consume ConnFirstFail else None
        | [] => if m_peer_closed m then go ConnFirstFail else None
        end
    | _ => None
    end in
  match first_move with
  | Some x => Some x
  | None =>
  let conn :=
    match phase s with
    | PNegotiating NGsv None | PNegotiating NSpv None => Some (NegSubmit (neg_caller s))
    | PNegotiating NDone _ => Some ConnReady
    | PNegotiating _ (Some c) =>
        match lookup c (callers s) with
        | Some (Done _ _) => Some NegStep
        | _ => if sc_watch sc then match errs s with _ :: _ => Some (ConnSelect true) | [] => None end else None
        end
    | PReady =>
        match errs s with
        | _ :: _ => Some (ConnSelect true)
        | [] => if closed s then Some (ConnSelect false) else None
        end
    | PDraining _ => if writer_over (writer s) && reader_over (reader s) then Some ConnReturn else None
    | _ => None
    end in
  match conn with
  | Some e => go e
  | None =>
  (* --- callers, in order of submission --- *)
  let movable (cp : N * cphase) :=
    match snd cp with
    | Gate _ => closed s || ready s
    | Queued _ | HasToken _ _ => closed s
    | Done _ _ => false
    end in
  match first_where movable (callers s) with
  | Some (c, p) =>
      if closed s then go (SeeClosed c) else go (PassGate c)
  | None =>
  (* --- write loop --- *)
  let wr :=
    match writer s with
    | WTop => if closed s then Some WSeeDone
              else match ackq s with [] => Some WDefault | _ => Some WTakeAck end
    | WInner =>
        if closed s then Some WSeeDone
        else match ackq s with
             | _ :: _ => Some WTakeAck
             | [] => (* the queued callers (few), then the oldest arrival among them; the history is walked only when
                        somebody is queued *)
                     match map fst (filter (fun cp => match snd cp with Queued _ => true | _ => false end) (callers s)) with
                     | [] => None
                     | queued => match first_where (fun c => existsb (N.eqb c) queued) (arrivals (m_events m)) with
                                 | Some c => Some (WAccept c)
                                 | None => None
                                 end
                     end
             end
    | WParked => if closed s then Some WSeeDone else None
    | WHolding _ | WPayload _ =>
        if m_peer_closed m || m_failed m then Some (WriteFail 0) else None
    | _ => None
    end in
  (* an armed write failure after 0 bytes hits as soon as the write loop calls Write *)
  match writer s, m_fail m with
  | WHolding _, Some 0 => Some (WriteFail 0, set_fail None true m)
  | _, _ =>
  match wr with
  | Some e => go e
  | None =>
  (* --- read loop --- *)
  match reader s with
  | RTop => if closed s then go RSeeDone else go RCheck
  | RWaitDone => if closed s then go RSeeDone else None
  | RRead =>
      match m_peerq m with
      | p :: _ =>
          let f := pf_frame p in
          match pf_cut p with
          | None => consume (RFrame f (hb_for sc (f_typ f)))
          | Some k => if m_peer_closed m
                      then consume (PeerEOF (if k <? header_sz then EofMidHeader else EofMidPayload f))
                      else None
          end
      | [] => if m_peer_closed m then go (PeerEOF EofBoundary) else None
      end
  | _ => None
  end end end end end end end.

Fixpoint settle (sc : sconfig) (fuel : nat) (m : mstate) : mstate :=
  match fuel with
  | O => mkM (m_st m) (m_events m) (m_peerq m) (m_peer_closed m) (m_seen m) (m_fail m) (m_failed m) (m_started m) true
  | S n => match next_internal sc m with
           | None => m
           | Some (e, m') => settle sc n (fire sc m' e)
           end
  end.
Definition settle_fuel : nat := 4000.

Definition writing (s : state) : bool :=
  match writer s with WHolding _ | WPayload _ => true | _ => false end.

(* the peer reads one frame: possible iff the client has a Write pending *)
Definition read_frame (sc : sconfig) (m : mstate) : mstate * option oframe :=
  match writer (m_st m) with
  | WHolding o =>
      match m_fail m with
      | Some k =>
          (* the armed failure hits this Write: k bytes get through *)
          let m1 := fire sc (set_fail None true m) (WriteFail (if k <? header_sz then k else 9)) in
          (settle sc settle_fuel m1, None)
      | None =>
          let m1 := fire sc m WWriteHdr in
          let m2 := match writer (m_st m1) with WPayload _ => fire sc m1 WWritePay | _ => m1 end in
          match last (out (m_st m2)) o with
          | o' => (settle sc settle_fuel (set_seen (m_seen m2 ++ [o']) m2), Some o')
          end
      end
  | _ => (m, None)
  end.

Fixpoint drain (sc : sconfig) (fuel : nat) (m : mstate) (acc : list oframe) : mstate * list oframe :=
  match fuel with
  | O => (m, rev acc)
  | S n => match read_frame sc m with
           | (m', Some o) => drain sc n m' (o :: acc)
           | (m', None) => (m', rev acc)
           end
  end.

(* frames whose bytes the peer has not got rid of yet; a cut frame at the head counts as written
   once the client is blocked in the middle of it *)
Definition unwritten (m : mstate) : nat :=
  match m_peerq m with
  | [] => O
  | p :: r =>
      let reading := match reader (m_st m), phase (m_st m) with
                     | RRead, _ | _, PCheckInitial => true
                     | _, _ => false
                     end in
      if negb (whole p) && reading then length r else S (length r)
  end.

Definition peer_put (sc : sconfig) (p : pframe) (m : mstate) : mstate * obs :=
  if m_peer_closed m then (m, ObPeer false (f_id (pf_frame p)))
  else
    let m1 := settle sc settle_fuel (set_peerq (m_peerq m ++ [p]) m) in
    (m1, ObPeer (Nat.eqb (unwritten m1) 0) (f_id (pf_frame p))).

Definition shutdown_req : req := mkReq T_CloseConnection 0 0 0 1 true true.

Definition exec (sc : sconfig) (m : mstate) (st : sstep) : mstate * obs :=
  let cfg := sc_cfg sc in
  match st with
  | SConnect first =>
      (* Connect may be started once; a client made by newclient (callers may already wait at its
         gate) can still be connected *)
      if (match phase (m_st m) with PInit => false | _ => true end) then (m, ObBad) else
      let m0 := mkM (m_st m) (m_events m) (m_peerq m) (m_peer_closed m) (m_seen m) (m_fail m) (m_failed m) true (m_fuel_out m) in
      let m1 := fire sc m0 ConnStart in
      match first with
      | None => (settle sc settle_fuel m1, ObOk)
      | Some f => peer_put sc (mkPFrame f None) m1
      end
  | SNewClient =>
      (mkM (m_st m) (m_events m) (m_peerq m) (m_peer_closed m) (m_seen m) (m_fail m) (m_failed m) true (m_fuel_out m), ObOk)
  | SPeerSend p => peer_put sc p m
  | SPeerRest =>
      (* the cut frame the client is (or will be) in the middle of becomes whole *)
      match m_peerq m with
      | p :: r =>
          match pf_cut p with
          | Some _ =>
              if m_peer_closed m then (m, ObBad) else
              let m1 := settle sc settle_fuel (set_peerq (mkPFrame (pf_frame p) None :: r) m) in
              (m1, ObPeer (Nat.eqb (unwritten m1) 0) (f_id (pf_frame p)))
          | None => (m, ObBad)
          end
      | [] => (m, ObBad)
      end
  | SReply to f =>
      match nth_error (m_seen m) to with
      | Some o => peer_put sc (mkPFrame (mkFrame (f_ver f) (f_typ f) (f_id (o_frame o)) (f_len f) (f_tag f) (f_info f)) None) m
      | None => (m, ObBad)
      end
  | SReplyCut to f k =>
      match nth_error (m_seen m) to with
      | Some o => peer_put sc (mkPFrame (mkFrame (f_ver f) (f_typ f) (f_id (o_frame o)) (f_len f) (f_tag f) (f_info f)) (Some k)) m
      | None => (m, ObBad)
      end
  | SSend c r =>
      if is_fresh c (m_st m) then (settle sc settle_fuel (fire sc m (Submit c r)), ObOk) else (m, ObBad)
  | SShutdown c =>
      if is_fresh c (m_st m) then (settle sc settle_fuel (fire sc m (Submit c shutdown_req)), ObOk) else (m, ObBad)
  | SExpectFrame =>
      match read_frame sc m with
      | (m', Some o) => (m', ObFrame o)
      | (m', None) => (m', ObNone)
      end
  | SDrain => let '(m', l) := drain sc 2000 m [] in (m', ObFrames l)
  | SCancel c =>
      let m1 := settle sc settle_fuel (fire sc m (Cancel c)) in
      (m1, ObCaller (lookup c (callers (m_st m1))))
  | SWaitCaller c => (m, ObCaller (lookup c (callers (m_st m))))
  | SClose =>
      let ok := negb (closed (m_st m)) in
      (settle sc settle_fuel (fire sc m Close), ObClose ok)
  | SPeerClose =>
      let m1 := mkM (m_st m) (m_events m) (m_peerq m) true (m_seen m) (m_fail m) (m_failed m) (m_started m) (m_fuel_out m) in
      (settle sc settle_fuel m1, ObOk)
  | SWaitConnect => (m, ObConnect (phase (m_st m)))
  | SState =>
      let s := m_st m in
      (m, ObState (length (ackq s)) (length (awaiting s)) (writing s) (closed s) (ready s))
  | SWriteFail k => (set_fail (Some k) false m, ObOk)
  end.

(* Shutdown is SendMessage(CloseConnection) followed by Close when the reply is acceptable: the
   second half is an internal move of the Shutdown caller. It is folded into the step that
   delivers the reply: after every step, every caller that was submitted by SShutdown, is Done
   with an acceptable reply and has not closed yet, fires ShutdownClose. *)
Definition shutdown_moves (sc : sconfig) (shut : list N) (m : mstate) : mstate :=
  fold_left (fun m c =>
    match lookup c (callers (m_st m)) with
    | Some (Done r (ROk _ f)) =>
        if (q_typ r =? T_CloseConnection) && shutdown_ok f && negb (existsb (N.eqb c) (shut_done (m_st m)))
        then settle sc settle_fuel (fire sc m (ShutdownClose c)) else m
    | _ => m
    end) shut m.

Fixpoint exec_all (sc : sconfig) (m : mstate) (shut : list N) (steps : list sstep) (acc : list obs)
  : mstate * list obs :=
  match steps with
  | [] => (m, rev acc)
  | st :: r =>
      let shut' := match st with SShutdown c => c :: shut | _ => shut end in
      let '(m1, o) := exec sc m st in
      let m2 := shutdown_moves sc shut' m1 in
      (* the observation of a step that released a Shutdown caller is taken after its Close *)
      let o' := match st, o with
                | SWaitCaller c, _ => ObCaller (lookup c (callers (m_st m2)))
                | _, _ => o
                end in
      exec_all sc m2 shut' r (o' :: acc)
  end.

Definition run_script (sc : sconfig) (steps : list sstep) : mstate * list obs :=
  exec_all sc (minit sc) [] steps [].

(* sanity: the collected events reproduce the final state *)
Definition replay_ok (sc : sconfig) (m : mstate) : state :=
  xrun (sc_watch sc) (sc_cfg sc) (rev (m_events m)).
