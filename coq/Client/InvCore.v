(* Client/InvCore.v — the invariant behind C03 (and reused by C05): the await map is a partial
   function from ids to callers holding a token for that id, tokens come from the assignment
   history, and [delivered] records exactly the replies callers hold.
   Proved for every event list by induction, for both values of [filter_unsolicited]. *)
From Coq Require Import NArith Arith List Bool Lia.
From LLRP Require Import Client.Types Client.Model Client.MapLemmas.
Import ListNotations.
Open Scope N_scope.

Definition token_or_done (p : cphase) : Prop :=
  match p with HasToken _ _ | Done _ _ => True | _ => False end.
Definition not_reply (res : result) : Prop := match res with ROk _ _ => False | _ => True end.

Record core_inv (cfg : config) (s : state) : Prop := mkCoreInv {
  ci_await : forall i c, lookup i (awaiting s) = Some c ->
             exists r, lookup c (callers s) = Some (HasToken r i);
  ci_token : forall c r i, lookup c (callers s) = Some (HasToken r i) -> In (c, i) (assigned s);
  ci_assigned : forall c i, In (c, i) (assigned s) ->
             exists p, lookup c (callers s) = Some p /\ token_or_done p;
  ci_assigned_nodup : NoDup (map fst (assigned s));
  ci_deliv : forall c q f, In (c, q, f) (delivered s) ->
             (exists r, lookup c (callers s) = Some (Done r (ROk q f))) /\
             nth_error (peer_sent s) q = Some f /\
             In (c, f_id f) (assigned s) /\
             (filter_unsolicited cfg = true -> is_unsolicited (f_typ f) = false);
  ci_done : forall c r q f, lookup c (callers s) = Some (Done r (ROk q f)) -> In (c, q, f) (delivered s);
  ci_deliv_seq : NoDup (map (fun x => snd (fst x)) (delivered s));
  ci_deliv_caller : NoDup (map (fun x => fst (fst x)) (delivered s))
}.

(* ---- the invariant only reads five fields ---- *)
Definition same_core (s s' : state) : Prop :=
  callers s' = callers s /\ awaiting s' = awaiting s /\ assigned s' = assigned s /\
  delivered s' = delivered s /\ peer_sent s' = peer_sent s.

Lemma core_inv_same : forall cfg s s', same_core s s' -> core_inv cfg s -> core_inv cfg s'.
Proof.
  intros cfg s s' (Hc & Ha & Hs & Hd & Hp) [].
  constructor; rewrite ?Hc, ?Ha, ?Hs, ?Hd, ?Hp; assumption.
Qed.

Lemma same_core_refl : forall s, same_core s s.
Proof. intros; repeat split. Qed.

Ltac same_core_tac :=
  repeat match goal with
         | |- same_core ?s ?s => apply same_core_refl
         | |- same_core _ (match ?x with _ => _ end) => destruct x
         | |- same_core _ (if ?x then _ else _) => destruct x
         | |- same_core _ _ => unfold same_core; st_simpl_goal; repeat split; reflexivity
         end.

(* ---- peer_sent only grows at the end ---- *)
Lemma core_inv_peer_app : forall cfg s f,
  core_inv cfg s -> core_inv cfg (set_peer_sent (peer_sent s ++ [f]) s).
Proof.
  intros cfg s f []. constructor; st_simpl_goal; try assumption.
  intros c q g Hin. destruct (ci_deliv0 c q g Hin) as (A & B & C & D).
  repeat split; try assumption. now apply nth_error_app_old.
Qed.

(* ---- a caller changes between phases that hold neither a token nor a reply ---- *)
Definition plain (p : cphase) : Prop :=
  match p with Gate _ | Queued _ => True | Done _ res => not_reply res | HasToken _ _ => False end.

Lemma core_inv_update_plain : forall cfg s c pold pnew,
  core_inv cfg s ->
  lookup c (callers s) = Some pold -> ~ token_or_done pold -> plain pnew ->
  core_inv cfg (set_callers (update c pnew (callers s)) s).
Proof.
  intros cfg s c pold pnew [] Hold Hnt Hpl.
  assert (Hnotass : forall i, ~ In (c, i) (assigned s)).
  { intros i Hin. destruct (ci_assigned0 c i Hin) as (p & Hp & Htd). congruence. }
  constructor; st_simpl_goal; try assumption.
  - intros i c0 Hi. destruct (ci_await0 i c0 Hi) as (r & Hr).
    exists r. rewrite lookup_update. destruct (c0 =? c) eqn:E; [|assumption].
    apply N.eqb_eq in E; subst. rewrite Hold in Hr. inversion Hr; subst. exfalso. apply Hnt. exact I.
  - intros c0 r i. rewrite lookup_update. destruct (c0 =? c) eqn:E.
    + rewrite Hold. intros H; inversion H; subst. destruct Hpl.
    + apply ci_token0.
  - intros c0 i Hin. destruct (ci_assigned0 c0 i Hin) as (p & Hp & Htd).
    exists p. split; [|assumption]. rewrite lookup_update. destruct (c0 =? c) eqn:E; [|assumption].
    apply N.eqb_eq in E; subst. exfalso. eapply Hnotass; eauto.
  - intros c0 q f Hin. destruct (ci_deliv0 c0 q f Hin) as ((r & A) & B & C & D).
    repeat split; try assumption. exists r. rewrite lookup_update. destruct (c0 =? c) eqn:E; [|assumption].
    apply N.eqb_eq in E; subst. exfalso. eapply Hnotass; eauto.
  - intros c0 r q f. rewrite lookup_update. destruct (c0 =? c) eqn:E.
    + rewrite Hold. intros H; inversion H; subst. destruct Hpl.
    + apply ci_done0.
Qed.

(* ---- a new caller ---- *)
Lemma core_inv_new_caller : forall cfg s c p,
  core_inv cfg s -> lookup c (callers s) = None -> plain p ->
  core_inv cfg (set_callers (callers s ++ [(c, p)]) s).
Proof.
  intros cfg s c p [] Hnone Hpl.
  constructor; st_simpl_goal; try assumption.
  - intros i c0 Hi. destruct (ci_await0 i c0 Hi) as (r & Hr). exists r. rewrite lookup_app, Hr. reflexivity.
  - intros c0 r i. rewrite lookup_app. destruct (lookup c0 (callers s)) eqn:E.
    + intros H; inversion H; subst. eapply ci_token0; eauto.
    + destruct (c0 =? c); [|discriminate]. intros H; inversion H; subst. destruct Hpl.
  - intros c0 i Hin. destruct (ci_assigned0 c0 i Hin) as (p0 & Hp & Htd). exists p0. split; [|assumption].
    rewrite lookup_app, Hp. reflexivity.
  - intros c0 q f Hin. destruct (ci_deliv0 c0 q f Hin) as ((r & A) & B & C & D).
    repeat split; try assumption. exists r. rewrite lookup_app, A. reflexivity.
  - intros c0 r q f. rewrite lookup_app. destruct (lookup c0 (callers s)) eqn:E.
    + intros H; inversion H; subst. eapply ci_done0; eauto.
    + destruct (c0 =? c); [|discriminate]. intros H; inversion H; subst. destruct Hpl.
Qed.

(* ---- a caller holding the token for i gives up: token.cancel(), then Done ---- *)
Lemma core_inv_leave_token : forall cfg s c r i res,
  core_inv cfg s -> lookup c (callers s) = Some (HasToken r i) -> not_reply res ->
  core_inv cfg (set_caller c (Done r res) (do_cancel c i s)).
Proof.
  intros cfg s c r i res Hinv Hc Hres.
  (* first: the state after do_cancel satisfies the invariant except that c may hold a token
     without an await entry — which the invariant allows; and no entry for i remains *)
  assert (Hmid : core_inv cfg (do_cancel c i s) /\
                 lookup c (callers (do_cancel c i s)) = Some (HasToken r i) /\
                 lookup i (awaiting (do_cancel c i s)) = None).
  { unfold do_cancel. destruct (lookup i (awaiting s)) as [c'|] eqn:Hi.
    2:{ split; [assumption | split; assumption]. }
    destruct Hinv. destruct (ci_await0 i c' Hi) as (r' & Hc').
    assert (Hrem : forall s0, awaiting s0 = remove i (awaiting s) ->
                   forall i0 c0, lookup i0 (awaiting s0) = Some c0 -> i0 <> i /\ lookup i0 (awaiting s) = Some c0).
    { intros s0 E i0 c0. rewrite E, lookup_remove. destruct (i0 =? i) eqn:E2; [discriminate|].
      apply N.eqb_neq in E2. auto. }
    destruct (c' =? c) eqn:Ecc.
    - (* own entry *)
      split; [|split].
      + constructor; st_simpl_goal; try assumption.
        intros i0 c0 H0. rewrite lookup_remove in H0. destruct (i0 =? i); [discriminate|]. now apply ci_await0.
      + st_simpl_goal. assumption.
      + st_simpl_goal. rewrite lookup_remove, N.eqb_refl. reflexivity.
    - (* the id was assigned twice: another caller's channel is closed *)
      apply N.eqb_neq in Ecc. st_simpl_goal. rewrite Hc'. unfold set_caller. st_simpl_goal.
      split; [|split].
      + constructor; st_simpl_goal; try assumption.
        * intros i0 c0 H0. rewrite lookup_remove in H0. destruct (i0 =? i) eqn:E0; [discriminate|].
          apply N.eqb_neq in E0. destruct (ci_await0 i0 c0 H0) as (r0 & Hr0). exists r0.
          rewrite lookup_update. destruct (c0 =? c') eqn:E1; [|assumption].
          apply N.eqb_eq in E1; subst. rewrite Hc' in Hr0. inversion Hr0; subst. congruence.
        * intros c0 r0 i0. rewrite lookup_update. destruct (c0 =? c') eqn:E1.
          -- rewrite Hc'. discriminate.
          -- apply ci_token0.
        * intros c0 i0 Hin. destruct (ci_assigned0 c0 i0 Hin) as (p & Hp & Htd).
          rewrite lookup_update. destruct (c0 =? c') eqn:E1.
          -- apply N.eqb_eq in E1; subst. rewrite Hc'. eexists; split; [reflexivity|exact I].
          -- exists p; auto.
        * intros c0 q f Hin. destruct (ci_deliv0 c0 q f Hin) as ((r0 & A) & B & C & D).
          repeat split; try assumption. exists r0. rewrite lookup_update.
          destruct (c0 =? c') eqn:E1; [|assumption].
          apply N.eqb_eq in E1; subst. congruence.
        * intros c0 r0 q f. rewrite lookup_update. destruct (c0 =? c') eqn:E1.
          -- rewrite Hc'. discriminate.
          -- apply ci_done0.
      + rewrite lookup_update_other by congruence. assumption.
      + rewrite lookup_remove, N.eqb_refl. reflexivity. }
  destruct Hmid as (Hinv' & Hc2 & Hi2). remember (do_cancel c i s) as s1. clear Heqs1 Hinv Hc s.
  destruct Hinv'. unfold set_caller.
  constructor; st_simpl_goal; try assumption.
  - intros i0 c0 H0. destruct (ci_await0 i0 c0 H0) as (r0 & Hr0). exists r0.
    rewrite lookup_update. destruct (c0 =? c) eqn:E; [|assumption].
    apply N.eqb_eq in E; subst. rewrite Hc2 in Hr0. inversion Hr0; subst. congruence.
  - intros c0 r0 i0. rewrite lookup_update. destruct (c0 =? c) eqn:E.
    + rewrite Hc2. discriminate.
    + apply ci_token0.
  - intros c0 i0 Hin. destruct (ci_assigned0 c0 i0 Hin) as (p & Hp & Htd).
    rewrite lookup_update. destruct (c0 =? c) eqn:E.
    + rewrite Hc2. eexists; split; [reflexivity|exact I].
    + exists p; auto.
  - intros c0 q f Hin. destruct (ci_deliv0 c0 q f Hin) as ((r0 & A) & B & C & D).
    repeat split; try assumption. exists r0. rewrite lookup_update.
    destruct (c0 =? c) eqn:E; [|assumption]. apply N.eqb_eq in E; subst. congruence.
  - intros c0 r0 q f. rewrite lookup_update. destruct (c0 =? c) eqn:E.
    + rewrite Hc2. intros H; inversion H; subst. destruct Hres.
    + apply ci_done0.
Qed.

Lemma core_inv_leave : forall cfg s c res, not_reply res -> core_inv cfg s -> core_inv cfg (leave res c s).
Proof.
  intros cfg s c res Hres Hinv. unfold leave.
  destruct (lookup c (callers s)) as [[r|r|r i|r res0]|] eqn:Hc; try assumption.
  - eapply core_inv_update_plain; [exact Hinv | exact Hc | cbn; tauto | exact Hres].
  - eapply core_inv_update_plain; [exact Hinv | exact Hc | cbn; tauto | exact Hres].
  - now apply core_inv_leave_token.
Qed.

(* ---- the write loop accepts a request ---- *)
Lemma core_inv_waccept : forall cfg s c, core_inv cfg s -> core_inv cfg (step_waccept cfg c s).
Proof.
  intros cfg s c Hinv. unfold step_waccept.
  destruct (writer s); try assumption.
  destruct (lookup c (callers s)) as [[r|r|r i|r res0]|] eqn:Hc; try assumption.
  set (id := if q_id r =? 0 then next_id s else q_id r).
  set (s1 := if q_id r =? 0 then set_next_id (u32 (next_id s + 1)) s else s).
  assert (Hs1 : same_core s s1) by (subst s1; destruct (q_id r =? 0); same_core_tac).
  destruct Hs1 as (E1 & E2 & E3 & E4 & E5).
  destruct Hinv.
  assert (Hnotass : forall i, ~ In (c, i) (assigned s)).
  { intros i Hin. destruct (ci_assigned0 c i Hin) as (p & Hp & Htd). rewrite Hc in Hp. inversion Hp; subst. destruct Htd. }
  assert (Hnd : NoDup (map fst (assigned s ++ [(c, id)]))).
  { rewrite map_app. cbn. apply NoDup_app_last; [assumption|].
    intros Hin. apply in_map_iff in Hin. destruct Hin as ([c0 i0] & Ec & Hin). cbn in Ec; subst. eapply Hnotass; eauto. }
  destruct (q_wait r); unfold set_caller; constructor; st_simpl_goal; rewrite ?E1, ?E2, ?E3, ?E4, ?E5; try assumption.
  - (* await *)
    intros i0 c0. rewrite lookup_insert. destruct (i0 =? id) eqn:E.
    + apply N.eqb_eq in E; subst i0. intros H; inversion H; subst. exists r. now apply lookup_update_same with (x := Queued r).
    + intros H0. destruct (ci_await0 i0 c0 H0) as (r0 & Hr0). exists r0.
      rewrite lookup_update_other; [assumption|]. intros ->. congruence.
  - intros c0 r0 i0. rewrite lookup_update. destruct (c0 =? c) eqn:E.
    + apply N.eqb_eq in E; subst. rewrite Hc. intros H; inversion H; subst. apply in_or_app. right. now left.
    + intros H. apply in_or_app. left. eapply ci_token0; eauto.
  - intros c0 i0 Hin. apply in_app_or in Hin. destruct Hin as [Hin|[Hin|[]]].
    + destruct (ci_assigned0 c0 i0 Hin) as (p & Hp & Htd). exists p. split; [|assumption].
      rewrite lookup_update_other; [assumption|]. intros ->. eapply Hnotass; eauto.
    + inversion Hin; subst. eexists. split; [eapply lookup_update_same; eauto | exact I].
  - intros c0 q f Hin. destruct (ci_deliv0 c0 q f Hin) as ((r0 & A) & B & C & D).
    repeat split; try assumption.
    + exists r0. rewrite lookup_update_other; [assumption|]. intros ->. congruence.
    + apply in_or_app. now left.
  - intros c0 r0 q f. rewrite lookup_update. destruct (c0 =? c) eqn:E.
    + rewrite Hc. discriminate.
    + apply ci_done0.
  - (* no-wait *)
    intros i0 c0 H0. destruct (ci_await0 i0 c0 H0) as (r0 & Hr0). exists r0.
    rewrite lookup_update_other; [assumption|]. intros ->. congruence.
  - intros c0 r0 i0. rewrite lookup_update. destruct (c0 =? c) eqn:E.
    + rewrite Hc. discriminate.
    + intros H. apply in_or_app. left. eapply ci_token0; eauto.
  - intros c0 i0 Hin. apply in_app_or in Hin. destruct Hin as [Hin|[Hin|[]]].
    + destruct (ci_assigned0 c0 i0 Hin) as (p & Hp & Htd). exists p. split; [|assumption].
      rewrite lookup_update_other; [assumption|]. intros ->. eapply Hnotass; eauto.
    + inversion Hin; subst. eexists. split; [eapply lookup_update_same; eauto | exact I].
  - intros c0 q f Hin. destruct (ci_deliv0 c0 q f Hin) as ((r0 & A) & B & C & D).
    repeat split; try assumption.
    + exists r0. rewrite lookup_update_other; [assumption|]. intros ->. congruence.
    + apply in_or_app. now left.
  - intros c0 r0 q f. rewrite lookup_update. destruct (c0 =? c) eqn:E.
    + rewrite Hc. intros H; inversion H.
    + apply ci_done0.
Qed.

Lemma same_core_trans : forall s1 s2 s3, same_core s1 s2 -> same_core s2 s3 -> same_core s1 s3.
Proof.
  intros s1 s2 s3 (A1 & A2 & A3 & A4 & A5) (B1 & B2 & B3 & B4 & B5).
  repeat split; congruence.
Qed.

Lemma core_inv_remove_await : forall cfg s i,
  core_inv cfg s -> core_inv cfg (set_awaiting (remove i (awaiting s)) s).
Proof.
  intros cfg s i []. constructor; st_simpl_goal; try assumption.
  intros i0 c0 H0. rewrite lookup_remove in H0. destruct (i0 =? i); [discriminate|]. now apply ci_await0.
Qed.

(* ---- the read loop looks up the waiter and hands the frame over ---- *)
Lemma core_inv_take_waiter : forall cfg whole s seq f,
  core_inv cfg s ->
  nth_error (peer_sent s) seq = Some f ->
  (forall c q g, In (c, q, g) (delivered s) -> q <> seq) ->
  core_inv cfg (fst (take_waiter cfg whole seq f s)).
Proof.
  intros cfg whole s seq f Hinv Hnth Hfresh. unfold take_waiter.
  destruct (consults cfg (f_typ f)) eqn:Hcons; [|assumption].
  destruct (lookup (f_id f) (awaiting s)) as [c|] eqn:Haw; [|assumption].
  pose proof (core_inv_remove_await cfg s (f_id f) Hinv) as Hinv2.
  destruct (whole || (max_buffered <? f_len f)); [|assumption].
  st_simpl_goal.
  destruct (ci_await cfg s Hinv _ _ Haw) as (r & Hc). rewrite Hc. cbn [fst].
  assert (Hass : In (c, f_id f) (assigned s)) by (eapply ci_token; eauto).
  destruct Hinv as [A B C D E F G H]. unfold set_caller.
  constructor; st_simpl_goal; try assumption.
  - intros i0 c0 H0. rewrite lookup_remove in H0. destruct (i0 =? f_id f) eqn:E0; [discriminate|].
    apply N.eqb_neq in E0. destruct (A i0 c0 H0) as (r0 & Hr0). exists r0.
    rewrite lookup_update_other; [assumption|]. intros ->. rewrite Hc in Hr0. inversion Hr0; subst. congruence.
  - intros c0 r0 i0. rewrite lookup_update. destruct (c0 =? c) eqn:E0.
    + rewrite Hc. discriminate.
    + apply B.
  - intros c0 i0 Hin. destruct (C c0 i0 Hin) as (p & Hp & Htd).
    rewrite lookup_update. destruct (c0 =? c) eqn:E0.
    + rewrite Hc. eexists; split; [reflexivity|exact I].
    + exists p; auto.
  - intros c0 q g Hin. apply in_app_or in Hin. destruct Hin as [Hin|[Hin|[]]].
    + destruct (E c0 q g Hin) as ((r0 & A0) & B0 & C0 & D0). repeat split; try assumption.
      exists r0. rewrite lookup_update_other; [assumption|]. intros ->. congruence.
    + inversion Hin; subst. repeat split; try assumption.
      * exists r. eapply lookup_update_same; eauto.
      * intros Hf. unfold consults in Hcons. rewrite Hf in Hcons. cbn in Hcons.
        destruct (is_unsolicited (f_typ g)); [discriminate|reflexivity].
  - intros c0 r0 q g. rewrite lookup_update. destruct (c0 =? c) eqn:E0.
    + apply N.eqb_eq in E0; subst. rewrite Hc. intros H0; inversion H0; subst. apply in_or_app. right. now left.
    + intros H0. apply in_or_app. left. eapply F; eauto.
  - rewrite map_app. cbn. apply NoDup_app_last; [assumption|].
    intros Hin. apply in_map_iff in Hin. destruct Hin as ([[c0 q0] g0] & Eq & Hin). cbn in Eq; subst.
    eapply Hfresh; eauto.
  - rewrite map_app. cbn. apply NoDup_app_last; [assumption|].
    intros Hin. apply in_map_iff in Hin. destruct Hin as ([[c0 q0] g0] & Eq & Hin). cbn in Eq; subst.
    destruct (E c q0 g0 Hin) as ((r0 & A0) & _). congruence.
Qed.

Lemma take_waiter_same_else : forall cfg whole s seq f,
  let s' := fst (take_waiter cfg whole seq f s) in
  peer_sent s' = peer_sent s /\ assigned s' = assigned s.
Proof.
  intros. subst s'. unfold take_waiter.
  destruct (consults cfg (f_typ f)); [|split; reflexivity].
  destruct (lookup (f_id f) (awaiting s)); [|split; reflexivity].
  destruct (whole || (max_buffered <? f_len f)); [|split; reflexivity].
  st_simpl_goal. destruct (lookup n (callers s)) as [[]|]; split; reflexivity.
Qed.

Lemma ack_enqueue_same_core : forall i s, same_core s (ack_enqueue i s).
Proof. intros. unfold ack_enqueue. same_core_tac. Qed.

Lemma run_handler_same_core : forall cfg seq f h rep s, same_core s (run_handler cfg seq f h rep s).
Proof.
  intros. unfold run_handler.
  destruct (handler_for cfg (f_typ f)); try (same_core_tac; fail).
  eapply same_core_trans; [|apply ack_enqueue_same_core]. same_core_tac.
Qed.

Lemma note_close_resp_same_core : forall f s, same_core s (note_close_resp f s).
Proof. intros. unfold note_close_resp. same_core_tac. Qed.

(* the new frame's number is fresh among the delivered ones *)
Lemma deliv_seq_lt : forall cfg s c q g, core_inv cfg s -> In (c, q, g) (delivered s) -> (q < length (peer_sent s))%nat.
Proof. intros cfg s c q g Hinv Hin. destruct (ci_deliv cfg s Hinv c q g Hin) as (_ & Hn & _). eapply nth_error_lt; eauto. Qed.

Lemma core_inv_receive : forall cfg whole s f,
  core_inv cfg s ->
  core_inv cfg (fst (take_waiter cfg whole (length (peer_sent s)) f
                       (note_close_resp f (set_peer_sent (peer_sent s ++ [f]) s)))).
Proof.
  intros cfg whole s f Hinv.
  pose proof (core_inv_peer_app cfg s f Hinv) as H1.
  pose proof (core_inv_same cfg _ _ (note_close_resp_same_core f _) H1) as H2.
  destruct (note_close_resp_same_core f (set_peer_sent (peer_sent s ++ [f]) s)) as (E1 & E2 & E3 & E4 & E5).
  apply core_inv_take_waiter; [assumption| |].
  - rewrite E5. st_simpl_goal. apply nth_error_app_last.
  - intros c q g Hin. rewrite E4 in Hin. st_simpl. pose proof (deliv_seq_lt cfg s c q g Hinv Hin). lia.
Qed.

(* ---- every step preserves the invariant ---- *)
Lemma core_inv_init : forall cfg, core_inv cfg (init cfg).
Proof.
  intros. constructor; cbn; try (intros; discriminate); try (intros; contradiction); constructor.
Qed.

Lemma core_inv_step : forall cfg s e, core_inv cfg s -> core_inv cfg (step cfg s e).
Proof.
  intros cfg s e Hinv. destruct e; cbn [step];
    try (eapply core_inv_same; [|exact Hinv];
         match goal with |- same_core _ (?f _) => unfold f | |- same_core _ (?f _ _) => unfold f | |- same_core _ (?f _ _ _) => unfold f end;
         same_core_tac; fail).
  - (* Submit *) unfold step_submit, is_fresh.
    destruct (lookup c (callers s)) eqn:Hc; [assumption|].
    destruct (q_gate r || (q_len r <=? max_payload)); [|assumption]. cbn [andb].
    apply core_inv_new_caller; [assumption|assumption|]. destruct (q_gate r); exact I.
  - (* PassGate *) unfold step_pass_gate.
    destruct (lookup c (callers s)) as [[r|r|r i|r res0]|] eqn:Hc; try assumption.
    destruct (ready s); [|assumption]. unfold set_caller.
    eapply core_inv_update_plain;
      [exact Hinv | exact Hc | cbn; tauto | destruct (max_payload <? q_len r); exact I].
  - (* SeeClosed *) unfold step_see_closed. destruct (closed s); [|assumption]. now apply core_inv_leave.
  - (* Cancel *) unfold step_cancel. now apply core_inv_leave.
  - (* WAccept *) now apply core_inv_waccept.
  - (* RFrame *) unfold step_rframe. destruct (reader s); try assumption.
    destruct (take_waiter cfg true (length (peer_sent s)) f
                (note_close_resp f (set_peer_sent (peer_sent s ++ [f]) s))) as [s2 rep] eqn:Htw.
    pose proof (core_inv_receive cfg true s f Hinv) as H2. rewrite Htw in H2. cbn [fst] in H2.
    eapply core_inv_same; [|exact H2].
    eapply same_core_trans; [apply run_handler_same_core|]. same_core_tac.
  - (* PeerEOF *) unfold step_peer_eof. destruct (reader s); try assumption.
    destruct p.
    + eapply core_inv_same; [|exact Hinv]. unfold reader_dies. same_core_tac.
    + eapply core_inv_same; [|exact Hinv]. unfold reader_dies. same_core_tac.
    + destruct (take_waiter cfg false (length (peer_sent s)) f
                  (note_close_resp f (set_peer_sent (peer_sent s ++ [f]) s))) as [s2 rep] eqn:Htw.
      pose proof (core_inv_receive cfg false s f Hinv) as H2. rewrite Htw in H2. cbn [fst] in H2.
      destruct (rep && (f_len f <=? max_buffered)).
      * eapply core_inv_same; [|exact H2]. unfold reader_dies. same_core_tac.
      * eapply core_inv_same; [|exact H2].
        eapply same_core_trans; [apply run_handler_same_core|]. unfold eof_after_dispatch, reader_dies. same_core_tac.
  - (* ConnFirst *) unfold step_conn_first. destruct (phase s); try assumption.
    pose proof (core_inv_peer_app cfg s f Hinv) as H1.
    destruct (max_buffered <? f_len f).
    { eapply core_inv_same; [|exact H1]. unfold init_fail. same_core_tac. }
    set (s2 := match first_handler cfg (f_typ f) with Some _ => _ | None => _ end).
    assert (Hs2 : same_core (set_peer_sent (peer_sent s ++ [f]) s) s2).
    { subst s2. destruct (first_handler cfg (f_typ f)) as [k|]; [|apply same_core_refl].
      destruct k; try (same_core_tac; fail).
      eapply same_core_trans; [|apply ack_enqueue_same_core]. same_core_tac. }
    eapply core_inv_same; [|exact H1].
    eapply same_core_trans; [exact Hs2|].
    destruct ((f_typ f =? T_ReaderEventNotification) && is_conn_success (f_info f)); unfold init_fail; same_core_tac.
  - (* NegSubmit *) unfold step_neg_submit.
    destruct (phase s) as [| |st o| | |]; try assumption.
    assert (Hgo : forall st0,
              core_inv cfg (if is_fresh c s
                            then set_phase (PNegotiating st0 (Some c))
                                   (set_callers (callers s ++ [(c, Queued (neg_req st0 (version s)))]) s)
                            else s)).
    { intros st0. unfold is_fresh. destruct (lookup c (callers s)) eqn:Hc; [assumption|].
      eapply core_inv_same; [|eapply (core_inv_new_caller cfg s c (Queued (neg_req st0 (version s)))); [exact Hinv|exact Hc|exact I]].
      same_core_tac. }
    destruct st, o; try assumption; apply Hgo.
  - (* ShutdownClose *) eapply core_inv_same; [|exact Hinv]. unfold step_shutdown_close, step_close.
    same_core_tac.
Qed.

Theorem core_inv_run_from : forall cfg evs s, core_inv cfg s -> core_inv cfg (run_from cfg s evs).
Proof.
  intros cfg evs. induction evs as [|e evs IH]; intros s H; cbn; [assumption|].
  apply IH. now apply core_inv_step.
Qed.

Theorem core_inv_run : forall cfg evs, core_inv cfg (run cfg evs).
Proof. intros. apply core_inv_run_from. apply core_inv_init. Qed.
