(* Client/InvC08.v — invariants behind C08.
   1. [pre_inv]: until checkInitialMessage has accepted the first frame (and for ever if it
      rejected it) neither loop exists and nothing has been written; the phase of Connect is past
      the check exactly when the first frame read is a ReaderEventNotification within the size
      limit that decodes and reports ConnectionAttemptEvent = Success.
   2. [gate_inv]: requests that come through the exported API (SendMessage / SendNoWait: they
      wait for c.ready) are not handed to the write loop while [ready] is false, and in the stream
      of written frames no frame of the internal negotiation sends comes after a frame of such a
      request.
   Proved for every event list (every schedule, every first frame, every reply). *)
From Coq Require Import NArith Arith List Bool Lia.
From LLRP Require Import Client.Types Client.Model Client.MapLemmas Client.StepFacts
     Client.InvCore Client.InvAck Client.InvOut Client.C05Proofs.
Import ListNotations.
Open Scope N_scope.

(* ------------------------------------------------------------------ the initial check --- *)
(* what checkInitialMessage (reader.go 1043-1094) accepts *)
Definition first_ok (f : frame) : bool :=
  (f_len f <=? max_buffered) && (f_typ f =? T_ReaderEventNotification) && is_conn_success (f_info f).

Lemma first_ok_spec : forall f, first_ok f = true <->
  f_typ f = T_ReaderEventNotification /\ f_len f <= max_buffered /\ f_info f = IConn Status_Success.
Proof.
  intro f. unfold first_ok, is_conn_success, Status_Success. split.
  - intro H. apply andb_prop in H. destruct H as (H & H3). apply andb_prop in H. destruct H as (H1 & H2).
    apply N.leb_le in H1. apply N.eqb_eq in H2. destruct (f_info f); try discriminate.
    apply N.eqb_eq in H3. subst. auto.
  - intros (H1 & H2 & H3). rewrite H1, H3. apply N.leb_le in H2. rewrite H2. reflexivity.
Qed.

(* Connect has not got past the initial check (or the check failed) *)
Definition not_passed (p : conn_phase) : bool :=
  match p with PInit | PCheckInitial | PReturned CErrInit | PDraining CErrInit => true | _ => false end.

Record pre_inv (s : state) : Prop := mkPreInv {
  pi_quiet : not_passed (phase s) = true ->
             writer s = WNone /\ reader s = RNone /\ out s = [] /\ wire s = [];
  pi_nofirst : phase s = PInit \/ phase s = PCheckInitial -> peer_sent s = [] /\ ready s = false;
  pi_failed : not_passed (phase s) = true ->
              peer_sent s = [] \/ exists f, peer_sent s = [f] /\ first_ok f = false;
  pi_passed : not_passed (phase s) = false -> exists f rest, peer_sent s = f :: rest /\ first_ok f = true
}.

(* steps that leave Connect, both loops, the wire and the inbound history alone *)
Definition same_ctl (s s' : state) : Prop :=
  phase s' = phase s /\ ready s' = ready s /\ writer s' = writer s /\ reader s' = reader s /\
  out s' = out s /\ wire s' = wire s /\ peer_sent s' = peer_sent s /\ errs s' = errs s /\
  version s' = version s /\ closed s' = closed s.

Lemma same_ctl_refl : forall s, same_ctl s s.
Proof. intros; repeat split. Qed.
Lemma same_ctl_trans : forall a b c, same_ctl a b -> same_ctl b c -> same_ctl a c.
Proof. unfold same_ctl. intros a b c H1 H2. intuition congruence. Qed.

Ltac same_ctl_tac :=
  repeat match goal with
         | |- same_ctl ?s ?s => apply same_ctl_refl
         | |- same_ctl _ (match ?x with _ => _ end) => destruct x
         | |- same_ctl _ (if ?x then _ else _) => destruct x
         | |- same_ctl _ _ => unfold same_ctl; st_simpl_goal; repeat split; reflexivity
         end.

Lemma leave_same_ctl : forall res c s, same_ctl s (leave res c s).
Proof.
  intros. unfold leave, do_cancel, set_caller.
  destruct (lookup c (callers s)) as [[r|r|r i|r res0]|]; try (same_ctl_tac; fail).
  destruct (lookup i (awaiting s)) as [c'|]; [|same_ctl_tac].
  destruct (c' =? c); [same_ctl_tac|]. st_simpl_goal.
  destruct (lookup c' (callers s)) as [[]|]; same_ctl_tac.
Qed.

Lemma take_waiter_same_ctl : forall cfg whole seq f s, same_ctl s (fst (take_waiter cfg whole seq f s)).
Proof.
  intros. unfold take_waiter.
  destruct (consults cfg (f_typ f)); [|apply same_ctl_refl].
  destruct (lookup (f_id f) (awaiting s)); [|apply same_ctl_refl].
  destruct (whole || (max_buffered <? f_len f)); cbn [fst]; [|same_ctl_tac].
  st_simpl_goal. destruct (lookup n (callers s)) as [[]|]; cbn [fst]; unfold set_caller; same_ctl_tac.
Qed.

Lemma ack_enqueue_same_ctl : forall i s, same_ctl s (ack_enqueue i s).
Proof. intros. unfold ack_enqueue. same_ctl_tac. Qed.

Lemma run_handler_same_ctl : forall cfg seq f h rep s, same_ctl s (run_handler cfg seq f h rep s).
Proof.
  intros. unfold run_handler. destruct (handler_for cfg (f_typ f)); try (same_ctl_tac; fail).
  eapply same_ctl_trans; [|apply ack_enqueue_same_ctl]. same_ctl_tac.
Qed.

Lemma note_close_resp_same_ctl : forall f s, same_ctl s (note_close_resp f s).
Proof. intros. unfold note_close_resp. same_ctl_tac. Qed.

Lemma pre_inv_fields : forall s s',
  phase s' = phase s -> ready s' = ready s -> writer s' = writer s -> reader s' = reader s ->
  out s' = out s -> wire s' = wire s -> peer_sent s' = peer_sent s -> pre_inv s -> pre_inv s'.
Proof.
  intros s s' Hp Hr Hw Hrd Ho Hwi Hps [A B C D].
  constructor; rewrite ?Hp, ?Hr, ?Hw, ?Hrd, ?Ho, ?Hwi, ?Hps; assumption.
Qed.

Lemma pre_inv_same : forall s s', same_ctl s s' -> pre_inv s -> pre_inv s'.
Proof. intros s s' (Hp & Hr & Hw & Hrd & Ho & Hwi & Hps & _). now apply pre_inv_fields. Qed.

(* what the inbound side of a step can do to the facts pre_inv reads *)
Definition inbound_only (s s' : state) : Prop :=
  phase s' = phase s /\ ready s' = ready s /\ writer s' = writer s /\ out s' = out s /\ wire s' = wire s /\
  (peer_sent s' = peer_sent s \/ exists f, peer_sent s' = peer_sent s ++ [f]).

Lemma pre_inv_passed_step : forall s s',
  not_passed (phase s) = false ->
  phase s' = phase s -> (peer_sent s' = peer_sent s \/ exists f, peer_sent s' = peer_sent s ++ [f]) ->
  pre_inv s -> pre_inv s'.
Proof.
  intros s s' Hnp Hp Hps [A B C D].
  constructor; rewrite ?Hp.
  - rewrite Hnp. discriminate.
  - intros [E|E]; rewrite E in Hnp; discriminate.
  - rewrite Hnp. discriminate.
  - intros _. destruct (D Hnp) as (f & rest & E & F).
    destruct Hps as [Hps|(g & Hps)]; rewrite Hps, E; [eauto|].
    exists f, (rest ++ [g]). split; [reflexivity|assumption].
Qed.

Lemma pre_inv_passed_gen : forall s s',
  not_passed (phase s) = false -> peer_sent s' = peer_sent s -> not_passed (phase s') = false ->
  pre_inv s -> pre_inv s'.
Proof.
  intros s s' Hnp E1 E2 [A B C D]. destruct (D Hnp) as (f & rest & E & F).
  constructor; rewrite ?E2; try discriminate.
  - intros [X|X]; rewrite X in E2; discriminate.
  - intros _. rewrite E1. eauto.
Qed.

Lemma pre_inv_init : forall cfg, pre_inv (init cfg).
Proof.
  intros. constructor; cbn; intros; auto.
  discriminate.
Qed.

Lemma init_fail_pre : forall s,
  phase s = PCheckInitial -> writer s = WNone -> reader s = RNone -> out s = [] -> wire s = [] ->
  (peer_sent s = [] \/ exists f, peer_sent s = [f] /\ first_ok f = false) ->
  pre_inv (init_fail s).
Proof.
  intros s Hp Hw Hr Ho Hwi Hps. unfold init_fail. constructor; st_simpl_goal; cbn [not_passed].
  - auto.
  - intros [E|E]; discriminate.
  - auto.
  - discriminate.
Qed.

Lemma pre_inv_step : forall cfg s e, pre_inv s -> pre_inv (step cfg s e).
Proof.
  intros cfg s e Hinv. pose proof Hinv as [A B C D].
  destruct e; cbn [step].
  - (* Submit *) apply (pre_inv_same s); [|assumption]. unfold step_submit. same_ctl_tac.
  - (* PassGate *) apply (pre_inv_same s); [|assumption]. unfold step_pass_gate, set_caller. same_ctl_tac.
  - (* SeeClosed *) apply (pre_inv_same s); [|assumption]. unfold step_see_closed.
    destruct (closed s); [apply leave_same_ctl|apply same_ctl_refl].
  - (* Cancel *) apply (pre_inv_same s); [|assumption]. apply leave_same_ctl.
  - (* WDefault *) destruct (not_passed (phase s)) eqn:Hnp.
    + destruct (A eq_refl) as (Hw & _). unfold step_wdefault. rewrite Hw. assumption.
    + apply (pre_inv_passed_step s); auto; unfold step_wdefault;
        destruct (writer s), (ackq s); try reflexivity; try (left; reflexivity);
        destruct (closed s); try reflexivity; left; reflexivity.
  - (* WAccept *) destruct (not_passed (phase s)) eqn:Hnp.
    + destruct (A eq_refl) as (Hw & _). unfold step_waccept. rewrite Hw. assumption.
    + apply (pre_inv_passed_step s); auto; unfold step_waccept, set_caller;
        destruct (writer s); try reflexivity; try (left; reflexivity);
        destruct (lookup c (callers s)) as [[r|r|r i|r res0]|]; try reflexivity; try (left; reflexivity);
        cbn zeta; destruct (q_wait r), (q_id r =? 0); st_simpl_goal; try reflexivity; left; reflexivity.
  - (* WTakeAck *) destruct (not_passed (phase s)) eqn:Hnp.
    + destruct (A eq_refl) as (Hw & _). unfold step_wtakeack. rewrite Hw. assumption.
    + apply (pre_inv_passed_step s); auto; unfold step_wtakeack;
        destruct (writer s), (ackq s); try reflexivity; left; reflexivity.
  - (* WWriteHdr *) destruct (not_passed (phase s)) eqn:Hnp.
    + destruct (A eq_refl) as (Hw & _). unfold step_wwritehdr. rewrite Hw. assumption.
    + apply (pre_inv_passed_step s); auto; unfold step_wwritehdr;
        destruct (writer s); try reflexivity; try (left; reflexivity);
        cbn zeta; destruct (f_len _ =? 0); st_simpl_goal; try reflexivity; left; reflexivity.
  - (* WWritePay *) destruct (not_passed (phase s)) eqn:Hnp.
    + destruct (A eq_refl) as (Hw & _). unfold step_wwritepay. rewrite Hw. assumption.
    + apply (pre_inv_passed_step s); auto; unfold step_wwritepay;
        destruct (writer s); try reflexivity; left; reflexivity.
  - (* WriteFail *) destruct (not_passed (phase s)) eqn:Hnp.
    + destruct (A eq_refl) as (Hw & _). unfold step_writefail. rewrite Hw. assumption.
    + apply (pre_inv_passed_step s); auto; unfold step_writefail;
        destruct (writer s); try reflexivity; try (left; reflexivity);
        match goal with |- context [if ?b then _ else _] => destruct b end; try reflexivity; left; reflexivity.
  - (* WSeeDone *) destruct (not_passed (phase s)) eqn:Hnp.
    + destruct (A eq_refl) as (Hw & _). unfold step_wseedone. rewrite Hw. assumption.
    + apply (pre_inv_passed_step s); auto; unfold step_wseedone;
        destruct (writer s); try reflexivity; try (left; reflexivity);
        destruct (closed s); try reflexivity; left; reflexivity.
  - (* RCheck *) destruct (not_passed (phase s)) eqn:Hnp.
    + destruct (A eq_refl) as (_ & Hr & _). unfold step_rcheck. rewrite Hr. assumption.
    + apply (pre_inv_passed_step s); auto; unfold step_rcheck;
        destruct (reader s); try reflexivity; try (left; reflexivity);
        destruct (closed s); try reflexivity; left; reflexivity.
  - (* RSeeDone *) destruct (not_passed (phase s)) eqn:Hnp.
    + destruct (A eq_refl) as (_ & Hr & _). unfold step_rseedone. rewrite Hr. assumption.
    + apply (pre_inv_passed_step s); auto; unfold step_rseedone;
        destruct (reader s); try reflexivity; try (left; reflexivity);
        destruct (closed s); try reflexivity; left; reflexivity.
  - (* RFrame *) destruct (not_passed (phase s)) eqn:Hnp.
    + destruct (A eq_refl) as (_ & Hr & _). unfold step_rframe. rewrite Hr. assumption.
    + unfold step_rframe. destruct (reader s) eqn:Hrd; try assumption.
      set (s1 := note_close_resp f (set_peer_sent (peer_sent s ++ [f]) s)).
      destruct (take_waiter cfg true (length (peer_sent s)) f s1) as [s2 rep] eqn:Htw.
      pose proof (take_waiter_same_ctl cfg true (length (peer_sent s)) f s1) as H1. rewrite Htw in H1. cbn [fst] in H1.
      pose proof (run_handler_same_ctl cfg (length (peer_sent s)) f h rep s2) as H2.
      pose proof (note_close_resp_same_ctl f (set_peer_sent (peer_sent s ++ [f]) s)) as H0. fold s1 in H0.
      destruct (same_ctl_trans _ _ _ H0 (same_ctl_trans _ _ _ H1 H2)) as (Ep & _ & _ & _ & _ & _ & Eps & _).
      st_simpl.
      apply (pre_inv_passed_step s); [assumption | st_simpl_goal; exact Ep | right; exists f; st_simpl_goal; exact Eps | assumption].
  - (* PeerEOF *) destruct (not_passed (phase s)) eqn:Hnp.
    + destruct (A eq_refl) as (_ & Hr & _). unfold step_peer_eof. rewrite Hr. assumption.
    + unfold step_peer_eof. destruct (reader s) eqn:Hrd; try assumption.
      destruct p.
      * apply (pre_inv_passed_step s); auto; destruct (saw_close s); unfold reader_dies; st_simpl_goal; try reflexivity; left; reflexivity.
      * apply (pre_inv_passed_step s); auto; unfold reader_dies; st_simpl_goal; try reflexivity; left; reflexivity.
      * set (s1 := note_close_resp f (set_peer_sent (peer_sent s ++ [f]) s)).
        destruct (take_waiter cfg false (length (peer_sent s)) f s1) as [s2 rep] eqn:Htw.
        pose proof (take_waiter_same_ctl cfg false (length (peer_sent s)) f s1) as H1. rewrite Htw in H1. cbn [fst] in H1.
        pose proof (run_handler_same_ctl cfg (length (peer_sent s)) f HBAll rep s2) as H2.
        pose proof (note_close_resp_same_ctl f (set_peer_sent (peer_sent s ++ [f]) s)) as H0. fold s1 in H0.
        destruct (same_ctl_trans _ _ _ H0 H1) as (Ep1 & _ & _ & _ & _ & _ & Eps1 & _).
        destruct (same_ctl_trans _ _ _ H0 (same_ctl_trans _ _ _ H1 H2)) as (Ep & _ & _ & _ & _ & _ & Eps & _).
        st_simpl.
        destruct (rep && (f_len f <=? max_buffered)); [|eof_cases]; unfold reader_dies;
          (apply (pre_inv_passed_step s); [assumption | st_simpl_goal; assumption | right; exists f; st_simpl_goal; assumption | assumption]).
  - (* Close *) apply (pre_inv_fields s); try assumption; unfold step_close; destruct (closed s); reflexivity.
  - (* ConnStart *) unfold step_conn_start. destruct (phase s) eqn:Hp; try assumption.
    destruct (A eq_refl) as (Hw & Hr & Ho & Hwi). destruct (B (or_introl eq_refl)) as (Hps & Hrdy).
    constructor; st_simpl_goal; cbn [not_passed]; auto; discriminate.
  - (* ConnFirst *) unfold step_conn_first. destruct (phase s) eqn:Hp; try assumption.
    destruct (A eq_refl) as (Hw & Hr & Ho & Hwi). destruct (B (or_intror eq_refl)) as (Hps & Hrdy).
    destruct (max_buffered <? f_len f) eqn:Hbig.
    + apply init_fail_pre; st_simpl_goal; auto. right. exists f. rewrite Hps. split; [reflexivity|].
      unfold first_ok. apply N.ltb_lt in Hbig. apply N.leb_gt in Hbig. rewrite Hbig. reflexivity.
    + cbv zeta.
      match goal with |- pre_inv (if _ then _ else init_fail ?x) => remember x as s2 eqn:Hs2 end.
      assert (Hc : same_ctl (set_peer_sent (peer_sent s ++ [f]) s) s2).
      { subst s2. destruct (first_handler cfg (f_typ f)) as [k|]; [|apply same_ctl_refl].
        destruct k; try (same_ctl_tac; fail).
        eapply same_ctl_trans; [|apply ack_enqueue_same_ctl]. same_ctl_tac. }
      clear Hs2. destruct Hc as (E1 & E2 & E3 & E4 & E5 & E6 & E7 & _). st_simpl.
      destruct ((f_typ f =? T_ReaderEventNotification) && is_conn_success (f_info f)) eqn:Hok.
      * constructor; st_simpl_goal; cbn [not_passed]; try discriminate.
        -- intros [X|X]; discriminate.
        -- intros _. rewrite E7, Hps. exists f, []. split; [reflexivity|].
           unfold first_ok. apply N.ltb_ge in Hbig. apply N.leb_le in Hbig. rewrite Hbig. exact Hok.
      * apply init_fail_pre; try congruence.
        right. exists f. rewrite E7, Hps. split; [reflexivity|].
        unfold first_ok. rewrite <- andb_assoc, Hok. apply andb_false_r.
  - (* ConnFirstFail *) unfold step_conn_first_fail. destruct (phase s) eqn:Hp; try assumption.
    destruct (A eq_refl) as (Hw & Hr & Ho & Hwi). destruct (B (or_intror eq_refl)) as (Hps & Hrdy).
    apply init_fail_pre; auto.
  - (* NegSubmit *) unfold step_neg_submit.
    destruct (phase s) as [| |st o| | |] eqn:Hp; try assumption.
    destruct st, o; try assumption; destruct (is_fresh c s); try assumption;
      (apply (pre_inv_passed_gen s); [rewrite Hp; reflexivity| | |assumption]; st_simpl_goal; reflexivity).
  - (* NegStep *) unfold step_neg_step, neg_fail, neg_fail_with.
    destruct (phase s) as [| |st o| | |] eqn:Hp; try assumption.
    destruct o as [c0|]; [|assumption].
    destruct (lookup c0 (callers s)) as [[r|r|r i|r res0]|]; try assumption.
    assert (Hgen : forall s', peer_sent s' = peer_sent s -> not_passed (phase s') = false -> pre_inv s').
    { intros s' E1 E2. apply (pre_inv_passed_gen s); auto. rewrite Hp; reflexivity. }
    destruct st, res0; try assumption; try (apply Hgen; st_simpl_goal; reflexivity).
    + destruct (gsv_outcome f) as [[cur mx]|]; [destruct (cur =? _)|]; apply Hgen; st_simpl_goal; reflexivity.
    + destruct (spv_ok f); apply Hgen; st_simpl_goal; reflexivity.
  - (* ConnReady *) unfold step_conn_ready. destruct (phase s) as [| |st o| | |] eqn:Hp; try assumption.
    destruct st; try assumption.
    destruct (D eq_refl) as (f & rest & E & F).
    constructor; st_simpl_goal; cbn [not_passed]; try discriminate; eauto.
    intros [X|X]; discriminate.
  - (* ConnSelect *) unfold step_conn_select. destruct (phase s) eqn:Hp; try assumption.
    destruct (D eq_refl) as (f & rest & E & F).
    destruct pick_err; [destruct (errs s)|destruct (closed s)]; try assumption;
      (constructor; st_simpl_goal; cbn [not_passed]; try discriminate; eauto; intros [X|X]; discriminate).
  - (* ConnReturn *) unfold step_conn_return. destruct (phase s) as [| |st o| |r|r] eqn:Hp; try assumption.
    destruct (writer_over (writer s) && reader_over (reader s)); try assumption.
    constructor; st_simpl_goal; cbn [not_passed] in *; auto.
    intros [X|X]; discriminate.
  - (* ShutdownClose *) unfold step_shutdown_close.
    destruct (lookup c (callers s)) as [[r|r|r i|r res0]|]; try assumption.
    destruct res0; try assumption. destruct (_ && _); try assumption.
    apply (pre_inv_fields s); try assumption; unfold step_close; destruct (closed _); reflexivity.
Qed.

Theorem pre_inv_run_from : forall cfg evs s, pre_inv s -> pre_inv (run_from cfg s evs).
Proof.
  intros cfg evs. induction evs as [|e evs IH]; intros s H; cbn; [assumption|].
  apply IH. now apply pre_inv_step.
Qed.

Theorem pre_inv_run : forall cfg evs, pre_inv (run cfg evs).
Proof. intros. apply pre_inv_run_from. apply pre_inv_init. Qed.

(* ------------------------------------------------------------------ phase and ready --- *)
Definition is_conn_event (e : event) : bool :=
  match e with
  | ConnStart | ConnFirst _ _ | ConnFirstFail | NegSubmit _ | NegStep | ConnReady | ConnSelect _ | ConnReturn => true
  | _ => false
  end.

Lemma receive_same_ctl : forall cfg whole f h s,
  let s1 := note_close_resp f (set_peer_sent (peer_sent s ++ [f]) s) in
  let '(s2, rep) := take_waiter cfg whole (length (peer_sent s)) f s1 in
  same_ctl s1 s2 /\ same_ctl s1 (run_handler cfg (length (peer_sent s)) f h rep s2).
Proof.
  intros. destruct (take_waiter cfg whole (length (peer_sent s)) f s1) as [s2 rep] eqn:Htw.
  pose proof (take_waiter_same_ctl cfg whole (length (peer_sent s)) f s1) as H1. rewrite Htw in H1. cbn [fst] in H1.
  split; [assumption|]. eapply same_ctl_trans; [exact H1|apply run_handler_same_ctl].
Qed.

(* events of callers, of the two loops and Close do not move Connect and do not open the gate *)
Lemma step_phase_ready : forall cfg s e, is_conn_event e = false ->
  phase (step cfg s e) = phase s /\ ready (step cfg s e) = ready s.
Proof. (* (closed is handled by [step_closed_mono] below) *)
  intros cfg s e He. destruct e; try discriminate; cbn [step].
  - unfold step_submit. destruct (_ && _); split; reflexivity.
  - unfold step_pass_gate, set_caller. destruct (lookup c (callers s)) as [[r|r|r i|r res0]|]; try (split; reflexivity).
    destruct (ready s) eqn:Er; [destruct (max_payload <? q_len r)|]; split; st_simpl_goal; auto.
  - unfold step_see_closed. destruct (closed s); [|split; reflexivity].
    destruct (leave_same_ctl RErrClosed c s) as (A & B & _). auto.
  - destruct (leave_same_ctl RErrCtx c s) as (A & B & _). auto.
  - unfold step_wdefault. destruct (writer s), (ackq s); try (split; reflexivity). destruct (closed s); split; reflexivity.
  - unfold step_waccept, set_caller. destruct (writer s); try (split; reflexivity).
    destruct (lookup c (callers s)) as [[r|r|r i|r res0]|]; try (split; reflexivity).
    cbn zeta. destruct (q_wait r), (q_id r =? 0); split; reflexivity.
  - unfold step_wtakeack. destruct (writer s), (ackq s); split; reflexivity.
  - unfold step_wwritehdr. destruct (writer s); try (split; reflexivity). cbn zeta. destruct (f_len _ =? 0); split; reflexivity.
  - unfold step_wwritepay. destruct (writer s); split; reflexivity.
  - unfold step_writefail. destruct (writer s); try (split; reflexivity);
      match goal with |- context [if ?b then _ else _] => destruct b end; split; reflexivity.
  - unfold step_wseedone. destruct (writer s); try (split; reflexivity); destruct (closed s); split; reflexivity.
  - unfold step_rcheck. destruct (reader s); try (split; reflexivity); destruct (closed s); split; reflexivity.
  - unfold step_rseedone. destruct (reader s); try (split; reflexivity); destruct (closed s); split; reflexivity.
  - unfold step_rframe. destruct (reader s); try (split; reflexivity).
    pose proof (receive_same_ctl cfg true f h s) as H. cbv zeta in H.
    destruct (take_waiter cfg true (length (peer_sent s)) f _) as [s2 rep].
    destruct H as (_ & (A & B & _)).
    pose proof (note_close_resp_same_ctl f (set_peer_sent (peer_sent s ++ [f]) s)) as (A0 & B0 & _).
    st_simpl. split; congruence.
  - unfold step_peer_eof. destruct (reader s); try (split; reflexivity). destruct p.
    + destruct (saw_close s); split; reflexivity.
    + split; reflexivity.
    + pose proof (receive_same_ctl cfg false f HBAll s) as H. cbv zeta in H.
      destruct (take_waiter cfg false (length (peer_sent s)) f _) as [s2 rep].
      destruct H as ((A1 & B1 & _) & (A & B & _)).
      pose proof (note_close_resp_same_ctl f (set_peer_sent (peer_sent s ++ [f]) s)) as (A0 & B0 & _).
      st_simpl. destruct (rep && _); [|eof_cases]; unfold reader_dies; st_simpl_goal; split; congruence.
  - unfold step_close. destruct (closed s); split; reflexivity.
  - unfold step_shutdown_close, step_close. destruct (lookup c (callers s)) as [[r|r|r i|r res0]|]; try (split; reflexivity).
    destruct res0; try (split; reflexivity). destruct (_ && _); [destruct (closed _)|]; split; reflexivity.
Qed.

(* the phase never leaves [PReturned r] *)
Lemma returned_stable : forall cfg s e r, phase s = PReturned r -> phase (step cfg s e) = PReturned r.
Proof.
  intros cfg s e r Hp. destruct (is_conn_event e) eqn:He.
  - destruct e; try discriminate; cbn [step];
      unfold step_conn_start, step_conn_first, step_conn_first_fail, step_neg_submit, step_neg_step, step_conn_ready,
             step_conn_select, step_conn_return; rewrite Hp; assumption.
  - destruct (step_phase_ready cfg s e He) as (A & _). congruence.
Qed.

Lemma returned_stable_run : forall cfg evs s r, phase s = PReturned r -> phase (run_from cfg s evs) = PReturned r.
Proof.
  intros cfg evs. induction evs as [|e evs IH]; intros s r H; cbn; [assumption|].
  apply IH. now apply returned_stable.
Qed.

(* ------------------------------------------------------------------ closed --- *)
(* done is closed once and for all, and Connect has returned (or is about to) only on a closed client *)
Lemma step_closed_mono : forall cfg s e, closed s = true -> closed (step cfg s e) = true.
Proof.
  intros cfg s e Hc. destruct e; cbn [step].
  - unfold step_submit. destruct (_ && _); assumption.
  - unfold step_pass_gate, set_caller. destruct (lookup c (callers s)) as [[r|r|r i|r res0]|]; try assumption.
    destruct (ready s); [destruct (max_payload <? q_len r)|]; assumption.
  - unfold step_see_closed. rewrite Hc. destruct (leave_same_ctl RErrClosed c s) as (_ & _ & _ & _ & _ & _ & _ & _ & _ & E). congruence.
  - destruct (leave_same_ctl RErrCtx c s) as (_ & _ & _ & _ & _ & _ & _ & _ & _ & E). unfold step_cancel. congruence.
  - unfold step_wdefault. destruct (writer s), (ackq s); try assumption. rewrite Hc. assumption.
  - unfold step_waccept, set_caller. destruct (writer s); try assumption.
    destruct (lookup c (callers s)) as [[r|r|r i|r res0]|]; try assumption.
    cbn zeta. destruct (q_wait r), (q_id r =? 0); assumption.
  - unfold step_wtakeack. destruct (writer s), (ackq s); assumption.
  - unfold step_wwritehdr. destruct (writer s); try assumption. cbn zeta. destruct (f_len _ =? 0); assumption.
  - unfold step_wwritepay. destruct (writer s); assumption.
  - unfold step_writefail. destruct (writer s); try assumption;
      match goal with |- context [if ?b then _ else _] => destruct b end; assumption.
  - unfold step_wseedone. destruct (writer s); try assumption; rewrite Hc; assumption.
  - unfold step_rcheck. destruct (reader s); try assumption; rewrite Hc; assumption.
  - unfold step_rseedone. destruct (reader s); try assumption; rewrite Hc; assumption.
  - unfold step_rframe. destruct (reader s); try assumption.
    pose proof (receive_same_ctl cfg true f h s) as H. cbv zeta in H.
    destruct (take_waiter cfg true (length (peer_sent s)) f _) as [s2 rep].
    destruct H as (_ & (_ & _ & _ & _ & _ & _ & _ & _ & _ & E)).
    pose proof (note_close_resp_same_ctl f (set_peer_sent (peer_sent s ++ [f]) s)) as (_ & _ & _ & _ & _ & _ & _ & _ & _ & E0).
    st_simpl. congruence.
  - unfold step_peer_eof. destruct (reader s); try assumption. destruct p.
    + destruct (saw_close s); assumption.
    + assumption.
    + pose proof (receive_same_ctl cfg false f HBAll s) as H. cbv zeta in H.
      destruct (take_waiter cfg false (length (peer_sent s)) f _) as [s2 rep].
      destruct H as ((_ & _ & _ & _ & _ & _ & _ & _ & _ & E1) & (_ & _ & _ & _ & _ & _ & _ & _ & _ & E)).
      pose proof (note_close_resp_same_ctl f (set_peer_sent (peer_sent s ++ [f]) s)) as (_ & _ & _ & _ & _ & _ & _ & _ & _ & E0).
      st_simpl. destruct (rep && _); [|eof_cases]; unfold reader_dies; st_simpl_goal; congruence.
  - unfold step_close. rewrite Hc. assumption.
  - unfold step_conn_start. destruct (phase s); assumption.
  - unfold step_conn_first. destruct (phase s); try assumption. cbv zeta.
    destruct (max_buffered <? f_len f); [reflexivity|].
    match goal with |- closed (if _ then _ else init_fail ?x) = true => remember x as s2 eqn:Hs2 end.
    assert (E : closed s2 = true).
    { subst s2. destruct (first_handler cfg (f_typ f)) as [k|]; [|assumption].
      destruct k; try assumption. unfold ack_enqueue. destruct (Nat.ltb _ _); assumption. }
    destruct (_ && _); [st_simpl_goal; assumption|reflexivity].
  - unfold step_conn_first_fail, init_fail. destruct (phase s); try assumption. reflexivity.
  - unfold step_neg_submit. destruct (phase s) as [| |st o| | |]; try assumption.
    destruct st, o; try assumption; destruct (is_fresh c s); assumption.
  - unfold step_neg_step, neg_fail, neg_fail_with. destruct (phase s) as [| |st o| | |]; try assumption.
    destruct o as [c0|]; [|assumption].
    destruct (lookup c0 (callers s)) as [[r|r|r i|r res0]|]; try assumption.
    destruct st, res0; try assumption; try reflexivity.
    + destruct (gsv_outcome f) as [[cur mx]|]; [destruct (cur =? _)|]; try assumption; reflexivity.
    + destruct (spv_ok f); try assumption; reflexivity.
  - unfold step_conn_ready. destruct (phase s) as [| |st o| | |]; try assumption. destruct st; assumption.
  - unfold step_conn_select. destruct (phase s); try assumption.
    destruct pick_err; [destruct (errs s); [assumption|reflexivity]|rewrite Hc; assumption].
  - unfold step_conn_return. destruct (phase s); try assumption. destruct (_ && _); assumption.
  - unfold step_shutdown_close, step_close. destruct (lookup c (callers s)) as [[r|r|r i|r res0]|]; try assumption.
    destruct res0; try assumption. destruct (_ && _); [|assumption]. st_simpl_goal. rewrite Hc. assumption.
Qed.

Definition over_phase (p : conn_phase) : bool := match p with PDraining _ | PReturned _ => true | _ => false end.

Ltac oc_fin := st_simpl; repeat match goal with H : phase ?s = _ |- _ => rewrite H in * end; cbn [over_phase] in *; congruence.

Lemma over_closed_step : forall cfg s e,
  (over_phase (phase s) = true -> closed s = true) ->
  over_phase (phase (step cfg s e)) = true -> closed (step cfg s e) = true.
Proof.
  intros cfg s e H Ho. destruct (over_phase (phase s)) eqn:E.
  - apply step_closed_mono. auto.
  - destruct (is_conn_event e) eqn:He.
    + clear H. destruct e; try discriminate; cbn [step] in *.
      * unfold step_conn_start in *. destruct (phase s) eqn:Hp; oc_fin.
      * unfold step_conn_first in *. destruct (phase s) eqn:Hp; try oc_fin. cbv zeta in *.
        destruct (max_buffered <? f_len f); [reflexivity|].
        destruct (_ && _); [oc_fin|reflexivity].
      * unfold step_conn_first_fail in *. destruct (phase s) eqn:Hp; try oc_fin. reflexivity.
      * unfold step_neg_submit in *. destruct (phase s) as [| |st o| | |] eqn:Hp; try oc_fin.
        destruct st, o; try oc_fin; destruct (is_fresh c s); oc_fin.
      * unfold step_neg_step, neg_fail, neg_fail_with in *. destruct (phase s) as [| |st o| | |] eqn:Hp; try oc_fin.
        destruct o as [c0|]; [|oc_fin].
        destruct (lookup c0 (callers s)) as [[r|r|r i|r res0]|]; try oc_fin.
        destruct st, res0; try oc_fin; try reflexivity.
        -- destruct (gsv_outcome f) as [[cur mx]|]; [destruct (cur =? _)|]; try oc_fin; reflexivity.
        -- destruct (spv_ok f); try oc_fin; reflexivity.
      * unfold step_conn_ready in *. destruct (phase s) as [| |st o| | |] eqn:Hp; try oc_fin.
        destruct st; oc_fin.
      * unfold step_conn_select in *. destruct (phase s) eqn:Hp; try oc_fin.
        destruct pick_err; [destruct (errs s); [oc_fin|reflexivity]|].
        destruct (closed s) eqn:Ec; [st_simpl_goal; exact Ec|oc_fin].
      * unfold step_conn_return in *. destruct (phase s) eqn:Hp; oc_fin.
    + destruct (step_phase_ready cfg s e He) as (A & _). rewrite A, E in Ho. discriminate.
Qed.

Theorem over_closed_run : forall cfg evs, over_phase (phase (run cfg evs)) = true -> closed (run cfg evs) = true.
Proof.
  intros cfg evs. unfold run, run_from.
  assert (G : forall evs s, (over_phase (phase s) = true -> closed s = true) ->
              over_phase (phase (fold_left (step cfg) evs s)) = true -> closed (fold_left (step cfg) evs s) = true).
  { clear evs. induction evs as [|e evs IH]; intros s H; cbn; [assumption|].
    apply IH. apply over_closed_step. assumption. }
  apply G. cbn. discriminate.
Qed.

(* the gate stays as it is once Connect has returned *)
Lemma returned_ready_stable : forall cfg s e r, phase s = PReturned r -> ready (step cfg s e) = ready s.
Proof.
  intros cfg s e r Hp. destruct (is_conn_event e) eqn:He.
  - destruct e; try discriminate; cbn [step];
      unfold step_conn_start, step_conn_first, step_conn_first_fail, step_neg_submit, step_neg_step, step_conn_ready,
             step_conn_select, step_conn_return; rewrite Hp; reflexivity.
  - apply step_phase_ready. assumption.
Qed.
