(* C06 — version negotiation.  Model of pkg/llrp/reader.go: Connect (the `c.version > Version1_0_1`
   guard), negotiate, getSupportedVersion, the version stamping at the end of handleOutgoing's
   select, and of messages.go: newMessage (pre-stamps VersionMin), the keep-alive ack built by the
   writer with version 0.   No proofs in this file (it is extracted by oracle/c06). *)
From Coq Require Import NArith List Bool.
Import ListNotations.
Open Scope N_scope.

(* ---- constants copied from the Go source ---- *)
Definition version := N.
Definition V1_0_1 : version := 1.          (* Version1_0_1 = VersionNum(1) *)
Definition V1_1 : version := 2.            (* Version1_1   = VersionNum(2) *)
Definition VersionMin : version := V1_0_1. (* reader.go: VersionMin = Version1_0_1 *)

Definition MsgGetSupportedVersion : N := 46.
Definition MsgSetProtocolVersion : N := 47.
Definition MsgGetSupportedVersionResponse : N := 56.
Definition MsgSetProtocolVersionResponse : N := 57.
Definition MsgKeepAliveAck : N := 72.
Definition MsgErrorMessage : N := 100.

Definition StatusSuccess : N := 0.
Definition StatusMsgVerUnsupported : N := 110.

(* ---- messages and frames ---- *)
(* A message as held by the client before it is written; a frame is what the peer sees:
   header version bits, message type, payload bytes (length and id are C05/C03's business). *)
Record msg := mkMsg { m_ver : version; m_typ : N; m_payload : list N }.
Definition frame := msg.

(* prestamp: newMessage puts VersionMin into every message built by
     NewHdrOnlyMsg/NewByteMessage (hence SendMessage, SendFor, getSupportedVersion, negotiate);
     false = the version field is left 0 ("to be filled in by the writer").
   writer_overrides: the writer stamps the client's version on every non-negotiation message
     whatever the message carries; false = today's `else if msg.version == 0`. *)
Record config := mkCfg { prestamp : bool; writer_overrides : bool }.

Definition cfg_today : config := mkCfg true false.

Definition new_message (cfg : config) (typ : N) (payload : list N) : msg :=
  mkMsg (if prestamp cfg then VersionMin else 0) typ payload.

(* handleOutgoing: msg = Message{Header: Header{id: mid, typ: MsgKeepAliveAck}} *)
Definition ack_message : msg := mkMsg 0 MsgKeepAliveAck [].

Definition is_neg_type (t : N) : bool :=
  (t =? MsgGetSupportedVersion) || (t =? MsgSetProtocolVersion).

(* handleOutgoing, after the select:
     if msg.typ == MsgGetSupportedVersion || msg.typ == MsgSetProtocolVersion {
         msg.version = Version1_1
     } else if msg.version == 0 { msg.version = c.version }                      *)
Definition stamp (cfg : config) (cver : version) (m : msg) : frame :=
  if is_neg_type (m_typ m) then mkMsg V1_1 (m_typ m) (m_payload m)
  else if writer_overrides cfg || (m_ver m =? 0) then mkMsg cver (m_typ m) (m_payload m)
  else m.

(* ---- how the reader answers one negotiation message ---- *)
(* Resp cb mb st : the proper response type.  For GET_SUPPORTED_VERSION: payload bytes cb, mb
                   (current / max supported version as the library's codec places them: the
                   version number is the top 3 bits, `data[0] >> 5`) and an LLRPStatus with code
                   st; for SET_PROTOCOL_VERSION: an LLRPStatus with code st (cb, mb unused).
   ErrMsg st     : ERROR_MESSAGE carrying LLRPStatus st
   WrongType t   : a well-formed header-only frame of another type t with the request's id
   Oversize      : the proper response type, payload longer than MaxBufferedPayloadSz
   Garbage       : the proper response type, payload the decoder rejects
   NoReply       : nothing; the client's timeout (or Close) ends the wait *)
Inductive reaction :=
| Resp (cb mb st : N)
| ErrMsg (st : N)
| WrongType (t : N)
| Oversize
| Garbage
| NoReply.

(* generated_unmarshal.go: m.CurrentVersion = VersionNum(data[0] >> 5) *)
Definition reader_ver (b : N) : version := (b mod 256) / 32.

(* getSupportedVersion: Some (current, max) or None = returns an error.
   Branch order as in Go: send fails (NoReply) | read payload | switch resp.typ
   { default: error | ErrorMessage: decode, VersionUnsupported -> Success | Response: decode }
   | status.Err() *)
Definition get_supported (r : reaction) : option (version * version) :=
  match r with
  | NoReply => None
  | Oversize => None      (* intended behaviour; today's code dereferences a nil reader: F4/C10 *)
  | WrongType t =>
      if t =? MsgErrorMessage then None                  (* empty ErrorMessage: decode error *)
      else if t =? MsgGetSupportedVersionResponse then None  (* empty response: decode error *)
      else None                                          (* default: unexpected response *)
  | Garbage => None
  | ErrMsg st =>
      let st' := if st =? StatusMsgVerUnsupported then StatusSuccess else st in
      if st' =? StatusSuccess then Some (V1_0_1, V1_0_1) else None
  | Resp cb mb st =>
      if st =? StatusSuccess then Some (reader_ver cb, reader_ver mb) else None
  end.

(* the reply to SET_PROTOCOL_VERSION: isResponseTo (type check) | UnmarshalTo | status.Err() *)
Definition set_accepted (r : reaction) : bool :=
  match r with
  | NoReply => false
  | ErrMsg _ => false                                   (* type 100 <> 57 *)
  | WrongType t => false     (* t <> 57: type mismatch; t = 57 with no payload: decode error *)
  | Oversize => false        (* nil payload -> data() = nil -> decoder: length < 8 *)
  | Garbage => false
  | Resp _ _ st => st =? StatusSuccess
  end.

Inductive outcome := Proceeds | Fails.

Record neg_result := mkRes { n_frames : list frame; n_outcome : outcome; n_version : version }.

(* Connect + negotiate.  cmax = the version given to WithVersion (Client.version before Connect) *)
Definition negotiate (cfg : config) (cmax : version) (r1 r2 : reaction) : neg_result :=
  if cmax <=? V1_0_1 then mkRes [] Proceeds cmax            (* if c.version > Version1_0_1 {…} *)
  else
    let f1 := stamp cfg cmax (new_message cfg MsgGetSupportedVersion []) in
    match get_supported r1 with
    | None => mkRes [f1] Fails cmax
    | Some (cur, mx) =>
        (* if c.version > sv.MaxSupportedVersion { c.version = sv.MaxSupportedVersion } *)
        let v := if mx <? cmax then mx else cmax in
        (* if sv.CurrentVersion == c.version { return nil } *)
        if cur =? v then mkRes [f1] Proceeds v
        else
          (* NewByteMessage(MsgSetProtocolVersion, []byte{uint8(c.version)}) *)
          let f2 := stamp cfg v (new_message cfg MsgSetProtocolVersion [v]) in
          if set_accepted r2 then mkRes [f1; f2] Proceeds v else mkRes [f1; f2] Fails v
    end.

(* ---- keep-alives that arrive while negotiation is under way ---- *)
(* The reader may send KEEPALIVEs at any time.  k1 of them arrive while GET_SUPPORTED_VERSION is
   unanswered, k2 while SET_PROTOCOL_VERSION is unanswered; the writer acknowledges each at once,
   stamping the version in use at that moment: the configured maximum before the query is
   answered, the chosen version afterwards (negotiate stores the choice before it sends
   SET_PROTOCOL_VERSION). *)
Definition acks (cfg : config) (v : version) (k : nat) : list frame :=
  repeat (stamp cfg v ack_message) k.

Definition negotiate_ka (cfg : config) (cmax : version) (k1 k2 : nat) (r1 r2 : reaction)
  : neg_result :=
  if cmax <=? V1_0_1 then mkRes [] Proceeds cmax
  else
    let f1 := stamp cfg cmax (new_message cfg MsgGetSupportedVersion []) in
    match get_supported r1 with
    | None => mkRes (f1 :: acks cfg cmax k1) Fails cmax
    | Some (cur, mx) =>
        let v := if mx <? cmax then mx else cmax in
        if cur =? v then mkRes (f1 :: acks cfg cmax k1) Proceeds v
        else
          let f2 := stamp cfg v (new_message cfg MsgSetProtocolVersion [v]) in
          mkRes (f1 :: acks cfg cmax k1 ++ f2 :: acks cfg v k2)
                (if set_accepted r2 then Proceeds else Fails) v
    end.

(* ---- traffic after negotiation ---- *)
(* Request: anything built through newMessage (SendMessage, SendFor, Shutdown, SendNoWait of a
   NewByteMessage/NewHdrOnlyMsg); Ack: the writer's keep-alive acknowledgement *)
Inductive later_msg := Request (typ : N) (payload : list N) | Ack.

Definition build (cfg : config) (l : later_msg) : msg :=
  match l with Request t p => new_message cfg t p | Ack => ack_message end.

Definition write_later (cfg : config) (v : version) (ls : list later_msg) : list frame :=
  map (fun l => stamp cfg v (build cfg l)) ls.

(* one whole session: negotiation frames, outcome, version, and the frames written afterwards
   (none if Connect failed) *)
Definition session (cfg : config) (cmax : version) (r1 r2 : reaction) (ls : list later_msg)
  : neg_result * list frame :=
  let r := negotiate cfg cmax r1 r2 in
  (r, match n_outcome r with Proceeds => write_later cfg (n_version r) ls | Fails => [] end).

(* a frame that is not itself a negotiation message *)
Definition ordinary (l : later_msg) : bool :=
  match l with Request t _ => negb (is_neg_type t) | Ack => true end.

(* configurations whose writer puts the client's version on every ordinary message *)
Definition conforming (cfg : config) : bool := negb (prestamp cfg) || writer_overrides cfg.

Definition session_ka (cfg : config) (cmax : version) (k1 k2 : nat) (r1 r2 : reaction)
  (ls : list later_msg) : neg_result * list frame :=
  let r := negotiate_ka cfg cmax k1 k2 r1 r2 in
  (r, match n_outcome r with Proceeds => write_later cfg (n_version r) ls | Fails => [] end).

Definition neg_frames_only (fs : list frame) : list frame :=
  filter (fun f => is_neg_type (m_typ f)) fs.

(* ---- all subsequent traffic ------------------------------------------------------------------ *)
(* After Connect has proceeded: callers send requests (SendMessage / SendFor / SendNoWait), the
   reader answers them in whatever way it likes, keep-alives arrive.  What the client does with an
   answer (SendFor 527-566, SendMessage 576-617: decode, turn an LLRPStatus into an error value)
   is between the reply channel and the caller's return value; nothing on that path assigns
   Client.version.  The answer is an event parameter so that this can be said for every answer. *)
Inductive answer :=
| AnsSuccess                                  (* the expected response type, status Success *)
| AnsStatus (in_error_message : bool) (st : N)(* status st in an ERROR_MESSAGE / in the expected response type *)
| AnsWrongType (t : N)
| AnsNone.                                    (* no reply: the caller's context ends the wait *)

Inductive post_event :=
| PRequest (typ : N) (payload : list N)   (* the write loop writes a caller's request *)
| PAnswer (a : answer)                    (* the caller of the oldest outstanding request gets its answer (or gives up) *)
| PKeepAlive.                             (* a KEEPALIVE arrives and is acknowledged *)

Record post_state := mkPost { p_ver : version; p_out : list frame }.

Definition post_step (cfg : config) (s : post_state) (e : post_event) : post_state :=
  match e with
  | PRequest t p => mkPost (p_ver s) (p_out s ++ [stamp cfg (p_ver s) (new_message cfg t p)])
  | PAnswer _ => s
  | PKeepAlive => mkPost (p_ver s) (p_out s ++ [stamp cfg (p_ver s) ack_message])
  end.

Definition post_run (cfg : config) (v : version) (evs : list post_event) : post_state :=
  fold_left (post_step cfg) evs (mkPost v []).

(* a whole session with arbitrary traffic afterwards *)
Definition session_post (cfg : config) (cmax : version) (k1 k2 : nat) (r1 r2 : reaction)
  (evs : list post_event) : neg_result * post_state :=
  let r := negotiate_ka cfg cmax k1 k2 r1 r2 in
  (r, match n_outcome r with
      | Proceeds => post_run cfg (n_version r) evs
      | Fails => mkPost (n_version r) []
      end).

(* ---- acknowledgements held back by a reader that stops reading ---------------------------- *)
(* The version a frame carries is decided when the write loop WRITES it — for acknowledgements
   too: the ackHandler (read side) queues only the ID of the KEEPALIVE; the write loop takes one ID
   at a time, builds the acknowledgement, stamps it with the version in use at that moment and
   writes it, blocking until the reader has read it.

   The write loop, one frame at a time.  w_busy = the frame whose write is under way (header already
   stamped, not yet read by the reader); w_ackq = number of IDs in ackQueue; w_sendq = (type,
   payload) of the messages offered on sendQueue (all built through newMessage), oldest first;
   w_wire = the frames the reader has read. *)
Record wr := mkWr { w_ver : version; w_busy : option frame; w_ackq : nat;
                    w_sendq : list (N * list N); w_wire : list frame }.

Inductive wr_event :=
| WKeepAlive            (* the read loop runs the ackHandler: one more ID in ackQueue *)
| WSubmit (typ : N) (payload : list N)  (* negotiate, or a caller, offers a message on sendQueue *)
| WAssign (v : version) (* negotiate stores the version it has settled on *)
| WPeerReads.           (* the reader reads one frame: the write under way completes *)

(* the loop's select when it is free: acknowledgements first, then the send queue; the header gets
   the version of THIS moment *)
Definition send_frame (cfg : config) (v : version) (tp : N * list N) : frame :=
  stamp cfg v (new_message cfg (fst tp) (snd tp)).

Definition wr_take (cfg : config) (s : wr) : wr :=
  match w_busy s with
  | Some _ => s
  | None =>
      match w_ackq s with
      | S n => mkWr (w_ver s) (Some (stamp cfg (w_ver s) ack_message)) n (w_sendq s) (w_wire s)
      | O => match w_sendq s with
             | tp :: q => mkWr (w_ver s) (Some (send_frame cfg (w_ver s) tp)) O q (w_wire s)
             | [] => s
             end
      end
  end.

Definition wr_step (cfg : config) (s : wr) (e : wr_event) : wr :=
  wr_take cfg
    match e with
    | WKeepAlive => mkWr (w_ver s) (w_busy s) (S (w_ackq s)) (w_sendq s) (w_wire s)
    | WSubmit t p => mkWr (w_ver s) (w_busy s) (w_ackq s) (w_sendq s ++ [(t, p)]) (w_wire s)
    | WAssign v => mkWr v (w_busy s) (w_ackq s) (w_sendq s) (w_wire s)
    | WPeerReads => match w_busy s with
                    | Some f => mkWr (w_ver s) None (w_ackq s) (w_sendq s) (w_wire s ++ [f])
                    | None => s
                    end
    end.

Definition wr_run (cfg : config) (evs : list wr_event) (s : wr) : wr := fold_left (wr_step cfg) evs s.

Definition wr_idle (v : version) (wire : list frame) : wr := mkWr v None O [] wire.

(* A reader that sends d KEEPALIVEs and then stops reading leaves the write loop blocked in the
   first acknowledgement, stamped with the version of that moment (v_then), and d-1 IDs in the
   queue; when it reads again — the client's version being v_now by then — it reads that frame and
   then d-1 acknowledgements stamped v_now.  (NegotiateProofs.held_is_writer_run: this is what the
   write loop above does on the schedule  d x WKeepAlive, WAssign v_now, d x WPeerReads.) *)
Definition held (cfg : config) (v_then v_now : version) (d : nat) : list frame :=
  match d with
  | O => []
  | S d' => stamp cfg v_then ack_message :: acks cfg v_now d'
  end.

(* negotiation with keep-alives acknowledged at once (k1, k2, as in negotiate_ka) and with d1 / d2
   keep-alives sent by a reader that does not read from the moment it sends them until the client
   has acted on the answer that follows them (to the query / to the switch).
   Result: the negotiation proper, and the frames left over from it that the reader reads after
   negotiation has ended (they come before any later traffic: the write loop prefers ackQueue).
   If the answer makes Connect fail the reader never reads again: nothing more is on the wire. *)
Definition negotiate_kd (cfg : config) (cmax : version) (k1 d1 k2 d2 : nat) (r1 r2 : reaction)
  : neg_result * list frame :=
  if cmax <=? V1_0_1 then (mkRes [] Proceeds cmax, [])
  else
    let f1 := stamp cfg cmax (new_message cfg MsgGetSupportedVersion []) in
    match get_supported r1 with
    | None => (mkRes (f1 :: acks cfg cmax k1) Fails cmax, [])
    | Some (cur, mx) =>
        let v := if mx <? cmax then mx else cmax in
        if cur =? v then (mkRes (f1 :: acks cfg cmax k1) Proceeds v, held cfg cmax v d1)
        else
          let f2 := stamp cfg v (new_message cfg MsgSetProtocolVersion [v]) in
          let fr := f1 :: acks cfg cmax k1 ++ held cfg cmax v d1 ++ f2 :: acks cfg v k2 in
          if set_accepted r2 then (mkRes fr Proceeds v, held cfg v v d2)
          else (mkRes fr Fails v, [])
    end.

(* a whole session: what is left over from negotiation is read first, then the traffic *)
Definition session_kd (cfg : config) (cmax : version) (k1 d1 k2 d2 : nat) (r1 r2 : reaction)
  (evs : list post_event) : neg_result * post_state :=
  let r := fst (negotiate_kd cfg cmax k1 d1 k2 d2 r1 r2) in
  let left_over := snd (negotiate_kd cfg cmax k1 d1 k2 d2 r1 r2) in
  (r, match n_outcome r with
      | Proceeds => fold_left (post_step cfg) evs (mkPost (n_version r) left_over)
      | Fails => mkPost (n_version r) []
      end).

(* a frame carries version v, or is one of the two negotiation messages *)
Definition carries (v : version) (f : frame) : Prop := m_ver f = v \/ is_neg_type (m_typ f) = true.

(* the events of such a negotiation as the write loop sees them (the decisions — which messages
   negotiate submits, which version it assigns — are those of negotiate_kd; what the schedule adds
   is WHEN things happen relative to the reader's reading).  k keep-alives acknowledged at once: *)
Definition ka_acked (k : nat) : list wr_event := concat (repeat [WKeepAlive; WPeerReads] k).

Definition kd_schedule (cmax : version) (k1 d1 k2 d2 : nat) (r1 r2 : reaction) : list wr_event :=
  if cmax <=? V1_0_1 then []
  else
    [WSubmit MsgGetSupportedVersion []; WPeerReads] ++ ka_acked k1 ++
    repeat WKeepAlive d1 ++                       (* the reader has stopped reading *)
    match get_supported r1 with
    | None => []                                  (* Connect fails; the reader never reads again *)
    | Some (cur, mx) =>
        let v := if mx <? cmax then mx else cmax in
        WAssign v ::
        if cur =? v then repeat WPeerReads d1     (* Connect goes on; the reader reads again *)
        else
          WSubmit MsgSetProtocolVersion [v] :: repeat WPeerReads (S d1) ++ ka_acked k2 ++
          repeat WKeepAlive d2 ++
          (if set_accepted r2 then repeat WPeerReads d2 else [])
    end.

(* ---- when the answer to a negotiation message arrives, if ever -------------------------------- *)
(* negotiate waits for each reply under a context: with WithTimeout(t) it ends after t
   (context.DeadlineExceeded, whether or not other traffic keeps the link alive); without a timeout
   only the end of the connection ends it.  A reply that arrives after the client has given up finds
   nobody waiting (its message ID is no longer in the awaiting map) and is dropped like any
   unsolicited message.
     InTime        the reaction reaches the client while it waits
     Never         no reply at all (the reaction is irrelevant); the link may well stay alive
     AfterGivingUp the reply is sent later than any client timeout would allow: too late for a
                   client with a timeout, merely slow for one without *)
Inductive arrival := InTime | Never | AfterGivingUp.

Definition timed := (arrival * reaction)%type.

(* what the client experiences: Some r = the reply r (NoReply: its wait has ended without one);
   None = it is still waiting, and will be for as long as the connection lasts *)
Definition experienced (has_timeout : bool) (t : timed) : option reaction :=
  match fst t with
  | InTime => Some (snd t)
  | Never => if has_timeout then Some NoReply else None
  | AfterGivingUp => if has_timeout then Some NoReply else Some (snd t)
  end.

(* the reader's answer to the query makes the client send SET_PROTOCOL_VERSION *)
Definition switch_needed (cmax : version) (r1 : reaction) : bool :=
  negb (cmax <=? V1_0_1) &&
  match get_supported r1 with
  | Some (cur, mx) => negb (cur =? (if mx <? cmax then mx else cmax))
  | None => false
  end.

(* a whole session with timed reactions.  Result: (still waiting?, negotiation, traffic).  While
   Connect is still waiting nothing but the negotiation frames so far has been written, the send
   gate is closed, and the version is what negotiate has assigned so far (n_outcome is Fails in
   that case only because Connect has not succeeded). *)
Definition session_t (cfg : config) (has_timeout : bool) (cmax : version) (k1 d1 k2 d2 : nat)
  (t1 t2 : timed) (evs : list post_event) : bool * (neg_result * post_state) :=
  let go r1 r2 := (false, session_kd cfg cmax k1 d1 k2 d2 r1 r2 evs) in
  let wait r1 := let r := fst (negotiate_kd cfg cmax k1 d1 k2 d2 r1 NoReply) in
                 (true, (r, mkPost (n_version r) [])) in
  if cmax <=? V1_0_1 then go (snd t1) (snd t2)
  else
    match experienced has_timeout t1 with
    | None => wait NoReply
    | Some r1 =>
        if switch_needed cmax r1 then
          match experienced has_timeout t2 with
          | None => wait r1
          | Some r2 => go r1 r2
          end
        else go r1 (snd t2)
    end.

(* the message gets no answer the client could use *)
Definition unanswered (has_timeout : bool) (t : timed) : Prop :=
  fst t = Never \/ (fst t = AfterGivingUp /\ has_timeout = true).

Definition connect_succeeds (s : bool * (neg_result * post_state)) : Prop :=
  fst s = false /\ n_outcome (fst (snd s)) = Proceeds.

(* ---- an ERROR_MESSAGE whose status is Success, answering the query ---------------------------- *)
(* getSupportedVersion (get_supported above, as the code is) turns the status of an ERROR_MESSAGE
   into Success when it is M_UnsupportedVersion and then only asks whether the status is Success:
   an ERROR_MESSAGE that carries Success itself is therefore read as "1.0.1-only reader" too,
   although the reader has rejected nothing and reported no version.
   The repaired reading: such a reply is an unexpected response like any other ERROR_MESSAGE whose
   status is not M_UnsupportedVersion.  strict_query maps it to one of those (status 100,
   M_ParameterError); get_supported_strict / negotiate_strict are the repaired functions. *)
Definition strict_query (r : reaction) : reaction :=
  match r with
  | ErrMsg st => if st =? StatusSuccess then ErrMsg 100 else r
  | _ => r
  end.

Definition get_supported_strict (r : reaction) : option (version * version) :=
  get_supported (strict_query r).

Definition negotiate_strict (cfg : config) (cmax : version) (r1 r2 : reaction) : neg_result :=
  negotiate cfg cmax (strict_query r1) r2.

(* the reply is of the expected response type and carries status Success *)
Definition expected_success (r : reaction) : Prop := exists cb mb, r = Resp cb mb StatusSuccess.
